//! C02 — accept/reject of every validating entry point.
use crate::util::*;
use serde::Deserialize;
use sonic_rs::{LazyValue, OwnedLazyValue, Value};

pub fn err_str(e: &sonic_rs::Error) -> String {
    let msg = e.to_string();
    let head = match msg.find(" at line ") {
        Some(p) => &msg[..p],
        None => &msg[..],
    };
    format!("R:{}:{}:{}:{}:{:?}", hex(head.as_bytes()), e.offset(), e.line(), e.column(), e.classify())
}

#[derive(Deserialize)]
#[allow(dead_code)]
struct EmbV {
    v: Value,
}
#[derive(Deserialize)]
#[allow(dead_code)]
struct EmbL<'a> {
    #[serde(borrow)]
    v: LazyValue<'a>,
}
#[derive(Deserialize)]
#[allow(dead_code)]
struct EmbI {}

fn ar<T>(r: &Result<T, sonic_rs::Error>) -> String {
    match r {
        Ok(_) => "A".into(),
        Err(e) => err_str(e),
    }
}

fn span(_input: &[u8], raw: &str) -> String {
    // from_str/from_slice copy the raw text into a FastStr, so the span is reported by content
    format!("A:{}", hex(raw.as_bytes()))
}

pub fn run_case(t: &[u8]) -> String {
    let mut f: Vec<String> = Vec::new();
    // validate-and-skip entry points
    f.push(format!("lazy={}", guarded(|| match sonic_rs::from_slice::<LazyValue>(t) {
        Ok(lv) => span(t, lv.as_raw_str()),
        Err(e) => err_str(&e),
    })));
    if let Ok(s) = std::str::from_utf8(t) {
        f.push(format!("lazy_str={}", guarded(|| match sonic_rs::from_str::<LazyValue>(s) {
            Ok(lv) => span(t, lv.as_raw_str()),
            Err(e) => err_str(&e),
        })));
        f.push(format!("dom_str={}", guarded(|| ar(&sonic_rs::from_str::<Value>(s)))));
    }
    f.push(format!("owned={}", guarded(|| ar(&sonic_rs::from_slice::<OwnedLazyValue>(t)))));
    f.push(format!("ign={}", guarded(|| ar(&sonic_rs::from_slice::<serde::de::IgnoredAny>(t)))));
    let mut emb = b"{\"v\":".to_vec();
    emb.extend_from_slice(t);
    emb.push(b'}');
    f.push(format!("embl={}", guarded(|| ar(&sonic_rs::from_slice::<EmbL>(&emb)))));
    f.push(format!("embi={}", guarded(|| ar(&sonic_rs::from_slice::<EmbI>(&emb)))));
    // fully decoding entry points
    f.push(format!("dom={}", guarded(|| ar(&sonic_rs::from_slice::<Value>(t)))));
    f.push(format!("sj={}", guarded(|| ar(&sonic_rs::from_slice::<serde_json::Value>(t)))));
    f.push(format!("emb={}", guarded(|| ar(&sonic_rs::from_slice::<EmbV>(&emb)))));
    f.push(format!("rdr={}", guarded(|| ar(&sonic_rs::from_reader::<_, Value>(t)))));
    // Deserializer::deserialize (stream style, no trailing check): first document only
    {
        let b = bytes::Bytes::copy_from_slice(t);
        f.push(format!("stream_bytes={}", guarded(move || {
            let mut de = sonic_rs::Deserializer::from_json(&b);
            ar(&de.deserialize::<Value>())
        })));
        f.push(format!("stream_slice={}", guarded(move || {
            let mut de = sonic_rs::Deserializer::from_slice(t);
            ar(&de.deserialize::<Value>())
        })));
        if let Ok(s) = std::str::from_utf8(t) {
            let fs = faststr::FastStr::new(s);
            f.push(format!("stream_faststr={}", guarded(move || {
                let mut de = sonic_rs::Deserializer::from_json(&fs);
                ar(&de.deserialize::<Value>())
            })));
        }
    }
    // validate-and-skip values through the Deserializer API (first document only) and next to a byte-buffer sibling
    // (deserialize_bytes re-arms the pending-invalid-UTF-8 position)
    f.push(format!("stream_lazy={}", guarded(move || {
        let mut de = sonic_rs::Deserializer::from_slice(t);
        ar(&de.deserialize::<LazyValue>())
    })));
    f.push(format!("stream_owned={}", guarded(move || {
        let mut de = sonic_rs::Deserializer::from_slice(t);
        ar(&de.deserialize::<OwnedLazyValue>())
    })));
    f.push(format!("stream_ign={}", guarded(move || {
        let mut de = sonic_rs::Deserializer::from_slice(t);
        ar(&de.deserialize::<serde::de::IgnoredAny>())
    })));
    f.push(format!("iter_lazy={}", guarded(move || {
        match sonic_rs::Deserializer::from_slice(t).into_stream::<LazyValue>().next() {
            Some(r) => ar(&r),
            None => "none".to_string(),
        }
    })));
    let mut tup = b"[".to_vec();
    tup.extend_from_slice(t);
    tup.extend_from_slice(b",\"x\"]");
    f.push(format!("tupl_lazy={}", guarded(|| ar(&sonic_rs::from_slice::<(LazyValue, serde_bytes::ByteBuf)>(&tup)))));
    f.push(format!("tupl_owned={}", guarded(|| ar(&sonic_rs::from_slice::<(OwnedLazyValue, serde_bytes::ByteBuf)>(&tup)))));
    f.push(format!("tupl_ign={}", guarded(|| ar(&sonic_rs::from_slice::<(serde::de::IgnoredAny, serde_bytes::ByteBuf)>(&tup)))));
    // reference (spec adequacy only)
    f.push(format!("ref={}", match serde_json::from_slice::<serde_json::Value>(t) {
        Ok(_) => "A",
        Err(_) => "R",
    }));
    f.join(" ")
}

pub fn run() {
    let mut out = Out::new();
    for line in lines_in() {
        let mut it = line.split(' ');
        let _op = it.next();
        let t = unhex(it.next().unwrap_or("-"));
        out.line(&run_case(&t));
    }
}

const ALPHA: [&[u8]; 18] = [
    b"{", b"}", b"[", b"]", b",", b":", b"\"", b"\\", b"u", b"0", b"1", b"-", b".", b"e", b"true", b"null", b" ", b"\xc3",
];

fn enumerate(len: usize, cur: &mut Vec<usize>, out: &mut Out) {
    if cur.len() == len {
        let mut t = Vec::new();
        for &i in cur.iter() {
            t.extend_from_slice(ALPHA[i]);
        }
        out.line(&format!("c02 {}", hex(&t)));
        return;
    }
    for i in 0..ALPHA.len() {
        cur.push(i);
        enumerate(len, cur, out);
        cur.pop();
    }
}

pub fn gen(seed: u64, thorough: bool) {
    let mut out = Out::new();
    let mut r = Rng::new(seed);
    // (a) exhaustive over the small alphabet
    let maxlen = if thorough { 5 } else { 3 };
    for l in 0..=maxlen {
        enumerate(l, &mut Vec::new(), &mut out);
    }
    // fixed corner cases
    let fixed: &[&[u8]] = &[
        b"\"\\uZZZZ\"", b"\"\\u12G4\"", b"\"\\u\"abc\"", b"\"\\uD800\"", b"\"\\uD800\\uDC00\"", b"\"\\uDC00\"",
        b"\"\\uD800\\u0041\"", b"1e999", b"-1e999", b"1e-999", b"[1e400]", b"0.0000000000000000000000000000000000001e400",
        b"\"\xff\xfe\"", b"\xef\xbb\xbf1", b"01", b"-", b"-01", b"1.", b".1", b"1e", b"1e+", b"+1", b"0x1", b"1.e1",
        b"[1,]", b"[,1]", b"{\"a\":1,}", b"{,}", b"{\"a\" 1}", b"{\"a\":}", b"{1:1}", b"[1 2]", b"nul", b"truee", b"tru",
        b"\"\x1f\"", b"\"\x7f\"", b"\"\\a\"", b"\"\\", b"\"", b"\"abc", b" ", b"\n", b"1 1", b"1x", b"[]]", b"{}}", b"[] x",
    ];
    for t in fixed {
        out.line(&format!("c02 {}", hex(t)));
    }
    // (b) generated documents + one mutation
    let n = if thorough { 60000 } else { 4000 };
    let cfg = GenCfg::default();
    for _ in 0..n {
        let d = gen_doc(&mut r, &cfg);
        out.line(&format!("c02 {}", hex(&d)));
        let m = mutate(&mut r, &d);
        out.line(&format!("c02 {}", hex(&m)));
        if r.chance(1, 4) {
            let m2 = mutate(&mut r, &m);
            out.line(&format!("c02 {}", hex(&m2)));
        }
    }
    // (c0) number-shape sweep: an integer part of every length 0..70 (the 32-lane loop of
    // do_skip_number switches regime at 32/64), a fraction part of selected lengths, and every
    // small grammar fragment after it; as a whole document and inside an array
    let tails: [&[u8]; 16] = [b"", b".", b".5", b".5.5", b".5e1", b".5e", b"e1", b"e", b"e+", b"e+1", b".5e1.5", b"..5", b".e1", b"E-2", b".5E+", b"-"];
    let fracs: [usize; 7] = [0, 1, 2, 29, 30, 31, 32];
    for neg in [false, true] {
        for il in 0..=70usize {
            for fl in fracs {
                for tail in tails.iter() {
                    if !thorough && (il + fl + tail.len()) % 2 == 1 && il > 3 && il != 31 && il != 32 && il != 33 && il != 63 && il != 64 && il != 65 {
                        continue;
                    }
                    let mut t = Vec::new();
                    if neg { t.push(b'-'); }
                    for k in 0..il { t.push(b'1' + (k % 9) as u8); }
                    if fl > 0 {
                        t.push(b'.');
                        for k in 0..fl { t.push(b'0' + (k % 10) as u8); }
                    }
                    t.extend_from_slice(tail);
                    out.line(&format!("c02 {}", hex(&t)));
                    if thorough || il % 3 == 0 {
                        let mut a = b" [".to_vec();
                        a.extend_from_slice(&t);
                        a.extend_from_slice(b" ,1]");
                        out.line(&format!("c02 {}", hex(&a)));
                    }
                }
            }
        }
    }
    // (c2) every small number-like token (up to 5 symbols over `0 1 . e E + -`; 6 in the thorough tier): the special cases of
    // the digit machine for a leading zero (`0.0e`, `0e+`, `-0.`) each have their own syntax checks
    for t in small_number_tokens(if thorough { 6 } else { 5 }) {
        out.line(&format!("c02 {}", hex(&t)));
        let mut a = b"[".to_vec();
        a.extend_from_slice(&t);
        a.extend_from_slice(b",1]");
        out.line(&format!("c02 {}", hex(&a)));
    }
    // (c1) numbers around the largest finite double at every digit count of the mantissa: "every number is finite as f64"
    for (n, t) in overflow_boundary().into_iter().enumerate() {
        if !thorough && n % 3 != 0 {
            continue;
        }
        out.line(&format!("c02 {}", hex(&t)));
        let mut a = b"[".to_vec();
        a.extend_from_slice(&t);
        a.extend_from_slice(b"]");
        out.line(&format!("c02 {}", hex(&a)));
    }
    // (c) sweeps: a string/number/whitespace token of every length at every offset
    let step = if thorough { 1 } else { 7 };
    for off in (0..=64).step_by(step) {
        for len in (0..=200).step_by(if thorough { 3 } else { 11 }) {
            for kind in 0..6 {
                let mut t = vec![b' '; off];
                t.push(b'[');
                match kind {
                    0 => { t.push(b'"'); t.extend(std::iter::repeat(b'a').take(len)); t.push(b'"'); }
                    1 => { t.push(b'"'); t.extend(std::iter::repeat(b'a').take(len)); t.extend_from_slice(b"\\n\""); }
                    2 => { t.push(b'"'); t.extend(std::iter::repeat(b'a').take(len)); t.extend_from_slice(b"\x01\""); }
                    3 => { t.push(b'1'); t.extend(std::iter::repeat(b'2').take(len)); t.extend_from_slice(b".5e1"); }
                    4 => { t.push(b'1'); t.extend(std::iter::repeat(b'2').take(len)); t.extend_from_slice(b".e1"); }
                    _ => { t.extend(std::iter::repeat(b' ').take(len)); t.push(b'1'); t.extend(std::iter::repeat(b'\n').take(len % 70)); }
                }
                t.push(b']');
                out.line(&format!("c02 {}", hex(&t)));
            }
        }
    }
}
