//! C16 — manual reference counting of parsed arenas under clone / move / drop histories.
//! case: `c16 <mode> <op>;<op>;...`   mode: s = single thread, t = clones and drops run on other threads,
//!                                    q = single thread, and S/V/E drive a `StreamDeserializer` (`into_stream::<Value>()`) instead of
//!                                        repeated `Deserializer::deserialize`
//!   P:<hexdoc>        parse into a new slot              C:i  clone slot i into a new slot
//!   D:i               drop slot i                        T:i  take slot i into a new slot
//!   H:i:k:<hexkey>    clone a member of slot i (array index k / object key) into a new slot
//!   M:i               as_array_mut / as_object_mut       U:i:j  push slot i into array slot j
//!   I:i:j:<hexkey>    insert slot i into object slot j   O:j  pop of array slot j into a new slot
//!   R:j:<hexkey>      remove from object slot j into a new slot
//!   S:<hexstream>     open a Deserializer over the stream; V:<hexdoc>:<first> its next value; E close
//!   F:<first>         the next value of the stream is malformed (a lone `]`): the attempt fails
//!   X:<hexdoc>        `from_slice::<Value>` of a text that is rejected — at once, or only AFTER the padded parse has built its
//!                     tree (invalid UTF-8 inside a string, a string closed by the padding, trailing characters): the arena of
//!                     the attempt is created and released by this step
//! output: per step `shape shape ..|released arenas` joined by `;`, then ` content=.. leak=.. arenas=..`
//! case: `c16 x <hexdoc> <threads> <iters>`  concurrent stress; output `ok` or a description
use crate::c18::{tracked, LIVE};
use crate::util::*;
use serde::Deserialize;
use sonic_rs::{JsonContainerTrait, JsonValueMutTrait, JsonValueTrait, Value};
use std::sync::atomic::Ordering;

type Ref = serde_json::Value;

/// the hook's release log; its buffer is allocated inside `Drop` (counted), so it is also freed
/// with the counter on
fn freed_log() -> Vec<usize> {
    let (a, n) = tracked(|| {
        let v = sonic_rs::verif::take_arenas_freed();
        let mut a = [0usize; 256];
        let n = v.len().min(256);
        a[..n].copy_from_slice(&v[..n]);
        (a, n)
    });
    a[..n].to_vec()
}

fn shape(v: &Value) -> String {
    let mut s = String::new();
    v.verif_shape(&mut s);
    s
}

fn on_thread<T: Send + 'static>(threaded: bool, f: impl FnOnce() -> T + Send + 'static) -> T {
    if threaded {
        std::thread::spawn(move || tracked(f)).join().unwrap()
    } else {
        tracked(f)
    }
}

struct DeState {
    de: sonic_rs::Deserializer<sonic_rs::Read<'static>>,
}

type Stream = sonic_rs::StreamDeserializer<'static, Value, sonic_rs::Read<'static>>;

pub fn run_history(threaded: bool, prog: &str) -> String {
    run_history_mode(threaded, false, false, prog)
}

/// `raw`: every parse runs with `use_rawnumber()` — numbers are then arena nodes (like strings), not static ones
pub fn run_history_mode(threaded: bool, streamed: bool, raw: bool, prog: &str) -> String {
    let mut st: Option<Stream> = None;
    let base_arena = sonic_rs::verif::arenas_created();
    let _ = freed_log();
    let live0 = LIVE.load(Ordering::SeqCst);
    let mut steps: Vec<String> = Vec::new();
    let mut content = String::from("ok");
    let mut de: Option<DeState> = None;
    // only the library calls run with the allocation counter on (`tracked`); the slot vector is
    // pre-allocated so that moving values in and out allocates nothing
    let mut slots: Vec<Value> = Vec::with_capacity(4096);
    let mut refs: Vec<Ref> = Vec::new();
    for (n, w) in prog.split(';').enumerate() {
        let p: Vec<&str> = w.split(':').collect();
        let idx = |k: usize| p.get(k).and_then(|s| s.parse::<usize>().ok()).unwrap_or(usize::MAX);
        let mut ok = true;
        match p[0] {
            "P" => {
                let doc = unhex(p[1]);
                let parsed = if raw {
                    tracked(|| {
                        let mut d = sonic_rs::Deserializer::from_slice(&doc).use_rawnumber();
                        Value::deserialize(&mut d).map_err(drop)
                    })
                } else {
                    tracked(|| sonic_rs::from_slice::<Value>(&doc).map_err(drop))
                };
                match parsed {
                    Ok(v) => {
                        slots.push(v);
                        refs.push(serde_json::from_slice(&doc).unwrap());
                    }
                    Err(()) => ok = false,
                }
            }
            "C" => {
                let i = idx(1);
                if i < slots.len() {
                    // clone on another thread through a shared reference
                    let v = if threaded {
                        let r: &Value = &slots[i];
                        std::thread::scope(|s| s.spawn(|| tracked(|| r.clone())).join().unwrap())
                    } else {
                        tracked(|| slots[i].clone())
                    };
                    slots.push(v);
                    refs.push(refs[i].clone());
                } else {
                    ok = false;
                }
            }
            "D" => {
                let i = idx(1);
                if i < slots.len() {
                    let v = slots.remove(i);
                    refs.remove(i);
                    on_thread(threaded, move || drop(v));
                } else {
                    ok = false;
                }
            }
            "T" => {
                let i = idx(1);
                if i < slots.len() {
                    let v = tracked(|| slots[i].take());
                    slots.push(v);
                    let r = refs[i].take();
                    refs.push(r);
                } else {
                    ok = false;
                }
            }
            "H" => {
                let (i, k) = (idx(1), idx(2));
                let key = String::from_utf8(unhex(p[3])).unwrap();
                if i < slots.len() {
                    let (c, r) = if slots[i].is_array() {
                        (tracked(|| slots[i].get(k).cloned()), refs[i].get(k).cloned())
                    } else if slots[i].is_object() {
                        (tracked(|| slots[i].get(&key).cloned()), refs[i].get(&key).cloned())
                    } else {
                        (None, None)
                    };
                    match (c, r) {
                        (Some(c), Some(r)) => {
                            slots.push(c);
                            refs.push(r);
                        }
                        (None, None) => ok = false,
                        (c, _) => {
                            ok = false;
                            tracked(|| drop(c));
                            content = format!("BAD(step {n}: member presence differs)");
                        }
                    }
                } else {
                    ok = false;
                }
            }
            "M" => {
                let i = idx(1);
                if i < slots.len() && slots[i].is_array() {
                    tracked(|| {
                        let _ = slots[i].as_array_mut();
                    });
                } else if i < slots.len() && slots[i].is_object() {
                    tracked(|| {
                        let _ = slots[i].as_object_mut();
                    });
                } else {
                    ok = false;
                }
            }
            "U" => {
                let (i, j) = (idx(1), idx(2));
                if i < slots.len() && j < slots.len() && i != j && slots[j].is_array() {
                    tracked(|| {
                        let v = slots[i].take();
                        slots[j].as_array_mut().unwrap().push(v);
                    });
                    let r = refs[i].take();
                    refs[j].as_array_mut().unwrap().push(r);
                    // the emptied slot disappears (it holds a static null)
                    slots.remove(i);
                    refs.remove(i);
                } else {
                    ok = false;
                }
            }
            "I" => {
                let (i, j) = (idx(1), idx(2));
                let key = String::from_utf8(unhex(p[3])).unwrap();
                if i < slots.len() && j < slots.len() && i != j && slots[j].is_object() {
                    let had = tracked(|| {
                        let v = slots[i].take();
                        let old = slots[j].as_object_mut().unwrap().insert(&key, v);
                        old.is_some()
                    });
                    let r = refs[i].take();
                    let oldr = refs[j].as_object_mut().unwrap().insert(key.clone(), r);
                    if had != oldr.is_some() {
                        content = format!("BAD(step {n}: replaced member differs)");
                    }
                    slots.remove(i);
                    refs.remove(i);
                } else {
                    ok = false;
                }
            }
            "O" => {
                let j = idx(1);
                if j < slots.len() && slots[j].is_array() {
                    let v = tracked(|| slots[j].as_array_mut().unwrap().pop());
                    let r = refs[j].as_array_mut().unwrap().pop();
                    if v.is_some() != r.is_some() {
                        content = format!("BAD(step {n}: pop differs)");
                    }
                    match (v, r) {
                        (Some(v), Some(r)) => {
                            slots.push(v);
                            refs.push(r);
                        }
                        (v, _) => tracked(|| drop(v)),
                    }
                } else {
                    ok = false;
                }
            }
            "R" => {
                let j = idx(1);
                let key = String::from_utf8(unhex(p[2])).unwrap();
                if j < slots.len() && slots[j].is_object() {
                    let v = tracked(|| slots[j].as_object_mut().unwrap().remove(&key));
                    let r = refs[j].as_object_mut().unwrap().remove(&key);
                    if v.is_some() != r.is_some() {
                        content = format!("BAD(step {n}: remove differs)");
                    }
                    match (v, r) {
                        (Some(v), Some(r)) => {
                            slots.push(v);
                            refs.push(r);
                        }
                        (v, _) => tracked(|| drop(v)),
                    }
                } else {
                    ok = false;
                }
            }
            "S" => {
                // the stream buffer lives as long as the process (allocated outside the count)
                let buf: &'static [u8] = Box::leak(unhex(p[1]).into_boxed_slice());
                if streamed {
                    st = Some(tracked(|| sonic_rs::Deserializer::from_slice(buf).into_stream::<Value>()));
                } else {
                    de = Some(tracked(|| DeState { de: if raw { sonic_rs::Deserializer::from_slice(buf).use_rawnumber() } else { sonic_rs::Deserializer::from_slice(buf) } }));
                }
            }
            "V" if streamed => match st.as_mut() {
                Some(it) => match tracked(|| it.next().map(|r| r.map_err(drop))) {
                    Some(Ok(v)) => {
                        slots.push(v);
                        refs.push(serde_json::from_slice(&unhex(p[1])).unwrap());
                    }
                    _ => ok = false,
                },
                None => ok = false,
            },
            "E" if streamed => {
                let d = st.take();
                tracked(|| drop(d));
            }
            "V" => match de.as_mut() {
                Some(d) => match tracked(|| Value::deserialize(&mut d.de).map_err(drop)) {
                    Ok(v) => {
                        slots.push(v);
                        refs.push(serde_json::from_slice(&unhex(p[1])).unwrap());
                    }
                    Err(()) => ok = false,
                },
                None => ok = false,
            },
            "F" => match de.as_mut() {
                // the next value of the stream is malformed (a lone `]`): one failing attempt
                Some(d) => match tracked(|| Value::deserialize(&mut d.de)) {
                    Ok(v) => {
                        tracked(|| drop(v));
                        ok = false;
                    }
                    Err(e) => tracked(|| drop(e)),
                },
                None => ok = false,
            },
            "X" => {
                let doc = unhex(p[1]);
                match tracked(|| sonic_rs::from_slice::<Value>(&doc).map(drop).map_err(drop)) {
                    Ok(()) => ok = false,
                    Err(()) => {}
                }
            }
            "E" => {
                // a Deserializer is not Send: it is dropped where it was made
                let d = de.take();
                tracked(|| drop(d));
            }
            _ => ok = false,
        }
        if !ok {
            steps.push("reject".into());
            break;
        }
        // observation: representation of every live value, arenas released by this step
        let shapes: Vec<String> = slots.iter().map(shape).collect();
        let mut freed: Vec<usize> = freed_log().into_iter().map(|a| a - base_arena).collect();
        freed.sort();
        let shapes = shapes.join("/");
        let shapes = renumber(&shapes, base_arena);
        steps.push(format!("{}|{}", shapes, freed.iter().map(|x| x.to_string()).collect::<Vec<_>>().join(",")));
        // every live value still reads as the reference says
        if content == "ok" {
            for (k, (v, r)) in slots.iter().zip(refs.iter()).enumerate() {
                let text = sonic_rs::to_string(v).unwrap_or_else(|_| "<ser error>".into());
                let back: Result<Ref, _> = serde_json::from_str(&text);
                if back.as_ref().ok() != Some(r) {
                    content = format!("BAD(step {n} slot {k}: {text} expected {r})");
                    break;
                }
            }
        }
    }
    tracked(|| {
        drop(de.take());
        drop(st.take());
        slots.clear();
    });
    let late: Vec<usize> = freed_log();
    let leak = LIVE.load(Ordering::SeqCst) - live0;
    let created = sonic_rs::verif::arenas_created() - base_arena;
    // after everything was dropped: every arena created by the history has been released once
    format!("{} content={} leak={} created={} released_at_end={}", steps.join(";"), content, leak, created, late.len())
}

/// arena serial numbers relative to the first arena of this history
fn renumber(s: &str, base: usize) -> String {
    let mut out = String::new();
    let b = s.as_bytes();
    let mut i = 0;
    while i < b.len() {
        if b[i] == b'(' && i + 1 < b.len() && b[i + 1] == b'a' {
            out.push_str("(a");
            i += 2;
            let st = i;
            while i < b.len() && b[i].is_ascii_digit() {
                i += 1;
            }
            let n: usize = s[st..i].parse().unwrap();
            out.push_str(&(n - base).to_string());
        } else {
            out.push(b[i] as char);
            i += 1;
        }
    }
    out
}

/// concurrent stress: `threads` threads share one parsed document by reference, clone the root and
/// members, promote, mutate and drop their clones at the same time; the main thread drops the
/// document while they run.
fn stress(doc: &[u8], threads: usize, iters: usize) -> String {
    let base = sonic_rs::verif::arenas_created();
    let _ = freed_log();
    let reference: Ref = serde_json::from_slice(doc).unwrap();
    let mut verdict = String::from("ok");
    {
        let root: Value = sonic_rs::from_slice(doc).unwrap();
        let barrier = std::sync::Arc::new(std::sync::Barrier::new(threads + 1));
        let mut hs = Vec::new();
        for t in 0..threads {
            let mine = root.clone();
            let b = barrier.clone();
            let r = reference.clone();
            hs.push(std::thread::spawn(move || {
                {
                    b.wait();
                    let mut bad = None;
                    let mut keep: Vec<Value> = Vec::new();
                    for it in 0..iters {
                        let c = mine.clone();
                        let mut kid = if c.is_array() { c.get(it % 3).cloned().unwrap_or_default() } else { c.get("a").cloned().unwrap_or_default() };
                        if kid.is_array() {
                            kid.as_array_mut().unwrap().push(c.clone());
                            let _ = kid.as_array_mut().unwrap().pop();
                        }
                        let text = sonic_rs::to_string(&c).unwrap();
                        if serde_json::from_str::<Ref>(&text).ok().as_ref() != Some(&r) {
                            bad = Some(format!("thread {t} iter {it}: {text}"));
                        }
                        if it % 7 == 0 {
                            keep.push(kid);
                        }
                        if keep.len() > 5 {
                            keep.remove(0);
                        }
                    }
                    drop(b);
                    (bad, keep)
                }
            }));
        }
        barrier.wait();
        drop(barrier);
        drop(root);
        for h in hs {
            let (bad, keep) = h.join().unwrap();
            if let Some(b) = bad {
                verdict = format!("content:{b}");
            }
            drop(keep);
        }
    }
    let created = sonic_rs::verif::arenas_created() - base;
    let freed = freed_log();
    // (the byte balance is checked by the histories; here: the arena is released exactly once, after
    // the last of the concurrently dropped sharers)
    if verdict == "ok" && (created != 1 || freed.len() != 1) {
        verdict = format!("created={created} released={}", freed.len());
    }
    verdict
}

pub fn run() {
    // warm up the thread-local node buffer and the process-wide hasher seeds so that they are not
    // counted as leaks
    let big = format!("[{}1]", "1,".repeat(20000));
    let _ = sonic_rs::from_str::<Value>(&big);
    let mut o: Value = sonic_rs::from_str("{\"a\":1}").unwrap();
    let _ = o.as_object_mut().unwrap().insert(&"b", 1);
    drop(o);
    let mut out = Out::new();
    for line in lines_in() {
        let p: Vec<&str> = line.split(' ').collect();
        let mode = p.get(1).copied().unwrap_or("s");
        if mode == "x" {
            let doc = unhex(p[2]);
            let th: usize = p[3].parse().unwrap();
            let it: usize = p[4].parse().unwrap();
            out.line(&guarded(move || stress(&doc, th, it)));
        } else {
            let prog = p.get(2).copied().unwrap_or("").to_string();
            let threaded = mode == "t";
            let streamed = mode == "q";
            let raw = mode == "r";
            out.line(&guarded(move || run_history_mode(threaded, streamed, raw, &prog)));
        }
    }
}

const DOCS: &[&str] = &[
    "1", "\"s\"", "[]", "{}", "null", "[1,\"a\",[2,\"b\"]]", "{\"a\":[1,\"x\"],\"b\":{\"c\":\"y\"},\"d\":2}",
    "[\"p\",{\"k\":[\"q\"]},[[\"r\"]]]", "{\"a\":\"v\"}", "[[],{},[{}]]", "[\"only\"]", "{\"a\":{\"a\":{\"a\":[\"deep\"]}}}",
];
const KEYS: &[&str] = &["a", "b", "c", "d", "k"];

fn gen_doc_small(r: &mut Rng, depth: usize, out: &mut String) {
    match r.below(if depth >= 3 { 4 } else { 8 }) {
        0 => out.push_str(&format!("{}", r.below(100))),
        1 => out.push_str("\"s\""),
        2 => out.push_str("true"),
        3 => out.push_str(if r.chance(1, 2) { "[]" } else { "{}" }),
        4 | 5 => {
            out.push('[');
            let n = 1 + r.below(3);
            for i in 0..n {
                if i > 0 {
                    out.push(',');
                }
                gen_doc_small(r, depth + 1, out);
            }
            out.push(']');
        }
        _ => {
            out.push('{');
            let n = 1 + r.below(3);
            for i in 0..n {
                if i > 0 {
                    out.push(',');
                }
                out.push_str(&format!("\"{}\":", KEYS[i]));
                gen_doc_small(r, depth + 1, out);
            }
            out.push('}');
        }
    }
}

/// texts `from_slice::<Value>` rejects: at once; after the padded parse built a tree (invalid UTF-8 in a string or a key, a
/// string that only the padding closes, trailing characters); static and non-static roots
const REJECTED: &[&[u8]] = &[
    b"]",
    b"[1,",
    b"\"a\xffb\"",
    b"[\"a\xffb\",1]",
    b"{\"k\":\"\xfe\"}",
    b"{\"\xff\":[1,\"x\"]}",
    b"\"abc",
    b"\"abc\\u00e9",
    b"[1,\"a\"] x",
    b"{\"a\":[\"b\"]} ]",
    b"\"s\" 1",
    b"1 \xff",
    b"[[\"deep\",[\"er\"]],{\"k\":\"\xc3\"}]",
];

/// one random history (ops are chosen by looking at the real values, so that they apply)
fn gen_history(r: &mut Rng, len: usize, allow_de: bool) -> String {
    let mut slots: Vec<Value> = Vec::new();
    let mut ops: Vec<String> = Vec::new();
    let mut de_left: Vec<String> = Vec::new();
    let mut de_open = false;
    let mut de_first = false;
    let pick_doc = |r: &mut Rng| -> String {
        if r.chance(2, 3) {
            (*r.pick(DOCS)).to_string()
        } else {
            let mut s = String::new();
            gen_doc_small(r, 0, &mut s);
            s
        }
    };
    while ops.len() < len {
        let n = slots.len();
        let c = r.below(20);
        if n == 0 || c == 0 || (c == 1 && n < 4) {
            let d = pick_doc(r);
            slots.push(sonic_rs::from_str(&d).unwrap());
            ops.push(format!("P:{}", hex(d.as_bytes())));
            continue;
        }
        if c == 19 && r.chance(1, 2) {
            ops.push(format!("X:{}", hex(*r.pick(REJECTED))));
            continue;
        }
        let i = r.below(n);
        match c {
            1 | 2 | 3 => {
                let v = slots[i].clone();
                slots.push(v);
                ops.push(format!("C:{i}"));
            }
            4 | 5 | 6 | 7 => {
                slots.remove(i);
                ops.push(format!("D:{i}"));
            }
            8 => {
                let v = slots[i].take();
                slots.push(v);
                ops.push(format!("T:{i}"));
            }
            9 | 10 | 11 => {
                if slots[i].is_array() {
                    let len = slots[i].as_array().unwrap().len();
                    if len > 0 {
                        let k = r.below(len);
                        let v = slots[i][k].clone();
                        slots.push(v);
                        ops.push(format!("H:{i}:{k}:-"));
                    }
                } else if slots[i].is_object() {
                    let keys: Vec<String> = slots[i].as_object().unwrap().iter().map(|(k, _)| k.to_string()).collect();
                    if !keys.is_empty() {
                        let k = r.pick(&keys).clone();
                        let v = slots[i][k.as_str()].clone();
                        slots.push(v);
                        ops.push(format!("H:{i}:0:{}", hex(k.as_bytes())));
                    }
                }
            }
            12 => {
                if slots[i].is_array() {
                    let _ = slots[i].as_array_mut();
                    ops.push(format!("M:{i}"));
                } else if slots[i].is_object() {
                    let _ = slots[i].as_object_mut();
                    ops.push(format!("M:{i}"));
                }
            }
            13 | 14 => {
                let j = r.below(n);
                if j != i && slots[j].is_array() {
                    let v = slots[i].take();
                    slots[j].as_array_mut().unwrap().push(v);
                    slots.remove(i);
                    ops.push(format!("U:{i}:{j}"));
                } else if j != i && slots[j].is_object() {
                    let key = *r.pick(KEYS);
                    let v = slots[i].take();
                    let _ = slots[j].as_object_mut().unwrap().insert(&key, v);
                    slots.remove(i);
                    ops.push(format!("I:{i}:{j}:{}", hex(key.as_bytes())));
                }
            }
            15 => {
                if slots[i].is_array() {
                    if let Some(v) = slots[i].as_array_mut().unwrap().pop() {
                        slots.push(v);
                    }
                    ops.push(format!("O:{i}"));
                } else if slots[i].is_object() {
                    let key = *r.pick(KEYS);
                    if let Some(v) = slots[i].as_object_mut().unwrap().remove(&key) {
                        slots.push(v);
                    }
                    ops.push(format!("R:{i}:{}", hex(key.as_bytes())));
                }
            }
            _ => {
                if !allow_de {
                    continue;
                }
                if !de_open && r.chance(1, 3) {
                    let k = 2 + r.below(3);
                    // (a malformed first value leaves the reader at index 0 for ever: only later values may be malformed)
                    let docs: Vec<String> = (0..k).map(|n| if n > 0 && r.chance(1, 4) { "]".to_string() } else { pick_doc(r) }).collect();
                    let lead = if r.chance(1, 3) { " " } else { "" };
                    let stream = format!("{}{}", lead, docs.join(" "));
                    ops.push(format!("S:{}", hex(stream.as_bytes())));
                    de_left = docs;
                    de_open = true;
                    de_first = true;
                } else if de_open && !de_left.is_empty() {
                    let d = de_left.remove(0);
                    if d == "]" {
                        ops.push(format!("F:{}", if de_first { 1 } else { 0 }));
                    } else {
                        slots.push(sonic_rs::from_str(&d).unwrap());
                        ops.push(format!("V:{}:{}", hex(d.as_bytes()), if de_first { 1 } else { 0 }));
                    }
                    de_first = false;
                } else if de_open {
                    ops.push("E".into());
                    de_open = false;
                }
            }
        }
    }
    ops.join(";")
}

/// all histories over one document: parse, a fixed set of derivations, then every order of drops
fn gen_drop_orders(out: &mut Out, doc: &str, derive: &[&str]) {
    // slots after the prefix: 0 = root, 1.. = derived values
    let mut prefix = vec![format!("P:{}", hex(doc.as_bytes()))];
    prefix.extend(derive.iter().map(|s| s.to_string()));
    // number of live slots is determined by running the prefix
    let probe = run_history(false, &prefix.join(";"));
    let last = probe.split(" content=").next().unwrap().rsplit(';').next().unwrap().to_string();
    if last == "reject" {
        return;
    }
    let n = last.split('|').next().unwrap().split('/').filter(|s| !s.is_empty()).count();
    // every permutation of dropping the n slots (as indices into the shrinking list)
    fn rec(rem: usize, cur: &mut Vec<usize>, all: &mut Vec<Vec<usize>>) {
        if rem == 0 {
            all.push(cur.clone());
            return;
        }
        for i in 0..rem {
            cur.push(i);
            rec(rem - 1, cur, all);
            cur.pop();
        }
    }
    let mut all = Vec::new();
    rec(n, &mut Vec::new(), &mut all);
    for perm in all {
        let mut ops = prefix.clone();
        ops.extend(perm.iter().map(|i| format!("D:{i}")));
        out.line(&format!("c16 s {}", ops.join(";")));
    }
}

pub fn gen(seed: u64, thorough: bool) {
    let big = format!("[{}1]", "1,".repeat(20000));
    let _ = sonic_rs::from_str::<Value>(&big);
    let mut out = Out::new();
    let mut r = Rng::new(seed ^ 0x16);
    // fixed histories
    let h = |s: &str| hex(s.as_bytes());
    let d1 = h("[1,\"a\",[2,\"b\"]]");
    let d2 = h("{\"a\":[1,\"x\"],\"b\":{\"c\":\"y\"},\"d\":2}");
    for f in [
        format!("P:{d1};C:0;H:0:2:-;D:0;M:0;D:0;D:0"),
        format!("P:{d1};H:0:2:-;C:0;M:0;U:1:0;D:1;D:0"),
        format!("P:{};P:{};D:0;D:0", h("1"), h("[]")),
        format!("P:{d2};M:0;C:0;R:0:{};D:0;D:0;D:0", h("a")),
        format!("P:{d2};P:{d1};U:0:0;C:0;O:0;D:0;D:0;D:0"),
        format!("S:{};V:{d1}:1;V:{d2}:0;V:{}:0;E;D:0;D:0;D:0", h("[1,\"a\",[2,\"b\"]] {\"a\":[1,\"x\"],\"b\":{\"c\":\"y\"},\"d\":2} \"s\""), h("\"s\"")),
        format!("S:{};V:{d1}:1;V:{d2}:0;D:1;D:0;E", h("[1,\"a\",[2,\"b\"]] {\"a\":[1,\"x\"],\"b\":{\"c\":\"y\"},\"d\":2}")),
        // a malformed value in the middle of a stream: the values before it stay intact, the ones after it are independent
        format!("S:{};V:{d1}:1;V:{d2}:0;F:0;V:{d1}:0;H:1:0:{};E;D:0;D:0;D:0;D:0", h("[1,\"a\",[2,\"b\"]] {\"a\":[1,\"x\"],\"b\":{\"c\":\"y\"},\"d\":2} ] [1,\"a\",[2,\"b\"]]"), h("a")),
        format!("S:{};F:1;F:1;E", h("] [1]")),
        // rejected only after the padded parse has built its tree: the tree and its arena are released by the failing call
        format!("X:{};X:{};X:{};X:{}", hex(b"\"a\xffb\""), hex(b"\"abc"), hex(b"[1,\"a\"] x"), hex(b"]")),
        format!("P:{d1};X:{};C:0;X:{};D:0;X:{};D:0", hex(b"[\"a\xffb\",1]"), hex(b"{\"k\":\"\xfe\"}"), hex(b"\"abc\\u00e9")),
        format!("S:{};F:1;E", hex(b"[\"a\xffb\",1]")),
        format!("S:{};F:1;E", hex(b"\"abc")),
        format!("P:{d2};S:{};F:1;C:0;E;D:0;D:0", hex(b"{\"k\":\"\xfe\"} [1]")),
    ] {
        out.line(&format!("c16 s {f}"));
        out.line(&format!("c16 t {f}"));
        if !f.contains("X:") {
            out.line(&format!("c16 r {f}"));
        }
    }
    // raw-number mode: a number is an arena node; a number ROOT must survive later parses on the same thread
    for f in [
        format!("P:{};P:{d1};C:0;P:{d2};D:1;P:{};D:0;D:0;D:0;D:0", h("12345678901234567890.125"), h("[7]")),
        format!("P:{};P:{};P:{};D:1;D:0;D:0", h("1.25"), h("3e-7"), h("-0")),
        format!("S:{};V:{}:1;V:{}:0;V:{}:0;P:{d1};E;D:0;D:0;D:0;D:0", h("1.5 2.5 [3.5]"), h("1.5"), h("2.5"), h("[3.5]")),
    ] {
        out.line(&format!("c16 r {f}"));
    }
    // every drop order after typical derivations
    gen_drop_orders(&mut out, "[1,\"a\",[2,\"b\"]]", &["C:0", "H:0:2:-", "H:0:1:-"]);
    gen_drop_orders(&mut out, "[1,\"a\",[2,\"b\"]]", &["C:0", "M:1", "H:1:2:-"]);
    gen_drop_orders(&mut out, "{\"a\":[1,\"x\"],\"b\":{\"c\":\"y\"},\"d\":2}", &["H:0:0:62", "M:0", "C:0", "T:1"]);
    if thorough {
        gen_drop_orders(&mut out, "[\"p\",{\"k\":[\"q\"]},[[\"r\"]]]", &["H:0:1:-", "H:0:2:-", "M:0", "C:0", "O:0"]);
        gen_drop_orders(&mut out, "{\"a\":{\"a\":{\"a\":[\"deep\"]}}}", &["H:0:0:61", "H:1:0:61", "M:0", "C:1", "M:1"]);
    }
    // random histories
    let n = if thorough { 30000 } else { 2500 };
    for k in 0..n {
        let len = 5 + r.below(if k % 10 == 0 { 120 } else { 30 });
        let hist = gen_history(&mut r, len, k % 3 != 0);
        // histories without a failing stream value are also run through a StreamDeserializer (which stops at the first error)
        if hist.contains("S:") && !hist.contains("F:") {
            out.line(&format!("c16 q {hist}"));
        }
        let mode = if k % 4 == 3 { "t" } else { "s" };
        out.line(&format!("c16 {mode} {hist}"));
        if k % 5 == 1 && !hist.contains("X:") {
            out.line(&format!("c16 r {hist}"));
        }
    }
    // concurrent stress
    let reps = if thorough { 40 } else { 6 };
    for k in 0..reps {
        let doc = if k % 2 == 0 { "[1,\"a\",[2,\"b\"]]" } else { "{\"a\":[1,\"x\"],\"b\":{\"c\":\"y\"},\"d\":2}" };
        out.line(&format!("c16 x {} {} {}", hex(doc.as_bytes()), 4 + k % 5, if thorough { 3000 } else { 500 }));
    }
}
