//! C20 — every error locates itself inside the input; streams/iterators latch.
use crate::util::*;
use serde::Deserialize;
use sonic_rs::{LazyValue, OwnedLazyValue, PointerTree, Value};

fn e_str(e: &sonic_rs::Error) -> String {
    let msg = e.to_string();
    let head = match msg.find(" at line ") {
        Some(p) => &msg[..p],
        None => &msg[..],
    };
    // Display and Debug must be total
    let disp = std::panic::catch_unwind(std::panic::AssertUnwindSafe(|| {
        let a = format!("{}", e);
        let b = format!("{:?}", e);
        a.len() + b.len()
    }))
    .is_ok();
    format!("E:{}:{}:{}:{}:{:?}:{}", hex(head.as_bytes()), e.offset(), e.line(), e.column(), e.classify(), if disp { "d" } else { "DISPLAY-PANIC" })
}

fn res<T>(r: Result<T, sonic_rs::Error>) -> String {
    match r {
        Ok(_) => "OK".into(),
        Err(e) => e_str(&e),
    }
}

#[derive(Deserialize)]
#[allow(dead_code)]
struct St {
    a: i32,
    b: String,
}

/// a hand-written `Deserialize` whose visitor takes `Some(..)` but not `None` (errors raised by the VISITOR, not by the parser,
/// must carry the position of the value as well)
#[derive(Debug)]
struct NoNone;
impl<'de> Deserialize<'de> for NoNone {
    fn deserialize<D: serde::Deserializer<'de>>(d: D) -> Result<Self, D::Error> {
        struct V;
        impl<'de> serde::de::Visitor<'de> for V {
            type Value = NoNone;
            fn expecting(&self, f: &mut std::fmt::Formatter) -> std::fmt::Result {
                f.write_str("something")
            }
            fn visit_some<D2: serde::Deserializer<'de>>(self, d: D2) -> Result<NoNone, D2::Error> {
                serde::de::IgnoredAny::deserialize(d).map(|_| NoNone)
            }
        }
        d.deserialize_option(V)
    }
}

#[derive(Deserialize, Debug)]
#[allow(dead_code)]
enum En {
    A,
    B(u8),
    C { x: u8 },
}

#[derive(Deserialize, Debug)]
#[allow(dead_code)]
struct StV {
    a: Option<NoNone>,
    b: Option<En>,
    x: Option<sonic_rs::RawNumber>,
}

pub fn run_case(t: &[u8]) -> String {
    let mut f: Vec<String> = Vec::new();
    macro_rules! ep {
        ($name:expr, $body:expr) => {
            f.push(format!("{}={}", $name, guarded(|| $body)));
        };
    }
    ep!("dom", res(sonic_rs::from_slice::<Value>(t)));
    ep!("lazy", res(sonic_rs::from_slice::<LazyValue>(t)));
    ep!("owned", res(sonic_rs::from_slice::<OwnedLazyValue>(t)));
    ep!("vecu32", res(sonic_rs::from_slice::<Vec<u32>>(t)));
    ep!("string", res(sonic_rs::from_slice::<String>(t)));
    ep!("f64", res(sonic_rs::from_slice::<f64>(t)));
    ep!("st", res(sonic_rs::from_slice::<St>(t)));
    ep!("sj", res(sonic_rs::from_slice::<serde_json::Value>(t)));
    // errors raised by visitors (a rejected `null`, unknown variants, wrong payloads, a string where a raw number is expected)
    ep!("nonone", res(sonic_rs::from_slice::<NoNone>(t)));
    ep!("vnonone", res(sonic_rs::from_slice::<Vec<NoNone>>(t)));
    ep!("en", res(sonic_rs::from_slice::<En>(t)));
    ep!("stv", res(sonic_rs::from_slice::<StV>(t)));
    ep!("map", res(sonic_rs::from_slice::<std::collections::BTreeMap<String, Value>>(t)));
    if let Ok(s) = std::str::from_utf8(t) {
        ep!("dom_str", res(sonic_rs::from_str::<Value>(s)));
        ep!("get_a_str", res(sonic_rs::get(s, &["a"])));
    }
    // path lookups
    ep!("get_a", res(sonic_rs::get(t, &["a"])));
    ep!("get_0", res(sonic_rs::get(t, &[0])));
    ep!("get_b1", res(sonic_rs::get(t, sonic_rs::pointer!["b", 1])));
    ep!("get_root", res(sonic_rs::get(t, sonic_rs::pointer![])));
    ep!("getu_a", res(unsafe { sonic_rs::get_unchecked(t, &["a"]) }));
    ep!("getu_0", res(unsafe { sonic_rs::get_unchecked(t, &[0]) }));
    ep!("get_many", {
        let mut tree = PointerTree::new();
        tree.add_path(&["a"]);
        tree.add_path(sonic_rs::pointer!["b", 0].iter());
        res(sonic_rs::get_many(t, &tree))
    });
    ep!("schema", {
        let schema: Value = sonic_rs::from_str(r#"{"a":null,"b":{"c":1}}"#).unwrap();
        res(sonic_rs::get_by_schema(t, schema))
    });
    // iterators and streams: first error, then three extra polls
    ep!("arr_iter", {
        let mut it = sonic_rs::to_array_iter(t);
        let mut out = "END".to_string();
        let mut n = 0;
        while let Some(x) = it.next() {
            n += 1;
            if let Err(e) = x {
                out = e_str(&e);
                break;
            }
            if n > 100000 {
                out = "NOEND".into();
                break;
            }
        }
        let extra = (0..3).filter(|_| it.next().is_some()).count();
        format!("{}:latch{}", out, extra)
    });
    ep!("obj_iter", {
        let mut it = sonic_rs::to_object_iter(t);
        let mut out = "END".to_string();
        let mut n = 0;
        while let Some(x) = it.next() {
            n += 1;
            if let Err(e) = x {
                out = e_str(&e);
                break;
            }
            if n > 100000 {
                out = "NOEND".into();
                break;
            }
        }
        let extra = (0..3).filter(|_| it.next().is_some()).count();
        format!("{}:latch{}", out, extra)
    });
    ep!("stream", {
        let mut it = sonic_rs::Deserializer::from_slice(t).into_stream::<Value>();
        let mut out = "END".to_string();
        let mut n = 0;
        while let Some(x) = it.next() {
            n += 1;
            if let Err(e) = x {
                out = e_str(&e);
                break;
            }
            if n > 100000 {
                out = "NOEND".into();
                break;
            }
        }
        let extra = (0..3).filter(|_| it.next().is_some()).count();
        format!("{}:latch{}", out, extra)
    });
    ep!("lossy", res(sonic_rs::Deserializer::from_slice(t).utf8_lossy().deserialize::<Value>()));
    ep!("lossy_stream", {
        let mut it = sonic_rs::Deserializer::from_slice(t).utf8_lossy().into_stream::<Value>();
        let mut out = "END".to_string();
        let mut n = 0;
        while let Some(x) = it.next() {
            n += 1;
            if let Err(e) = x {
                out = e_str(&e);
                break;
            }
            if n > 100000 {
                out = "NOEND".into();
                break;
            }
        }
        let extra = (0..3).filter(|_| it.next().is_some()).count();
        format!("{}:latch{}", out, extra)
    });
    ep!("stream_lazy", {
        let mut it = sonic_rs::Deserializer::from_slice(t).into_stream::<LazyValue>();
        let mut out = "END".to_string();
        let mut n = 0;
        while let Some(x) = it.next() {
            n += 1;
            if let Err(e) = x {
                out = e_str(&e);
                break;
            }
            if n > 100000 {
                out = "NOEND".into();
                break;
            }
        }
        let extra = (0..3).filter(|_| it.next().is_some()).count();
        format!("{}:latch{}", out, extra)
    });
    f.join(" ")
}

pub fn run() {
    let mut out = Out::new();
    for line in lines_in() {
        let mut it = line.split(' ');
        let _op = it.next();
        let t = unhex(it.next().unwrap_or("-"));
        out.line(&run_case(&t));
    }
}

pub fn gen(seed: u64, thorough: bool) {
    let mut out = Out::new();
    let mut r = Rng::new(seed ^ 0x20);
    let fixed: &[&[u8]] = &[
        b"", b" ", b"\n\n", b"{\n\n  \"a\": 1e999}", b"{\"a\":\n[1,\n2,\n x]}", b"[1,2", b"{\"a\":1,\"b\":[0,\n\"\xff\"]}",
        b"{\"b\":{\"c\":\n\n1e999}}", b"{\"a\":tru}", b"[1,2]\n\n\nx", b"\xff", b"\n\n\xff", b"{\"a\":\"\\uD800\"}",
        b"null", b"\n\n null", b"[1,\n null]", b"{\"a\":\n\n  null,\"b\":\"A\"}", b"\n \"Nope\"", b"{\"b\":\n{\"B\":\"x\"}}", b"{\"x\":\n \"12\"}", b"{\"x\":\n \"ab\"}",
        b"{\"a\":1,\"b\":\n\n {\"Z\":1}}", b"[null]", b" [\n\n[] ,null ]",
        b"1 2 3 x", b"[1] [2] {", b"{\"a\":1}\n{\"a\":", b"{\"a\":{\"a\":{\"a\":[1,2,{\"a\":nul",
    ];
    for t in fixed {
        out.line(&format!("c20 {}", hex(t)));
    }
    let n = if thorough { 30000 } else { 2500 };
    let cfg = GenCfg { max_depth: 3, max_items: 4, ws: true, dup_keys: false, long_strings: true };
    for i in 0..n {
        // documents that the lookups can descend into: top-level object with keys a, b
        let mut d = Vec::new();
        if i % 3 == 0 {
            d = gen_doc(&mut r, &cfg);
        } else {
            gen_ws(&mut r, &cfg, &mut d);
            d.extend_from_slice(b"{");
            gen_ws(&mut r, &cfg, &mut d);
            d.extend_from_slice(b"\"x\":");
            gen_value(&mut r, &cfg, 1, &mut d);
            d.extend_from_slice(b",\n\"a\" :");
            gen_ws(&mut r, &cfg, &mut d);
            gen_value(&mut r, &cfg, 1, &mut d);
            d.extend_from_slice(b",\"b\":[");
            gen_value(&mut r, &cfg, 2, &mut d);
            d.extend_from_slice(b",\n");
            gen_value(&mut r, &cfg, 2, &mut d);
            d.extend_from_slice(b"]\n}");
            gen_ws(&mut r, &cfg, &mut d);
        }
        // multi-line: turn some blanks into newlines
        for b in d.iter_mut() {
            if *b == b' ' && r.chance(1, 3) {
                *b = b'\n';
            }
        }
        if r.chance(1, 5) {
            out.line(&format!("c20 {}", hex(&d)));
        }
        // every truncation (sampled) and single-byte corruption
        let m = mutate(&mut r, &d);
        out.line(&format!("c20 {}", hex(&m)));
        if !d.is_empty() {
            let cut = r.below(d.len());
            out.line(&format!("c20 {}", hex(&d[..cut])));
        }
        if r.chance(1, 4) {
            // several documents in one input (stream)
            let mut s = d.clone();
            s.push(b'\n');
            s.extend_from_slice(&m);
            out.line(&format!("c20 {}", hex(&s)));
        }
    }
}
