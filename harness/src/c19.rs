//! C19 — converting through the DOM commutes with converting through text.
//! case: `c19 <type id> <hexdoc>`: x = from_str::<T>(doc) (skipped when rejected); then
//!   s = to_string(x) (hex), commute = to_value(x) vs from_str::<Value>(s) (sorted structural dump and ==, both directions),
//!   fromv = from_value::<T>(to_value(x)) == x, froms = from_str::<T>(s) == x, tos = to_string(to_value(x)) re-parsed equals too
//! case: `c19x <name>`: outcomes of the two routes for values where one of them fails
//! case: `c19e <hexdoc a> <hexdoc b>`: equality laws on two DOM values (parsed, re-built, cloned, mutated copies)
use crate::c04::*;
use crate::util::*;
use serde::{de::DeserializeOwned, Serialize};
use sonic_rs::{JsonContainerTrait, JsonValueMutTrait, JsonValueTrait, Value};
use std::borrow::Cow;
use std::collections::BTreeMap;

fn dump_sorted(v: &Value, out: &mut String) {
    if let Some(a) = v.as_array() {
        out.push('[');
        for (i, x) in a.iter().enumerate() {
            if i > 0 {
                out.push(',');
            }
            dump_sorted(x, out);
        }
        out.push(']');
    } else if let Some(o) = v.as_object() {
        let mut ms: Vec<(&str, &Value)> = o.iter().collect();
        ms.sort_by(|a, b| a.0.as_bytes().cmp(b.0.as_bytes()));
        out.push('{');
        for (i, (k, x)) in ms.iter().enumerate() {
            if i > 0 {
                out.push(',');
            }
            out.push_str(&format!("S{}:", hex(k.as_bytes())));
            dump_sorted(x, out);
        }
        out.push('}');
    } else {
        crate::c03::dump(v, out);
    }
}
fn ds(v: &Value) -> String {
    let mut s = String::new();
    dump_sorted(v, &mut s);
    s
}
fn ar(b: bool) -> &'static str {
    if b { "A" } else { "R" }
}

fn case<T: Serialize + DeserializeOwned + PartialEq>(text: &[u8]) -> String {
    let x: T = match sonic_rs::from_slice(text) {
        Ok(x) => x,
        Err(_) => return "x=R".into(),
    };
    let mut f = vec!["x=A".to_string()];
    let s = match sonic_rs::to_string(&x) {
        Ok(s) => s,
        Err(_) => return "x=A s=Err".into(),
    };
    f.push(format!("s={}", hex(s.as_bytes())));
    let tv = sonic_rs::to_value(&x);
    let dom = sonic_rs::from_str::<Value>(&s);
    match (&tv, &dom) {
        (Ok(a), Ok(d)) => {
            f.push(format!("commute={}", ar(ds(a) == ds(d))));
            f.push(format!("eqdom={}", ar(a == d && d == a)));
            f.push(format!("fromv={}", ar(sonic_rs::from_value::<T>(a).map(|y| y == x).unwrap_or(false))));
            let s2 = sonic_rs::to_string(a).unwrap_or_default();
            f.push(format!("tos={}", ar(sonic_rs::from_str::<Value>(&s2).map(|d2| ds(&d2) == ds(d)).unwrap_or(false))));
        }
        (a, d) => f.push(format!("commute=ERR({},{})", a.is_ok(), d.is_ok())),
    }
    f.push(format!("froms={}", ar(sonic_rs::from_str::<T>(&s).map(|y| y == x).unwrap_or(false))));
    f.join(" ")
}

pub fn run_case(id: u32, t: &[u8]) -> String {
    match id {
        1 => case::<bool>(t),
        2 => case::<u8>(t),
        3 => case::<i8>(t),
        4 => case::<u16>(t),
        5 => case::<i16>(t),
        6 => case::<u32>(t),
        7 => case::<i32>(t),
        8 => case::<u64>(t),
        9 => case::<i64>(t),
        10 => case::<u128>(t),
        11 => case::<i128>(t),
        12 => case::<f64>(t),
        13 => case::<char>(t),
        14 => case::<String>(t),
        15 => case::<()>(t),
        16 => case::<Option<i32>>(t),
        17 => case::<(i32, String)>(t),
        18 => case::<Vec<u16>>(t),
        19 => case::<BTreeMap<String, i32>>(t),
        20 => case::<BTreeMap<i32, bool>>(t),
        21 => case::<BTreeMap<bool, u8>>(t),
        22 => case::<BTreeMap<Color, i32>>(t),
        23 => case::<S>(t),
        24 => case::<D>(t),
        25 => case::<E>(t),
        26 => case::<serde_bytes::ByteBuf>(t),
        27 => case::<N>(t),
        28 => case::<U>(t),
        29 => case::<[u8; 3]>(t),
        30 => case::<Vec<Option<bool>>>(t),
        31 => case::<Outer>(t),
        32 => case::<Option<Vec<String>>>(t),
        33 => case::<P>(t),
        34 => case::<BTreeMap<u64, String>>(t),
        35 => case::<BTreeMap<i8, ()>>(t),
        36 => case::<Z>(t),
        42 => case::<Cow<str>>(t),
        44 => case::<Unt>(t),
        45 => case::<Flat>(t),
        46 => case::<Vec<f64>>(t),
        _ => "x=SKIP".into(),
    }
}

fn two_routes<T: Serialize>(x: &T) -> String {
    let text = match sonic_rs::to_string(x) {
        Ok(s) => hex(s.as_bytes()),
        Err(_) => "Err".into(),
    };
    let dom = match sonic_rs::to_value(x) {
        Ok(v) => ds(&v),
        Err(_) => "Err".into(),
    };
    // the same two routes through serde_json: which of them fail is the documented counterpart
    let rt = match serde_json::to_string(x) {
        Ok(s) => hex(s.as_bytes()),
        Err(_) => "Err".into(),
    };
    let rd = if serde_json::to_value(x).is_ok() { "ok" } else { "Err" };
    format!("text={} dom={} ref.text={} ref.dom={}", text, dom, rt, rd)
}

fn special(name: &str) -> String {
    match name {
        "f64_nan" => two_routes(&f64::NAN),
        "f64_inf" => two_routes(&f64::INFINITY),
        "f64_ninf" => two_routes(&f64::NEG_INFINITY),
        "f32_nan" => two_routes(&f32::NAN),
        "vec_nan" => two_routes(&vec![1.0, f64::NAN]),
        "u128_max" => two_routes(&u128::MAX),
        "u128_u64max_plus1" => two_routes(&(u64::MAX as u128 + 1)),
        "u128_u64max" => two_routes(&(u64::MAX as u128)),
        "i128_min" => two_routes(&i128::MIN),
        "i128_i64min_minus1" => two_routes(&(i64::MIN as i128 - 1)),
        "i128_i64min" => two_routes(&(i64::MIN as i128)),
        "key_vec" => two_routes(&BTreeMap::from([(vec![1u8], 1)])),
        "key_option" => two_routes(&BTreeMap::from([(Some(1), 1)])),
        "key_unit" => two_routes(&BTreeMap::from([((), 1)])),
        "key_f64" => two_routes(&std::collections::HashMap::<u32, f64>::from([(1, 1.5)])),
        "key_char" => two_routes(&BTreeMap::from([('c', 1)])),
        "key_tuple" => two_routes(&BTreeMap::from([((1, 2), 1)])),
        "key_newtype_variant" => two_routes(&BTreeMap::from([(N(3), true)])),
        "key_i128" => two_routes(&BTreeMap::from([(1i128, 1), (-5i128, 2)])),
        "key_u128" => two_routes(&BTreeMap::from([(7u128, 1)])),
        "key_i128_big" => two_routes(&BTreeMap::from([(i128::MIN, 1)])),
        "key_u128_big" => two_routes(&BTreeMap::from([(u128::MAX, 1)])),
        "key_i64" => two_routes(&BTreeMap::from([(i64::MIN, 1), (i64::MAX, 2)])),
        "key_u64" => two_routes(&BTreeMap::from([(u64::MAX, 1)])),
        "key_bool" => two_routes(&BTreeMap::from([(true, 1), (false, 2)])),
        "key_i8" => two_routes(&BTreeMap::from([(-128i8, 1)])),
        _ => "bad-name".into(),
    }
}
pub const SPECIALS: &[&str] = &[
    "f64_nan", "f64_inf", "f64_ninf", "f32_nan", "vec_nan", "u128_max", "u128_u64max_plus1", "u128_u64max", "i128_min", "i128_i64min_minus1", "i128_i64min",
    "key_vec", "key_option", "key_unit", "key_f64", "key_char", "key_tuple", "key_newtype_variant",
    "key_i128", "key_u128", "key_i128_big", "key_u128_big", "key_i64", "key_u64", "key_bool", "key_i8",
];

/// equality laws on two texts: DOM values built in different ways from each
fn eq_laws(a: &[u8], b: &[u8]) -> String {
    let va: Value = match sonic_rs::from_slice(a) {
        Ok(v) => v,
        Err(_) => return "laws=SKIP".into(),
    };
    let vb: Value = match sonic_rs::from_slice(b) {
        Ok(v) => v,
        Err(_) => return "laws=SKIP".into(),
    };
    // other ways of building "the same" value: clone, re-serialization, conversion through serde_json, promoted copy
    let variants = |v: &Value| -> Vec<Value> {
        let mut out = vec![v.clone()];
        out.push(sonic_rs::from_str(&sonic_rs::to_string(v).unwrap()).unwrap());
        if let Ok(j) = serde_json::from_slice::<serde_json::Value>(&sonic_rs::to_vec(v).unwrap()) {
            if let Ok(w) = sonic_rs::to_value(&j) {
                out.push(w);
            }
        }
        let mut m = v.clone();
        if m.is_object() {
            let _ = m.as_object_mut();
        } else if m.is_array() {
            let _ = m.as_array_mut();
        }
        out.push(m);
        out
    };
    let xs = variants(&va);
    let ys = variants(&vb);
    let mut f = Vec::new();
    f.push(format!("refl={}", ar(xs.iter().all(|x| x == x) && ys.iter().all(|y| y == y))));
    let mut sym = true;
    let mut consistent = true;
    let base = va == vb;
    for x in &xs {
        for y in &ys {
            if (x == y) != (y == x) {
                sym = false;
            }
            if (x == y) != base {
                consistent = false;
            }
        }
    }
    f.push(format!("sym={}", ar(sym)));
    f.push(format!("build={}", ar(consistent)));
    // every way of building one value is equal to every other
    let mut same = true;
    for x in &xs {
        for x2 in &xs {
            if x != x2 {
                same = false;
            }
        }
    }
    f.push(format!("same={}", ar(same)));
    f.push(format!("eq={}", ar(base)));
    // agreement with a reference: serde_json's equality of the same texts (maps: order-insensitive, last duplicate wins)
    let ja = serde_json::from_slice::<serde_json::Value>(a);
    let jb = serde_json::from_slice::<serde_json::Value>(b);
    if let (Ok(ja), Ok(jb)) = (ja, jb) {
        f.push(format!("ref={}", ar(ja == jb)));
    }
    // primitives
    let mut prim = true;
    if let Some(n) = va.as_i64() {
        prim &= va == n && (vb == n) == base;
    }
    if let Some(s) = va.as_str() {
        prim &= va == s && (vb == s) == base;
    }
    if let Some(bv) = va.as_bool() {
        prim &= va == bv && (vb == bv) == base;
    }
    f.push(format!("prim={}", ar(prim)));
    f.join(" ")
}

pub fn run() {
    let mut out = Out::new();
    for line in lines_in() {
        let p: Vec<String> = line.split(' ').map(|s| s.to_string()).collect();
        let res = guarded(move || match p[0].as_str() {
            "c19x" => special(&p[1]),
            "c19e" => eq_laws(&unhex(&p[1]), &unhex(&p[2])),
            _ => {
                let id: u32 = p.get(1).and_then(|s| s.parse().ok()).unwrap_or(0);
                run_case(id, &unhex(p.get(2).map(|s| s.as_str()).unwrap_or("-")))
            }
        });
        out.line(&res);
    }
}

/// permutes the members of every object of a generated document (as text), to test order-insensitivity
fn permuted(v: &serde_json::Value, r: &mut Rng, out: &mut String) {
    match v {
        serde_json::Value::Array(a) => {
            out.push('[');
            for (i, x) in a.iter().enumerate() {
                if i > 0 {
                    out.push(',');
                }
                permuted(x, r, out);
            }
            out.push(']');
        }
        serde_json::Value::Object(o) => {
            let mut ms: Vec<(&String, &serde_json::Value)> = o.iter().collect();
            for i in (1..ms.len()).rev() {
                let j = r.below(i + 1);
                ms.swap(i, j);
            }
            out.push('{');
            for (i, (k, x)) in ms.iter().enumerate() {
                if i > 0 {
                    out.push(',');
                }
                out.push_str(&serde_json::to_string(k).unwrap());
                out.push(':');
                permuted(x, r, out);
            }
            out.push('}');
        }
        other => out.push_str(&other.to_string()),
    }
}

pub fn gen(seed: u64, thorough: bool) {
    // the typed cases are those of C04 (same generator, other tag)
    let mut out = Out::new();
    for s in SPECIALS {
        out.line(&format!("c19x {s}"));
    }
    let mut r = Rng::new(seed ^ 0x19);
    let fixed: &[(&str, &str)] = &[
        ("{\"a\":1,\"b\":2}", "{\"b\":2,\"a\":1}"), ("{\"a\":1,\"a\":2}", "{\"a\":1,\"b\":9}"), ("{\"a\":1,\"b\":9}", "{\"a\":1,\"a\":2}"), ("{\"a\":1,\"a\":2}", "{\"a\":2,\"a\":1}"),
        ("1", "1.0"), ("1", "1"), ("-0", "0"), ("-0.0", "0.0"), ("[1,2]", "[2,1]"), ("[]", "{}"), ("null", "null"), ("\"a\"", "\"\\u0061\""), ("{\"a\":{\"x\":[1,{\"y\":null}]}}", "{\"a\":{\"x\":[1,{\"y\":null}]}}"),
        ("18446744073709551615", "18446744073709551615"), ("1e2", "100"), ("{}", "{}"), ("[[]]", "[[]]"), ("{\"a\":[]}", "{\"a\":{}}"),
    ];
    for (a, b) in fixed {
        out.line(&format!("c19e {} {}", hex(a.as_bytes()), hex(b.as_bytes())));
    }
    let cfg = GenCfg { max_depth: 4, max_items: 5, ws: false, dup_keys: false, long_strings: false };
    let n = if thorough { 8000 } else { 700 };
    for k in 0..n {
        let d = gen_doc(&mut r, &cfg);
        let b: Vec<u8> = match k % 3 {
            0 => match serde_json::from_slice::<serde_json::Value>(&d) {
                Ok(j) => {
                    let mut s = String::new();
                    permuted(&j, &mut r, &mut s);
                    s.into_bytes()
                }
                Err(_) => d.clone(),
            },
            1 => mutate(&mut r, &d),
            _ => gen_doc(&mut r, &cfg),
        };
        out.line(&format!("c19e {} {}", hex(&d), hex(&b)));
    }
    drop(out);
    // typed cases: re-tag the C04 stream
    crate::c04::gen_tagged(seed, thorough, "c19");
}
