//! C08 — numbers are written so that they read back bit-identically.
//! cases: `c08 f64 <16hex>` | `c08 f32 <8hex>` | `c08 int <width> <decimal>` | `c08 raw <hexlit> <q|b>`
use crate::util::*;
use sonic_rs::{JsonNumberTrait, JsonValueTrait, RawNumber, Value};

fn f64_case(bits: u64) -> String {
    let x = f64::from_bits(bits);
    let text = match sonic_rs::to_string(&x) { Ok(s) => s, Err(_) => return "text=ERR".into() };
    let mut f = vec![format!("text={}", hex(text.as_bytes()))];
    f.push(format!("back={}", match sonic_rs::from_str::<f64>(&text) { Ok(y) => format!("{:016x}", y.to_bits()), Err(_) => "R".into() }));
    // through the DOM
    let v = match Value::try_from(x) { Ok(v) => v, Err(_) => return "text=NONFINITE".into() };
    let vt = sonic_rs::to_string(&v).unwrap_or_else(|_| "ERR".into());
    f.push(format!("domtext={}", hex(vt.as_bytes())));
    f.push(format!("domback={}", match sonic_rs::from_str::<Value>(&vt) {
        Ok(w) => if w.is_f64() { format!("F{:016x}", w.as_f64().unwrap().to_bits()) } else if w.is_u64() { format!("U{}", w.as_u64().unwrap()) } else if w.is_i64() { format!("I{}", w.as_i64().unwrap()) } else { "other".into() },
        Err(_) => "R".into(),
    }));
    f.push(format!("vecsame={}", sonic_rs::to_vec(&x).map(|b| b == text.as_bytes()).unwrap_or(false)));
    f.join(" ")
}

fn f32_case(bits: u32) -> String {
    let x = f32::from_bits(bits);
    let text = match sonic_rs::to_string(&x) { Ok(s) => s, Err(_) => return "text=ERR".into() };
    format!("text={} back={}", hex(text.as_bytes()), match sonic_rs::from_str::<f32>(&text) { Ok(y) => format!("{:08x}", y.to_bits()), Err(_) => "R".into() })
}

macro_rules! int_rt {
    ($t:ty, $s:expr) => {{
        match $s.parse::<$t>() {
            Ok(v) => {
                let text = sonic_rs::to_string(&v).unwrap_or_else(|_| "ERR".into());
                let back = match sonic_rs::from_str::<$t>(&text) { Ok(w) => format!("{}", w), Err(_) => "R".into() };
                format!("text={} back={}", hex(text.as_bytes()), back)
            }
            Err(_) => "text=BADCASE".into(),
        }
    }};
}

fn int_case(width: &str, s: &str) -> String {
    let mut out = match width {
        "i8" => int_rt!(i8, s), "u8" => int_rt!(u8, s), "i16" => int_rt!(i16, s), "u16" => int_rt!(u16, s),
        "i32" => int_rt!(i32, s), "u32" => int_rt!(u32, s), "i64" => int_rt!(i64, s), "u64" => int_rt!(u64, s),
        "i128" => int_rt!(i128, s), "u128" => int_rt!(u128, s),
        _ => "text=BADCASE".into(),
    };
    // DOM for u64 / i64
    if width == "u64" {
        if let Ok(v) = s.parse::<u64>() {
            let val = Value::from(v);
            let t = sonic_rs::to_string(&val).unwrap_or_default();
            let w: Result<Value, _> = sonic_rs::from_str(&t);
            out.push_str(&format!(" dom={}", match w { Ok(w) => if w.is_u64() { format!("U{}", w.as_u64().unwrap()) } else { "wrongkind".into() }, Err(_) => "R".into() }));
        }
    }
    if width == "i64" {
        if let Ok(v) = s.parse::<i64>() {
            let val = Value::from(v);
            let t = sonic_rs::to_string(&val).unwrap_or_default();
            let w: Result<Value, _> = sonic_rs::from_str(&t);
            out.push_str(&format!(" dom={}", match w {
                Ok(w) => if v >= 0 && w.is_u64() { format!("I{}", w.as_u64().unwrap()) } else if w.is_i64() { format!("I{}", w.as_i64().unwrap()) } else { "wrongkind".into() },
                Err(_) => "R".into(),
            }));
        }
    }
    out
}

fn raw_case(lit: &[u8], quoted: bool) -> String {
    let mut doc = Vec::new();
    if quoted { doc.push(b'"'); }
    doc.extend_from_slice(lit);
    if quoted { doc.push(b'"'); }
    match sonic_rs::from_slice::<RawNumber>(&doc) {
        Ok(r) => {
            let s = r.as_str().to_string();
            let ser = sonic_rs::to_string(&r).unwrap_or_else(|_| "ERR".into());
            let std_f = s.parse::<f64>().ok().filter(|x| x.is_finite());
            let acc_ok = r.as_f64().map(|x| x.to_bits()) == std_f.map(|x| x.to_bits())
                && r.as_i64() == s.parse::<i64>().ok()
                && r.as_u64() == s.parse::<u64>().ok();
            format!("raw={} ser={} acc={}", hex(s.as_bytes()), hex(ser.as_bytes()), acc_ok)
        }
        Err(_) => "raw=R".into(),
    }
}

pub fn run() {
    let mut out = Out::new();
    for line in lines_in() {
        let p: Vec<&str> = line.split(' ').collect();
        let r = match p.get(1).copied() {
            Some("f64") => { let b = u64::from_str_radix(p[2], 16).unwrap(); guarded(move || f64_case(b)) }
            Some("f32") => { let b = u32::from_str_radix(p[2], 16).unwrap(); guarded(move || f32_case(b)) }
            Some("int") => { let w = p[2].to_string(); let s = p[3].to_string(); guarded(move || int_case(&w, &s)) }
            Some("raw") => { let l = unhex(p[2]); let q = p[3] == "q"; guarded(move || raw_case(&l, q)) }
            _ => "bad-case".into(),
        };
        out.line(&r);
    }
}

pub fn gen(seed: u64, thorough: bool) {
    let mut out = Out::new();
    let mut r = Rng::new(seed ^ 0x08);
    // f64: every exponent, boundary and random mantissas, both signs
    for e in 0..2047u64 {
        let mans: Vec<u64> = vec![0, 1, (1 << 52) - 1, 1 << 51, r.next() & ((1 << 52) - 1), r.next() & ((1 << 52) - 1)];
        for m in mans.iter().take(if thorough { 6 } else { 3 }) {
            let bits = (e << 52) | m;
            out.line(&format!("c08 f64 {:016x}", bits));
            if e % 5 == 0 {
                out.line(&format!("c08 f64 {:016x}", bits | (1 << 63)));
            }
        }
    }
    for x in [0.0f64, -0.0, 1.0, 0.1, 0.2, 0.3, 1e15, 1e16, 1e17, 1e21, 1e22, 1e23, 1e-5, 1e-7, 123456789012345680.0, 5e-324, 2.2250738585072014e-308, f64::MAX, f64::MIN, 9007199254740993.0] {
        out.line(&format!("c08 f64 {:016x}", x.to_bits()));
    }
    // around powers of ten and two
    for k in -320i32..=308 {
        let x: f64 = format!("1e{}", k).parse().unwrap();
        for d in [-1i64, 0, 1] {
            out.line(&format!("c08 f64 {:016x}", (x.to_bits() as i64 + d) as u64));
        }
    }
    let n = if thorough { 200000 } else { 6000 };
    for _ in 0..n {
        let bits = r.next();
        if f64::from_bits(bits).is_finite() {
            out.line(&format!("c08 f64 {:016x}", bits));
        }
    }
    // doubles of extreme magnitude (biased exponent 0..89 and 1980..2046): their shortest texts are the ones that leave the
    // fast paths of the reader (Clinger, the 64-bit multiply) and go through the 128-bit product of the Eisel-Lemire step and the
    // subnormal branch — a rounding slip there shows on about one in ten thousand of them
    let nx = if thorough { 600000 } else { 60000 };
    for k in 0..nx {
        let e = if k % 2 == 0 { r.below(90) as u64 } else { 1980 + r.below(67) as u64 };
        let bits = (e << 52) | (r.next() & ((1 << 52) - 1)) | if k % 4 < 2 { 0 } else { 1 << 63 };
        out.line(&format!("c08 f64 {:016x}", bits));
    }
    // f32 samples (all 2^32 values are walked by `vh c08 allf32` in the thorough tier)
    let n32 = if thorough { 300000 } else { 8000 };
    for _ in 0..n32 {
        let b = r.next() as u32;
        if f32::from_bits(b).is_finite() {
            out.line(&format!("c08 f32 {:08x}", b));
        }
    }
    // the two f32 values whose shortest digits lie so close to the midpoint of two f32 that reading them as f64 and narrowing
    // (the rule of C07) lands on the neighbour (found by the exhaustive walk of the thorough tier), and their neighbours
    for b in [0x15ae43fcu32, 0x15ae43fd, 0x15ae43fe, 0x95ae43fd] {
        out.line(&format!("c08 f32 {:08x}", b));
    }
    for e in 0..255u32 {
        for m in [0u32, 1, (1 << 23) - 1] {
            out.line(&format!("c08 f32 {:08x}", (e << 23) | m));
        }
    }
    // integers: all 8/16-bit values, boundaries and samples of the wider ones
    for v in i8::MIN..=i8::MAX { out.line(&format!("c08 int i8 {}", v)); }
    for v in u8::MIN..=u8::MAX { out.line(&format!("c08 int u8 {}", v)); }
    let step16 = if thorough { 1 } else { 37 };
    for v in (i16::MIN as i32..=i16::MAX as i32).step_by(step16) { out.line(&format!("c08 int i16 {}", v)); }
    for v in (0..=u16::MAX as u32).step_by(step16) { out.line(&format!("c08 int u16 {}", v)); }
    for (w, lo, hi) in [("i32", i32::MIN as i128, i32::MAX as i128), ("u32", 0, u32::MAX as i128), ("i64", i64::MIN as i128, i64::MAX as i128), ("u64", 0, u64::MAX as i128), ("i128", i128::MIN, i128::MAX)] {
        for d in 0..4i128 {
            out.line(&format!("c08 int {} {}", w, lo + d));
            out.line(&format!("c08 int {} {}", w, hi - d));
        }
        for _ in 0..(if thorough { 2000 } else { 200 }) {
            let x = ((r.next() as i128) << 64 | r.next() as i128) >> r.below(127);
            let x = x.clamp(lo, hi);
            out.line(&format!("c08 int {} {}", w, x));
        }
    }
    for d in 0..4u128 {
        out.line(&format!("c08 int u128 {}", u128::MAX - d));
        out.line(&format!("c08 int u128 {}", d));
    }
    // raw numbers whose separators stand at the edges of the number scanner's 32-byte blocks, well-formed and not
    for t in number_shapes() {
        out.line(&format!("c08 raw {} b", hex(&t)));
        out.line(&format!("c08 raw {} q", hex(&t)));
    }
    // raw numbers: grammar strings (bare and quoted), incl. ungrammatical ones
    let lits: &[&str] = &["0", "-0", "1", "-1", "1.5", "1e5", "1E+5", "1e-5", "0.000", "123456789012345678901234567890", "1.7976931348623157e308", "1e999",
        "01", "1.", ".5", "1e", "-", "+1", "1 ", " 1", "1,", "0x1", "1e5x", "", "1.5.5", "--1", "1e+", "9223372036854775808", "-9223372036854775809", "18446744073709551616"];
    for l in lits {
        out.line(&format!("c08 raw {} b", hex(l.as_bytes())));
        out.line(&format!("c08 raw {} q", hex(l.as_bytes())));
    }
    for _ in 0..(if thorough { 20000 } else { 1500 }) {
        let mut t = Vec::new();
        gen_number(&mut r, &mut t);
        if r.chance(1, 6) {
            t = mutate(&mut r, &t);
            t.retain(|b| *b != b'"' && *b != b'\\' && *b >= 0x20 && *b < 0x7f);
        }
        out.line(&format!("c08 raw {} {}", hex(&t), if r.chance(1, 2) { "q" } else { "b" }));
    }
}

/// exhaustive f32 round trip, harness only (no model): returns the number of failures
pub fn all_f32() {
    use std::sync::atomic::{AtomicU64, Ordering};
    let fails = AtomicU64::new(0);
    let first = std::sync::Mutex::new(Vec::<u32>::new());
    std::thread::scope(|s| {
        for t in 0..16u32 {
            let fails = &fails;
            let first = &first;
            s.spawn(move || {
                let lo = (t as u64) << 28;
                let hi = ((t as u64) + 1) << 28;
                let mut buf = String::new();
                for b in lo..hi {
                    let x = f32::from_bits(b as u32);
                    if !x.is_finite() { continue; }
                    buf.clear();
                    let text = sonic_rs::to_string(&x).unwrap();
                    let ok = matches!(sonic_rs::from_str::<f32>(&text), Ok(y) if y.to_bits() == b as u32);
                    if !ok {
                        fails.fetch_add(1, Ordering::Relaxed);
                        let mut g = first.lock().unwrap();
                        if g.len() < 64 { g.push(b as u32); }
                    }
                }
            });
        }
    });
    let mut v = first.lock().unwrap().clone();
    v.sort();
    println!("allf32 failures={} first={}", fails.load(Ordering::Relaxed), if v.is_empty() { "-".to_string() } else { v.iter().map(|b| format!("{:08x}", b)).collect::<Vec<_>>().join(",") });
}
