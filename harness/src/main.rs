//! `vh <prop> gen <seed> <tier>`  writes one case per line to stdout
//! `vh <prop> run`                reads cases on stdin, runs the real library, one result line per case
mod util;
mod c01;
mod c02;
mod c03;
mod c04;
mod c05;
mod c06;
mod c07;
mod c08;
mod c09;
mod c10;
mod c11;
mod c12;
mod c13;
mod c15;
mod c16;
mod c17;
mod c18;
mod c19;
mod c20;

#[global_allocator]
static GLOBAL: c18::Counting = c18::Counting;

fn main() {
    let args: Vec<String> = std::env::args().collect();
    if args.len() < 3 {
        eprintln!("usage: vh <prop> gen <seed> <tier> | vh <prop> run");
        std::process::exit(2);
    }
    util::quiet_panics();
    let prop = args[1].as_str();
    let mode = args[2].as_str();
    let seed: u64 = args.get(3).and_then(|s| s.parse().ok()).unwrap_or(1);
    let thorough = args.get(4).map(|s| s == "thorough").unwrap_or(false);
    match (prop, mode) {
        ("c01", "gen") => c01::gen(seed, thorough),
        ("c01", "run") => c01::run(),
        ("c01", "child") => c01::child(&args[3], &args[4], args[5].parse().unwrap(), args[6] == "1"),
        ("c02", "gen") => c02::gen(seed, thorough),
        ("c02", "run") => c02::run(),
        ("c03", "gen") => c03::gen(seed, thorough),
        ("c03", "run") => c03::run(),
        ("c04", "gen") => c04::gen(seed, thorough),
        ("c04", "run") => c04::run(),
        ("c05", "gen") => c05::gen(seed, thorough),
        ("c05", "run") => c05::run(),
        ("c06", "gen") => c06::gen(seed, thorough),
        ("c06", "run") => c06::run(),
        ("c07", "gen") => c07::gen(seed, thorough),
        ("c07", "run") => c07::run(),
        ("c08", "gen") => c08::gen(seed, thorough),
        ("c08", "run") => c08::run(),
        ("c08", "allf32") => c08::all_f32(),
        ("c09", "gen") => c09::gen(seed, thorough),
        ("c09", "run") => c09::run(),
        ("c10", "gen") => c10::gen(seed, thorough, false),
        ("c10", "run") => c10::run(true),
        ("c14", "gen") => c10::gen(seed, thorough, true),
        ("c14", "run") => c10::run(false),
        ("c12", "gen") => c12::gen(seed, thorough),
        ("c12", "run") => c12::run(),
        ("c11", "gen") => c11::gen(seed, thorough),
        ("c11", "run") => c11::run(),
        ("c13", "gen") => c13::gen(seed, thorough),
        ("c13", "run") => c13::run(),
        ("c13lf", "gen") => c13::gen_lf(seed, thorough),
        ("c13lf", "run") => c13::run_lf(),
        ("c15", "gen") => c15::gen(seed, thorough),
        ("c15", "run") => c15::run(),
        ("c15q", "gen") => c15::gen_q(seed, thorough),
        ("c15q", "run") => c15::run_q(),
        ("c16", "gen") => c16::gen(seed, thorough),
        ("c16", "run") => c16::run(),
        ("c17", "gen") => c17::gen(seed, thorough),
        ("c17", "run") => c17::run(),
        ("c18", "gen") => c18::gen(seed, thorough),
        ("c18", "run") => c18::run(thorough),
        ("c19", "gen") => c19::gen(seed, thorough),
        ("c19", "run") => c19::run(),
        ("c20", "gen") => c20::gen(seed, thorough),
        ("c20", "run") => c20::run(),
        _ => {
            eprintln!("unknown {prop} {mode}");
            std::process::exit(2);
        }
    }
}
