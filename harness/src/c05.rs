//! C05 — serialization: every writer, compact and pretty, failing writers.
//! gen writes `c05 <seed-less value encoding>`; run re-creates the Rust value from the encoding,
//! serializes it and prints the outputs; the driver checks them against the model.
use crate::util::*;
use serde::ser::{Serialize, SerializeMap, SerializeSeq, SerializeStruct, SerializeStructVariant, SerializeTuple, SerializeTupleVariant, Serializer};
use std::io::Write;

const NAMES: [&str; 6] = ["a", "Bee", "c\"q", "d\\e", "n\n", "é"];

#[derive(Clone, Debug)]
pub enum Key {
    Str(String),
    I(i64),
    U(u64),
    Bool(bool),
    Char(char),
    F(f64),
    BadUnit,
    BadSeq,
    /// a newtype struct around another key (`struct UserId(u64)`): in the data model it is its inner key
    Newtype(Box<Key>),
}

#[derive(Clone, Debug)]
pub enum Sv {
    Null,
    Bool(bool),
    I(i64),
    U(u64),
    I128(i128),
    U128(u128),
    I8(i8),
    U16(u16),
    F64(f64),
    F32(f32),
    Char(char),
    Str(String),
    Bytes(Vec<u8>),
    NoneV,
    SomeV(Box<Sv>),
    Seq(Vec<Sv>),
    Tuple(Vec<Sv>),
    Map(Vec<(Key, Sv)>),
    Struct(Vec<(usize, Sv)>),
    UnitVariant(usize),
    NewtypeVariant(usize, Box<Sv>),
    TupleVariant(usize, Vec<Sv>),
    StructVariant(usize, Vec<(usize, Sv)>),
}

impl Serialize for Key {
    fn serialize<S: Serializer>(&self, s: S) -> Result<S::Ok, S::Error> {
        match self {
            Key::Str(x) => s.serialize_str(x),
            Key::I(x) => s.serialize_i64(*x),
            Key::U(x) => s.serialize_u64(*x),
            Key::Bool(x) => s.serialize_bool(*x),
            Key::Char(x) => s.serialize_char(*x),
            Key::F(x) => s.serialize_f64(*x),
            Key::BadUnit => s.serialize_unit(),
            Key::BadSeq => s.serialize_seq(Some(0))?.end(),
            Key::Newtype(k) => s.serialize_newtype_struct("W", &**k),
        }
    }
}

impl Serialize for Sv {
    fn serialize<S: Serializer>(&self, s: S) -> Result<S::Ok, S::Error> {
        match self {
            Sv::Null => s.serialize_unit(),
            Sv::Bool(b) => s.serialize_bool(*b),
            Sv::I(x) => s.serialize_i64(*x),
            Sv::U(x) => s.serialize_u64(*x),
            Sv::I128(x) => s.serialize_i128(*x),
            Sv::U128(x) => s.serialize_u128(*x),
            Sv::I8(x) => s.serialize_i8(*x),
            Sv::U16(x) => s.serialize_u16(*x),
            Sv::F64(x) => s.serialize_f64(*x),
            Sv::F32(x) => s.serialize_f32(*x),
            Sv::Char(c) => s.serialize_char(*c),
            Sv::Str(x) => s.serialize_str(x),
            Sv::Bytes(b) => s.serialize_bytes(b),
            Sv::NoneV => s.serialize_none(),
            Sv::SomeV(x) => s.serialize_some(&**x),
            Sv::Seq(xs) => {
                let mut q = s.serialize_seq(Some(xs.len()))?;
                for x in xs {
                    q.serialize_element(x)?;
                }
                q.end()
            }
            Sv::Tuple(xs) => {
                let mut q = s.serialize_tuple(xs.len())?;
                for x in xs {
                    q.serialize_element(x)?;
                }
                q.end()
            }
            Sv::Map(ms) => {
                let mut q = s.serialize_map(if ms.len() % 2 == 0 { Some(ms.len()) } else { None })?;
                for (k, v) in ms {
                    q.serialize_entry(k, v)?;
                }
                q.end()
            }
            Sv::Struct(fs) => {
                let mut q = s.serialize_struct("S", fs.len())?;
                for (n, v) in fs {
                    q.serialize_field(NAMES[*n], v)?;
                }
                q.end()
            }
            Sv::UnitVariant(n) => s.serialize_unit_variant("E", 0, NAMES[*n]),
            Sv::NewtypeVariant(n, x) => s.serialize_newtype_variant("E", 1, NAMES[*n], &**x),
            Sv::TupleVariant(n, xs) => {
                let mut q = s.serialize_tuple_variant("E", 2, NAMES[*n], xs.len())?;
                for x in xs {
                    q.serialize_field(x)?;
                }
                q.end()
            }
            Sv::StructVariant(n, fs) => {
                let mut q = s.serialize_struct_variant("E", 3, NAMES[*n], fs.len())?;
                for (k, v) in fs {
                    q.serialize_field(NAMES[*k], v)?;
                }
                q.end()
            }
        }
    }
}

// ------------------------------------------------------------------ encoding for the driver
// n | t | f | N<hex decimal text> | F<16 hex digits of f64 bits> | S<hex> | [v,v] | {K:v,K:v} | V<hexname>:v
// keys: S<hex> | N<hex> | Bt | Bf | F<bits> | X

fn enc_key(k: &Key) -> String {
    match k {
        Key::Str(s) => format!("S{}", hex(s.as_bytes())),
        Key::I(x) => format!("N{}", hex(x.to_string().as_bytes())),
        Key::U(x) => format!("N{}", hex(x.to_string().as_bytes())),
        Key::Bool(b) => format!("B{}", if *b { "t" } else { "f" }),
        Key::Char(c) => format!("S{}", hex(c.to_string().as_bytes())),
        Key::F(x) => {
            if x.is_finite() { format!("F{:016x}", x.to_bits()) } else { "X".into() }
        }
        Key::BadUnit | Key::BadSeq => "X".into(),
        Key::Newtype(k) => enc_key(k),
    }
}

fn enc_fields(fs: &[(usize, Sv)]) -> String {
    format!("{{{}}}", fs.iter().map(|(n, v)| format!("S{}:{}", hex(NAMES[*n].as_bytes()), enc(v))).collect::<Vec<_>>().join(","))
}

pub fn enc(v: &Sv) -> String {
    match v {
        Sv::Null | Sv::NoneV => "n".into(),
        Sv::Bool(b) => (if *b { "t" } else { "f" }).into(),
        Sv::I(x) => format!("N{}", hex(x.to_string().as_bytes())),
        Sv::U(x) => format!("N{}", hex(x.to_string().as_bytes())),
        Sv::I128(x) => format!("N{}", hex(x.to_string().as_bytes())),
        Sv::U128(x) => format!("N{}", hex(x.to_string().as_bytes())),
        Sv::I8(x) => format!("N{}", hex(x.to_string().as_bytes())),
        Sv::U16(x) => format!("N{}", hex(x.to_string().as_bytes())),
        Sv::F64(x) => {
            if x.is_finite() { format!("F{:016x}", x.to_bits()) } else { "n".into() }
        }
        Sv::F32(x) => {
            // f32 is written by ryu's f32 printer: the text must read back (as f32) to the same bits
            if x.is_finite() { format!("G{:08x}", x.to_bits()) } else { "n".into() }
        }
        Sv::Char(c) => format!("S{}", hex(c.to_string().as_bytes())),
        Sv::Str(s) => format!("S{}", hex(s.as_bytes())),
        Sv::Bytes(b) => format!("[{}]", b.iter().map(|x| format!("N{}", hex(x.to_string().as_bytes()))).collect::<Vec<_>>().join(",")),
        Sv::SomeV(x) => enc(x),
        Sv::Seq(xs) | Sv::Tuple(xs) => format!("[{}]", xs.iter().map(enc).collect::<Vec<_>>().join(",")),
        Sv::Map(ms) => format!("{{{}}}", ms.iter().map(|(k, v)| format!("{}:{}", enc_key(k), enc(v))).collect::<Vec<_>>().join(",")),
        Sv::Struct(fs) => enc_fields(fs),
        Sv::UnitVariant(n) => format!("S{}", hex(NAMES[*n].as_bytes())),
        Sv::NewtypeVariant(n, x) => format!("V{}:{}", hex(NAMES[*n].as_bytes()), enc(x)),
        Sv::TupleVariant(n, xs) => format!("V{}:[{}]", hex(NAMES[*n].as_bytes()), xs.iter().map(enc).collect::<Vec<_>>().join(",")),
        Sv::StructVariant(n, fs) => format!("V{}:{}", hex(NAMES[*n].as_bytes()), enc_fields(fs)),
    }
}

fn gen_string(r: &mut Rng) -> String {
    let len = match r.below(8) {
        0 => r.below(210),
        1 => 30 + r.below(6),
        2 => 62 + r.below(6),
        _ => r.below(10),
    };
    let mut s = String::new();
    for _ in 0..len {
        match r.below(24) {
            0 => s.push(*r.pick(&['"', '\\', '\n', '\t', '\r', '\u{8}', '\u{c}', '\u{0}', '\u{1f}', '\u{7f}', '/'])),
            1 => s.push(*r.pick(&['é', '中', '😀', '\u{7ff}', '\u{800}', '\u{ffff}', '\u{10000}', '\u{10ffff}', '\u{80}', '\u{2028}'])),
            2 => s.push(char::from_u32(r.below(0x20) as u32).unwrap()),
            _ => s.push(*r.pick(&['a', 'b', 'z', 'A', '0', '9', ' ', '_', '-', '.', ':', ',', '{', ']'])),
        }
    }
    s
}

fn gen_f64(r: &mut Rng) -> f64 {
    match r.below(10) {
        0 => *r.pick(&[0.0, -0.0, 1.0, -1.0, 0.1, 1e21, 1e-7, 5e-324, f64::MAX, f64::MIN_POSITIVE, 1e16, 123456789.125, 0.3]),
        1 => *r.pick(&[f64::NAN, f64::INFINITY, f64::NEG_INFINITY]),
        2 => (r.next() as i64 as f64) / 1000.0,
        3 => f64::from_bits(r.next()),
        _ => (r.below(2000) as f64 - 1000.0) / 8.0,
    }
}

fn gen_key(r: &mut Rng) -> Key {
    if r.chance(1, 8) {
        return Key::Newtype(Box::new(gen_key(r)));
    }
    match r.below(14) {
        0 => Key::I(r.next() as i64),
        1 => Key::U(r.next()),
        2 => Key::Bool(r.chance(1, 2)),
        3 => Key::Char(*r.pick(&['k', '"', 'é', '\n'])),
        4 => Key::F(gen_f64(r)),
        5 => if r.chance(1, 4) { Key::BadUnit } else { Key::Str("u".into()) },
        6 => if r.chance(1, 4) { Key::BadSeq } else { Key::Str(String::new()) },
        _ => Key::Str(gen_string(r)),
    }
}

pub fn gen_sv(r: &mut Rng, depth: usize) -> Sv {
    let k = if depth >= 4 { r.below(14) } else { r.below(23) };
    match k {
        0 => Sv::Null,
        1 => Sv::Bool(r.chance(1, 2)),
        2 => Sv::I(match r.below(4) { 0 => i64::MIN, 1 => i64::MAX, 2 => -1, _ => r.next() as i64 >> r.below(60) }),
        3 => Sv::U(match r.below(3) { 0 => u64::MAX, 1 => 0, _ => r.next() >> r.below(60) }),
        4 => Sv::I128(match r.below(3) { 0 => i128::MIN, 1 => i128::MAX, _ => (r.next() as i128) << r.below(60) }),
        5 => Sv::U128(match r.below(2) { 0 => u128::MAX, _ => (r.next() as u128) << r.below(64) }),
        6 => Sv::I8(r.next() as i8),
        7 => Sv::U16(r.next() as u16),
        8 => Sv::F64(gen_f64(r)),
        9 => Sv::F32(match r.below(4) { 0 => f32::from_bits(r.next() as u32), 1 => 0.1, 2 => f32::NAN, _ => (r.below(100) as f32) / 4.0 }),
        10 => Sv::Char(*r.pick(&['a', '"', '\\', '\n', 'é', '😀', '\u{0}'])),
        11 | 12 => Sv::Str(gen_string(r)),
        13 => if r.chance(1, 2) { Sv::NoneV } else { Sv::UnitVariant(r.below(NAMES.len())) },
        14 => Sv::Bytes((0..r.below(6)).map(|_| r.next() as u8).collect()),
        15 => Sv::SomeV(Box::new(gen_sv(r, depth + 1))),
        16 => Sv::Seq((0..r.below(5)).map(|_| gen_sv(r, depth + 1)).collect()),
        17 => Sv::Tuple((0..r.below(4)).map(|_| gen_sv(r, depth + 1)).collect()),
        18 => Sv::Map((0..r.below(5)).map(|_| (gen_key(r), gen_sv(r, depth + 1))).collect()),
        19 => Sv::Struct((0..r.below(4)).map(|_| (r.below(NAMES.len()), gen_sv(r, depth + 1))).collect()),
        20 => Sv::NewtypeVariant(r.below(NAMES.len()), Box::new(gen_sv(r, depth + 1))),
        21 => Sv::TupleVariant(r.below(NAMES.len()), (0..r.below(4)).map(|_| gen_sv(r, depth + 1)).collect()),
        _ => Sv::StructVariant(r.below(NAMES.len()), (0..r.below(4)).map(|_| (r.below(NAMES.len()), gen_sv(r, depth + 1))).collect()),
    }
}

/// gen and run share the PRNG: a case is `c05 <seed> <index>`; both sides regenerate the value.
pub fn value_of(seed: u64, idx: u64) -> Sv {
    let mut r = Rng::new(seed.wrapping_mul(0x1000003).wrapping_add(idx) ^ 0x05);
    match idx % 7 {
        0 => {
            // a string of every length 0..260 with an escapable byte at a random position
            let len = (idx / 7 % 260) as usize;
            let mut s = String::new();
            let pos = r.below(len + 1);
            for k in 0..len {
                if k == pos {
                    s.push(*r.pick(&['"', '\\', '\n', '\u{1}', '\u{1f}', 'é', '\u{7f}']));
                }
                s.push((b'a' + (k % 26) as u8) as char);
            }
            Sv::Str(s)
        }
        _ => gen_sv(&mut r, 0),
    }
}

pub fn run_case(v: &Sv) -> String {
    let mut f: Vec<String> = Vec::new();
    let compact = std::panic::catch_unwind(|| sonic_rs::to_vec(v));
    let compact = match compact {
        Ok(x) => x,
        Err(_) => return format!("sv={} compact=PANIC", enc(v)),
    };
    f.push(format!("sv={}", enc(v)));
    match &compact {
        Ok(bytes) => f.push(format!("compact=O:{}", hex(bytes))),
        Err(e) => f.push(format!("compact=E:{:?}", e.classify())),
    }
    match sonic_rs::to_vec_pretty(v) {
        Ok(bytes) => f.push(format!("pretty=O:{}", hex(&bytes))),
        Err(e) => f.push(format!("pretty=E:{:?}", e.classify())),
    }
    // every writer must produce the same bytes as to_vec
    let reference = compact.as_ref().ok().cloned();
    let mut diffs: Vec<String> = Vec::new();
    let mut chk = |name: &str, got: Result<Vec<u8>, ()>| {
        let same = match (&reference, &got) {
            (Some(a), Ok(b)) => a == b,
            (None, Err(())) => true,
            _ => false,
        };
        if !same {
            diffs.push(format!("{}:{}", name, match got { Ok(b) => hex(&b), Err(()) => "ERR".into() }));
        }
    };
    chk("to_string", sonic_rs::to_string(v).map(|s| s.into_bytes()).map_err(|_| ()));
    chk("to_writer_vec", { let mut w = Vec::new(); sonic_rs::to_writer(&mut w, v).map(|_| w).map_err(|_| ()) });
    chk("bytesmut", {
        use bytes::BufMut;
        let b = bytes::BytesMut::new();
        let mut w = b.writer();
        sonic_rs::to_writer(&mut w, v).map(|_| w.into_inner().to_vec()).map_err(|_| ())
    });
    chk("buffered", {
        let mut sink = Vec::new();
        let r = { let w = sonic_rs::writer::BufferedWriter::new(&mut sink); sonic_rs::to_writer(w, v) };
        r.map(|_| sink).map_err(|_| ())
    });
    chk("iobuf", {
        let mut w = std::io::BufWriter::new(Vec::new());
        let r = sonic_rs::to_writer(&mut w, v);
        r.map_err(|_| ()).and_then(|_| w.into_inner().map_err(|_| ()))
    });
    chk("iobuf_small", {
        let mut w = std::io::BufWriter::with_capacity(7, Vec::new());
        let r = sonic_rs::to_writer(&mut w, v);
        r.map_err(|_| ()).and_then(|_| w.into_inner().map_err(|_| ()))
    });
    f.push(format!("writers={}", if diffs.is_empty() { "same".to_string() } else { format!("DIFF:{}", diffs.join(";")) }));
    // pretty through another writer
    let pv = sonic_rs::to_vec_pretty(v).ok();
    let ps = sonic_rs::to_string_pretty(v).ok().map(|s| s.into_bytes());
    let pw = { let mut w = Vec::new(); sonic_rs::to_writer_pretty(&mut w, v).ok().map(|_| w) };
    f.push(format!("prettywriters={}", if pv == ps && pv == pw { "same" } else { "DIFF" }));
    // failing sink: error returned iff the output does not fit; what reached the sink is a prefix
    if let Some(full) = &reference {
        let mut bad = Vec::new();
        let mut ns: Vec<usize> = vec![0, 1, full.len().saturating_sub(1), full.len(), full.len() + 1];
        if full.len() > 4 {
            ns.push(full.len() / 2);
            ns.push(full.len() / 3);
        }
        for n in ns {
            let shared = std::rc::Rc::new(std::cell::RefCell::new(Vec::<u8>::new()));
            struct Sh(std::rc::Rc<std::cell::RefCell<Vec<u8>>>, usize);
            impl Write for Sh {
                fn write(&mut self, buf: &[u8]) -> std::io::Result<usize> {
                    if self.1 == 0 { return Err(std::io::Error::new(std::io::ErrorKind::Other, "full")); }
                    let k = buf.len().min(self.1);
                    self.0.borrow_mut().extend_from_slice(&buf[..k]);
                    self.1 -= k;
                    Ok(k)
                }
                fn flush(&mut self) -> std::io::Result<()> { Ok(()) }
            }
            let w = sonic_rs::writer::BufferedWriter::new(Sh(shared.clone(), n));
            let res = sonic_rs::to_writer(w, v);
            let got = shared.borrow().clone();
            let should_fail = n < full.len();
            let is_prefix = full.starts_with(&got);
            if res.is_err() != should_fail || !is_prefix || (res.is_ok() && got != *full) {
                bad.push(format!("n{}:{}:{}", n, if res.is_err() { "err" } else { "ok" }, hex(&got)));
            }
        }
        f.push(format!("failing={}", if bad.is_empty() { "ok".to_string() } else { format!("BAD:{}", bad.join(";")) }));
        // the same BufferedWriter used again after a failed write: the second output must be the value's text and nothing else
        {
            let shared = std::rc::Rc::new(std::cell::RefCell::new(Vec::<u8>::new()));
            struct Once(std::rc::Rc<std::cell::RefCell<Vec<u8>>>, bool);
            impl Write for Once {
                fn write(&mut self, buf: &[u8]) -> std::io::Result<usize> {
                    if !self.1 {
                        self.1 = true;
                        return Err(std::io::Error::new(std::io::ErrorKind::Other, "not yet"));
                    }
                    self.0.borrow_mut().extend_from_slice(buf);
                    Ok(buf.len())
                }
                fn flush(&mut self) -> std::io::Result<()> { Ok(()) }
            }
            let mut w = sonic_rs::writer::BufferedWriter::new(Once(shared.clone(), false));
            let r1 = sonic_rs::to_writer(&mut w, v);
            let after1 = shared.borrow().clone();
            let r2 = sonic_rs::to_writer(&mut w, v);
            let got = shared.borrow().clone();
            let ok = (full.is_empty() || r1.is_err()) && after1.is_empty() && r2.is_ok() && got == *full;
            f.push(format!("reuse={}", if ok { "ok".to_string() } else { format!("BAD:{}:{}:{}", if r1.is_err() { "err" } else { "ok" }, if r2.is_err() { "err" } else { "ok" }, hex(&got)) }));
        }
    }
    f.join(" ")
}

pub fn run() {
    let mut out = Out::new();
    for line in lines_in() {
        let p: Vec<&str> = line.split(' ').collect();
        let seed: u64 = p.get(1).and_then(|s| s.parse().ok()).unwrap_or(1);
        let idx: u64 = p.get(2).and_then(|s| s.parse().ok()).unwrap_or(0);
        let v = value_of(seed, idx);
        out.line(&guarded(move || run_case(&v)));
    }
}

pub fn gen(seed: u64, thorough: bool) {
    let mut out = Out::new();
    let n = if thorough { 60000 } else { 4000 };
    for i in 0..n {
        out.line(&format!("c05 {} {}", seed, i));
    }
}
