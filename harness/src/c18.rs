//! C18 — the publish-once caches under every interleaving (stateless model checking of the real
//! code through the `sonic_rs::verif` scheduler hook).
//! case: `c18 <kind> <prog0>/<prog1>[/<prog2>]`  kind: l = LazyValue (Arc<String> cache), o = OwnedLazyValue
//!   program letters: R = read the shared value (as_str / get), C = clone the shared value,
//!                    X = read the own clone, D = drop the own clone
//! output per explored schedule: one line `sched=<t[!],t,...> kinds=<L|W|S,...> res=<...> leak=<n>`
use crate::util::*;
use sonic_rs::verif::{set_hook, Point};
use sonic_rs::{JsonValueTrait, LazyValue, OwnedLazyValue};
use std::alloc::{GlobalAlloc, Layout, System};
use std::collections::BTreeMap;
use std::sync::atomic::{AtomicIsize, Ordering};
use std::sync::{Arc, Condvar, Mutex};

/// Counts the bytes allocated and freed while the current thread has `TRACK` set: the library
/// calls of a scenario (creating, reading, cloning, dropping the values) run with it set, so the
/// balance after everything was dropped is exactly what the library leaked.
pub struct Counting;
pub static LIVE: AtomicIsize = AtomicIsize::new(0);
thread_local! { static TRACK: std::cell::Cell<bool> = const { std::cell::Cell::new(false) }; }
fn tracking() -> bool {
    TRACK.try_with(|c| c.get()).unwrap_or(false)
}
pub fn tracked<T>(f: impl FnOnce() -> T) -> T {
    let old = TRACK.with(|c| c.replace(true));
    let r = f();
    TRACK.with(|c| c.set(old));
    r
}
pub fn untracked<T>(f: impl FnOnce() -> T) -> T {
    let old = TRACK.with(|c| c.replace(false));
    let r = f();
    TRACK.with(|c| c.set(old));
    r
}
unsafe impl GlobalAlloc for Counting {
    unsafe fn alloc(&self, l: Layout) -> *mut u8 {
        if tracking() { LIVE.fetch_add(l.size() as isize, Ordering::Relaxed); }
        System.alloc(l)
    }
    unsafe fn dealloc(&self, p: *mut u8, l: Layout) {
        if tracking() { LIVE.fetch_sub(l.size() as isize, Ordering::Relaxed); }
        // freed memory is overwritten, so that a reference that outlives its buffer reads 0xDD bytes (C01: results kept after
        // the iterator / deserializer that produced them is gone)
        if l.size() <= (1 << 16) { std::ptr::write_bytes(p, 0xDD, l.size()); }
        System.dealloc(p, l)
    }
    unsafe fn realloc(&self, p: *mut u8, l: Layout, new: usize) -> *mut u8 {
        if tracking() { LIVE.fetch_add(new as isize - l.size() as isize, Ordering::Relaxed); }
        System.realloc(p, l, new)
    }
}

thread_local! { static TID: std::cell::Cell<usize> = std::cell::Cell::new(usize::MAX); }

#[derive(Default)]
struct State {
    waiting: BTreeMap<usize, Point>,
    finished: usize,
    grant: Option<(usize, bool)>,
}

struct Shared {
    st: Mutex<State>,
    cv: Condvar,
}

#[derive(Clone, Debug)]
pub struct Step {
    tid: usize,
    spur: bool,
    point: Point,
    enabled: Vec<usize>,
}

const DOC_L: &str = r#"{"k":"a\né escaped \"string\" long enough to live on the heap, not inline ............"}"#;
const EXPECT: &str = "a\n\u{e9} escaped \"string\" long enough to live on the heap, not inline ............";
const DOC_O: &str = r#"{"k":{"x":"inner \n string on the heap ........................................","y":[1,2,3]}}"#;

/// run the scenario once under the schedule prefix; returns the full trace and the result string
fn run_once(kind: &str, progs: &[String], prefix: &[(usize, bool)]) -> (Vec<Step>, String, isize) {
    let n = progs.len();
    let sh = Arc::new(Shared { st: Mutex::new(State::default()), cv: Condvar::new() });
    let base = LIVE.load(Ordering::SeqCst);
    let mut trace: Vec<Step> = Vec::new();
    let mut results: Vec<String> = Vec::new();
    {
        // the shared value
        let lv: Option<LazyValue> = if kind == "l" { Some(tracked(|| sonic_rs::get(DOC_L, &["k"]).unwrap())) } else { None };
        let ov: Option<OwnedLazyValue> = if kind == "o" { Some(tracked(|| sonic_rs::get(DOC_O, &["k"]).unwrap().into())) } else { None };
        let sh2 = sh.clone();
        set_hook(Some(Arc::new(move |p: Point| {
            let t = TID.with(|c| c.get());
            if t == usize::MAX {
                return false; // not a scheduled thread (setup / teardown)
            }
            // the scheduler's own bookkeeping must not count as library allocations
            let was = TRACK.with(|c| c.replace(false));
            let mut g = sh2.st.lock().unwrap();
            g.waiting.insert(t, p);
            sh2.cv.notify_all();
            loop {
                if let Some((u, spur)) = g.grant {
                    if u == t {
                        g.grant = None;
                        g.waiting.remove(&t);
                        drop(g);
                        TRACK.with(|c| c.set(was));
                        return spur;
                    }
                }
                g = sh2.cv.wait(g).unwrap();
            }
        })));
        let res_slots: Vec<Mutex<String>> = (0..n).map(|_| Mutex::new(String::new())).collect();
        std::thread::scope(|scope| {
            for (t, prog) in progs.iter().enumerate() {
                let sh3 = sh.clone();
                let lv = &lv;
                let ov = &ov;
                let slot = &res_slots[t];
                scope.spawn(move || {
                    TID.with(|c| c.set(t));
                    let mut out = Vec::new();
                    let mut lclone: Option<LazyValue> = None;
                    let mut oclone: Option<OwnedLazyValue> = None;
                    for op in prog.chars() {
                        match (op, kind) {
                            ('R', "l") => {
                                let s = tracked(|| lv.as_ref().unwrap().as_str());
                                out.push(match s { Some(x) if x == EXPECT => format!("R{:x}", x.as_ptr() as usize), Some(_) => "RWRONG".into(), None => "RNONE".into() });
                            }
                            ('C', "l") => lclone = Some(tracked(|| lv.as_ref().unwrap().clone())),
                            ('X', "l") => {
                                let s = tracked(|| lclone.as_ref().and_then(|c| c.as_str().map(|x| x == EXPECT)));
                                out.push(match s { Some(true) => "Xok".into(), Some(false) => "XWRONG".into(), None => "XNONE".into() });
                            }
                            ('D', "l") => tracked(|| lclone = None),
                            ('R', "o") => {
                                // `get` loads the one-level parse of the shared value (the cached Box<Parsed>);
                                // the child is an array, so no second cache is involved
                                let s = tracked(|| ov.as_ref().unwrap().get("y").map(|v| (v.is_array(), v as *const OwnedLazyValue as usize)));
                                out.push(match s { Some((true, p)) => format!("R{:x}", p), Some((false, _)) => "RWRONG".into(), None => "RNONE".into() });
                            }
                            ('C', "o") => oclone = Some(tracked(|| ov.as_ref().unwrap().clone())),
                            ('X', "o") => {
                                let ok = tracked(|| oclone.as_ref().and_then(|c| c.get("y").map(|v| v.is_array())));
                                out.push(match ok { Some(true) => "Xok".into(), _ => "XWRONG".into() });
                            }
                            ('D', "o") => tracked(|| oclone = None),
                            _ => {}
                        }
                    }
                    tracked(|| { drop(lclone); drop(oclone); });
                    *slot.lock().unwrap() = out.join(";");
                    TID.with(|c| c.set(usize::MAX));
                    let mut g = sh3.st.lock().unwrap();
                    g.finished += 1;
                    sh3.cv.notify_all();
                });
            }
            // scheduler
            loop {
                let mut g = sh.st.lock().unwrap();
                while g.grant.is_some() || g.waiting.len() + g.finished < n {
                    g = sh.cv.wait(g).unwrap();
                }
                if g.waiting.is_empty() {
                    break;
                }
                let enabled: Vec<usize> = g.waiting.keys().copied().collect();
                let (u, spur) = if trace.len() < prefix.len() {
                    let (u, s) = prefix[trace.len()];
                    if !g.waiting.contains_key(&u) { (enabled[0], false) } else { (u, s) }
                } else {
                    (enabled[0], false)
                };
                let point = g.waiting[&u];
                trace.push(Step { tid: u, spur, point, enabled });
                g.grant = Some((u, spur));
                sh.cv.notify_all();
            }
        });
        set_hook(None);
        for s in res_slots.iter() {
            results.push(s.lock().unwrap().clone());
        }
        tracked(|| { drop(lv); drop(ov); });
    }
    let leak = LIVE.load(Ordering::SeqCst) - base;
    (trace, results.join("|"), leak)
}

fn explore(kind: &str, progs: &[String], cap: usize, out: &mut Out) {
    // DFS over schedule prefixes (stateless model checking)
    let mut stack: Vec<Vec<(usize, bool)>> = vec![vec![]];
    let mut runs = 0usize;
    while let Some(prefix) = stack.pop() {
        if runs >= cap {
            out.line(&format!("capped runs={}", runs));
            break;
        }
        // warm-up allocation effects (thread spawn caches) are excluded by measuring inside run_once
        let (trace, res, leak) = run_once(kind, progs, &prefix);
        runs += 1;
        let sched: Vec<String> = trace.iter().map(|s| format!("{}{}", s.tid, if s.spur { "!" } else { "" })).collect();
        let kinds: Vec<&str> = trace.iter().map(|s| match s.point { Point::Load => "L", Point::CompareExchangeWeak => "W", Point::CompareExchange => "S" }).collect();
        out.line(&format!("sched={} kinds={} res={} leak={}", sched.join(","), kinds.join(","), res, leak));
        for i in prefix.len()..trace.len() {
            for &u in &trace[i].enabled {
                if u != trace[i].tid {
                    let mut p: Vec<(usize, bool)> = trace[..i].iter().map(|s| (s.tid, s.spur)).collect();
                    p.push((u, false));
                    stack.push(p);
                }
            }
            // a weak compare-exchange may also fail spuriously
            if trace[i].point == Point::CompareExchangeWeak && !trace[i].spur {
                let mut p: Vec<(usize, bool)> = trace[..i].iter().map(|s| (s.tid, s.spur)).collect();
                p.push((trace[i].tid, true));
                stack.push(p);
            }
        }
    }
    out.line(&format!("explored runs={}", runs));
}

pub fn run(thorough: bool) {
    let mut out = Out::new();
    for line in lines_in() {
        let p: Vec<&str> = line.split(' ').collect();
        let kind = p.get(1).copied().unwrap_or("l");
        let progs: Vec<String> = p.get(2).copied().unwrap_or("R/R").split('/').map(|s| s.to_string()).collect();
        let cap: usize = p.get(3).and_then(|s| s.parse().ok()).unwrap_or(if thorough { 20000 } else { 1500 });
        out.line(&format!("scenario kind={} progs={}", kind, progs.join("/")));
        // one untraced warm-up run so that lazily initialised runtime structures do not count as leaks
        let _ = run_once(kind, &progs, &[]);
        explore(kind, &progs, cap, &mut out);
    }
}

pub fn gen(_seed: u64, thorough: bool) {
    let mut out = Out::new();
    let scen2 = ["R/R", "R/C", "RR/R", "R/CXD", "CXD/CXD", "RCD/R", "R/CD", "RC/RD"];
    let scen3 = ["R/R/R", "R/R/CXD", "R/C/C", "RR/R/CD"];
    for k in ["l", "o"] {
        for s in scen2 {
            out.line(&format!("c18 {} {}", k, s));
        }
        for s in scen3 {
            out.line(&format!("c18 {} {} {}", k, s, if thorough { 30000 } else { 600 }));
        }
    }
}
