//! C17 — the vector primitives, called directly (in whichever backend this binary was built with).
//! case: `c17 px <hex u64>`                 prefix_xor                    -> `r=<hex u64>`
//!       `c17 ns <hex 64 bytes>`            get_nonspace_bits             -> `r=<hex u64>`
//!       `c17 esc <hex prev> <hex backslash mask>`  get_escaped_branchless_u64 -> `r=<mask> c=<carry>`
//!       `c17 sb <hex 64 bytes> <hex prev_instring> <hex prev_escaped>`  get_string_bits -> `r=<mask> pi=.. pe=..`
//!       `c17 cb <hex text> o|a`          skip_container_loop over consecutive blocks -> `r=<bytes consumed>|none l=.. rr=..`
//!       `c17 ss <hex text>`              skip_string_unchecked on the text after an opening quote -> `r=<bytes consumed>|none esc=0|1`
//!       `c17 d2i <hex 16 bytes> <need>`    simd_str2int (first byte a digit, need in 1..=16) -> `r=<sum> n=<count>`
//!       `c17 bm <16|32|64> <hex x> <hex y> <n>`  BitMask of the integer masks: first_offset / before / all_zero / clear_high_bits(n), n in 0..=LEN
//!       `c17 v <lanes> <hex bytes> <hex c>` u8xN eq/le, i8xN eq/le/gt against splat(c) -> `eq=.. le=.. ieq=.. ile=.. igt=..`
use crate::util::*;
use sonic_simd::{i8x16, i8x32, i8x64, u8x16, u8x32, u8x64, BitMask, Mask, Simd};

macro_rules! lanes {
    ($u:ty, $i:ty, $n:expr, $a:expr, $c:expr) => {{
        let a: &[u8] = $a;
        let c: u8 = $c;
        let vu = unsafe { <$u>::loadu(a.as_ptr()) };
        let vi = unsafe { <$i>::loadu(a.as_ptr()) };
        let eq = vu.eq(&<$u>::splat(c)).bitmask() as u64;
        let le = vu.le(&<$u>::splat(c)).bitmask() as u64;
        let ieq = vi.eq(&<$i>::splat(c as i8)).bitmask() as u64;
        let ile = vi.le(&<$i>::splat(c as i8)).bitmask() as u64;
        let igt = vi.gt(&<$i>::splat(c as i8)).bitmask() as u64;
        // store round trip
        let mut back = [0u8; $n];
        unsafe { vu.storeu(back.as_mut_ptr()) };
        format!("eq={:x} le={:x} ieq={:x} ile={:x} igt={:x} store={}", eq, le, ieq, ile, igt, if &back[..] == &a[..$n] { "A" } else { "R" })
    }};
}

pub fn run() {
    let mut out = Out::new();
    for line in lines_in() {
        let p: Vec<String> = line.split(' ').map(|s| s.to_string()).collect();
        let res = guarded(move || match p[1].as_str() {
            "px" => format!("r={:x}", sonic_rs::verif::prefix_xor(u64::from_str_radix(&p[2], 16).unwrap())),
            "ns" => {
                let b = unhex(&p[2]);
                let mut a = [0u8; 64];
                a.copy_from_slice(&b[..64]);
                format!("r={:x}", sonic_rs::verif::get_nonspace_bits(&a))
            }
            "v" => {
                let n: usize = p[2].parse().unwrap();
                let a = unhex(&p[3]);
                let c = unhex(&p[4])[0];
                match n {
                    16 => lanes!(u8x16, i8x16, 16, &a, c),
                    32 => lanes!(u8x32, i8x32, 32, &a, c),
                    _ => lanes!(u8x64, i8x64, 64, &a, c),
                }
            }
            "esc" => {
                let (e, p2) = sonic_rs::verif::escaped_bits(u64::from_str_radix(&p[2], 16).unwrap(), u64::from_str_radix(&p[3], 16).unwrap());
                format!("r={:x} c={:x}", e, p2)
            }
            "sb" => {
                let b = unhex(&p[2]);
                let mut a = [0u8; 64];
                a.copy_from_slice(&b[..64]);
                let (m, pi, pe) = sonic_rs::verif::string_bits(&a, u64::from_str_radix(&p[3], 16).unwrap(), u64::from_str_radix(&p[4], 16).unwrap());
                format!("r={:x} pi={:x} pe={:x}", m, pi, pe)
            }
            "cb" => {
                // a whole text through consecutive blocks (the last one zero-padded), as skip_container does
                let data = unhex(&p[2]);
                let (left, right) = if p[3] == "o" { (b'{', b'}') } else { (b'[', b']') };
                let mut st = (0u64, 0u64, 0usize, 0usize);
                let mut eaten = 0usize;
                let mut res: Option<usize> = None;
                let mut rest = &data[..];
                loop {
                    let mut a = [0u8; 64];
                    let whole = rest.len() >= 64;
                    let n = rest.len().min(64);
                    a[..n].copy_from_slice(&rest[..n]);
                    let (c, st2) = sonic_rs::verif::container_block(&a, st, left, right);
                    st = st2;
                    if let Some(c) = c {
                        res = Some(eaten + c as usize);
                        break;
                    }
                    if !whole {
                        break;
                    }
                    eaten += 64;
                    rest = &rest[64..];
                }
                match res {
                    Some(n) => format!("r={} l={} rr={}", n, st.2, st.3),
                    None => format!("r=none l={} rr={} pi={:x} pe={:x}", st.2, st.3, st.0, st.1),
                }
            }
            "ss" => {
                let data = if p.len() > 2 { unhex(&p[2]) } else { Vec::new() };
                match sonic_rs::verif::skip_string(&data) {
                    Some((n, esc)) => format!("r={} esc={}", n, esc as u8),
                    None => "r=none".to_string(),
                }
            }
            "sp" => {
                // skip_space / skip_space_peek / eat with the cached bitmap after every operation
                let data = if p[2] == "-" { Vec::new() } else { unhex(&p[2]) };
                let ops = p.get(3).map(|s| s.as_bytes().to_vec()).unwrap_or_default();
                let tr = sonic_rs::verif::skip_space_trace(&data, &ops);
                let parts: Vec<String> = tr
                    .iter()
                    .map(|(b, i, bits, st)| format!("{}:{}:{:x}:{}", b.map(|x| x.to_string()).unwrap_or_else(|| "-".into()), i, bits, st))
                    .collect();
                format!("t={}", parts.join(";"))
            }
            "bm" => {
                let w: usize = p[2].parse().unwrap();
                let x = u64::from_str_radix(&p[3], 16).unwrap();
                let y = u64::from_str_radix(&p[4], 16).unwrap();
                let n: usize = p[5].parse().unwrap();
                macro_rules! bm {
                    ($t:ty) => {{
                        let (x, y) = (x as $t, y as $t);
                        format!("fo={} before={} zero={} chb={:x}", if x == 0 { "-".to_string() } else { x.first_offset().to_string() },
                            if x.before(&y) { 1 } else { 0 }, if x.all_zero() { 1 } else { 0 }, x.clear_high_bits(n) as u64)
                    }};
                }
                match w {
                    16 => bm!(u16),
                    32 => bm!(u32),
                    _ => bm!(u64),
                }
            }
            "d2i" => {
                let a = unhex(&p[2]);
                let need: usize = p[3].parse().unwrap();
                let (sum, n) = sonic_number::verif_str2int(&a, need);
                format!("r={} n={}", sum, n)
            }
            _ => "bad-op".into(),
        });
        out.line(&res);
    }
}

pub fn gen(seed: u64, thorough: bool) {
    let mut out = Out::new();
    let mut r = Rng::new(seed ^ 0x17);
    // prefix_xor: single bits, pairs, random
    for i in 0..64 {
        out.line(&format!("c17 px {:x}", 1u64 << i));
        out.line(&format!("c17 px {:x}", (1u64 << i) | (1u64 << ((i * 7 + 3) % 64))));
    }
    for x in [0u64, u64::MAX, 0x5555_5555_5555_5555, 0xaaaa_aaaa_aaaa_aaaa, 1 << 63] {
        out.line(&format!("c17 px {:x}", x));
    }
    let n = if thorough { 20000 } else { 1500 };
    for _ in 0..n {
        out.line(&format!("c17 px {:x}", r.next()));
    }
    // the integer bit masks (`BitMask` for u16 / u32 / u64): single bits and pairs against each other (disjoint masks, as the
    // byte classes of a block are), clear_high_bits for EVERY n in 0..=LEN
    for w in [16usize, 32, 64] {
        let full: u64 = if w == 64 { u64::MAX } else { (1u64 << w) - 1 };
        for n in 0..=w {
            for x in [full, 1u64, 1u64 << (w - 1), 0x5555_5555_5555_5555 & full, r.next() & full] {
                out.line(&format!("c17 bm {w} {:x} 0 {n}", x));
            }
        }
        for i in 0..w {
            for j in [0usize, i / 2, (i + 1) % w, w - 1] {
                let x = 1u64 << i;
                let y = if j == i { 0 } else { 1u64 << j };
                out.line(&format!("c17 bm {w} {:x} {:x} {}", x, y, i % (w + 1)));
                out.line(&format!("c17 bm {w} {:x} {:x} {}", x | (r.next() & full & !(y) & !((1u64 << i) - 1)), y, j));
            }
        }
        out.line(&format!("c17 bm {w} 0 0 0"));
        out.line(&format!("c17 bm {w} 0 1 {w}"));
    }
    // get_nonspace_bits: all 256 byte values in every lane (lane = value + k mod 64), random blocks of JSON-like bytes
    for k in 0..64usize {
        for base in (0..256usize).step_by(64) {
            let block: Vec<u8> = (0..64).map(|i| ((base + (i + k) % 64) % 256) as u8).collect();
            out.line(&format!("c17 ns {}", hex(&block)));
        }
    }
    for _ in 0..n / 2 {
        let block: Vec<u8> = (0..64).map(|_| *r.pick(&[b' ', b'\t', b'\n', b'\r', b'"', b'\\', b'a', b',', 0u8, 0x0b, 0x0c, 0x85, 0xa0, 0x20, 0x1f, 0x21])).collect();
        out.line(&format!("c17 ns {}", hex(&block)));
    }
    // lane-wise comparisons: every byte value in every lane against a few constants, and random
    for lanes in [16usize, 32, 64] {
        for base in 0..(256 / lanes.min(256)) {
            for rot in [0usize, 1, 7] {
                let a: Vec<u8> = (0..lanes).map(|i| ((base * lanes + (i + rot) % lanes) % 256) as u8).collect();
                for c in [0u8, 0x1f, 0x20, 0x22, 0x5c, 0x7f, 0x80, 0xff] {
                    out.line(&format!("c17 v {} {} {:02x}", lanes, hex(&a), c));
                }
            }
        }
        for _ in 0..n / 4 {
            let a: Vec<u8> = (0..lanes).map(|_| (r.next() & 0xff) as u8).collect();
            out.line(&format!("c17 v {} {} {:02x}", lanes, hex(&a), (r.next() & 0xff) as u8));
        }
    }
    // simd_str2int: every prefix length with every kind of terminator, every need; all-9 / all-0 / random digits
    let terms: [u8; 12] = [b'/', b':', b'.', b'e', b'E', b'"', 0, 0x7f, 0x80, 0xff, b' ', b'-'];
    for len in 1..=16usize {
        for need in 1..=16usize {
            for kind in 0..4 {
                for (ti, t) in terms.iter().enumerate() {
                    if len == 16 && ti > 0 { break; }
                    if (kind == 3) && !thorough && ti > 3 { break; }
                    let mut a = [0u8; 16];
                    for (i, slot) in a.iter_mut().enumerate() {
                        *slot = if i < len {
                            match kind { 0 => b'9', 1 => b'0', 2 => b'0' + ((i * 7 + len) % 10) as u8, _ => b'0' + (r.next() % 10) as u8 }
                        } else if i == len { *t } else if kind % 2 == 0 { b'0' + (r.next() % 10) as u8 } else { (r.next() & 0xff) as u8 };
                    }
                    out.line(&format!("c17 d2i {} {}", hex(&a), need));
                }
            }
        }
    }
    for _ in 0..n {
        let mut a = [0u8; 16];
        for slot in a.iter_mut() {
            *slot = if r.next() % 8 == 0 { (r.next() & 0xff) as u8 } else { b'0' + (r.next() % 10) as u8 };
        }
        a[0] = b'0' + (r.next() % 10) as u8;
        out.line(&format!("c17 d2i {} {}", hex(&a), 1 + r.next() % 16));
    }
    // escape masks: runs of backslashes of every length at every offset, with and without carry; random masks
    for run in 1..=9usize {
        for off in (0..64usize).step_by(if thorough { 1 } else { 5 }) {
            let mut m = 0u64;
            for k in 0..run { if off + k < 64 { m |= 1u64 << (off + k); } }
            for prev in [0u64, 1] {
                out.line(&format!("c17 esc {:x} {:x}", prev, m));
                out.line(&format!("c17 esc {:x} {:x}", prev, m | (m << 11) | (m >> 17)));
            }
        }
    }
    for _ in 0..n {
        let m = r.next() & r.next();
        out.line(&format!("c17 esc {:x} {:x}", r.next() & 1, if r.next() % 3 == 0 { m } else { r.next() | m }));
    }
    // string bits: blocks of JSON-like bytes with quotes, backslashes, braces; all four carries
    let alphabet: [u8; 12] = [b'"', b'\\', b'{', b'}', b'[', b']', b'a', b' ', b',', b':', b'1', b'\\'];
    for _ in 0..n {
        let block: Vec<u8> = (0..64).map(|_| *r.pick(&alphabet)).collect();
        let pi = if r.next() % 2 == 0 { 0u64 } else { u64::MAX };
        out.line(&format!("c17 sb {} {:x} {:x}", hex(&block), pi, r.next() & 1));
    }
    // whole texts through the block loop: generated documents (the part after the opening bracket), random brace soups, long texts
    let cfg = GenCfg { max_depth: 5, max_items: 6, ws: true, dup_keys: true, long_strings: true };
    for k in 0..n {
        let d = gen_doc(&mut r, &cfg);
        if d.len() > 1 && (d[0] == b'{' || d[0] == b'[') {
            let kind = if d[0] == b'{' { "o" } else { "a" };
            let mut t = d[1..].to_vec();
            // followed by more text, so that the scan has to stop at the right place
            t.extend_from_slice(b" , \"}]\" ]}");
            out.line(&format!("c17 cb {} {}", hex(&t), kind));
        }
        let len = 1 + (r.next() % if k % 7 == 0 { 300 } else { 90 }) as usize;
        let soup: Vec<u8> = (0..len).map(|_| *r.pick(&alphabet)).collect();
        out.line(&format!("c17 cb {} {}", hex(&soup), if k % 2 == 0 { "o" } else { "a" }));
    }
    // skip_string_unchecked: a closing quote at every offset 0..100 after plain bytes; backslash runs of every length 1..6 ending
    // at every offset around the 32-byte edges, followed by a quote (escaped or not) and a second quote; random soups; unterminated
    for off in 0..100usize {
        let mut t = vec![b'a'; off];
        t.push(b'"');
        t.extend_from_slice(b"x\"y");
        out.line(&format!("c17 ss {}", hex(&t)));
        out.line(&format!("c17 ss {}", hex(&t[..off])));
    }
    for run in 1..=6usize {
        for end in (0..100usize).step_by(if thorough { 1 } else { 3 }) {
            for tail in [&b"\"b\" c"[..], &b"\""[..], &b""[..], &b"n\\\"\"\""[..]] {
                let mut t = vec![b'a'; end.saturating_sub(run)];
                t.extend(std::iter::repeat(b'\\').take(run));
                t.extend_from_slice(tail);
                out.line(&format!("c17 ss {}", hex(&t)));
                // the same with enough text behind it that the next block is a whole one too
                t.extend(std::iter::repeat(b'z').take(40));
                t.extend_from_slice(b"\\\"q\" ");
                out.line(&format!("c17 ss {}", hex(&t)));
            }
        }
    }
    // skip_space with its cached bitmap: texts of blanks with a few other bytes (runs crossing the 64-byte windows, windows
    // without any blank, the end of the input inside / at / behind a window), driven by operation sequences
    {
        let opsets: [&str; 8] = ["sssssssssss", "spspspspsps", "s1s2s3s9s9s", "ps9ps9ps9ps", "s9999999s9s", "pppp1pppp1p", "s1p1s1p1s1p", "9s9s9s9s9s9"];
        let nsp = if thorough { 4000 } else { 500 };
        for k in 0..nsp {
            let len = match k % 6 { 0 => (r.next() % 8) as usize, 1 => 60 + (r.next() % 10) as usize, 2 => 120 + (r.next() % 20) as usize, _ => (r.next() % 260) as usize };
            let density = [1u64, 3, 8, 30, 90][(k / 6) % 5];
            let data: Vec<u8> = (0..len)
                .map(|_| if r.next() % density == 0 { *r.pick(&[b'x', b'"', b'1', b'{', 0u8, 0x0b, 0xa0]) } else { *r.pick(&[b' ', b' ', b' ', b'\n', b'\t', b'\r']) })
                .collect();
            let ops = if k % 3 == 0 {
                (0..(4 + r.next() % 14)).map(|_| *r.pick(&[b's', b's', b'p', b'1', b'2', b'7', b'9'])).map(|c| c as char).collect::<String>()
            } else {
                opsets[(r.next() % 8) as usize].to_string()
            };
            out.line(&format!("c17 sp {} {}", if data.is_empty() { "-".to_string() } else { hex(&data) }, ops));
        }
    }
    let salpha: [u8; 8] = [b'"', b'\\', b'\\', b'a', b'a', b'a', b'u', b'{'];
    for k in 0..n {
        let len = (r.next() % if k % 5 == 0 { 200 } else { 70 }) as usize;
        let dense = k % 3 == 0;
        let mut soup: Vec<u8> = (0..len).map(|_| if dense { *r.pick(&salpha) } else if r.next() % 12 == 0 { *r.pick(&salpha) } else { b'z' }).collect();
        out.line(&format!("c17 ss {}", hex(&soup)));
        // quote-free prefix with backslashes, so that the carry crosses block edges, then the soup
        let plen = (r.next() % 100) as usize;
        let mut t: Vec<u8> = (0..plen).map(|_| if r.next() % 3 == 0 { b'\\' } else { b'y' }).collect();
        t.append(&mut soup);
        t.extend(std::iter::repeat(b'z').take(34));
        out.line(&format!("c17 ss {}", hex(&t)));
    }
}
