//! C17 — the vector primitives, called directly (in whichever backend this binary was built with).
//! case: `c17 px <hex u64>`                 prefix_xor                    -> `r=<hex u64>`
//!       `c17 ns <hex 64 bytes>`            get_nonspace_bits             -> `r=<hex u64>`
//!       `c17 d2i <hex 16 bytes> <need>`    simd_str2int (first byte a digit, need in 1..=16) -> `r=<sum> n=<count>`
//!       `c17 v <lanes> <hex bytes> <hex c>` u8xN eq/le, i8xN eq/le/gt against splat(c) -> `eq=.. le=.. ieq=.. ile=.. igt=..`
use crate::util::*;
use sonic_simd::{i8x16, i8x32, i8x64, u8x16, u8x32, u8x64, Mask, Simd};

macro_rules! lanes {
    ($u:ty, $i:ty, $n:expr, $a:expr, $c:expr) => {{
        let a: &[u8] = $a;
        let c: u8 = $c;
        let vu = unsafe { <$u>::loadu(a.as_ptr()) };
        let vi = unsafe { <$i>::loadu(a.as_ptr()) };
        let eq = vu.eq(&<$u>::splat(c)).bitmask() as u64;
        let le = vu.le(&<$u>::splat(c)).bitmask() as u64;
        let ieq = vi.eq(&<$i>::splat(c as i8)).bitmask() as u64;
        let ile = vi.le(&<$i>::splat(c as i8)).bitmask() as u64;
        let igt = vi.gt(&<$i>::splat(c as i8)).bitmask() as u64;
        // store round trip
        let mut back = [0u8; $n];
        unsafe { vu.storeu(back.as_mut_ptr()) };
        format!("eq={:x} le={:x} ieq={:x} ile={:x} igt={:x} store={}", eq, le, ieq, ile, igt, if &back[..] == &a[..$n] { "A" } else { "R" })
    }};
}

pub fn run() {
    let mut out = Out::new();
    for line in lines_in() {
        let p: Vec<String> = line.split(' ').map(|s| s.to_string()).collect();
        let res = guarded(move || match p[1].as_str() {
            "px" => format!("r={:x}", sonic_rs::verif::prefix_xor(u64::from_str_radix(&p[2], 16).unwrap())),
            "ns" => {
                let b = unhex(&p[2]);
                let mut a = [0u8; 64];
                a.copy_from_slice(&b[..64]);
                format!("r={:x}", sonic_rs::verif::get_nonspace_bits(&a))
            }
            "v" => {
                let n: usize = p[2].parse().unwrap();
                let a = unhex(&p[3]);
                let c = unhex(&p[4])[0];
                match n {
                    16 => lanes!(u8x16, i8x16, 16, &a, c),
                    32 => lanes!(u8x32, i8x32, 32, &a, c),
                    _ => lanes!(u8x64, i8x64, 64, &a, c),
                }
            }
            "d2i" => {
                let a = unhex(&p[2]);
                let need: usize = p[3].parse().unwrap();
                let (sum, n) = sonic_number::verif_str2int(&a, need);
                format!("r={} n={}", sum, n)
            }
            _ => "bad-op".into(),
        });
        out.line(&res);
    }
}

pub fn gen(seed: u64, thorough: bool) {
    let mut out = Out::new();
    let mut r = Rng::new(seed ^ 0x17);
    // prefix_xor: single bits, pairs, random
    for i in 0..64 {
        out.line(&format!("c17 px {:x}", 1u64 << i));
        out.line(&format!("c17 px {:x}", (1u64 << i) | (1u64 << ((i * 7 + 3) % 64))));
    }
    for x in [0u64, u64::MAX, 0x5555_5555_5555_5555, 0xaaaa_aaaa_aaaa_aaaa, 1 << 63] {
        out.line(&format!("c17 px {:x}", x));
    }
    let n = if thorough { 20000 } else { 1500 };
    for _ in 0..n {
        out.line(&format!("c17 px {:x}", r.next()));
    }
    // get_nonspace_bits: all 256 byte values in every lane (lane = value + k mod 64), random blocks of JSON-like bytes
    for k in 0..64usize {
        for base in (0..256usize).step_by(64) {
            let block: Vec<u8> = (0..64).map(|i| ((base + (i + k) % 64) % 256) as u8).collect();
            out.line(&format!("c17 ns {}", hex(&block)));
        }
    }
    for _ in 0..n / 2 {
        let block: Vec<u8> = (0..64).map(|_| *r.pick(&[b' ', b'\t', b'\n', b'\r', b'"', b'\\', b'a', b',', 0u8, 0x0b, 0x0c, 0x85, 0xa0, 0x20, 0x1f, 0x21])).collect();
        out.line(&format!("c17 ns {}", hex(&block)));
    }
    // lane-wise comparisons: every byte value in every lane against a few constants, and random
    for lanes in [16usize, 32, 64] {
        for base in 0..(256 / lanes.min(256)) {
            for rot in [0usize, 1, 7] {
                let a: Vec<u8> = (0..lanes).map(|i| ((base * lanes + (i + rot) % lanes) % 256) as u8).collect();
                for c in [0u8, 0x1f, 0x20, 0x22, 0x5c, 0x7f, 0x80, 0xff] {
                    out.line(&format!("c17 v {} {} {:02x}", lanes, hex(&a), c));
                }
            }
        }
        for _ in 0..n / 4 {
            let a: Vec<u8> = (0..lanes).map(|_| (r.next() & 0xff) as u8).collect();
            out.line(&format!("c17 v {} {} {:02x}", lanes, hex(&a), (r.next() & 0xff) as u8));
        }
    }
    // simd_str2int: every prefix length with every kind of terminator, every need; all-9 / all-0 / random digits
    let terms: [u8; 12] = [b'/', b':', b'.', b'e', b'E', b'"', 0, 0x7f, 0x80, 0xff, b' ', b'-'];
    for len in 1..=16usize {
        for need in 1..=16usize {
            for kind in 0..4 {
                for (ti, t) in terms.iter().enumerate() {
                    if len == 16 && ti > 0 { break; }
                    if (kind == 3) && !thorough && ti > 3 { break; }
                    let mut a = [0u8; 16];
                    for (i, slot) in a.iter_mut().enumerate() {
                        *slot = if i < len {
                            match kind { 0 => b'9', 1 => b'0', 2 => b'0' + ((i * 7 + len) % 10) as u8, _ => b'0' + (r.next() % 10) as u8 }
                        } else if i == len { *t } else if kind % 2 == 0 { b'0' + (r.next() % 10) as u8 } else { (r.next() & 0xff) as u8 };
                    }
                    out.line(&format!("c17 d2i {} {}", hex(&a), need));
                }
            }
        }
    }
    for _ in 0..n {
        let mut a = [0u8; 16];
        for slot in a.iter_mut() {
            *slot = if r.next() % 8 == 0 { (r.next() & 0xff) as u8 } else { b'0' + (r.next() % 10) as u8 };
        }
        a[0] = b'0' + (r.next() % 10) as u8;
        out.line(&format!("c17 d2i {} {}", hex(&a), 1 + r.next() % 16));
    }
}
