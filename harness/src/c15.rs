//! C15 — the mutable DOM against a plain array / map model, under operation histories.
//! case: `c15 <op>;<op>;...`
//!   P:<hexdoc>  parse into a new slot        C:i  clone slot i into a new slot      D:i  drop slot i
//!   G:i:<path>  read `pointer(path)`
//!   X:i:<path>:<op>[:<arg>..]  `pointer_mut(path)` then the operation on the target:
//!        push:<val> pop insat:<n>:<val> remat:<n> swaprem:<n> trunc:<n> clear oins:<hexkey>:<val> orem:<hexkey>
//!        take assign:<val> setk:<hexkey>:<val> seti:<n>:<val> orins:<hexkey>:<val> orinsw:<hexkey>:<val> orinswk:<hexkey>:<val>
//!   path: `-` (empty) or segments `k<hexkey>` / `i<n>` joined by `/`
//!   val : `v<hexdoc>` (freshly parsed) or `s<j>.<path>` (clone of a part of slot j)
//! output per step: `result|dump of every slot|representation skeleton of every slot`, joined by `;`
use crate::util::*;
use sonic_rs::{JsonContainerTrait, JsonValueMutTrait, JsonValueTrait, PointerNode, Value};
use std::panic::{catch_unwind, AssertUnwindSafe};

pub fn dump(v: &Value, out: &mut String) {
    if v.is_null() {
        out.push('n');
    } else if let Some(b) = v.as_bool() {
        out.push(if b { 't' } else { 'f' });
    } else if v.is_number() {
        match v.as_i64() {
            Some(n) => out.push_str(&format!("I{n}")),
            None => out.push_str(&format!("N{}", v)),
        }
    } else if let Some(s) = v.as_str() {
        out.push_str(&format!("S{}", hex(s.as_bytes())));
    } else if let Some(a) = v.as_array() {
        out.push('[');
        for (i, x) in a.iter().enumerate() {
            if i > 0 {
                out.push(',');
            }
            dump(x, out);
        }
        out.push(']');
    } else if let Some(o) = v.as_object() {
        // members as the map model sees them: one per key (the first), in key order
        let mut ms: Vec<(&str, &Value)> = Vec::new();
        for (k, x) in o.iter() {
            if !ms.iter().any(|(k2, _)| *k2 == k) {
                ms.push((k, x));
            }
        }
        ms.sort_by(|a, b| a.0.as_bytes().cmp(b.0.as_bytes()));
        out.push('{');
        for (i, (k, x)) in ms.iter().enumerate() {
            if i > 0 {
                out.push(',');
            }
            out.push_str(&format!("S{}:", hex(k.as_bytes())));
            dump(x, out);
        }
        out.push('}');
    } else {
        out.push('?');
    }
}

fn d(v: &Value) -> String {
    let mut s = String::new();
    dump(v, &mut s);
    s
}

/// representation skeleton (through the verif hook): which containers are still arena nodes
pub fn skel(v: &Value, out: &mut String) {
    let mut sh = String::new();
    v.verif_shape(&mut sh);
    let first = sh.chars().next().unwrap_or('?');
    if v.is_array() {
        if first == 'O' {
            out.push_str("O[");
            for x in v.as_array().unwrap().iter() {
                skel(x, out);
            }
            out.push(']');
        } else {
            out.push('A');
        }
    } else if v.is_object() {
        if first == 'M' {
            let mut ms: Vec<(&str, &Value)> = v.as_object().unwrap().iter().collect();
            ms.sort_by(|a, b| a.0.as_bytes().cmp(b.0.as_bytes()));
            out.push_str("M{");
            for (k, x) in ms {
                out.push_str(&format!("{}:", hex(k.as_bytes())));
                skel(x, out);
            }
            out.push('}');
        } else {
            out.push('B');
        }
    } else {
        out.push('.');
    }
}

fn parse_path(s: &str) -> Vec<PointerNode> {
    if s == "-" {
        return Vec::new();
    }
    s.split('/')
        .map(|seg| {
            if let Some(h) = seg.strip_prefix('k') {
                PointerNode::Key(String::from_utf8(unhex(h)).unwrap().into())
            } else {
                PointerNode::Index(seg[1..].parse().unwrap())
            }
        })
        .collect()
}

fn parse_val(slots: &[Value], s: &str) -> Option<Value> {
    if let Some(h) = s.strip_prefix('v') {
        sonic_rs::from_slice::<Value>(&unhex(h)).ok()
    } else {
        let rest = &s[1..];
        let (j, p) = rest.split_once('.')?;
        let j: usize = j.parse().ok()?;
        let path = parse_path(p);
        slots.get(j)?.pointer(&path).cloned()
    }
}

/// the value argument of an operation (every operation has at most one, always the last argument)
fn val_arg(slots: &[Value], name: &str, args: &[&str]) -> Result<Option<Value>, ()> {
    match name {
        "push" | "insat" | "oins" | "assign" | "setk" | "seti" | "orins" | "orinsw" | "orinswk" | "resize" | "append" => match args.last().and_then(|a| parse_val(slots, a)) {
            Some(v) => Ok(Some(v)),
            None => Err(()),
        },
        _ => Ok(None),
    }
}

/// the operation on the target
fn apply(t: &mut Value, name: &str, args: &[&str], x: Option<Value>) -> String {
    let mut x = x;
    let mut val = |_k: usize| x.take().expect("value argument");
    let num = |k: usize| args[k].parse::<usize>().unwrap();
    let key = |k: usize| String::from_utf8(unhex(args[k])).unwrap();
    match name {
        "push" => match t.as_array_mut() {
            Some(a) => {
                a.push(val(0));
                "done".into()
            }
            None => "panic".into(),
        },
        "pop" => match t.as_array_mut() {
            Some(a) => match a.pop() {
                Some(v) => format!("val:{}", d(&v)),
                None => "none".into(),
            },
            None => "panic".into(),
        },
        "insat" => match t.as_array_mut() {
            Some(a) => {
                a.insert(num(0), val(1));
                "done".into()
            }
            None => "panic".into(),
        },
        "remat" => match t.as_array_mut() {
            Some(a) => {
                a.remove(num(0));
                "done".into()
            }
            None => "panic".into(),
        },
        "swaprem" => match t.as_array_mut() {
            Some(a) => format!("val:{}", d(&a.swap_remove(num(0)))),
            None => "panic".into(),
        },
        "trunc" => match t.as_array_mut() {
            Some(a) => {
                a.truncate(num(0));
                "done".into()
            }
            None => "panic".into(),
        },
        "clear" => {
            if let Some(a) = t.as_array_mut() {
                a.clear();
                "done".into()
            } else if let Some(o) = t.as_object_mut() {
                o.clear();
                "done".into()
            } else {
                "panic".into()
            }
        }
        "oins" => match t.as_object_mut() {
            Some(o) => match o.insert(&key(0), val(1)) {
                Some(v) => format!("val:{}", d(&v)),
                None => "none".into(),
            },
            None => "panic".into(),
        },
        "orem" => match t.as_object_mut() {
            Some(o) => match o.remove(&key(0)) {
                Some(v) => format!("val:{}", d(&v)),
                None => "none".into(),
            },
            None => "panic".into(),
        },
        "take" => format!("val:{}", d(&t.take())),
        "assign" => {
            *t = val(0);
            "done".into()
        }
        "setk" => {
            let k = key(0);
            t[k.as_str()] = val(1);
            "done".into()
        }
        "seti" => {
            t[num(0)] = val(1);
            "done".into()
        }
        "orins" => match t.as_object_mut() {
            Some(o) => {
                let k = key(0);
                let r = o.entry(&k).or_insert(val(1));
                format!("val:{}", d(r))
            }
            None => "panic".into(),
        },
        // `entry(k).or_insert_with(f)` / `or_insert_with_key(f)`: like `or_insert`, and the default is computed only for a vacant
        // entry — `f` runs exactly once when the member is absent and not at all when it is present (an `f` that runs anyway
        // can move values out of other live values); `or_insert_with_key` hands `f` the key of the entry
        "orinsw" | "orinswk" => match t.as_object_mut() {
            Some(o) => {
                let k = key(0);
                let present = o.contains_key(&k);
                let calls = std::cell::Cell::new(0usize);
                let keyok = std::cell::Cell::new(true);
                let out = if name == "orinsw" {
                    let r = o.entry(&k).or_insert_with(|| {
                        calls.set(calls.get() + 1);
                        val(1)
                    });
                    d(r)
                } else {
                    let r = o.entry(&k).or_insert_with_key(|kk| {
                        calls.set(calls.get() + 1);
                        keyok.set(kk == k.as_str());
                        val(1)
                    });
                    d(r)
                };
                if calls.get() != if present { 0 } else { 1 } {
                    format!("BAD(default-computed-{}-times-for-{}-entry)", calls.get(), if present { "an-occupied" } else { "a-vacant" })
                } else if !keyok.get() {
                    "BAD(default-got-another-key)".into()
                } else {
                    format!("val:{out}")
                }
            }
            None => "panic".into(),
        },
        "splitoff" => match t.as_array_mut() {
            Some(a) => {
                let tail = a.split_off(num(0));
                format!("vals:[{}]", tail.iter().map(d).collect::<Vec<_>>().join(","))
            }
            None => "panic".into(),
        },
        "drain" => match t.as_array_mut() {
            Some(a) => {
                let got: Vec<Value> = a.drain(num(0)..num(1)).collect();
                format!("vals:[{}]", got.iter().map(d).collect::<Vec<_>>().join(","))
            }
            None => "panic".into(),
        },
        "extw" => match t.as_array_mut() {
            Some(a) => {
                a.extend_from_within(num(0)..num(1));
                "done".into()
            }
            None => "panic".into(),
        },
        "resize" => match t.as_array_mut() {
            Some(a) => {
                a.resize(num(0), val(1));
                "done".into()
            }
            None => "panic".into(),
        },
        "append" => {
            // `other` is the argument value, held as an Array / Object of its own; it must be empty afterwards
            let mut other = val(0);
            if t.is_array() {
                // (the target is promoted first, as by every other container operation, also when there is then no such call)
                let a = t.as_array_mut().unwrap();
                if !other.is_array() {
                    return "panic".into();
                }
                let o = other.as_array_mut().unwrap();
                a.append(o);
                if o.is_empty() { "done".into() } else { "other-not-empty".into() }
            } else if t.is_object() {
                let a = t.as_object_mut().unwrap();
                if !other.is_object() {
                    return "panic".into();
                }
                let o = other.as_object_mut().unwrap();
                a.append(o);
                if o.is_empty() { "done".into() } else { "other-not-empty".into() }
            } else {
                "panic".into()
            }
        }
        "retnn" => {
            if let Some(a) = t.as_array_mut() {
                a.retain(|v| !v.is_null());
                "done".into()
            } else if let Some(o) = t.as_object_mut() {
                o.retain(|_, v| !v.is_null());
                "done".into()
            } else {
                "panic".into()
            }
        }
        _ => "bad-op".into(),
    }
}

/// a value built in memory from the text (owned representation everywhere)
fn build(doc: &[u8]) -> Option<Value> {
    let j: serde_json::Value = serde_json::from_slice(doc).ok()?;
    sonic_rs::to_value(&j).ok()
}

pub fn run_history(prog: &str) -> String {
    let mut slots: Vec<Value> = Vec::new();
    let mut steps: Vec<String> = Vec::new();
    for w in prog.split(';') {
        let p: Vec<&str> = w.split(':').collect();
        let idx = |k: usize| p.get(k).and_then(|s| s.parse::<usize>().ok()).unwrap_or(usize::MAX);
        let res: Option<String> = match p[0] {
            "P" => sonic_rs::from_slice::<Value>(&unhex(p[1])).ok().map(|v| {
                slots.push(v);
                "ok".to_string()
            }),
            "B" => build(&unhex(p[1])).map(|v| {
                slots.push(v);
                "ok".to_string()
            }),
            "C" => slots.get(idx(1)).cloned().map(|v| {
                slots.push(v);
                "ok".to_string()
            }),
            "D" => {
                if idx(1) < slots.len() {
                    slots.remove(idx(1));
                    Some("ok".into())
                } else {
                    None
                }
            }
            "G" => slots.get(idx(1)).map(|v| {
                let path = parse_path(p[2]);
                match v.pointer(&path) {
                    Some(c) => format!("val:{}", d(c)),
                    None => "none".into(),
                }
            }),
            "X" => {
                let i = idx(1);
                if i < slots.len() {
                    let path = parse_path(p[2]);
                    // value arguments may refer to other slots (or to this one): resolved before the call
                    let name = p[3];
                    let args = &p[4..];
                    match val_arg(&slots, name, args) {
                        Err(()) => None,
                        Ok(x) => {
                            let target_slot = &mut slots[i];
                            let r = catch_unwind(AssertUnwindSafe(|| match target_slot.pointer_mut(&path) {
                                Some(t) => apply(t, name, args, x),
                                None => "missing".to_string(),
                            }));
                            Some(r.unwrap_or_else(|_| "panic".into()))
                        }
                    }
                } else {
                    None
                }
            }
            _ => None,
        };
        match res {
            None => {
                steps.push(format!("bad-op({w})"));
                break;
            }
            Some(r) => {
                let dumps: Vec<String> = slots.iter().map(d).collect();
                let skels: Vec<String> = slots
                    .iter()
                    .map(|v| {
                        let mut s = String::new();
                        skel(v, &mut s);
                        s
                    })
                    .collect();
                steps.push(format!("{}|{}|{}", r, dumps.join(","), skels.join(",")));
            }
        }
    }
    steps.join(";")
}

pub fn run() {
    let mut out = Out::new();
    for line in lines_in() {
        let p: Vec<&str> = line.split(' ').collect();
        let prog = p.get(1).copied().unwrap_or("").to_string();
        out.line(&guarded(move || run_history(&prog)));
    }
}

const DOCS: &[&str] = &[
    "1", "\"s\"", "[]", "{}", "null", "true", "[1,\"a\",[2,\"b\"]]", "{\"a\":[1,\"x\"],\"b\":{\"c\":\"y\"},\"d\":2}",
    "[\"p\",{\"k\":[\"q\"]},[[\"r\"]]]", "{\"a\":\"v\"}", "[[],{},[{}]]", "{\"a\":{\"a\":{\"a\":[\"deep\"]}}}",
    "{\"a\":1,\"a\":2}", "{\"a\":[1],\"b\":0,\"a\":{\"c\":3},\"b\":[4]}", "[{\"k\":1,\"k\":[2],\"d\":3,\"k\":4}]", "[0,1,2,3,4]",
];
const KEYS: &[&str] = &["a", "b", "c", "d", "k"];

/// a random path that mostly resolves (chosen by walking the real value)
fn gen_path(r: &mut Rng, v: &Value) -> String {
    let mut segs: Vec<String> = Vec::new();
    let mut cur = v;
    loop {
        if r.chance(1, 3) {
            break;
        }
        if let Some(a) = cur.as_array() {
            if a.is_empty() || r.chance(1, 8) {
                segs.push(format!("i{}", a.len() + r.below(2)));
                break;
            }
            let k = r.below(a.len());
            segs.push(format!("i{k}"));
            cur = &a[k];
        } else if let Some(o) = cur.as_object() {
            let keys: Vec<&str> = o.iter().map(|(k, _)| k).collect();
            if keys.is_empty() || r.chance(1, 8) {
                segs.push(format!("k{}", hex(r.pick(KEYS).as_bytes())));
                break;
            }
            let k = *r.pick(&keys);
            segs.push(format!("k{}", hex(k.as_bytes())));
            match o.get(&k) {
                Some(c) => cur = c,
                None => break,
            }
        } else {
            if r.chance(1, 6) {
                segs.push(if r.chance(1, 2) { "i0".into() } else { format!("k{}", hex(b"a")) });
            }
            break;
        }
    }
    if segs.is_empty() {
        "-".into()
    } else {
        segs.join("/")
    }
}

/// the other container of an `append`: mostly of the wanted kind, objects of every size with keys shared with the target
fn gen_container(r: &mut Rng, slots: &[Value], obj: bool) -> String {
    const OBJS: &[&str] = &[
        "{}", "{\"a\":\"v\"}", "{\"a\":9,\"b\":8}", "{\"k\":2,\"y\":[1,2]}", "{\"a\":[0],\"b\":null,\"c\":true,\"d\":\"z\",\"k\":{}}",
        "{\"d\":5,\"c\":{\"a\":1}}", "{\"a\":1,\"a\":2}", "{\"b\":[4],\"a\":{\"c\":3},\"b\":0}",
    ];
    const ARRS: &[&str] = &["[]", "[7]", "[null,[1],{\"a\":2}]", "[\"p\",\"q\",\"r\",\"s\"]"];
    if r.chance(1, 8) {
        return gen_val(r, slots);
    }
    format!("v{}", hex(r.pick(if obj { OBJS } else { ARRS }).as_bytes()))
}

fn gen_val(r: &mut Rng, slots: &[Value]) -> String {
    if r.chance(1, 2) || slots.is_empty() {
        format!("v{}", hex(r.pick(DOCS).as_bytes()))
    } else {
        let j = r.below(slots.len());
        // a path that resolves
        let mut segs: Vec<String> = Vec::new();
        let mut cur = &slots[j];
        while r.chance(1, 2) {
            if let Some(a) = cur.as_array() {
                if a.is_empty() {
                    break;
                }
                let k = r.below(a.len());
                segs.push(format!("i{k}"));
                cur = &a[k];
            } else if let Some(o) = cur.as_object() {
                let keys: Vec<&str> = o.iter().map(|(k, _)| k).collect();
                if keys.is_empty() {
                    break;
                }
                let k = *r.pick(&keys);
                segs.push(format!("k{}", hex(k.as_bytes())));
                cur = o.get(&k).unwrap();
            } else {
                break;
            }
        }
        format!("s{}.{}", j, if segs.is_empty() { "-".to_string() } else { segs.join("/") })
    }
}

fn gen_history(r: &mut Rng, len: usize, allow_empty_path: bool) -> String {
    let mut slots: Vec<Value> = Vec::new();
    let mut ops: Vec<String> = Vec::new();
    while ops.len() < len {
        let n = slots.len();
        let c = r.below(24);
        if n == 0 || c == 0 || (c == 1 && n < 3) {
            // parsed, or built in memory (owned from the start; duplicate-free documents only)
            let doc = *r.pick(DOCS);
            let dupfree = !doc.contains("\"a\":1,\"a\"") && !doc.contains("\"a\":[1],\"b\":0,\"a\"") && !doc.contains("\"k\":1,\"k\"");
            let tag = if dupfree && r.chance(1, 3) { "B" } else { "P" };
            ops.push(format!("{}:{}", tag, hex(doc.as_bytes())));
        } else {
            let i = r.below(n);
            let op = match c {
                1 | 2 => format!("C:{i}"),
                3 => format!("D:{i}"),
                4 | 5 | 6 => format!("G:{i}:{}", gen_path(r, &slots[i])),
                _ => {
                    let mut path = gen_path(r, &slots[i]);
                    if path == "-" && !allow_empty_path {
                        // `pointer_mut` of the empty path: only in the histories that allow it
                        path = if slots[i].is_array() { "i0".into() } else { format!("k{}", hex(b"a")) };
                    }
                    let tgt = slots[i].pointer(&parse_path(&path));
                    let is_arr = tgt.map(|t| t.is_array()).unwrap_or(false);
                    let is_obj = tgt.map(|t| t.is_object()).unwrap_or(false);
                    let len = tgt.and_then(|t| t.as_array().map(|a| a.len())).unwrap_or(0);
                    let key = hex(r.pick(KEYS).as_bytes());
                    let choice = r.below(16);
                    let opn = if is_arr && choice < 12 {
                        match choice {
                            0 | 1 | 2 => format!("push:{}", gen_val(r, &slots)),
                            3 => "pop".to_string(),
                            4 => format!("insat:{}:{}", r.below(len + 2), gen_val(r, &slots)),
                            5 => format!("remat:{}", r.below(len + 1)),
                            6 => format!("swaprem:{}", r.below(len + 1)),
                            7 => format!("trunc:{}", r.below(len + 2)),
                            8 => "clear".to_string(),
                            9 => match r.below(7) {
                                0 => format!("splitoff:{}", r.below(len + 2)),
                                1 => {
                                    let a = r.below(len + 2);
                                    format!("drain:{}:{}", a, a + r.below(len + 2 - a.min(len + 1)))
                                }
                                2 => {
                                    let a = r.below(len + 1);
                                    format!("extw:{}:{}", a, a + r.below(len + 2 - a))
                                }
                                3 => format!("resize:{}:{}", r.below(len + 3), gen_val(r, &slots)),
                                4 => "retnn".to_string(),
                                5 => format!("append:{}", gen_container(r, &slots, false)),
                                _ => format!("seti:{}:{}", r.below(len + 1), gen_val(r, &slots)),
                            },
                            10 => format!("setk:{key}:{}", gen_val(r, &slots)),
                            _ => format!("oins:{key}:{}", gen_val(r, &slots)),
                        }
                    } else if is_obj && choice < 12 {
                        match choice {
                            0 | 1 | 2 => format!("oins:{key}:{}", gen_val(r, &slots)),
                            3 | 4 => format!("orem:{key}"),
                            5 | 6 => format!("setk:{key}:{}", gen_val(r, &slots)),
                            7 => format!("orins:{key}:{}", gen_val(r, &slots)),
                            8 => format!("{}:{key}:{}", if r.chance(1, 2) { "orinsw" } else { "orinswk" }, gen_val(r, &slots)),
                            9 => match r.below(4) {
                                0 => "clear".to_string(),
                                1 => "retnn".to_string(),
                                _ => format!("append:{}", gen_container(r, &slots, true)),
                            },
                            10 => format!("seti:0:{}", gen_val(r, &slots)),
                            _ => format!("push:{}", gen_val(r, &slots)),
                        }
                    } else {
                        match choice % 5 {
                            0 => "take".to_string(),
                            1 => format!("assign:{}", gen_val(r, &slots)),
                            2 => format!("setk:{key}:{}", gen_val(r, &slots)),
                            3 => format!("push:{}", gen_val(r, &slots)),
                            _ => format!("seti:0:{}", gen_val(r, &slots)),
                        }
                    };
                    format!("X:{i}:{path}:{opn}")
                }
            };
            ops.push(op);
        }
        // keep the real values in step with the history so that later operations apply
        let probe = run_history_state(&mut slots, ops.last().unwrap());
        if !probe {
            ops.pop();
        }
    }
    ops.join(";")
}

/// executes one operation on the generator's own values (to choose later operations); false = not applicable
fn run_history_state(slots: &mut Vec<Value>, w: &str) -> bool {
    let p: Vec<&str> = w.split(':').collect();
    let idx = |k: usize| p.get(k).and_then(|s| s.parse::<usize>().ok()).unwrap_or(usize::MAX);
    match p[0] {
        "P" => match sonic_rs::from_slice::<Value>(&unhex(p[1])) {
            Ok(v) => {
                slots.push(v);
                true
            }
            Err(_) => false,
        },
        "B" => match build(&unhex(p[1])) {
            Some(v) => {
                slots.push(v);
                true
            }
            None => false,
        },
        "C" => match slots.get(idx(1)).cloned() {
            Some(v) => {
                slots.push(v);
                true
            }
            None => false,
        },
        "D" => {
            if idx(1) < slots.len() {
                slots.remove(idx(1));
                true
            } else {
                false
            }
        }
        "G" => true,
        "X" => {
            let i = idx(1);
            if i >= slots.len() {
                return false;
            }
            let path = parse_path(p[2]);
            let x = match val_arg(slots, p[3], &p[4..]) {
                Ok(x) => x,
                Err(()) => return false,
            };
            let target_slot = &mut slots[i];
            let _ = catch_unwind(AssertUnwindSafe(|| {
                if let Some(t) = target_slot.pointer_mut(&path) {
                    let _ = apply(t, p[3], &p[4..], x);
                }
            }));
            true
        }
        _ => false,
    }
}

pub fn gen(seed: u64, thorough: bool) {
    let mut out = Out::new();
    let mut r = Rng::new(seed ^ 0x15);
    let h = |s: &str| hex(s.as_bytes());
    // fixed histories: promotion must not change what `get` sees; clone isolation; nested promotion
    let dup = h("{\"a\":1,\"a\":2}");
    let d1 = h("[1,\"a\",[2,\"b\"]]");
    let d2 = h("{\"a\":[1,\"x\"],\"b\":{\"c\":\"y\"},\"d\":2}");
    for f in [
        format!("P:{dup};G:0:k61;X:0:-:orem:{};G:0:k61", h("zz")),
        format!("P:{dup};G:0:k61;X:0:k61:take;G:0:k61"),
        format!("P:{d1};C:0;X:0:i2:push:v{};G:0:i2;G:1:i2;X:1:i2/i0:assign:s0.i2;G:1:-", h("7")),
        format!("P:{d2};C:0;X:1:k61/i1:take;X:0:k62/k63:assign:s1.k61;G:0:-;G:1:-;D:0;G:0:-"),
        format!("P:{};X:0:-:setk:{}:v{};X:0:k61:setk:{}:v{}", h("null"), h("a"), h("null"), h("b"), h("[1]")),
        format!("P:{d1};X:0:i5:take;X:0:i2/i9:take;X:0:i0:push:v{}", h("1")),
        format!("P:{d1};X:0:-:swaprem:7;X:0:-:swaprem:0;X:0:-:insat:9:v{};X:0:-:remat:9", h("1")),
        format!("P:{};X:0:-:push:v{};X:0:-:oins:{}:v{}", h("[]"), h("{}"), h("a"), h("1")),
    ] {
        out.line(&format!("c15 {f}"));
    }
    // exhaustive short sequences over a small universe: every pair of mutations on [1,[2]] and {"a":[1],"a":2,"b":{}}
    let uni_ops_arr = ["-:push:v33", "-:pop", "i1:push:v33", "i1:take", "-:insat:0:s0.i1", "-:remat:0", "-:swaprem:0", "-:trunc:1", "-:clear", "i0:assign:s0.-", "-:seti:1:v6e756c6c", "i1/i0:take"];
    for a in uni_ops_arr.iter() {
        for b in uni_ops_arr.iter() {
            out.line(&format!("c15 P:{};C:0;X:0:{a};X:1:{b};X:0:{b};G:1:-", h("[1,[2]]")));
        }
    }
    let ka = h("a");
    let kb = h("b");
    let uni_ops_obj = [
        format!("-:oins:{ka}:v33"), format!("-:orem:{ka}"), format!("k{ka}:take"), format!("k{ka}/i0:take"), format!("-:setk:{kb}:s0.k{ka}"),
        format!("-:orins:{ka}:v33"), format!("-:orins:{}:v33", h("z")), format!("-:orinsw:{ka}:v34"), format!("-:orinsw:{}:v34", h("y")), format!("-:orinswk:{ka}:s0.-"), format!("-:orinswk:{}:s0.-", h("x")), "-:clear".to_string(), format!("k{kb}:setk:{ka}:s0.-"), format!("k{ka}:push:v33"),
    ];
    for a in uni_ops_obj.iter() {
        for b in uni_ops_obj.iter() {
            out.line(&format!("c15 P:{};C:0;X:0:{a};X:1:{b};X:0:{b};G:1:-;G:0:k{ka}", h("{\"a\":[1],\"a\":2,\"b\":{}}")));
        }
    }
    let n = if thorough { 40000 } else { 3000 };
    for k in 0..n {
        let len = 4 + r.below(if k % 10 == 0 { 80 } else { 25 });
        out.line(&format!("c15 {}", gen_history(&mut r, len, k % 5 == 0)));
    }
}

// ---------------------------------------------------------------------------------------
// c15q — read-only queries of the entry API and of array::IntoIter against the vector / map reference
// case: `c15q <hexdoc>`; every array and object inside the document (parsed, and a promoted copy) is queried

fn q_value(v: &Value, promoted: bool, bad: &mut Vec<String>) {
    let mut v = v.clone();
    if promoted {
        if v.is_object() {
            let _ = v.as_object_mut();
        } else if v.is_array() {
            let _ = v.as_array_mut();
        }
    }
    if let Some(a) = v.as_array() {
        let reference: Vec<String> = a.iter().map(|x| sonic_rs::to_string(x).unwrap()).collect();
        for k in 0..=reference.len().min(4) {
            let tag = format!("intoiter(len={},next*{})", reference.len(), k);
            let r = std::panic::catch_unwind(std::panic::AssertUnwindSafe(|| {
                let mut it = a.clone().into_iter();
                for _ in 0..k {
                    let _ = it.next();
                }
                let s1: Vec<String> = it.as_slice().iter().map(|x| sonic_rs::to_string(x).unwrap()).collect();
                let s2: Vec<String> = it.as_mut_slice().iter().map(|x| sonic_rs::to_string(x).unwrap()).collect();
                let s3: Vec<String> = AsRef::<[Value]>::as_ref(&it).iter().map(|x| sonic_rs::to_string(x).unwrap()).collect();
                let n = it.len();
                let rest: Vec<String> = it.map(|x| sonic_rs::to_string(&x).unwrap()).collect();
                (s1, s2, s3, n, rest)
            }));
            match r {
                Ok((s1, s2, s3, n, rest)) => {
                    let want = &reference[k.min(reference.len())..];
                    if s1 != want { bad.push(format!("{}.as_slice={:?}", tag, s1)); }
                    if s2 != want { bad.push(format!("{}.as_mut_slice={:?}", tag, s2)); }
                    if s3 != want { bad.push(format!("{}.as_ref={:?}", tag, s3)); }
                    if n != want.len() { bad.push(format!("{}.len={}", tag, n)); }
                    if rest != want { bad.push(format!("{}.rest={:?}", tag, rest)); }
                }
                Err(_) => bad.push(format!("{}.panic", tag)),
            }
        }
        for x in a.iter() {
            q_value(x, promoted, bad);
        }
    } else if v.is_object() {
        let keys: Vec<String> = v.as_object().unwrap().iter().map(|(k, _)| k.to_string()).collect();
        let o = v.as_object_mut().unwrap();
        for k in keys.iter().map(|s| s.as_str()).chain(["no-such-key"]) {
            let r = std::panic::catch_unwind(std::panic::AssertUnwindSafe(|| o.entry(&k).key().to_string()));
            match r {
                Ok(got) if got == k => {}
                Ok(got) => bad.push(format!("entry({:?}).key={:?}", k, got)),
                Err(_) => bad.push(format!("entry({:?}).key.panic", k)),
            }
        }
        let vals: Vec<Value> = o.iter().map(|(_, x)| x.clone()).collect();
        for x in &vals {
            q_value(x, promoted, bad);
        }
    }
}

pub fn run_q() {
    let mut out = Out::new();
    for line in lines_in() {
        let p: Vec<&str> = line.split(' ').collect();
        let t = unhex(p.get(1).copied().unwrap_or("-"));
        out.line(&guarded(move || {
            let mut bad = Vec::new();
            if let Ok(v) = sonic_rs::from_slice::<Value>(&t) {
                q_value(&v, false, &mut bad);
                q_value(&v, true, &mut bad);
            }
            bad.truncate(6);
            format!("q={}", if bad.is_empty() { "ok".to_string() } else { format!("BAD:{}", hex(bad.join(" ; ").as_bytes())) })
        }));
    }
}

pub fn gen_q(seed: u64, thorough: bool) {
    let mut out = Out::new();
    let mut r = Rng::new(seed ^ 0x15f);
    for d in DOCS {
        out.line(&format!("c15q {}", hex(d.as_bytes())));
    }
    for d in ["[[]]", "{\"x\":[]}", "[[1],[1,2],[1,2,3]]", "{\"a\":\"vvv\",\"b\":1}"] {
        out.line(&format!("c15q {}", hex(d.as_bytes())));
    }
    let cfg = GenCfg { max_depth: 4, max_items: 5, ws: false, dup_keys: false, long_strings: false };
    for _ in 0..(if thorough { 3000 } else { 300 }) {
        out.line(&format!("c15q {}", hex(&gen_doc(&mut r, &cfg))));
    }
}
