//! Shared helpers: hex, one SplitMix64 state for every random choice, JSON document generators.
use std::io::{BufRead, Write};

pub fn hex(bs: &[u8]) -> String {
    if bs.is_empty() {
        return "-".to_string();
    }
    let mut s = String::with_capacity(bs.len() * 2);
    for b in bs {
        s.push_str(&format!("{:02x}", b));
    }
    s
}

pub fn unhex(s: &str) -> Vec<u8> {
    if s == "-" {
        return vec![];
    }
    let b = s.as_bytes();
    (0..b.len() / 2)
        .map(|i| u8::from_str_radix(std::str::from_utf8(&b[2 * i..2 * i + 2]).unwrap(), 16).unwrap())
        .collect()
}

pub struct Rng(pub u64);
impl Rng {
    pub fn new(seed: u64) -> Self {
        Rng(seed.wrapping_mul(0x9E3779B97F4A7C15) ^ 0xD1B54A32D192ED03)
    }
    pub fn next(&mut self) -> u64 {
        self.0 = self.0.wrapping_add(0x9E3779B97F4A7C15);
        let mut z = self.0;
        z = (z ^ (z >> 30)).wrapping_mul(0xBF58476D1CE4E5B9);
        z = (z ^ (z >> 27)).wrapping_mul(0x94D049BB133111EB);
        z ^ (z >> 31)
    }
    pub fn below(&mut self, n: usize) -> usize {
        if n == 0 {
            0
        } else {
            (self.next() % n as u64) as usize
        }
    }
    pub fn chance(&mut self, num: usize, den: usize) -> bool {
        self.below(den) < num
    }
    pub fn pick<'a, T>(&mut self, xs: &'a [T]) -> &'a T {
        &xs[self.below(xs.len())]
    }
}

pub fn lines_in() -> impl Iterator<Item = String> {
    std::io::stdin().lock().lines().map(|l| l.unwrap())
}

pub struct Out(std::io::BufWriter<std::io::Stdout>, bool);
impl Out {
    pub fn new() -> Self {
        // VH_FLUSH=1: flush after every line, so that the output is complete up to the case that kills the process
        Out(std::io::BufWriter::new(std::io::stdout()), std::env::var("VH_FLUSH").is_ok())
    }
    pub fn line(&mut self, s: &str) {
        self.0.write_all(s.as_bytes()).unwrap();
        self.0.write_all(b"\n").unwrap();
        if self.1 {
            self.0.flush().unwrap();
        }
    }
}

/// Runs `f`, mapping a panic to the string "PANIC".
pub fn guarded<F: FnOnce() -> String + std::panic::UnwindSafe>(f: F) -> String {
    match std::panic::catch_unwind(f) {
        Ok(s) => s,
        Err(_) => "PANIC".to_string(),
    }
}

pub fn quiet_panics() {
    // VH_PANIC_MSG=1: one line per panic on stderr (where it happened), for diagnosis
    if std::env::var_os("VH_PANIC_MSG").is_some() {
        std::panic::set_hook(Box::new(|info| {
            let loc = info.location().map(|l| format!("{}:{}", l.file(), l.line())).unwrap_or_default();
            let msg = info.payload().downcast_ref::<&str>().map(|s| s.to_string()).or_else(|| info.payload().downcast_ref::<String>().cloned()).unwrap_or_default();
            eprintln!("panicked at {}: {}", loc, msg.lines().next().unwrap_or(""));
        }));
    } else {
        std::panic::set_hook(Box::new(|_| {}));
    }
}

// ---------------------------------------------------------------------------------------
// JSON generators

const WS: [&[u8]; 6] = [b"", b"", b" ", b"\n", b"\t \r\n", b"  "];

#[derive(Clone)]
pub struct GenCfg {
    pub max_depth: usize,
    pub max_items: usize,
    pub ws: bool,
    pub dup_keys: bool,
    pub long_strings: bool,
}

impl Default for GenCfg {
    fn default() -> Self {
        GenCfg { max_depth: 4, max_items: 5, ws: true, dup_keys: false, long_strings: true }
    }
}

pub fn gen_ws(r: &mut Rng, cfg: &GenCfg, out: &mut Vec<u8>) {
    if cfg.ws {
        if r.chance(1, 40) {
            // long whitespace run: exercises the 64-byte bitmap path of skip_space
            let n = r.below(140);
            for _ in 0..n {
                out.push(*r.pick(b" \n\t\r"));
            }
        } else {
            out.extend_from_slice(*r.pick(&WS[..]));
        }
    }
}

pub fn gen_number(r: &mut Rng, out: &mut Vec<u8>) {
    if r.chance(1, 3) {
        out.push(b'-');
    }
    match r.below(6) {
        0 => out.push(b'0'),
        1 => {
            let n = 1 + r.below(40);
            out.push(b'1' + r.below(9) as u8);
            for _ in 1..n {
                out.push(b'0' + r.below(10) as u8);
            }
        }
        _ => {
            let n = 1 + r.below(6);
            out.push(b'1' + r.below(9) as u8);
            for _ in 1..n {
                out.push(b'0' + r.below(10) as u8);
            }
        }
    }
    if r.chance(1, 3) {
        out.push(b'.');
        let big = r.chance(1, 8);
        let n = 1 + r.below(if big { 45 } else { 6 });
        for _ in 0..n {
            out.push(b'0' + r.below(10) as u8);
        }
    }
    if r.chance(1, 4) {
        out.push(*r.pick(b"eE"));
        if r.chance(1, 2) {
            out.push(*r.pick(b"+-"));
        }
        let n = 1 + r.below(3);
        for _ in 0..n {
            out.push(b'0' + r.below(10) as u8);
        }
    }
}

/// body of a string literal (between the quotes); returns whether an escape was used
pub fn gen_string_body(r: &mut Rng, cfg: &GenCfg, out: &mut Vec<u8>) -> bool {
    let len = if cfg.long_strings && r.chance(1, 6) { r.below(130) } else { r.below(8) };
    let mut esc = false;
    for _ in 0..len {
        match r.below(20) {
            0 => {
                out.push(b'\\');
                out.push(*r.pick(b"\"\\/bfnrt"));
                esc = true;
            }
            1 => {
                // \uXXXX, non-surrogate
                let mut cp = r.below(0x10000) as u32;
                if (0xD800..0xE000).contains(&cp) {
                    cp = 0x41;
                }
                out.extend_from_slice(format!("\\u{:04x}", cp).as_bytes());
                esc = true;
            }
            2 => {
                if r.chance(1, 3) {
                    let hi = 0xD800 + r.below(0x400) as u32;
                    let lo = 0xDC00 + r.below(0x400) as u32;
                    out.extend_from_slice(format!("\\u{:04X}\\u{:04x}", hi, lo).as_bytes());
                    esc = true;
                } else {
                    let c = char::from_u32(*r.pick(&[0xe9u32, 0x4e2d, 0x1F600, 0x7ff, 0x800, 0xffff, 0x10000, 0x10ffff])).unwrap();
                    let mut b = [0u8; 4];
                    out.extend_from_slice(c.encode_utf8(&mut b).as_bytes());
                }
            }
            3 => out.push(*r.pick(b"{}[],: ")),
            _ => out.push(*r.pick(b"abcxyzABC0189_-. ")),
        }
    }
    esc
}

pub fn gen_key(r: &mut Rng, cfg: &GenCfg, used: &mut Vec<Vec<u8>>, out: &mut Vec<u8>) {
    loop {
        let mut k = Vec::new();
        if r.chance(1, 10) {
            gen_string_body(r, cfg, &mut k);
        } else {
            let n = r.below(4);
            for _ in 0..n {
                k.push(*r.pick(b"abcde"));
            }
            if r.chance(1, 12) {
                k.extend_from_slice(b"\\u0061");
            }
        }
        if cfg.dup_keys || !used.contains(&k) {
            // note: uniqueness is judged on the *source* form; decoded duplicates (a vs a)
            // are avoided by the caller when it matters
            used.push(k.clone());
            out.push(b'"');
            out.extend_from_slice(&k);
            out.push(b'"');
            return;
        }
    }
}

pub fn gen_value(r: &mut Rng, cfg: &GenCfg, depth: usize, out: &mut Vec<u8>) {
    let k = if depth >= cfg.max_depth { r.below(5) } else { r.below(8) };
    match k {
        0 => { let l: [&[u8]; 3] = [b"true", b"false", b"null"]; out.extend_from_slice(*r.pick(&l[..])) }
        1 | 2 => gen_number(r, out),
        3 | 4 => {
            out.push(b'"');
            gen_string_body(r, cfg, out);
            out.push(b'"');
        }
        5 | 6 => {
            out.push(b'[');
            gen_ws(r, cfg, out);
            let n = r.below(cfg.max_items + 1);
            for i in 0..n {
                if i > 0 {
                    out.push(b',');
                    gen_ws(r, cfg, out);
                }
                gen_value(r, cfg, depth + 1, out);
                gen_ws(r, cfg, out);
            }
            out.push(b']');
        }
        _ => {
            out.push(b'{');
            gen_ws(r, cfg, out);
            let n = r.below(cfg.max_items + 1);
            let mut used = Vec::new();
            for i in 0..n {
                if i > 0 {
                    out.push(b',');
                    gen_ws(r, cfg, out);
                }
                gen_key(r, cfg, &mut used, out);
                gen_ws(r, cfg, out);
                out.push(b':');
                gen_ws(r, cfg, out);
                gen_value(r, cfg, depth + 1, out);
                gen_ws(r, cfg, out);
            }
            out.push(b'}');
        }
    }
}

pub fn gen_doc(r: &mut Rng, cfg: &GenCfg) -> Vec<u8> {
    let mut out = Vec::new();
    gen_ws(r, cfg, &mut out);
    gen_value(r, cfg, 0, &mut out);
    gen_ws(r, cfg, &mut out);
    out
}

/// one random mutation: the malformed stream
pub fn mutate(r: &mut Rng, doc: &[u8]) -> Vec<u8> {
    let mut d = doc.to_vec();
    match r.below(11) {
        9 | 10 if d.contains(&b'\\') => {
            // a raw control character (or quote) shortly before an existing backslash: the block
            // scanners must report whichever special byte comes first
            let bs: Vec<usize> = d.iter().enumerate().filter(|(_, b)| **b == b'\\').map(|(i, _)| i).collect();
            let p = bs[r.below(bs.len())];
            let k = 1 + r.below(31);
            let at = p.saturating_sub(k);
            d.insert(at, *r.pick(b"\x00\x01\x1f\n\t"));
        }
        0 if !d.is_empty() => {
            let n = r.below(d.len());
            d.truncate(n);
        }
        1 if !d.is_empty() => {
            let i = r.below(d.len());
            d.remove(i);
        }
        2 if !d.is_empty() => {
            let i = r.below(d.len());
            d[i] = *r.pick(b"{}[],:\"\\ \nutfe.-+01x\x00\x1f\x7f");
        }
        3 => {
            let i = r.below(d.len() + 1);
            d.insert(i, *r.pick(b"{}[],:\"\\ \nutfe.-+01x\x00\x1f"));
        }
        4 if !d.is_empty() => {
            // invalid UTF-8 injection
            let i = r.below(d.len() + 1);
            let bad: &[&[u8]] = &[b"\xff", b"\xc0\xaf", b"\xed\xa0\x80", b"\xf4\x90\x80\x80", b"\xe4\xb8", b"\x80"];
            let ins = *r.pick(bad);
            for (k, b) in ins.iter().enumerate() {
                d.insert(i + k, *b);
            }
        }
        5 if !d.is_empty() => {
            // bad escape
            let i = r.below(d.len() + 1);
            let bad: &[&[u8]] = &[b"\\uZZZZ", b"\\u12G4", b"\\x", b"\\u12", b"\\uD800", b"\\uDC00", b"\\uD800\\u0041", b"\\", b"\\u"];
            let ins = *r.pick(bad);
            for (k, b) in ins.iter().enumerate() {
                d.insert(i + k, *b);
            }
        }
        6 => {
            let tail: &[&[u8]] = &[b"x", b" 1", b",", b"]", b"}", b"\"", b" \n x"];
            d.extend_from_slice(*r.pick(tail));
        }
        7 if !d.is_empty() => {
            let i = r.below(d.len());
            let j = r.below(d.len());
            d.swap(i, j);
        }
        _ => {
            let i = r.below(d.len() + 1);
            d.insert(i, r.below(256) as u8);
        }
    }
    d
}

/// number literals around the largest finite double, at EVERY digit count of the mantissa: the first `k` digits of
/// 2^1024 - 2^970 = 1.797693134862315708145…e308 (below the rounding boundary 2^1024 - 2^969 when cut), the same plus 1, 2 and
/// 9 in the last place, written as an integer mantissa with an exponent, as a fraction and with a leading zero exponent: which
/// of them are finite is decided by exact arithmetic on the other side
pub fn overflow_boundary() -> Vec<Vec<u8>> {
    const MAXD: &str = "17976931348623157081452742373170435679807056752584499659891747680315726078002853876058955863276687817154045895351438246423432132688946418276846754670353751698604991057655128207624549009038932894407586850845513394230458323690322294816580855933212334827479782620414472316873817718091929988125040402618412485836";
    let mut out = Vec::new();
    for k in 1..=40usize {
        let digs = &MAXD[..k];
        let exp = 309 - k as i64;
        let mut variants: Vec<String> = vec![digs.to_string()];
        // +1, +2, +9 in the last place (as decimal strings; carry handled by u128 for k <= 38)
        if k <= 38 {
            let v: u128 = digs.parse().unwrap();
            for d in [1u128, 2, 9, 100] {
                variants.push((v + d).to_string());
            }
            if v > 1 {
                variants.push((v - 1).to_string());
            }
        }
        for m in variants {
            let e = exp - (m.len() as i64 - k as i64);
            for sign in ["", "-"] {
                out.push(format!("{sign}{m}e{e}").into_bytes());
                out.push(format!("{sign}{m}E+{e}").into_bytes());
                out.push(format!("{sign}{m}e{}", e - 1).into_bytes());
                out.push(format!("{sign}{m}e{}", e + 1).into_bytes());
                if m.len() > 1 {
                    out.push(format!("{sign}{}.{}e{}", &m[..1], &m[1..], e + m.len() as i64 - 1).into_bytes());
                    out.push(format!("{sign}{}.{}e{}", &m[..m.len() - 1], &m[m.len() - 1..], e + 1).into_bytes());
                }
            }
        }
    }
    out
}

/// number-like tokens whose separators stand at the edges of the 32-byte blocks of the number scanners: integer parts of
/// 1, 2 and 30..34 / 62..66 digits (also with a leading `-`), fractions of 0, 1, 2, 30, 31 digits, and every small
/// well-formed or malformed tail
pub fn number_shapes() -> Vec<Vec<u8>> {
    let tails: [&[u8]; 12] = [b"", b".5", b".5.5", b".5e1", b".5e", b"e1", b"e", b"e+", b"e1e1", b".5e1.5", b".", b"E-2"];
    let mut out = Vec::new();
    for neg in [false, true] {
        for il in [1usize, 2, 30, 31, 32, 33, 34, 62, 63, 64, 65, 66] {
            for fl in [0usize, 1, 2, 30, 31] {
                for tail in tails.iter() {
                    let mut t = Vec::new();
                    if neg {
                        t.push(b'-');
                    }
                    for k in 0..il {
                        t.push(b'1' + (k % 9) as u8);
                    }
                    if fl > 0 {
                        t.push(b'.');
                        for k in 0..fl {
                            t.push(b'0' + (k % 10) as u8);
                        }
                    }
                    t.extend_from_slice(tail);
                    out.push(t);
                }
            }
        }
    }
    out
}

/// every string over `0 1 . e E + -` up to the given length that starts with `0`, `1` or `-`: the small number tokens,
/// well-formed and not (`0.0e`, `0e+`, `-0.`, `1.e1`, ...)
pub fn small_number_tokens(max_len: usize) -> Vec<Vec<u8>> {
    let alpha = b"01.eE+-";
    let mut out: Vec<Vec<u8>> = Vec::new();
    let mut cur: Vec<Vec<u8>> = vec![b"0".to_vec(), b"1".to_vec(), b"-".to_vec()];
    for _ in 1..=max_len {
        out.extend(cur.iter().cloned());
        let mut next = Vec::new();
        for c in &cur {
            for a in alpha {
                let mut n = c.clone();
                n.push(*a);
                next.push(n);
            }
        }
        cur = next;
    }
    out
}
