//! C13 — lazy values are faithful views of their source text.
//! case: `c13 <hexdoc>`  — a well-formed JSON value (any type), possibly with surrounding whitespace
//! For every way of obtaining a lazy value of the text (LazyValue: serde, get from a wrapping
//! object, array iterator; OwnedLazyValue: serde, From<LazyValue> of each of those, clone) the
//! line reports `<name>=<view dump>|<hex of to_string>`: the dump walks the lazy value through its
//! own accessors only (type, as_bool, numbers, as_str, children) in the format of the C03 dump.
//! A second group reports owned-lazy mutation histories: `mut.<k>=<hex of to_string after the ops>`.
use crate::util::*;
use sonic_rs::{JsonContainerTrait, JsonNumberTrait, JsonType, JsonValueMutTrait, JsonValueTrait, LazyValue, OwnedLazyValue};

fn num_dump<T: JsonValueTrait>(v: &T, out: &mut String) {
    if let Some(u) = v.as_u64() {
        out.push_str(&format!("U{u}"));
    } else if let Some(i) = v.as_i64() {
        out.push_str(&format!("I{i}"));
    } else if let Some(f) = v.as_f64() {
        out.push_str(&format!("F{:016x}", f.to_bits()));
    } else {
        out.push_str("N?");
    }
}

/// walks a borrowed lazy value through its accessors
fn view(v: &LazyValue<'_>, depth: usize, out: &mut String) {
    if v.as_raw_number().is_some() != (v.get_type() == JsonType::Number) {
        out.push_str("RAWNUM!");
    }
    match v.get_type() {
        JsonType::Null => out.push('n'),
        JsonType::Boolean => match v.as_bool() {
            Some(true) => out.push('t'),
            Some(false) => out.push('f'),
            None => out.push_str("B?"),
        },
        JsonType::Number => num_dump(v, out),
        JsonType::String => match v.as_str() {
            Some(s) => out.push_str(&format!("S{}", hex(s.as_bytes()))),
            None => out.push_str("S?"),
        },
        JsonType::Array => {
            out.push('[');
            if depth == 0 {
                out.push_str("..");
            } else if let Some(it) = v.clone().into_array_iter() {
                for (i, x) in it.enumerate() {
                    if i > 0 {
                        out.push(',');
                    }
                    match x {
                        Ok(x) => {
                            // the same member through `get(index)` must be the same text
                            match v.get(i) {
                                Some(g) if g.as_raw_str() == x.as_raw_str() => {}
                                _ => out.push_str("GET!"),
                            }
                            view(&x, depth - 1, out)
                        }
                        Err(_) => out.push_str("E!"),
                    }
                }
            }
            out.push(']');
        }
        JsonType::Object => {
            out.push('{');
            if depth == 0 {
                out.push_str("..");
            } else if let Some(it) = v.clone().into_object_iter() {
                let mut seen: Vec<String> = Vec::new();
                for (i, kv) in it.enumerate() {
                    if i > 0 {
                        out.push(',');
                    }
                    match kv {
                        Ok((k, x)) => {
                            out.push_str(&format!("S{}:", hex(k.as_bytes())));
                            // `get(key)` returns the first member of that key
                            if !seen.iter().any(|s| s == k.as_ref()) {
                                match v.get(k.as_ref()) {
                                    Some(g) if g.as_raw_str() == x.as_raw_str() => {}
                                    _ => out.push_str("GET!"),
                                }
                                seen.push(k.to_string());
                            }
                            view(&x, depth - 1, out)
                        }
                        Err(_) => out.push_str("E!"),
                    }
                }
            }
            out.push('}');
        }
    }
}

/// walks an owned lazy value through its accessors
fn view_owned(v: &OwnedLazyValue, depth: usize, out: &mut String) {
    if v.as_raw_number().is_some() != (v.get_type() == JsonType::Number) {
        out.push_str("RAWNUM!");
    }
    match v.get_type() {
        JsonType::Null => out.push('n'),
        JsonType::Boolean => match v.as_bool() {
            Some(true) => out.push('t'),
            Some(false) => out.push('f'),
            None => out.push_str("B?"),
        },
        JsonType::Number => num_dump(v, out),
        JsonType::String => match v.as_str() {
            Some(s) => out.push_str(&format!("S{}", hex(s.as_bytes()))),
            None => out.push_str("S?"),
        },
        JsonType::Array => {
            out.push('[');
            if depth == 0 {
                out.push_str("..");
            } else if let Some(a) = v.as_array() {
                for (i, x) in a.iter().enumerate() {
                    if i > 0 {
                        out.push(',');
                    }
                    if v.get(i).is_none() {
                        out.push_str("GET!");
                    }
                    view_owned(x, depth - 1, out);
                }
            } else {
                out.push_str("A?");
            }
            out.push(']');
        }
        JsonType::Object => {
            out.push('{');
            if depth == 0 {
                out.push_str("..");
            } else if let Some(o) = v.as_object() {
                for (i, (k, x)) in o.iter().enumerate() {
                    if i > 0 {
                        out.push(',');
                    }
                    out.push_str(&format!("S{}:", hex(k.as_bytes())));
                    if v.get(k.as_str()).is_none() {
                        out.push_str("GET!");
                    }
                    view_owned(x, depth - 1, out);
                }
            } else {
                out.push_str("O?");
            }
            out.push('}');
        }
    }
}

fn lz(v: &LazyValue<'_>) -> String {
    let mut s = String::new();
    view(v, 6, &mut s);
    let ser = sonic_rs::to_string(v).map(|x| hex(x.as_bytes())).unwrap_or_else(|_| "SERERR".into());
    format!("{}|{}|{}", s, ser, hex(v.as_raw_str().as_bytes()))
}

fn ow(v: &OwnedLazyValue) -> String {
    // serialize first (a fresh value), then walk it (loads the caches), then serialize again
    let ser1 = sonic_rs::to_string(v).map(|x| hex(x.as_bytes())).unwrap_or_else(|_| "SERERR".into());
    let mut s = String::new();
    view_owned(v, 6, &mut s);
    let ser2 = sonic_rs::to_string(v).map(|x| hex(x.as_bytes())).unwrap_or_else(|_| "SERERR".into());
    format!("{}|{}|{}", s, ser1, ser2)
}

pub fn run_case(t: &[u8]) -> String {
    let mut f: Vec<String> = Vec::new();
    macro_rules! ep {
        ($name:expr, $body:expr) => {
            f.push(format!("{}={}", $name, guarded(|| $body)));
        };
    }
    ep!("l.serde", match sonic_rs::from_slice::<LazyValue>(t) {
        Ok(v) => lz(&v),
        Err(_) => "R".into(),
    });
    let mut wrapped = b"{\"k\":".to_vec();
    wrapped.extend_from_slice(t);
    wrapped.push(b'}');
    ep!("l.get", match sonic_rs::get(&wrapped[..], &["k"]) {
        Ok(v) => lz(&v),
        Err(_) => "R".into(),
    });
    let mut arr = b"[".to_vec();
    arr.extend_from_slice(t);
    arr.push(b']');
    ep!("l.iter", match sonic_rs::to_array_iter(&arr[..]).next() {
        Some(Ok(v)) => lz(&v),
        _ => "R".into(),
    });
    ep!("o.serde", match sonic_rs::from_slice::<OwnedLazyValue>(t) {
        Ok(v) => ow(&v),
        Err(_) => "R".into(),
    });
    ep!("o.from_serde", match sonic_rs::from_slice::<LazyValue>(t) {
        Ok(v) => ow(&OwnedLazyValue::from(v)),
        Err(_) => "R".into(),
    });
    ep!("o.from_get", match sonic_rs::get(&wrapped[..], &["k"]) {
        Ok(v) => ow(&OwnedLazyValue::from(v)),
        Err(_) => "R".into(),
    });
    // conversion after the borrowed value (or a clone sharing its cache) has been read through every accessor
    ep!("o.from_read", match sonic_rs::from_slice::<LazyValue>(t) {
        Ok(v) => {
            let c = v.clone();
            let _ = lz(&c);
            let _ = lz(&v);
            ow(&OwnedLazyValue::from(v))
        }
        Err(_) => "R".into(),
    });
    ep!("o.from_get_read", match sonic_rs::get(&wrapped[..], &["k"]) {
        Ok(v) => {
            let _ = lz(&v);
            let o = OwnedLazyValue::from(v.clone());
            let a = ow(&o);
            let b = ow(&OwnedLazyValue::from(v));
            if a == b { a } else { format!("CONV!{}!{}", a, b) }
        }
        Err(_) => "R".into(),
    });
    ep!("o.clone", match sonic_rs::from_slice::<OwnedLazyValue>(t) {
        Ok(v) => {
            // clone before and after the caches are loaded; the clones must read the same
            let c1 = v.clone();
            let a = ow(&v);
            let c2 = v.clone();
            let b = ow(&c1);
            let c = ow(&c2);
            // (a clone taken after the value was read must still serialize verbatim)
            if a == b && b == c { a } else { format!("CLONE!{}!{}!{}", a, b, c) }
        }
        Err(_) => "R".into(),
    });
    ep!("o.take", match sonic_rs::from_slice::<OwnedLazyValue>(t) {
        Ok(mut v) => {
            let taken = v.take();
            if v.get_type() != JsonType::Null { "TAKE!".to_string() } else { ow(&taken) }
        }
        Err(_) => "R".into(),
    });
    // Display is the serialization
    ep!("d.display", match (sonic_rs::from_slice::<LazyValue>(t), sonic_rs::from_slice::<OwnedLazyValue>(t)) {
        (Ok(l), Ok(o)) => format!("{}|{}", hex(format!("{}", l).as_bytes()), hex(format!("{}", o).as_bytes())),
        _ => "R".into(),
    });
    // an owned lazy value made by serializing a Rust value (here: the DOM of the text)
    ep!("o.tolazy", match sonic_rs::from_slice::<sonic_rs::Value>(t) {
        Ok(v) => match sonic_rs::to_lazyvalue(&v) {
            Ok(o) => ow(&o),
            Err(_) => "SERERR".into(),
        },
        Err(_) => "R".into(),
    });
    // embedded in a typed structure together with other fields
    ep!("o.embedded", {
        #[derive(serde::Deserialize, serde::Serialize)]
        struct Emb<'a> {
            x: u32,
            #[serde(borrow)]
            l: LazyValue<'a>,
            o: OwnedLazyValue,
        }
        let mut doc = b"{\"x\":7,\"l\":".to_vec();
        doc.extend_from_slice(t);
        doc.extend_from_slice(b",\"o\":");
        doc.extend_from_slice(t);
        doc.push(b'}');
        match sonic_rs::from_slice::<Emb>(&doc) {
            Ok(e) => {
                let back = sonic_rs::to_string(&e).map(|x| hex(x.as_bytes())).unwrap_or_else(|_| "SERERR".into());
                format!("{}!{}!{}", lz(&e.l), ow(&e.o), back)
            }
            Err(_) => "R".into(),
        }
    });
    // mutation of an owned lazy container: untouched parts unchanged
    ep!("m.push", match sonic_rs::from_slice::<OwnedLazyValue>(t) {
        Ok(mut v) => {
            if let Some(a) = v.as_array_mut() {
                a.push(sonic_rs::to_lazyvalue(&"new").unwrap());
                hex(sonic_rs::to_string(&v).unwrap().as_bytes())
            } else if let Some(o) = v.as_object_mut() {
                o.append_pair("new".into(), sonic_rs::to_lazyvalue(&1u32).unwrap());
                hex(sonic_rs::to_string(&v).unwrap().as_bytes())
            } else {
                "NA".into()
            }
        }
        Err(_) => "R".into(),
    });
    // the same mutation on a clone of the container view (`as_array()` / `as_object()` of a value that is still raw text):
    // same result, and the value the view was taken from stays as it was
    ep!("m.cpush", match sonic_rs::from_slice::<OwnedLazyValue>(t) {
        Ok(v) => {
            let before = sonic_rs::to_string(&v).unwrap();
            let out = if let Some(a) = v.as_array() {
                let mut a = a.clone();
                a.push(sonic_rs::to_lazyvalue(&"new").unwrap());
                Some(sonic_rs::to_string(&OwnedLazyValue::from(a)).unwrap())
            } else if let Some(o) = v.as_object() {
                let mut o = o.clone();
                o.append_pair("new".into(), sonic_rs::to_lazyvalue(&1u32).unwrap());
                Some(sonic_rs::to_string(&OwnedLazyValue::from(o)).unwrap())
            } else {
                None
            };
            match out {
                Some(s) if sonic_rs::to_string(&v).unwrap() == before => hex(s.as_bytes()),
                Some(_) => "SOURCE-CHANGED!".into(),
                None => "NA".into(),
            }
        }
        Err(_) => "R".into(),
    });
    ep!("m.cmut", match sonic_rs::from_slice::<OwnedLazyValue>(t) {
        // DerefMut of a cloned view: remove the last member / element
        Ok(v) => {
            if let Some(a) = v.as_array() {
                let mut a = a.clone();
                let n = a.len();
                a.pop();
                format!("{}:{}", n, a.len())
            } else if let Some(o) = v.as_object() {
                let mut o = o.clone();
                let n = o.len();
                o.pop();
                format!("{}:{}", n, o.len())
            } else {
                "NA".into()
            }
        }
        Err(_) => "R".into(),
    });
    ep!("m.replace0", match sonic_rs::from_slice::<OwnedLazyValue>(t) {
        Ok(mut v) => {
            // replace the first member (array: index 0, object: first key) through get_mut / pointer_mut
            let first_key: Option<String> = v.as_object().and_then(|o| o.iter().next().map(|(k, _)| k.to_string()));
            let done = if v.get_type() == JsonType::Array {
                match v.get_mut(0usize) {
                    Some(m) => {
                        *m = sonic_rs::to_lazyvalue(&[true]).unwrap();
                        true
                    }
                    None => false,
                }
            } else if let Some(k) = first_key {
                match v.pointer_mut(&[k.as_str()]) {
                    Some(m) => {
                        *m = sonic_rs::to_lazyvalue(&[true]).unwrap();
                        true
                    }
                    None => false,
                }
            } else {
                false
            };
            if done { hex(sonic_rs::to_string(&v).unwrap().as_bytes()) } else { "NA".into() }
        }
        Err(_) => "R".into(),
    });
    f.join(" ")
}

pub fn run() {
    let mut out = Out::new();
    for line in lines_in() {
        let p: Vec<&str> = line.split(' ').collect();
        let t = unhex(p.get(1).copied().unwrap_or("-"));
        out.line(&run_case(&t));
    }
}

pub fn gen(seed: u64, thorough: bool) {
    let mut out = Out::new();
    let mut r = Rng::new(seed ^ 0x13);
    let fixed: &[&[u8]] = &[
        b"null", b"true", b"false", b" true ", b"\n null\t", b"0", b"-0", b"-0.0", b"1e2", b"18446744073709551615", b"18446744073709551616", b"-9223372036854775808",
        b"0.1", b"123456789012345678901234567890", b"[]", b"{}", b" [ ] ", b"{ }", b"[[]]", b"{\"a\":{}}", b"{\"a\":1,\"a\":2}", b"\"\"", b"\"plain\"", b" \"x\" ",
        b"\"\\u00e9\\uD83D\\uDE00\\n\"", b"\"esc\\\"aped\"", b"[1,[2,[3,[4,[5]]]]]", b" [ 1 , \"x\" , true , null , false ] ", b"[true]", b"[null,false]", b"{\"t\":true,\"n\":null}",
        b"{\"k\\u0061\":\"v\",\"ka\":2}", b"[\"\xe4\xb8\xad\",\"\xf0\x9f\x98\x80\"]", b"{\"e\\n\":[\"a\\tb\",{\"x\\\\\":\"\\u0041\"}]}", b"[1e308,5e-324,1.5,-2]",
    ];
    for t in fixed {
        out.line(&format!("c13 {}", hex(t)));
    }
    // children that are strings with ONE escape at every offset 0..100 from the opening quote and tails around the block
    // width behind it (the escaped / not-escaped status of the block skippers decides how a lazy child reads its text)
    for pad in 0..=100usize {
        let tails: &[usize] = if thorough { &[0, 1, 3, 20, 30, 31, 32, 33, 40, 64] } else { &[0, 3, 20, 40] };
        for &tail in tails {
            for esc in [&b"\\n"[..], b"\\\"", b"\\u0041"] {
                if !thorough && esc.len() > 2 && (pad + tail) % 3 != 0 {
                    continue;
                }
                let mut body = vec![b'a'; pad];
                body.extend_from_slice(esc);
                body.extend(std::iter::repeat(b'b').take(tail));
                let mut d = b"[\"".to_vec();
                d.extend_from_slice(&body);
                d.extend_from_slice(b"\"]");
                out.line(&format!("c13 {}", hex(&d)));
                if (pad + tail) % 2 == 0 {
                    let mut d = b"{\"k\":\"".to_vec();
                    d.extend_from_slice(&body);
                    d.extend_from_slice(b"\",\"n\":[1,\"p\"]}");
                    out.line(&format!("c13 {}", hex(&d)));
                }
            }
        }
    }
    let n = if thorough { 40000 } else { 3000 };
    let cfg = GenCfg { max_depth: 5, max_items: 6, ws: true, dup_keys: true, long_strings: true };
    for _ in 0..n {
        let mut d = Vec::new();
        if r.chance(1, 3) {
            // scalars as whole documents
            gen_value(&mut r, &GenCfg { max_depth: 0, ..cfg.clone() }, 0, &mut d);
        } else {
            d = gen_doc(&mut r, &cfg);
        }
        out.line(&format!("c13 {}", hex(&d)));
    }
}

/// walks a DOM value in the format of `view` / `view_owned`
fn view_dom(v: &sonic_rs::Value, depth: usize, out: &mut String) {
    match v.get_type() {
        JsonType::Null => out.push('n'),
        JsonType::Boolean => match v.as_bool() {
            Some(true) => out.push('t'),
            Some(false) => out.push('f'),
            None => out.push_str("B?"),
        },
        JsonType::Number => num_dump(v, out),
        JsonType::String => match v.as_str() {
            Some(s) => out.push_str(&format!("S{}", hex(s.as_bytes()))),
            None => out.push_str("S?"),
        },
        JsonType::Array => {
            out.push('[');
            if depth == 0 {
                out.push_str("..");
            } else if let Some(a) = v.as_array() {
                for (i, x) in a.iter().enumerate() {
                    if i > 0 {
                        out.push(',');
                    }
                    view_dom(x, depth - 1, out);
                }
            }
            out.push(']');
        }
        JsonType::Object => {
            out.push('{');
            if depth == 0 {
                out.push_str("..");
            } else if let Some(o) = v.as_object() {
                for (i, (k, x)) in o.iter().enumerate() {
                    if i > 0 {
                        out.push(',');
                    }
                    out.push_str(&format!("S{}:", hex(k.as_bytes())));
                    view_dom(x, depth - 1, out);
                }
            }
            out.push('}');
        }
    }
}

/// `c13lf <hexdoc>`: the DOM, the lazy and the owned-lazy view of one text, side by side (meant for a build with
/// the cargo feature `utf8_lossy`, where the DOM of a text with unpaired surrogate escapes exists)
pub fn run_lf() {
    let mut out = Out::new();
    for line in lines_in() {
        let p: Vec<&str> = line.split(' ').collect();
        let t = unhex(p.get(1).copied().unwrap_or("-"));
        let mut f: Vec<String> = Vec::new();
        let t1 = t.clone();
        f.push(format!("d={}", guarded(move || match sonic_rs::from_slice::<sonic_rs::Value>(&t1) {
            Ok(v) => { let mut s = String::new(); view_dom(&v, 6, &mut s); s }
            Err(_) => "R".into(),
        })));
        let t1 = t.clone();
        f.push(format!("l={}", guarded(move || match sonic_rs::from_slice::<LazyValue>(&t1) {
            Ok(v) => { let mut s = String::new(); view(&v, 6, &mut s); s }
            Err(_) => "R".into(),
        })));
        let t1 = t.clone();
        f.push(format!("o={}", guarded(move || match sonic_rs::from_slice::<OwnedLazyValue>(&t1) {
            Ok(v) => { let mut s = String::new(); view_owned(&v, 6, &mut s); s }
            Err(_) => "R".into(),
        })));
        let t1 = t.clone();
        f.push(format!("ol={}", guarded(move || match sonic_rs::from_slice::<LazyValue>(&t1) {
            Ok(v) => { let o = OwnedLazyValue::from(v); let mut s = String::new(); view_owned(&o, 6, &mut s); s }
            Err(_) => "R".into(),
        })));
        f.push(format!("feat={}", cfg!(feature = "utf8_lossy") as u8));
        out.line(&f.join(" "));
    }
}

pub fn gen_lf(seed: u64, thorough: bool) {
    let mut out = Out::new();
    let mut r = Rng::new(seed ^ 0x13f);
    let fixed: &[&[u8]] = &[
        b"\"\\ud800\"", b"\"\\udc00\"", b"\"x\\ud800y\"", b"\"\\ud800\\u0041\"", b"\"\\ud83d\\ude00\"", b"[\"\\ud800\"]", b"{\"k\":\"x\\ud800y\"}",
        b"{\"\\udc00\":[1]}", b"{\"k\":\"x\\ud800y\",\"\\udc00\":[1]}", b"[[\"\\udfff\",{\"a\\ud800\":\"\\ud800\\ud800\"}],\"z\"]", b"\"plain\"", b"{\"a\":1}",
        b"[\"\\ud800\\udc00\",\"\\udc00\\ud800\"]",
    ];
    for t in fixed {
        out.line(&format!("c13lf {}", hex(t)));
    }
    // generated documents with unpaired surrogate escapes put into some of their strings and keys
    let n = if thorough { 4000 } else { 400 };
    let cfg = GenCfg { max_depth: 4, max_items: 5, ws: true, dup_keys: false, long_strings: true };
    let lone: [&[u8]; 4] = [b"\\ud800", b"\\uDBFF", b"\\udc00", b"\\uDFFF"];
    for _ in 0..n {
        let d = gen_doc(&mut r, &cfg);
        // insert after opening quotes of strings (a quote preceded by one of `[,:{ ` and not by a backslash)
        let mut t = Vec::with_capacity(d.len() + 16);
        let mut in_str = false;
        let mut i = 0;
        while i < d.len() {
            let c = d[i];
            t.push(c);
            if in_str {
                if c == b'\\' && i + 1 < d.len() {
                    t.push(d[i + 1]);
                    i += 1;
                } else if c == b'"' {
                    in_str = false;
                }
            } else if c == b'"' {
                in_str = true;
                if r.chance(1, 3) {
                    t.extend_from_slice(*r.pick(&lone));
                }
            }
            i += 1;
        }
        out.line(&format!("c13lf {}", hex(&t)));
    }
}
