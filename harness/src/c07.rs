//! C07 — number literals are parsed exactly.  case: `c07 <hex literal>`
use crate::util::*;
use sonic_rs::{JsonValueTrait, Value};

fn int_res<T: std::fmt::Display>(r: Result<T, sonic_rs::Error>) -> String {
    match r {
        Ok(v) => format!("{}", v),
        Err(_) => "R".into(),
    }
}
fn int_ref<T: std::fmt::Display>(r: Result<T, serde_json::Error>) -> String {
    match r {
        Ok(v) => format!("{}", v),
        Err(_) => "R".into(),
    }
}

pub fn run_case(t: &[u8]) -> String {
    let mut f: Vec<String> = Vec::new();
    macro_rules! ep {
        ($name:expr, $body:expr) => {
            f.push(format!("{}={}", $name, guarded(|| $body)));
        };
    }
    ep!("f64", match sonic_rs::from_slice::<f64>(t) { Ok(x) => format!("{:016x}", x.to_bits()), Err(_) => "R".into() });
    ep!("f32", match sonic_rs::from_slice::<f32>(t) { Ok(x) => format!("{:08x}", x.to_bits()), Err(_) => "R".into() });
    ep!("dom", match sonic_rs::from_slice::<Value>(t) {
        Ok(v) => {
            if v.is_u64() { format!("U{}", v.as_u64().unwrap()) }
            else if v.is_i64() { format!("I{}", v.as_i64().unwrap()) }
            else if v.is_f64() { format!("F{:016x}", v.as_f64().unwrap().to_bits()) }
            else { "notnum".into() }
        }
        Err(_) => "R".into(),
    });
    ep!("sjv", match sonic_rs::from_slice::<serde_json::Value>(t) {
        Ok(serde_json::Value::Number(n)) => {
            if n.is_u64() { format!("U{}", n.as_u64().unwrap()) }
            else if n.is_i64() { format!("I{}", n.as_i64().unwrap()) }
            else { format!("F{:016x}", n.as_f64().unwrap().to_bits()) }
        }
        Ok(_) => "notnum".into(),
        Err(_) => "R".into(),
    });
    ep!("i8", int_res(sonic_rs::from_slice::<i8>(t)));
    ep!("u8", int_res(sonic_rs::from_slice::<u8>(t)));
    ep!("i16", int_res(sonic_rs::from_slice::<i16>(t)));
    ep!("u16", int_res(sonic_rs::from_slice::<u16>(t)));
    ep!("i32", int_res(sonic_rs::from_slice::<i32>(t)));
    ep!("u32", int_res(sonic_rs::from_slice::<u32>(t)));
    ep!("i64", int_res(sonic_rs::from_slice::<i64>(t)));
    ep!("u64", int_res(sonic_rs::from_slice::<u64>(t)));
    ep!("i128", int_res(sonic_rs::from_slice::<i128>(t)));
    ep!("u128", int_res(sonic_rs::from_slice::<u128>(t)));
    // references: std for the f64 value, serde_json for typed acceptance
    let s = std::str::from_utf8(t).unwrap_or("");
    f.push(format!("std={}", match s.trim().parse::<f64>() { Ok(x) => format!("{:016x}", x.to_bits()), Err(_) => "R".into() }));
    f.push(format!("ref.i64={}", int_ref(serde_json::from_slice::<i64>(t))));
    f.push(format!("ref.u64={}", int_ref(serde_json::from_slice::<u64>(t))));
    f.push(format!("ref.u8={}", int_ref(serde_json::from_slice::<u8>(t))));
    f.push(format!("ref.i128={}", int_ref(serde_json::from_slice::<i128>(t))));
    f.push(format!("ref.u128={}", int_ref(serde_json::from_slice::<u128>(t))));
    f.push(format!("ref.f64={}", match serde_json::from_slice::<f64>(t) { Ok(x) => format!("{:016x}", x.to_bits()), Err(_) => "R".into() }));
    f.join(" ")
}

pub fn run() {
    let mut out = Out::new();
    for line in lines_in() {
        let p: Vec<&str> = line.split(' ').collect();
        let t = unhex(p.get(1).copied().unwrap_or("-"));
        out.line(&run_case(&t));
    }
}

fn digits(r: &mut Rng, n: usize, out: &mut Vec<u8>) {
    for k in 0..n {
        let d = if k == 0 { 1 + r.below(9) } else { r.below(10) };
        out.push(b'0' + d as u8);
    }
}

/// exact decimal digits of the midpoint between the double with these bits and its successor:
/// returns (digits without leading/trailing zeros, exp10) with value = 0.d1d2.. x 10^exp10
fn midpoint_digits(bits: u64) -> (Vec<u8>, i64) {
    let be = (bits >> 52) & 0x7ff;
    let frac = bits & ((1u64 << 52) - 1);
    let (m, e) = if be == 0 { (frac, -1074i64) } else { (frac | (1u64 << 52), be as i64 - 1075) };
    // midpoint = (2m+1) * 2^(e-1)
    let n = 2 * (m as u128) + 1;
    let e2 = e - 1;
    // big number in base 10^9, little endian
    let mut big: Vec<u64> = Vec::new();
    let mut t = n;
    while t > 0 {
        big.push((t % 1_000_000_000) as u64);
        t /= 1_000_000_000;
    }
    let mul = |big: &mut Vec<u64>, f: u64| {
        let mut carry = 0u64;
        for d in big.iter_mut() {
            let v = *d * f + carry;
            *d = v % 1_000_000_000;
            carry = v / 1_000_000_000;
        }
        while carry > 0 {
            big.push(carry % 1_000_000_000);
            carry /= 1_000_000_000;
        }
    };
    let mut shift10 = 0i64;
    if e2 >= 0 {
        for _ in 0..e2 {
            mul(&mut big, 2);
        }
    } else {
        // n / 2^k = n * 5^k / 10^k
        for _ in 0..(-e2) {
            mul(&mut big, 5);
        }
        shift10 = e2;
    }
    let mut s = String::new();
    for (i, d) in big.iter().rev().enumerate() {
        if i == 0 {
            s.push_str(&format!("{}", d));
        } else {
            s.push_str(&format!("{:09}", d));
        }
    }
    let total = s.len() as i64;
    let digits: Vec<u8> = s.trim_end_matches('0').as_bytes().to_vec();
    (digits, total + shift10)
}

pub fn gen(seed: u64, thorough: bool) {
    let mut out = Out::new();
    let mut r = Rng::new(seed ^ 0x07);
    let mut emit = |t: &[u8]| out.line(&format!("c07 {}", hex(t)));
    let fixed: &[&str] = &[
        "0", "-0", "-0.0", "0.0", "-0e1", "0e0", "-0.000", "0.000e5", "1", "-1", "255", "256", "-128", "-129", "65535", "65536", "4294967295", "4294967296",
        "2147483647", "2147483648", "-2147483648", "-2147483649", "9223372036854775807", "9223372036854775808", "-9223372036854775808",
        "-9223372036854775809", "18446744073709551615", "18446744073709551616", "99999999999999999999", "10000000000000000000", "184467440737095516150",
        "340282366920938463463374607431768211455", "340282366920938463463374607431768211456", "-170141183460469231731687303715884105728",
        "-170141183460469231731687303715884105729", "170141183460469231731687303715884105727", "170141183460469231731687303715884105728",
        "1.0", "1e0", "1E2", "1e+2", "1e-2", "1.5e300", "1e308", "1.7976931348623157e308", "1.7976931348623158e308", "1.7976931348623159e308", "1e309",
        "-1e309", "5e-324", "2.4703282292062327e-324", "2.4703282292062328e-324", "2.2250738585072014e-308", "2.2250738585072011e-308", "4.9e-324", "1e-400",
        "9007199254740993", "9007199254740992.5", "9007199254740993.0", "0.1", "0.2", "0.30000000000000004", "123456789012345678", "1234567890123456789",
        "12345678901234567890", "123456789012345678901", "1.2345678901234567890123", "43332000001000000003888e-4", "8.98846567431158e307",
        "01", "-01", "00", "1.", ".5", "1e", "1e+", "-", "+1", "1.e2", "0x10", "1_0", "1e1.5", "--1",
        "1e1000", "1e-1000", "1e10000", "1e-10000", "1e99999", "1e-99999", "1e100000", "10e999", "0.1e1000", "1e0000000000000000000001", "1e-0000000000000000000001",
    ];
    for s in fixed {
        emit(s.as_bytes());
    }
    // the overflow boundary at every digit count of the mantissa (finite / not finite: every path to the float back end has
    // to notice by itself)
    for t in overflow_boundary() {
        emit(&t);
    }
    // zero-padded / huge-exponent literals whose value is moderate
    for (zeros, exp) in [(10usize, 11i64), (1000, 1001), (5000, 5001), (10000, 10001), (20000, 20001)] {
        let mut t = b"0.".to_vec();
        t.extend(std::iter::repeat(b'0').take(zeros));
        t.extend_from_slice(format!("1e{}", exp).as_bytes());
        emit(&t);
        let mut t = b"1".to_vec();
        t.extend(std::iter::repeat(b'0').take(zeros));
        t.extend_from_slice(format!("e-{}", zeros).as_bytes());
        emit(&t);
    }
    // every digit count 1..800 (integer, fraction), sampled in quick
    let step = if thorough { 1 } else { 7 };
    for n in (1..=800).step_by(step) {
        let mut t = Vec::new();
        digits(&mut r, n, &mut t);
        emit(&t);
        let mut t2 = b"0.".to_vec();
        digits(&mut r, n, &mut t2);
        emit(&t2);
        let mut t3 = Vec::new();
        digits(&mut r, 1 + n % 20, &mut t3);
        t3.push(b'.');
        digits(&mut r, n, &mut t3);
        t3.extend_from_slice(format!("e{}", (n as i64 % 600) - 300).as_bytes());
        emit(&t3);
    }
    // every power-of-ten exponent -400..400 with short and 17-digit mantissas
    for e in (-400i64..=400).step_by(if thorough { 1 } else { 3 }) {
        emit(format!("1e{}", e).as_bytes());
        let mut t = Vec::new();
        digits(&mut r, 17, &mut t);
        t.insert(1, b'.');
        t.extend_from_slice(format!("e{}", e).as_bytes());
        emit(&t);
        emit(format!("-{}.{}E{}", 1 + r.below(9), r.below(1000), e).as_bytes());
    }
    // halfway and near-halfway cases around f64 boundaries: take a random double, print the exact
    // decimal expansion of the midpoint to its successor (via big decimals in std formatting)
    let n_half = if thorough { 4000 } else { 300 };
    for _ in 0..n_half {
        let bits = (r.next() >> 1) % 0x7fe0_0000_0000_0000;
        let x = f64::from_bits(bits);
        let y = f64::from_bits(bits + 1);
        if !x.is_finite() || !y.is_finite() || x == 0.0 {
            continue;
        }
        // exact decimal of x and y with enough digits, then the midpoint digit string by hand
        let sx = format!("{:.*e}", 800, x);
        emit(sx.as_bytes());
        // 17-digit and 18-digit roundings (near-halfway from above/below)
        emit(format!("{:.16e}", x).as_bytes());
        emit(format!("{:.17e}", x).as_bytes());
        emit(format!("{:.20e}", (x + y) / 2.0).as_bytes());
    }
    // literals next to the exact midpoint of two adjacent doubles: the midpoint itself (a tie), its
    // truncation to 16..19 significant digits (just below) and that plus one unit in the last
    // place (just above), written with a fraction and with an integer mantissa
    let n_mid = if thorough { 6000 } else { 500 };
    for k in 0..n_mid {
        let bits = if k % 4 == 0 {
            // around 2^52..2^64 and other integers
            ((1075 + r.below(12) as u64) << 52) | (r.next() >> 12)
        } else {
            (r.next() >> 1) % 0x7fe0_0000_0000_0000
        };
        let x = f64::from_bits(bits);
        if !x.is_finite() || x == 0.0 {
            continue;
        }
        let (digits, exp10) = midpoint_digits(bits);
        // value = 0.d1d2d3... x 10^exp10
        for nd in [16usize, 17, 18, 19] {
            if digits.len() <= nd {
                continue;
            }
            let below: Vec<u8> = digits[..nd].to_vec();
            let mut above = below.clone();
            let mut i = nd;
            loop {
                if i == 0 {
                    above.insert(0, b'1');
                    break;
                }
                i -= 1;
                if above[i] == b'9' {
                    above[i] = b'0';
                } else {
                    above[i] += 1;
                    break;
                }
            }
            for (m, extra) in [(&below, 0i64), (&above, (above.len() - nd) as i64)] {
                let e = exp10 + extra;
                // d.ddd e(E-1)
                let mut t = vec![m[0], b'.'];
                t.extend_from_slice(&m[1..]);
                t.extend_from_slice(format!("e{}", e - 1).as_bytes());
                emit(&t);
                if nd >= 18 || k % 3 == 0 {
                    // integer mantissa
                    let mut t = m.to_vec();
                    t.extend_from_slice(format!("e{}", e - m.len() as i64).as_bytes());
                    emit(&t);
                }
                if e > 0 && (e as usize) < m.len() && k % 2 == 0 {
                    // plain decimal
                    let mut t = m[..e as usize].to_vec();
                    t.push(b'.');
                    t.extend_from_slice(&m[e as usize..]);
                    emit(&t);
                }
            }
        }
        if digits.len() < 780 && k % 5 == 0 {
            let mut t = vec![digits[0], b'.'];
            t.extend_from_slice(&digits[1..]);
            t.extend_from_slice(format!("e{}", exp10 - 1).as_bytes());
            emit(&t);
        }
    }
    // integer parts of 20..40 digits next to a midpoint of two adjacent doubles (h-1, h, h+1 as whole numbers: the digits beyond the
    // 19th decide the rounding), followed by nothing, an all-zero fraction, an exponent, or a fraction whose only non-zero digit is late
    let n_big = if thorough { 3000 } else { 300 };
    for _ in 0..n_big {
        let be = 1023 + 64 + r.below(66) as u64; // 2^64 .. 2^130: the midpoint is an integer
        let bits = (be << 52) | (r.next() >> 12);
        let (digits, exp10) = midpoint_digits(bits);
        if exp10 < digits.len() as i64 {
            continue;
        }
        let mut h: Vec<u8> = digits.clone();
        h.resize(exp10 as usize, b'0');
        let mut hm = h.clone(); // h - 1
        for i in (0..hm.len()).rev() {
            if hm[i] == b'0' { hm[i] = b'9'; } else { hm[i] -= 1; break; }
        }
        let mut hp = h.clone(); // h + 1
        for i in (0..hp.len()).rev() {
            if hp[i] == b'9' { hp[i] = b'0'; } else { hp[i] += 1; break; }
        }
        for m in [&hm, &h, &hp] {
            for suffix in ["", ".0", ".000", ".0e0", ".00E+2", ".0e-3", "e0", "e-2", ".0000000000000000000000001", ".5"] {
                let mut t = m.to_vec();
                t.extend_from_slice(suffix.as_bytes());
                emit(&t);
            }
            let mut t = vec![b'-'];
            t.extend_from_slice(m);
            t.extend_from_slice(b".0");
            emit(&t);
        }
    }
    // every power of two and the doubles next to it, written with 17 and 16 significant digits (the shortest texts that
    // identify them: just below / just above the power, where the 54-bit product of the second fast path is all ones or all zeros)
    for k in (-1074i32..=1023).step_by(if thorough { 1 } else { 2 }) {
        let x = 2f64.powi(k);
        for y in [x, f64::from_bits(x.to_bits().wrapping_sub(1)), f64::from_bits(x.to_bits() + 1)] {
            if !y.is_finite() || y == 0.0 {
                continue;
            }
            emit(format!("{:.16e}", y).as_bytes());
            if k % 3 == 0 {
                emit(format!("{:.15e}", y).as_bytes());
                emit(format!("-{:e}", y).as_bytes());
            }
        }
    }
    // 19/20-digit integer boundaries
    for base in [9223372036854775807u128, 18446744073709551615u128, 9999999999999999999u128, 10000000000000000000u128, 99999999999999999999u128] {
        for d in 0..6u128 {
            emit(format!("{}", base + d).as_bytes());
            emit(format!("-{}", base + d).as_bytes());
            emit(format!("{}", base.saturating_sub(d)).as_bytes());
            emit(format!("{}.0", base + d).as_bytes());
            emit(format!("{}e0", base + d).as_bytes());
        }
    }
    // long digit runs at every SIMD alignment (fraction of length 0..40 after 0..20 integer digits)
    for il in (1..=20).step_by(if thorough { 1 } else { 3 }) {
        for fl in 0..=40 {
            let mut t = Vec::new();
            digits(&mut r, il, &mut t);
            if fl > 0 {
                t.push(b'.');
                for _ in 0..fl {
                    t.push(b'0' + r.below(10) as u8);
                }
            }
            if r.chance(1, 3) {
                t.extend_from_slice(format!("e{}", r.below(40) as i64 - 20).as_bytes());
            }
            emit(&t);
        }
    }
    // random grammar strings
    let n = if thorough { 30000 } else { 2500 };
    for _ in 0..n {
        let mut t = Vec::new();
        gen_number(&mut r, &mut t);
        emit(&t);
    }
}
