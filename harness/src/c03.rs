//! C03 — the DOM equals the reference data model of its text.  case: `c03 <hexdoc>`
use crate::util::*;
use serde::Deserialize;
use sonic_rs::{JsonContainerTrait, JsonNumberTrait, JsonType, JsonValueTrait, Value};

pub fn dump(v: &Value, out: &mut String) {
    match v.get_type() {
        JsonType::Null => out.push('n'),
        JsonType::Boolean => out.push(if v.as_bool().unwrap() { 't' } else { 'f' }),
        JsonType::Number => {
            if let Some(r) = v.as_raw_number() {
                // raw-number mode: the literal itself
                if v.as_number().is_none() {
                    out.push_str(&format!("R{}", hex(r.as_str().as_bytes())));
                    return;
                }
            }
            if v.is_u64() {
                out.push_str(&format!("U{}", v.as_u64().unwrap()));
            } else if v.is_i64() {
                out.push_str(&format!("I{}", v.as_i64().unwrap()));
            } else {
                out.push_str(&format!("F{:016x}", v.as_f64().unwrap().to_bits()));
            }
        }
        JsonType::String => out.push_str(&format!("S{}", hex(v.as_str().unwrap().as_bytes()))),
        JsonType::Array => {
            out.push('[');
            for (i, x) in v.as_array().unwrap().iter().enumerate() {
                if i > 0 {
                    out.push(',');
                }
                dump(x, out);
            }
            out.push(']');
        }
        JsonType::Object => {
            out.push('{');
            for (i, (k, x)) in v.as_object().unwrap().iter().enumerate() {
                if i > 0 {
                    out.push(',');
                }
                out.push_str(&format!("S{}:", hex(k.as_bytes())));
                dump(x, out);
            }
            out.push('}');
        }
    }
}

pub fn dump_raw(v: &Value, out: &mut String) {
    // raw-number mode dump: numbers by their literal
    match v.get_type() {
        JsonType::Number => match v.as_raw_number() {
            Some(r) => out.push_str(&format!("R{}", hex(r.as_str().as_bytes()))),
            None => out.push_str("R?"),
        },
        JsonType::Array => {
            out.push('[');
            for (i, x) in v.as_array().unwrap().iter().enumerate() {
                if i > 0 {
                    out.push(',');
                }
                dump_raw(x, out);
            }
            out.push(']');
        }
        JsonType::Object => {
            out.push('{');
            for (i, (k, x)) in v.as_object().unwrap().iter().enumerate() {
                if i > 0 {
                    out.push(',');
                }
                out.push_str(&format!("S{}:", hex(k.as_bytes())));
                dump_raw(x, out);
            }
            out.push('}');
        }
        _ => dump(v, out),
    }
}

fn d(r: Result<Value, sonic_rs::Error>) -> String {
    match r {
        Ok(v) => {
            let mut s = String::new();
            dump(&v, &mut s);
            s
        }
        Err(_) => "R".into(),
    }
}

#[derive(Deserialize)]
struct Emb {
    x: u32,
    v: Value,
    y: Vec<Value>,
}

/// a `Value` owns what it shows: once the parse is over the caller may refill or free the input buffer
fn scrub(v: &mut Vec<u8>) {
    for b in v.iter_mut() {
        *b = b'#';
    }
}

pub fn run_case(t: &[u8]) -> String {
    let mut f: Vec<String> = Vec::new();
    macro_rules! ep {
        ($name:expr, $body:expr) => {
            f.push(format!("{}={}", $name, guarded(|| $body)));
        };
    }
    ep!("whole", d(sonic_rs::from_slice::<Value>(t)));
    if let Ok(s) = std::str::from_utf8(t) {
        ep!("whole_str", d(sonic_rs::from_str::<Value>(s)));
    }
    // later document of a stream: copy path (parse_dom2, checked reader)
    ep!("stream2", {
        let mut doc = b"[0] ".to_vec();
        doc.extend_from_slice(t);
        let second = {
            let mut it = sonic_rs::Deserializer::from_slice(&doc).into_stream::<Value>();
            let _first = it.next();
            it.next()
        };
        scrub(&mut doc);
        drop(doc);
        match second {
            Some(r) => d(r),
            None => "R".into(),
        }
    });
    // embedded in a typed structure
    ep!("embedded", {
        let mut doc = b"{\"x\":7,\"v\":".to_vec();
        doc.extend_from_slice(t);
        doc.extend_from_slice(b",\"y\":[");
        doc.extend_from_slice(t);
        doc.extend_from_slice(b",1]}");
        let parsed = sonic_rs::from_slice::<Emb>(&doc);
        scrub(&mut doc);
        drop(doc);
        match parsed {
            Ok(e) => {
                let mut a = String::new();
                dump(&e.v, &mut a);
                let mut b = String::new();
                dump(&e.y[0], &mut b);
                if a == b && e.x == 7 && e.y.len() == 2 { a } else { format!("MISMATCH:{}|{}", a, b) }
            }
            Err(_) => "R".into(),
        }
    });
    // raw-number mode
    ep!("rawnum", {
        let mut de = sonic_rs::Deserializer::from_slice(t).use_rawnumber();
        match de.deserialize::<Value>() {
            Ok(v) => {
                let mut s = String::new();
                dump_raw(&v, &mut s);
                s
            }
            Err(_) => "R".into(),
        }
    });
    // raw-number mode on the copy path: second document of a stream, and a field of a typed structure
    ep!("rawnum2", {
        let mut doc = b"[0] ".to_vec();
        doc.extend_from_slice(t);
        let second = {
            let mut de = sonic_rs::Deserializer::from_slice(&doc).use_rawnumber();
            let _first = de.deserialize::<Value>();
            Value::deserialize(&mut de)
        };
        scrub(&mut doc);
        drop(doc);
        match second {
            Ok(v) => {
                let mut s = String::new();
                dump_raw(&v, &mut s);
                s
            }
            Err(_) => "R".into(),
        }
    });
    ep!("rawnum_emb", {
        let mut doc = b"{\"x\":7,\"v\":".to_vec();
        doc.extend_from_slice(t);
        doc.extend_from_slice(b",\"y\":[");
        doc.extend_from_slice(t);
        doc.extend_from_slice(b",1]}");
        let parsed = {
            let mut de = sonic_rs::Deserializer::from_slice(&doc).use_rawnumber();
            Emb::deserialize(&mut de)
        };
        scrub(&mut doc);
        drop(doc);
        match parsed {
            Ok(e) => {
                let mut a = String::new();
                dump_raw(&e.v, &mut a);
                let mut b = String::new();
                dump_raw(&e.y[0], &mut b);
                if a == b && e.x == 7 && e.y.len() == 2 { a } else { format!("MISMATCH:{}|{}", a, b) }
            }
            Err(_) => "R".into(),
        }
    });
    // lossy mode on (possibly invalid) text
    ep!("lossy", {
        let mut de = sonic_rs::Deserializer::from_slice(t).utf8_lossy();
        d(de.deserialize::<Value>())
    });
    f.join(" ")
}

pub fn run() {
    let mut out = Out::new();
    for line in lines_in() {
        let p: Vec<&str> = line.split(' ').collect();
        let t = unhex(p.get(1).copied().unwrap_or("-"));
        out.line(&run_case(&t));
    }
}

pub fn gen(seed: u64, thorough: bool) {
    let mut out = Out::new();
    let mut r = Rng::new(seed ^ 0x03);
    let fixed: &[&[u8]] = &[
        b"null", b"true", b"false", b"0", b"-0", b"-0.0", b"1e2", b"18446744073709551615", b"18446744073709551616", b"-9223372036854775808",
        b"-9223372036854775809", b"9223372036854775808", b"0.1", b"1E-2", b"123456789012345678901234567890", b"[]", b"{}", b"[[]]", b"{\"a\":{}}",
        b"{\"a\":1,\"a\":2}", b"{\"\":0}", b"\"\"", b"\"\\u00e9\\uD83D\\uDE00\\n\"", b"[1,[2,[3,[4,[5]]]]]", b" [ 1 , \"x\" ] ", b"[1e308,1e-308,5e-324,1.7976931348623157e308]",
        b"{\"k\\u0061\":\"v\",\"ka\":2}", b"[\"\xe4\xb8\xad\",\"\xf0\x9f\x98\x80\"]",
    ];
    for t in fixed {
        out.line(&format!("c03 {}", hex(t)));
    }
    // corpus files of the repository (small ones in the quick tier)
    if let Ok(rd) = std::fs::read_dir("/repo/benchmarks/benches/testdata") {
        let mut files: Vec<_> = rd.filter_map(|e| e.ok()).map(|e| e.path()).filter(|p| p.extension().map(|x| x == "json").unwrap_or(false)).collect();
        files.sort();
        for p in files {
            if let Ok(b) = std::fs::read(&p) {
                if b.len() < if thorough { 3_000_000 } else { 200_000 } {
                    out.line(&format!("c03 {}", hex(&b)));
                }
            }
        }
    }
    let n = if thorough { 40000 } else { 3000 };
    let cfg = GenCfg { max_depth: 5, max_items: 6, ws: true, dup_keys: true, long_strings: true };
    for _ in 0..n {
        let d = gen_doc(&mut r, &cfg);
        out.line(&format!("c03 {}", hex(&d)));
        if r.chance(1, 5) {
            let m = mutate(&mut r, &d);
            out.line(&format!("c03 {}", hex(&m)));
        }
    }
    // alignment sweep: a string and a number element at every offset / length
    let step = if thorough { 1 } else { 5 };
    for off in (0..=64).step_by(step) {
        for len in (0..=130).step_by(if thorough { 2 } else { 9 }) {
            let mut t = vec![b' '; off];
            t.extend_from_slice(b"[\"");
            t.extend(std::iter::repeat(b'q').take(len));
            t.extend_from_slice(b"\\n\xc3\xa9\",");
            t.extend(std::iter::repeat(b'7').take(1 + len % 25));
            t.extend_from_slice(b".25,{\"k\":[]}]");
            out.line(&format!("c03 {}", hex(&t)));
        }
    }
}
