//! C06 — parse then serialize is lossless and reaches a fixpoint.  case: `c06 <hexdoc>`
//! fields: acc (A/R), s = to_string(dom) (hex), eq/fix/disp/vec/pretty_eq/pretty_fix (A/R),
//!         raw / rawpretty = raw-number mode outputs (hex), rawfix, raweq
use crate::c03::{dump, dump_raw};
use crate::util::*;
use sonic_rs::Value;

fn d(v: &Value) -> String {
    let mut s = String::new();
    dump(v, &mut s);
    s
}
fn dr(v: &Value) -> String {
    let mut s = String::new();
    dump_raw(v, &mut s);
    s
}

/// structural dump with the members of every object stably sorted by key (member order is the only
/// thing the sort_keys build may change)
fn dump_sorted(v: &Value, raw: bool, out: &mut String) {
    use sonic_rs::{JsonContainerTrait, JsonValueTrait};
    if let Some(a) = v.as_array() {
        out.push('[');
        for (i, x) in a.iter().enumerate() {
            if i > 0 {
                out.push(',');
            }
            dump_sorted(x, raw, out);
        }
        out.push(']');
    } else if let Some(o) = v.as_object() {
        let mut ms: Vec<(&str, &Value)> = o.iter().collect();
        ms.sort_by(|a, b| a.0.as_bytes().cmp(b.0.as_bytes()));
        out.push('{');
        for (i, (k, x)) in ms.iter().enumerate() {
            if i > 0 {
                out.push(',');
            }
            out.push_str(&format!("S{}:", hex(k.as_bytes())));
            dump_sorted(x, raw, out);
        }
        out.push('}');
    } else if raw {
        dump_raw(v, out);
    } else {
        dump(v, out);
    }
}
fn ds(v: &Value, raw: bool) -> String {
    let mut s = String::new();
    dump_sorted(v, raw, &mut s);
    s
}

pub fn run_case(t: &[u8]) -> String {
    let mut f: Vec<String> = Vec::new();
    let v: Value = match sonic_rs::from_slice(t) {
        Ok(v) => v,
        Err(_) => return "acc=R".into(),
    };
    f.push("acc=A".into());
    let s = sonic_rs::to_string(&v).unwrap();
    f.push(format!("s={}", hex(s.as_bytes())));
    // re-parse: equal DOM (by PartialEq and by structural dump), second pass byte-identical
    match sonic_rs::from_str::<Value>(&s) {
        Ok(v2) => {
            f.push(format!("eq={}", ar(v2 == v && d(&v2) == d(&v))));
            f.push(format!("eqs={}", ar(v2 == v && ds(&v2, false) == ds(&v, false))));
            f.push(format!("fix={}", ar(sonic_rs::to_string(&v2).unwrap() == s)));
        }
        Err(_) => {
            f.push("eq=R".into());
            f.push("fix=R".into());
        }
    }
    f.push(format!("disp={}", ar(format!("{}", v) == s)));
    f.push(format!("vec={}", ar(sonic_rs::to_vec(&v).unwrap() == s.as_bytes())));
    let p = sonic_rs::to_string_pretty(&v).unwrap();
    match sonic_rs::from_str::<Value>(&p) {
        Ok(v3) => {
            f.push(format!("pretty_eq={}", ar(d(&v3) == d(&v))));
            f.push(format!("pretty_eqs={}", ar(ds(&v3, false) == ds(&v, false))));
            f.push(format!("pretty_fix={}", ar(sonic_rs::to_string_pretty(&v3).unwrap() == p)));
        }
        Err(_) => {
            f.push("pretty_eq=R".into());
            f.push("pretty_fix=R".into());
        }
    }
    f.push(format!("pretty={}", hex(p.as_bytes())));
    // raw-number mode: every literal verbatim
    let mut de = sonic_rs::Deserializer::from_slice(t).use_rawnumber();
    match de.deserialize::<Value>() {
        Ok(vr) => {
            let r = sonic_rs::to_string(&vr).unwrap();
            f.push(format!("raw={}", hex(r.as_bytes())));
            f.push(format!("rawpretty={}", hex(sonic_rs::to_string_pretty(&vr).unwrap().as_bytes())));
            let mut de2 = sonic_rs::Deserializer::from_slice(r.as_bytes()).use_rawnumber();
            match de2.deserialize::<Value>() {
                Ok(vr2) => {
                    f.push(format!("raweq={}", ar(dr(&vr2) == dr(&vr))));
                    f.push(format!("raweqs={}", ar(ds(&vr2, true) == ds(&vr, true))));
                    f.push(format!("rawfix={}", ar(sonic_rs::to_string(&vr2).unwrap() == r)));
                }
                Err(_) => {
                    f.push("raweq=R".into());
                    f.push("rawfix=R".into());
                }
            }
        }
        Err(_) => f.push("raw=ERR".into()),
    }
    f.join(" ")
}

fn ar(b: bool) -> &'static str {
    if b { "A" } else { "R" }
}

pub fn run() {
    let mut out = Out::new();
    for line in lines_in() {
        let p: Vec<&str> = line.split(' ').collect();
        let t = unhex(p.get(1).copied().unwrap_or("-"));
        out.line(&guarded(move || run_case(&t)));
    }
}

pub fn gen(seed: u64, thorough: bool) {
    let mut out = Out::new();
    let mut r = Rng::new(seed ^ 0x06);
    let fixed: &[&[u8]] = &[
        b"null", b"true", b"0", b"-0", b"-0.0", b"1e2", b"1E+2", b"1.50", b"0.1e1", b"18446744073709551615", b"18446744073709551616", b"-9223372036854775808",
        b"-9223372036854775809", b"1e400", b"123456789012345678901234567890", b"[]", b"{}", b"[[]]", b"{\"a\":{}}", b"{\"b\":1,\"a\":2}", b"{\"a\":1,\"a\":2}",
        b"{\"b\":1,\"a\":2,\"b\":3,\"a\":{\"z\":0,\"y\":[{\"q\":1,\"p\":2}]}}", b"{\"\":0,\"\\u0000\":1,\"\\\"\":2}", b"\"\"", b"\"\\u00e9\\uD83D\\uDE00\\n\\u001f\\u007f\\/\"",
        b"[1,[2,[3,[4,[5]]]]]", b" [ 1 , \"x\" ] ", b"[1e308,1e-308,5e-324,1.7976931348623157e308,0.30000000000000004]", b"{\"k\\u0061\":\"v\",\"ka\":2}",
        b"{\"\xc3\xa9\":1,\"e\":2,\"\xe4\xb8\xad\":3,\"\xf0\x9f\x98\x80\":4,\"Z\":5,\"a\":6}", b"[\"\\b\\f\\n\\r\\t\\\"\\\\\"]",
    ];
    for t in fixed {
        out.line(&format!("c06 {}", hex(t)));
    }
    if let Ok(rd) = std::fs::read_dir("/repo/benchmarks/benches/testdata") {
        let mut files: Vec<_> = rd.filter_map(|e| e.ok()).map(|e| e.path()).filter(|p| p.extension().map(|x| x == "json").unwrap_or(false)).collect();
        files.sort();
        for p in files {
            if let Ok(b) = std::fs::read(&p) {
                if b.len() < if thorough { 3_000_000 } else { 100_000 } {
                    out.line(&format!("c06 {}", hex(&b)));
                }
            }
        }
    }
    // every byte that needs an escape (and its neighbours) in a key and in a string value, alone and with padding on both sides of
    // the 32-byte vector width (keys and values are written by different code paths)
    for b in (0u8..=0x21).chain([0x22u8, 0x5c, 0x7f, 0x2f]) {
        for pad in [0usize, 3, 15, 31, 32, 40] {
            let esc = format!("\\u{:04x}", b);
            let p = "p".repeat(pad);
            let k = format!("{{\"{p}{esc}{p}\":0}}");
            out.line(&format!("c06 {}", hex(k.as_bytes())));
            let v = format!("[\"{p}{esc}{p}\"]");
            out.line(&format!("c06 {}", hex(v.as_bytes())));
        }
    }
    // wide objects with repeated member names (every member's value is its position in the text): the relative order of
    // members with EQUAL names is observable — kept in the default build, and by a STABLE sort in the sort_keys build (an
    // in-place pattern-defeating sort is stable only up to 20 elements)
    let pools: &[&[&str]] = &[&["a", "b"], &["k", "k", "j"], &["x"], &["b", "a", "c", "aa", "ab", "", "\\u0061"], &["m1", "m2", "m3", "m4", "m5", "m6", "m7", "m8", "m9"]];
    let widths: Vec<usize> = if thorough { (1..=130).collect() } else { vec![2, 7, 19, 20, 21, 22, 25, 32, 33, 47, 64, 80, 130] };
    for (pi, pool) in pools.iter().enumerate() {
        for &w in &widths {
            for shape in 0..3 {
                let mut members = String::new();
                for i in 0..w {
                    if i > 0 {
                        members.push(',');
                    }
                    let k = if shape == 2 { pool[(i * 7 + pi) % pool.len()] } else { *r.pick(pool) };
                    members.push_str(&format!("\"{k}\":{i}"));
                }
                let doc = match shape {
                    0 => format!("{{{members}}}"),
                    1 => format!("[{{{members}}},{{\"z\":{{{members}}}}}]"),
                    _ => format!("{{\"outer\":{{{members}}},\"outer\":0}}"),
                };
                out.line(&format!("c06 {}", hex(doc.as_bytes())));
            }
        }
    }
    let n = if thorough { 40000 } else { 3000 };
    let cfg = GenCfg { max_depth: 5, max_items: 6, ws: true, dup_keys: true, long_strings: true };
    for _ in 0..n {
        let d = gen_doc(&mut r, &cfg);
        out.line(&format!("c06 {}", hex(&d)));
    }
}
