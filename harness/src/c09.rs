//! C09 — string literal decoders at every length/alignment.
//! case: `c09 <hex doc> <lit_start> <kind>`  kind: p = doc is ws* literal ws*, a = literal is element 0 of an array
use crate::util::*;
use serde::Deserialize;
use sonic_rs::{JsonContainerTrait, JsonValueTrait, LazyValue, Value};
use std::borrow::Cow;

#[derive(Deserialize)]
struct CowW<'a>(#[serde(borrow)] Cow<'a, str>);

fn s_hex(r: Option<&str>) -> String {
    match r {
        Some(s) => format!("S:{}", hex(s.as_bytes())),
        None => "R".into(),
    }
}

pub fn run_case(doc: &[u8], lit_start: usize, kind: &str) -> String {
    let mut f: Vec<String> = Vec::new();
    let arr = kind == "a";
    macro_rules! ep {
        ($name:expr, $body:expr) => {
            f.push(format!("{}={}", $name, guarded(|| $body)));
        };
    }
    // the in-place decoder itself (hook `verif::parse_string_inplace`) on the padded copy `parse_with_padding` makes: decoded
    // bytes, reader index behind the closing quote, and whether every byte in front of the literal and from that index on is
    // unchanged (the rest of the document is parsed from this buffer afterwards)
    for (name, lossy) in [("ip", false), ("ipl", true)] {
        ep!(name, {
            let mut b = doc.to_vec();
            b.extend_from_slice(b"x\"x");
            b.extend_from_slice(&[0u8; 61]);
            let orig = b.clone();
            let start = lit_start + 1;
            if start > doc.len() {
                "skip".to_string()
            } else {
                match sonic_rs::verif::parse_string_inplace(&mut b, start, lossy) {
                    Ok((cnt, e)) => {
                        let frame = e <= b.len() && start + cnt <= e && b[..start] == orig[..start] && b[e..] == orig[e..];
                        format!("S:{}:{}:{}", hex(&b[start..start + cnt]), e, if frame { 1 } else { 0 })
                    }
                    Err(_) => "R".into(),
                }
            }
        });
    }
    // in-place padded decoder (DOM)
    ep!("inplace", match sonic_rs::from_slice::<Value>(doc) {
        Ok(v) => {
            if arr { s_hex(v.get(0).and_then(|x| x.as_str())) } else { s_hex(v.as_str()) }
        }
        Err(_) => "R".into(),
    });
    if !arr {
        // copying / borrowing decoder (checked reader)
        ep!("copy", match sonic_rs::from_slice::<String>(doc) {
            Ok(s) => s_hex(Some(&s)),
            Err(_) => "R".into(),
        });
        if let Ok(sdoc) = std::str::from_utf8(doc) {
            ep!("cow", match sonic_rs::from_str::<CowW>(sdoc) {
                Ok(CowW(Cow::Borrowed(s))) => format!("B:{}", hex(s.as_bytes())),
                Ok(CowW(Cow::Owned(s))) => format!("O:{}", hex(s.as_bytes())),
                Err(_) => "R".into(),
            });
            ep!("bstr", match sonic_rs::from_str::<&str>(sdoc) {
                Ok(s) => s_hex(Some(s)),
                Err(_) => "R".into(),
            });
        }
        // key decoders: {<lit>:0}
        let lit_end = doc.iter().rposition(|b| !b" \n\t\r".contains(b)).map(|p| p + 1).unwrap_or(doc.len());
        let mut kd = b"{".to_vec();
        kd.extend_from_slice(&doc[..lit_end]);
        kd.extend_from_slice(b":0}");
        ep!("key", match sonic_rs::from_slice::<Value>(&kd) {
            Ok(v) => match v.as_object().and_then(|o| o.iter().next().map(|(k, _)| k.to_string())) {
                Some(k) => s_hex(Some(&k)),
                None => "R".into(),
            },
            Err(_) => "R".into(),
        });
        ep!("mapkey", match sonic_rs::from_slice::<std::collections::HashMap<String, u8>>(&kd) {
            Ok(m) => s_hex(m.keys().next().map(|k| k.as_str())),
            Err(_) => "R".into(),
        });
        // "the result does not depend on what was decoded before": the same lookup when an earlier member name of the object
        // has escapes of its own (one scratch buffer serves all names of an object), and the literal as a byte string after
        // another escaped string went through the same deserializer
        ep!("getkey2", {
            match serde_json::from_slice::<String>(&doc[..lit_end]) {
                // (first member wins: the literal must not decode to one of the two names in front of it)
                Ok(k) if k != "e\n1\t\"q" && k != "plain-key-0" => {
                    let mut kd2 = b"{\"e\\n1\\t\\\"q\":[\"x\"],\"plain-key-0\":1,".to_vec();
                    kd2.extend_from_slice(&doc[..lit_end]);
                    kd2.extend_from_slice(b":30}");
                    match sonic_rs::get(&kd2[..], &[k.as_str()]) {
                        Ok(lv) => format!("F:{}", hex(lv.as_raw_str().as_bytes())),
                        Err(_) => "N".into(),
                    }
                }
                _ => "skip".into(),
            }
        });
        if let Ok(sdoc) = std::str::from_utf8(&doc[..lit_end]) {
            ep!("bytes2", {
                let t = format!("[\"a\\nb\\u00e9\",{}]", sdoc);
                match sonic_rs::from_str::<(String, serde_bytes::ByteBuf)>(&t) {
                    Ok((_, b)) => format!("S:{}", hex(&b)),
                    Err(_) => "R".into(),
                }
            });
        }
        // the literal between two byte strings that hold invalid UTF-8 (the reader keeps a position of the next invalid byte of
        // the input: a valid literal must not be judged by what stands before and behind it)
        ep!("tuple3", {
            let mut t3 = b"[\"\xff\",".to_vec();
            t3.extend_from_slice(&doc[..lit_end]);
            t3.extend_from_slice(b",\"\xfe\"]");
            match sonic_rs::from_slice::<(serde_bytes::ByteBuf, String, serde_bytes::ByteBuf)>(&t3) {
                Ok((_, s, _)) => s_hex(Some(&s)),
                Err(_) => "R".into(),
            }
        });
        ep!("getkey", {
            // the lazy `get` compares the decoded key (parse_string_raw): look the key up by the
            // reference decoding of serde_json
            match serde_json::from_slice::<String>(&doc[..lit_end]) {
                Ok(k) => match sonic_rs::get(&kd[..], &[k.as_str()]) {
                    Ok(lv) => format!("F:{}", hex(lv.as_raw_str().as_bytes())),
                    Err(_) => "N".into(),
                },
                Err(_) => "skip".into(),
            }
        });
    }
    // skip-only decoder + lazy as_str
    ep!("lazystr", {
        let r = if arr { sonic_rs::get(doc, &[0]) } else { sonic_rs::from_slice::<LazyValue>(doc) };
        match r {
            Ok(lv) => {
                let raw = lv.as_raw_str().to_string();
                format!("{}:{}", s_hex(lv.as_str()), hex(raw.as_bytes()))
            }
            Err(_) => "R".into(),
        }
    });
    // lossy decoders
    ep!("lossy_inplace", {
        let mut de = sonic_rs::Deserializer::from_slice(doc).utf8_lossy();
        match de.deserialize::<Value>() {
            Ok(v) => {
                if arr { s_hex(v.get(0).and_then(|x| x.as_str())) } else { s_hex(v.as_str()) }
            }
            Err(_) => "R".into(),
        }
    });
    if !arr {
        ep!("lossy_copy", {
            let mut de = sonic_rs::Deserializer::from_slice(doc).utf8_lossy();
            match de.deserialize::<String>() {
                Ok(s) => s_hex(Some(&s)),
                Err(_) => "R".into(),
            }
        });
    }
    // references (adequacy of the specification)
    let lit_end_all = doc.len();
    let _ = lit_end_all;
    f.push(format!("ref={}", match serde_json::from_slice::<serde_json::Value>(doc) {
        Ok(v) => {
            let s = if arr { v.get(0).and_then(|x| x.as_str().map(|s| s.to_string())) } else { v.as_str().map(|s| s.to_string()) };
            s_hex(s.as_deref())
        }
        Err(_) => "R".into(),
    }));
    let _ = lit_start;
    f.join(" ")
}

pub fn run() {
    let mut out = Out::new();
    for line in lines_in() {
        let p: Vec<&str> = line.split(' ').collect();
        let doc = unhex(p.get(1).copied().unwrap_or("-"));
        let ls: usize = p.get(2).and_then(|s| s.parse().ok()).unwrap_or(0);
        out.line(&run_case(&doc, ls, p.get(3).copied().unwrap_or("p")));
    }
}

fn emit(out: &mut Out, off: usize, lit_body: &[u8], kind: u8, r: &mut Rng) {
    let mut d = vec![b' '; off];
    if kind == b'a' {
        d.push(b'[');
    }
    let ls = d.len();
    d.push(b'"');
    d.extend_from_slice(lit_body);
    d.push(b'"');
    if kind == b'a' {
        let tails: [&[u8]; 4] = [b"]", b",\"t\\\"l\"]", b" , 1 ]", b",\"\\\\\"]"];
        d.extend_from_slice(tails[r.below(4)]);
    } else {
        let n = r.below(3);
        d.extend(std::iter::repeat(b' ').take(n));
    }
    out.line(&format!("c09 {} {} {}", hex(&d), ls, kind as char));
}

pub fn gen(seed: u64, thorough: bool) {
    let mut out = Out::new();
    let mut r = Rng::new(seed ^ 0x09);
    // (a) code points through escapes: all of them in the thorough tier
    let step = if thorough { 1 } else { 257 };
    let mut cp = 0u32;
    while cp <= 0x10FFFF {
        let body = if cp < 0x10000 {
            format!("\\u{:04x}", cp)
        } else {
            let v = cp - 0x10000;
            format!("\\u{:04X}\\u{:04x}", 0xD800 + (v >> 10), 0xDC00 + (v & 0x3ff))
        };
        emit(&mut out, (cp % 5) as usize, body.as_bytes(), if cp % 3 == 0 { b'a' } else { b'p' }, &mut r);
        cp += step;
    }
    for cp in [0u32, 0x1f, 0x20, 0x22, 0x5c, 0x7f, 0x80, 0x7ff, 0x800, 0xd7ff, 0xd800, 0xdbff, 0xdc00, 0xdfff, 0xe000, 0xfffd, 0xffff] {
        let body = format!("x\\u{:04X}y", cp);
        emit(&mut out, 0, body.as_bytes(), b'p', &mut r);
        emit(&mut out, 3, body.as_bytes(), b'a', &mut r);
    }
    // (b) fixed corner cases
    let fixed: &[&[u8]] = &[
        b"\\uD800abcdefgh", b"\\uD800\\u0041x", b"\\uD800\\uD800\\uDC00", b"\\uDC00\\uD800", b"\\uD800", b"\\uD800\\u", b"\\uD800\\uDC0",
        b"\\uD83D\\uDE00", b"\\ud83d\\ude00", b"\\uZZZZ", b"\\u12G4", b"\\u", b"\\u1", b"\\a", b"\\", b"\\\\", b"\\\"", b"\\/\\b\\f\\n\\r\\t",
        b"\x01", b"\x1f", b"\x7f", b"\xff", b"\xc3\xa9", b"\xc3", b"\xe4\xb8", b"\xe4\xb8\\u00ad", b"\xed\xa0\x80", b"\xf4\x90\x80\x80", b"a\xffb\xfe\xfd",
        b"\xf0\x9f\x98", b"\xf0\x9f", b"\xf0", b"\x80\x80", b"\xc0\xaf", b"\xe0\x80\xaf", b"ab\\u0000cd", b"", b"\\u0022", b"\\u005C",
    ];
    for t in fixed {
        for off in [0usize, 1, 31] {
            emit(&mut out, off, t, b'p', &mut r);
            emit(&mut out, off, t, b'a', &mut r);
        }
    }
    // (c) sweep: special token at position pos of a string of length len at start offset off
    let specials: &[&[u8]] = &[b"\\n", b"\\\"", b"\\\\", b"\\u00e9", b"\\uD83D\\uDE00", b"\xc3\xa9", b"\xe4\xb8\xad", b"\xf0\x9f\x98\x80", b"\x01", b"\\x", b"\xff", b"\\uD800"];
    let (offs, lens): (Vec<usize>, Vec<usize>) = if thorough {
        ((0..=64).collect(), (0..=200).step_by(1).collect())
    } else {
        (vec![0, 1, 7, 31, 32, 33, 63, 64], vec![0, 1, 2, 15, 16, 17, 30, 31, 32, 33, 34, 62, 63, 64, 65, 66, 95, 96, 97, 128, 129, 199, 200])
    };
    for &off in &offs {
        for &len in &lens {
            let npos = if thorough { 6 } else { 3 };
            for _ in 0..npos {
                let pos = if len == 0 { 0 } else { r.below(len.min(130) + 1) };
                let sp = *r.pick(specials);
                let mut body = Vec::new();
                for k in 0..len {
                    if k == pos {
                        body.extend_from_slice(sp);
                    }
                    body.push(b'a' + (k % 26) as u8);
                }
                if pos >= len {
                    body.extend_from_slice(sp);
                }
                emit(&mut out, off, &body, if r.chance(1, 3) { b'a' } else { b'p' }, &mut r);
            }
        }
    }
    // (c2) two specials in one literal: the decoder must act on whichever comes first in a block
    let firsts: &[&[u8]] = &[b"\x01", b"\x1f", b"\\n", b"\\\"", b"\xc3\xa9", b"\xff", b"\\uD800"];
    let seconds: &[&[u8]] = &[b"\\n", b"\\u00e9", b"\x01", b"\\x", b"\\\\", b"\xe4\xb8\xad"];
    let lens2: Vec<usize> = if thorough { (0..=80).collect() } else { vec![0, 5, 20, 30, 31, 32, 33, 40, 63, 64, 70] };
    for &len in &lens2 {
        for f in firsts {
            for sd in seconds {
                let reps = if thorough { 4 } else { 2 };
                for _ in 0..reps {
                    let p1 = r.below(len + 1);
                    let p2 = p1 + r.below(len - p1 + 1);
                    let mut body = Vec::new();
                    for k in 0..=len {
                        if k == p1 { body.extend_from_slice(f); }
                        if k == p2 { body.extend_from_slice(sd); }
                        if k < len { body.push(b'a' + (k % 26) as u8); }
                    }
                    let off = r.below(40);
                    emit(&mut out, off, &body, if r.chance(1, 3) { b'a' } else { b'p' }, &mut r);
                }
            }
        }
    }
    // (e) the closing quote is missing (with and without invalid UTF-8 before the end: the lossy decoders work on a longer copy)
    let opens: &[&[u8]] = &[b"", b"a", b"abc", b"a\xff", b"\xff", b"abc\xe5\x93", b"\xc3\xa9", b"\xf0\x9f\x98", b"a\xffb\xfe\xfdc", b"\\n\xff", b"\xff\\", b"\xff\\u00e"];
    for body in opens {
        for off in [0usize, 2, 31] {
            for len in [0usize, 1, 29, 30, 31, 32, 33, 61, 62, 63, 64, 65] {
                for arr in [false, true] {
                    let mut d = vec![b' '; off];
                    if arr { d.push(b'['); }
                    let ls = d.len();
                    d.push(b'"');
                    d.extend((0..len).map(|k| b'a' + (k % 26) as u8));
                    d.extend_from_slice(body);
                    out.line(&format!("c09 {} {} {}", hex(&d), ls, if arr { 'a' } else { 'p' }));
                }
            }
        }
    }
    // (d) random bodies with mutations
    let n = if thorough { 40000 } else { 3000 };
    let cfg = GenCfg::default();
    for _ in 0..n {
        let mut body = Vec::new();
        gen_string_body(&mut r, &cfg, &mut body);
        if r.chance(1, 3) {
            body = mutate(&mut r, &body);
            // keep the body free of raw quotes so that the literal boundary stays where it is
            body.retain(|b| *b != b'"');
            while body.last() == Some(&b'\\') {
                body.pop();
            }
        }
        let off = r.below(70);
        emit(&mut out, off, &body, if r.chance(1, 3) { b'a' } else { b'p' }, &mut r);
    }
}
