//! C04 — typed deserialization agrees with serde_json (and with the Lean reference semantics).
//! case: `c04 <type id> <hexdoc>`
//! output: `sonic=<canon|R> sonic_slice=<canon|R> serde=<canon|R>` where canon is the hex of
//! `serde_json::to_string` of the decoded Rust value (floats: `F<bits>`), R = rejected.
use crate::util::*;
use serde::{Deserialize, Serialize};
use std::borrow::Cow;
use std::collections::BTreeMap;

#[derive(Serialize, Deserialize, PartialEq, Eq, PartialOrd, Ord, Debug, Clone, Copy)]
pub enum Color {
    Blue,
    Green,
    Red,
}
#[derive(Serialize, Deserialize, PartialEq, Debug, Clone)]
pub struct S {
    pub a: i32,
    pub b: Option<String>,
    #[serde(default)]
    pub c: Vec<u8>,
}
#[derive(Serialize, Deserialize, PartialEq, Debug, Clone)]
#[serde(deny_unknown_fields)]
pub struct D {
    pub id: u32,
    pub name: String,
}
#[derive(Serialize, Deserialize, PartialEq, Debug, Clone)]
pub enum E {
    Unit,
    New(i32),
    Tup(i32, String),
    Struct { x: i32, y: Option<bool> },
}
/// variants without fields that are not unit variants
#[derive(Serialize, Deserialize, PartialEq, Debug, Clone)]
pub enum Z {
    T(),
    S {},
    One(u8),
}
#[derive(Serialize, Deserialize, PartialEq, Eq, PartialOrd, Ord, Debug, Clone)]
pub struct N(pub i32);
#[derive(Serialize, Deserialize, PartialEq, Debug, Clone)]
pub struct U;
#[derive(Serialize, Deserialize, PartialEq, Debug, Clone)]
pub struct P(pub i32, pub bool);
#[derive(Serialize, Deserialize, PartialEq, Debug, Clone)]
pub struct Outer {
    pub e: E,
    pub list: Vec<S>,
    pub m: BTreeMap<String, Option<i32>>,
}
// borrowed fields inside containers that serde reads through `deserialize_any` (its `Content` buffer): the deserializer must
// hand BORROWED strings to such visitors, or the borrowed field behind them cannot be filled
#[derive(Serialize, Deserialize, PartialEq, Debug)]
pub struct InnerB<'a> {
    #[serde(borrow)]
    pub s: &'a str,
    pub n: u8,
}
#[derive(Serialize, Deserialize, PartialEq, Debug)]
pub struct FlatB<'a> {
    pub id: u8,
    #[serde(flatten, borrow)]
    pub inner: InnerB<'a>,
}
#[derive(Serialize, Deserialize, PartialEq, Debug)]
#[serde(untagged)]
pub enum UntB<'a> {
    S {
        #[serde(borrow)]
        s: &'a str,
    },
    N {
        n: u8,
    },
}
#[derive(Serialize, Deserialize, PartialEq, Debug)]
#[serde(tag = "t")]
pub enum TagB<'a> {
    A {
        #[serde(borrow)]
        s: &'a str,
    },
    B {
        n: u8,
    },
}
#[derive(Serialize, Deserialize, PartialEq, Debug)]
pub struct Borrowed<'a> {
    pub id: u32,
    #[serde(borrow)]
    pub s: &'a str,
    #[serde(borrow)]
    pub c: Cow<'a, str>,
}
#[derive(Serialize, Deserialize, PartialEq, Debug, Clone)]
#[serde(untagged)]
pub enum Unt {
    I(i64),
    S(String),
    V(Vec<i32>),
    M { k: bool },
}
#[derive(Serialize, Deserialize, PartialEq, Debug, Clone)]
pub struct Flat {
    pub id: u32,
    #[serde(flatten)]
    pub rest: BTreeMap<String, i32>,
}

fn canon<T: Serialize>(v: &T) -> String {
    hex(serde_json::to_string(v).unwrap().as_bytes())
}

macro_rules! both {
    ($t:ty, $text:expr, $dump:expr) => {{
        let text: &[u8] = $text;
        let dump = $dump;
        let a = guarded(|| match std::str::from_utf8(text) {
            Ok(s) => match sonic_rs::from_str::<$t>(s) {
                Ok(v) => dump(&v),
                Err(_) => "R".into(),
            },
            Err(_) => "NA".into(),
        });
        let b = guarded(|| match sonic_rs::from_slice::<$t>(text) {
            Ok(v) => dump(&v),
            Err(_) => "R".into(),
        });
        let c = guarded(|| match serde_json::from_slice::<$t>(text) {
            Ok(v) => dump(&v),
            Err(_) => "R".into(),
        });
        format!("sonic={} sonic_slice={} serde={}", a, b, c)
    }};
}

pub fn run_case(id: u32, t: &[u8]) -> String {
    match id {
        1 => both!(bool, t, canon),
        2 => both!(u8, t, canon),
        3 => both!(i8, t, canon),
        4 => both!(u16, t, canon),
        5 => both!(i16, t, canon),
        6 => both!(u32, t, canon),
        7 => both!(i32, t, canon),
        8 => both!(u64, t, canon),
        9 => both!(i64, t, canon),
        10 => both!(u128, t, canon),
        11 => both!(i128, t, canon),
        12 => both!(f64, t, |v: &f64| format!("F{}", v.to_bits())),
        13 => both!(char, t, canon),
        14 => both!(String, t, canon),
        15 => both!((), t, canon),
        16 => both!(Option<i32>, t, canon),
        17 => both!((i32, String), t, canon),
        18 => both!(Vec<u16>, t, canon),
        19 => both!(BTreeMap<String, i32>, t, canon),
        20 => both!(BTreeMap<i32, bool>, t, canon),
        21 => both!(BTreeMap<bool, u8>, t, canon),
        22 => both!(BTreeMap<Color, i32>, t, canon),
        23 => both!(S, t, canon),
        24 => both!(D, t, canon),
        25 => both!(E, t, canon),
        26 => both!(serde_bytes::ByteBuf, t, canon),
        27 => both!(N, t, canon),
        28 => both!(U, t, canon),
        29 => both!([u8; 3], t, canon),
        30 => both!(Vec<Option<bool>>, t, canon),
        31 => both!(Outer, t, canon),
        32 => both!(Option<Vec<String>>, t, canon),
        33 => both!(P, t, canon),
        34 => both!(BTreeMap<u64, String>, t, canon),
        35 => both!(BTreeMap<i8, ()>, t, canon),
        36 => both!(Z, t, canon),
        // not modelled in Lean: compared with serde_json only
        40 => {
            // documented difference: sonic-rs reads an f32 through f64; the reference is serde_json's f64 narrowed
            let a = both!(f32, t, |v: &f32| format!("F{}", v.to_bits()));
            let via = guarded(|| match serde_json::from_slice::<f64>(t) {
                Ok(v) => format!("F{}", (v as f32).to_bits()),
                Err(_) => "R".into(),
            });
            let head: Vec<&str> = a.split(' ').filter(|x| !x.starts_with("serde=")).collect();
            format!("{} serde={}", head.join(" "), via)
        }
        41 => both!(&str, t, canon),
        42 => both!(Cow<str>, t, |v: &Cow<str>| format!("{}{}", if matches!(v, Cow::Borrowed(_)) { "b" } else { "o" }, canon(v))),
        43 => both!(Borrowed, t, |v: &Borrowed| format!("{}{}", if matches!(v.c, Cow::Borrowed(_)) { "b" } else { "o" }, canon(v))),
        44 => both!(Unt, t, canon),
        45 => both!(Flat, t, canon),
        46 => both!(Vec<f64>, t, |v: &Vec<f64>| v.iter().map(|x| format!("F{}", x.to_bits())).collect::<Vec<_>>().join(",")),
        // several byte buffers in one document (a byte string may hold invalid UTF-8; the reader keeps track of where the next
        // invalid byte of the input stands): compared with serde_json
        47 => both!((serde_bytes::ByteBuf, String, serde_bytes::ByteBuf), t, canon),
        48 => both!(Vec<serde_bytes::ByteBuf>, t, canon),
        49 => both!(BTreeMap<String, serde_bytes::ByteBuf>, t, canon),
        50 => both!(FlatB, t, canon),
        51 => both!(UntB, t, canon),
        52 => both!(TagB, t, canon),
        _ => "bad-type".into(),
    }
}

pub fn run() {
    let mut out = Out::new();
    for line in lines_in() {
        let p: Vec<&str> = line.split(' ').collect();
        let id: u32 = p.get(1).and_then(|s| s.parse().ok()).unwrap_or(0);
        let t = unhex(p.get(2).copied().unwrap_or("-"));
        out.line(&run_case(id, &t));
    }
}

// ---------------------------------------------------------------------------------------------
// type-directed generator

#[derive(Clone)]
enum T {
    Bool,
    Int(u32, bool),
    F64,
    Char,
    Str,
    Unit,
    Opt(Box<T>),
    Seq(Box<T>),
    Tuple(Vec<T>),
    Map(K, Box<T>),
    Struct(Vec<(&'static str, T)>),
    Enum(Vec<(&'static str, Option<T>)>),
    Bytes,
    Any,
}
#[derive(Clone)]
enum K {
    Str,
    Int(u32, bool),
    Bool,
    Names(&'static [&'static str]),
}

fn s_ty() -> T {
    T::Struct(vec![("a", T::Int(32, true)), ("b", T::Opt(Box::new(T::Str))), ("c", T::Seq(Box::new(T::Int(8, false))))])
}
fn e_ty() -> T {
    T::Enum(vec![
        ("Unit", None),
        ("New", Some(T::Int(32, true))),
        ("Tup", Some(T::Tuple(vec![T::Int(32, true), T::Str]))),
        ("Struct", Some(T::Struct(vec![("x", T::Int(32, true)), ("y", T::Opt(Box::new(T::Bool)))]))),
    ])
}

fn ty_of(id: u32) -> T {
    match id {
        1 => T::Bool,
        2 => T::Int(8, false),
        3 => T::Int(8, true),
        4 => T::Int(16, false),
        5 => T::Int(16, true),
        6 => T::Int(32, false),
        7 => T::Int(32, true),
        8 => T::Int(64, false),
        9 => T::Int(64, true),
        10 => T::Int(128, false),
        11 => T::Int(128, true),
        12 | 40 => T::F64,
        13 => T::Char,
        14 | 41 | 42 => T::Str,
        15 | 28 => T::Unit,
        16 => T::Opt(Box::new(T::Int(32, true))),
        17 => T::Tuple(vec![T::Int(32, true), T::Str]),
        18 => T::Seq(Box::new(T::Int(16, false))),
        19 => T::Map(K::Str, Box::new(T::Int(32, true))),
        20 => T::Map(K::Int(32, true), Box::new(T::Bool)),
        21 => T::Map(K::Bool, Box::new(T::Int(8, false))),
        22 => T::Map(K::Names(&["Blue", "Green", "Red"]), Box::new(T::Int(32, true))),
        23 => s_ty(),
        24 => T::Struct(vec![("id", T::Int(32, false)), ("name", T::Str)]),
        25 => e_ty(),
        26 => T::Bytes,
        27 => T::Int(32, true),
        29 => T::Tuple(vec![T::Int(8, false), T::Int(8, false), T::Int(8, false)]),
        30 => T::Seq(Box::new(T::Opt(Box::new(T::Bool)))),
        31 => T::Struct(vec![("e", e_ty()), ("list", T::Seq(Box::new(s_ty()))), ("m", T::Map(K::Str, Box::new(T::Opt(Box::new(T::Int(32, true))))))]),
        32 => T::Opt(Box::new(T::Seq(Box::new(T::Str)))),
        33 => T::Tuple(vec![T::Int(32, true), T::Bool]),
        34 => T::Map(K::Int(64, false), Box::new(T::Str)),
        35 => T::Map(K::Int(8, true), Box::new(T::Unit)),
        36 => T::Enum(vec![("T", Some(T::Tuple(vec![]))), ("S", Some(T::Struct(vec![]))), ("One", Some(T::Int(8, false)))]),
        43 => T::Struct(vec![("id", T::Int(32, false)), ("s", T::Str), ("c", T::Str)]),
        44 => T::Any,
        45 => T::Struct(vec![("id", T::Int(32, false)), ("x", T::Int(32, true)), ("y", T::Int(32, true))]),
        46 => T::Seq(Box::new(T::F64)),
        _ => T::Any,
    }
}

fn gen_int(r: &mut Rng, bits: u32, signed: bool, out: &mut String) {
    let max: i128 = if signed { (1i128 << (bits.min(127) - 1)) - 1 } else if bits >= 127 { i128::MAX } else { (1i128 << bits) - 1 };
    let min: i128 = if signed { -max - 1 } else { 0 };
    let v: String = match r.below(12) {
        0 => max.to_string(),
        1 => (max as i128).checked_add(1).map(|x| x.to_string()).unwrap_or_else(|| "170141183460469231731687303715884105728".into()),
        2 => min.to_string(),
        3 => min.checked_sub(1).map(|x| x.to_string()).unwrap_or_else(|| "-170141183460469231731687303715884105729".into()),
        4 => "0".into(),
        5 => "-0".into(),
        6 => "-1".into(),
        7 => if bits == 128 && !signed { "340282366920938463463374607431768211455".into() } else { "18446744073709551615".into() },
        8 => if bits == 128 && !signed { "340282366920938463463374607431768211456".into() } else { "18446744073709551616".into() },
        9 => format!("{}", (r.next() as i128 % (max.max(1))).abs()),
        10 => format!("-{}", (r.next() as i128 % (max.max(1))).abs()),
        _ => format!("{}", r.below(300)),
    };
    out.push_str(&v);
}

fn gen_str_lit(r: &mut Rng, out: &mut String) {
    let choices = ["\"\"", "\"a\"", "\"ab\"", "\"\\u00e9\"", "\"\u{e9}\"", "\"\\n\"", "\"x\\\"y\"", "\"\u{1F600}\"", "\"\\ud83d\\ude00\"", "\"true\"", "\"12\"", "\"plain text\"", "\"\\u0041\""];
    out.push_str(*r.pick(&choices));
}

fn gen_key(r: &mut Rng, k: &K, out: &mut String) {
    match k {
        K::Str => gen_str_lit(r, out),
        K::Int(bits, signed) => {
            let mut s = String::new();
            match r.below(8) {
                0 => s.push_str("1.0"),
                1 => s.push_str(" 1"),
                2 => s.push_str("01"),
                3 => s.push_str("1e2"),
                4 => s.push_str("+1"),
                _ => gen_int(r, *bits, *signed, &mut s),
            }
            out.push_str(&format!("\"{s}\""));
        }
        // (numeric and bool keys are read from the raw key text: escaped spellings are outside the model)
        K::Bool => out.push_str(*r.pick(&["\"true\"", "\"false\"", "\"True\"", "\"1\"", "\" true\""])),
        K::Names(ns) => {
            if r.chance(1, 6) {
                out.push_str("\"Nope\"");
            } else {
                out.push_str(&format!("\"{}\"", r.pick(ns)));
            }
        }
    }
}

fn gen_any(r: &mut Rng, depth: usize, out: &mut String) {
    match r.below(if depth > 2 { 6 } else { 9 }) {
        0 => out.push_str("null"),
        1 => out.push_str(*r.pick(&["true", "false"])),
        2 => gen_int(r, 16, true, out),
        3 => out.push_str(*r.pick(&["1.5", "-2.0", "1e2", "0.1", "1e400", "-0.0"])),
        4 | 5 => gen_str_lit(r, out),
        6 => {
            out.push('[');
            let n = r.below(3);
            for i in 0..n {
                if i > 0 {
                    out.push(',');
                }
                gen_any(r, depth + 1, out);
            }
            out.push(']');
        }
        _ => {
            out.push('{');
            let n = r.below(3);
            for i in 0..n {
                if i > 0 {
                    out.push(',');
                }
                out.push_str(&format!("\"{}\":", r.pick(&["a", "b", "k", "x", "id"])));
                gen_any(r, depth + 1, out);
            }
            out.push('}');
        }
    }
}

/// text for a value of type `t`: mostly matching, sometimes near-matching or mismatching
fn gen_for(r: &mut Rng, t: &T, depth: usize, out: &mut String) {
    if r.chance(1, 14) {
        // a value of another shape
        gen_any(r, depth, out);
        return;
    }
    if r.chance(1, 10) {
        out.push_str(*r.pick(&[" ", "\n", "\t "]));
    }
    match t {
        T::Bool => out.push_str(*r.pick(&["true", "false"])),
        T::Int(b, s) => {
            if r.chance(1, 10) {
                out.push_str(*r.pick(&["1.0", "1e2", "1.5", "-0.0", "01", "1E0"]));
            } else {
                gen_int(r, *b, *s, out)
            }
        }
        T::F64 => out.push_str(*r.pick(&["0", "-0", "1", "1.5", "-2.25e10", "1e308", "1e309", "5e-324", "0.1", "123456789012345678901234567890", "18446744073709551616", "-9223372036854775809", "1E+2", "0.30000000000000004", "3.4028235e38", "3.5e38", "1.401298464324817e-45", "16777217"])),
        T::Char => out.push_str(*r.pick(&["\"a\"", "\"\u{e9}\"", "\"\\u00e9\"", "\"\u{1F600}\"", "\"\\ud83d\\ude00\"", "\"\"", "\"ab\"", "\"\\n\"", "\"\\u0000\""])),
        T::Str => gen_str_lit(r, out),
        T::Unit => out.push_str("null"),
        T::Opt(x) => {
            if r.chance(1, 3) {
                out.push_str("null")
            } else {
                gen_for(r, x, depth, out)
            }
        }
        T::Seq(x) => {
            out.push('[');
            let n = r.below(4);
            for i in 0..n {
                if i > 0 {
                    out.push(',');
                }
                gen_for(r, x, depth + 1, out);
            }
            out.push(']');
        }
        T::Tuple(ts) => {
            out.push('[');
            let n = match r.below(8) {
                0 => ts.len().saturating_sub(1),
                1 => ts.len() + 1,
                _ => ts.len(),
            };
            for i in 0..n {
                if i > 0 {
                    out.push(',');
                }
                match ts.get(i) {
                    Some(x) => gen_for(r, x, depth + 1, out),
                    None => out.push('0'),
                }
            }
            out.push(']');
        }
        T::Map(k, v) => {
            out.push('{');
            let n = r.below(4);
            for i in 0..n {
                if i > 0 {
                    out.push(',');
                }
                gen_key(r, k, out);
                out.push(':');
                gen_for(r, v, depth + 1, out);
            }
            out.push('}');
        }
        T::Struct(fields) => {
            if r.chance(1, 8) {
                // sequence form
                out.push('[');
                let n = if r.chance(1, 3) { r.below(fields.len() + 2) } else { fields.len() };
                for i in 0..n {
                    if i > 0 {
                        out.push(',');
                    }
                    match fields.get(i) {
                        Some((_, x)) => gen_for(r, x, depth + 1, out),
                        None => out.push('0'),
                    }
                }
                out.push(']');
                return;
            }
            out.push('{');
            let mut first = true;
            let mut order: Vec<usize> = (0..fields.len()).collect();
            if r.chance(1, 3) {
                order.reverse();
            }
            for i in order {
                if r.chance(1, 7) {
                    continue; // missing field
                }
                if !first {
                    out.push(',');
                }
                first = false;
                out.push_str(&format!("\"{}\":", fields[i].0));
                gen_for(r, &fields[i].1, depth + 1, out);
                if r.chance(1, 12) {
                    // repeated field
                    out.push_str(&format!(",\"{}\":", fields[i].0));
                    gen_for(r, &fields[i].1, depth + 1, out);
                }
            }
            if r.chance(1, 5) {
                if !first {
                    out.push(',');
                }
                out.push_str("\"unknown\":");
                gen_any(r, depth + 1, out);
            }
            out.push('}');
        }
        T::Enum(vs) => {
            let (name, payload) = r.pick(vs).clone();
            match r.below(10) {
                0 => out.push_str(&format!("\"{name}\"")),
                1 => out.push_str("\"Nope\""),
                2 => out.push_str(&format!("{{\"{name}\":null}}")),
                3 => {
                    out.push_str(&format!("{{\"{name}\":"));
                    gen_any(r, depth + 1, out);
                    out.push_str(",\"Unit\":null}");
                }
                4 => out.push_str("{}"),
                _ => match payload {
                    None => out.push_str(&format!("\"{name}\"")),
                    Some(p) => {
                        out.push_str(&format!("{{\"{name}\":"));
                        gen_for(r, &p, depth + 1, out);
                        out.push('}');
                    }
                },
            }
        }
        T::Bytes => match r.below(6) {
            0 => gen_str_lit(r, out),
            // a byte string is not text: serde_json takes an unpaired surrogate escape as its three bytes
            4 | 5 => out.push_str(*r.pick(&[
                "\"\\ud800\"", "\"\\udc00\"", "\"a\\ud83d\"", "\"\\ud800x\"", "\"\\ud800\\ud800\"", "\"\\ud800\\n\"", "\"\\ude00\\ud83d\"",
                "\"\\ud83d\\ude00\"", "\"\\ud800\\u0041\"", "\"\\ud800\\\"", "\"\\ud800\\u12\"", "\"\\udbff\\udfff\\udfff\"",
            ])),
            1 => out.push_str("[1,2,255]"),
            2 => out.push_str("[1,256]"),
            _ => out.push_str("[]"),
        },
        T::Any => gen_any(r, depth, out),
    }
    if depth == 0 && r.chance(1, 25) {
        out.push_str(*r.pick(&[" ", " x", ",", "]"]));
    }
}

pub const IDS: &[u32] = &[
    1, 2, 3, 4, 5, 6, 7, 8, 9, 10, 11, 12, 13, 14, 15, 16, 17, 18, 19, 20, 21, 22, 23, 24, 25, 26, 27, 28, 29, 30, 31, 32, 33, 34, 35, 36, 40, 41, 42, 43, 44, 45, 46,
];

pub fn gen(seed: u64, thorough: bool) {
    gen_tagged(seed, thorough, "c04");
}

pub fn gen_tagged(seed: u64, thorough: bool, tag: &str) {
    let mut out = Out::new();
    let mut r = Rng::new(seed ^ 0x04);
    let per = if thorough { 2500 } else { 140 };
    for &id in IDS {
        let t = ty_of(id);
        for _ in 0..per {
            let mut s = String::new();
            gen_for(&mut r, &t, 0, &mut s);
            out.line(&format!("{} {} {}", tag, id, hex(s.as_bytes())));
        }
    }
    // every type against a fixed set of texts of every shape
    let shapes: &[&str] = &[
        "null", "true", "false", "0", "-0", "1", "-1", "255", "256", "-128", "-129", "1.0", "1e2", "1.5", "18446744073709551615", "18446744073709551616",
        "-9223372036854775808", "-9223372036854775809", "340282366920938463463374607431768211455", "340282366920938463463374607431768211456",
        "-170141183460469231731687303715884105728", "-170141183460469231731687303715884105729", "\"\"", "\"a\"", "\"ab\"", "\"Unit\"", "\"New\"", "[]", "[1]", "[1,2,3]", "[1,\"x\"]",
        "{}", "{\"a\":1}", "{\"1\":true}", "{\"true\":1}", "{\"Red\":1}", "{\"New\":1}", "{\"Unit\":null}", "{\"Tup\":[1,\"s\"]}", "{\"Struct\":{\"x\":1}}", "{\"id\":1,\"name\":\"n\"}",
        "{\"id\":1,\"name\":\"n\",\"z\":0}", "{\"a\":1,\"b\":\"s\",\"c\":[1,2]}", "{\"a\":1,\"a\":2}", "[1,true]", "{\"id\":1,\"x\":2,\"y\":3}", "{\"k\":true}", " 1 ", "1 1", "",
    ];
    for &id in IDS {
        for s in shapes {
            out.line(&format!("{} {} {}", tag, id, hex(s.as_bytes())));
        }
    }
    // borrowed fields behind flatten / untagged / internally tagged containers
    if tag == "c04" {
        let strs: &[&str] = &["\"xyz\"", "\"\"", "\"x\\ny\"", "\"caf\u{e9}\"", "\"a\\u0041\"", "1", "null", "\"0123456789012345678901234567890123456789\""];
        for sv in strs {
            for (id, docs) in [
                (50u32, vec![format!("{{\"id\":1,\"s\":{sv},\"n\":2}}"), format!("{{\"s\":{sv},\"n\":2,\"id\":1}}"), format!("{{\"id\":1,\"n\":2}}")]),
                (51u32, vec![format!("{{\"s\":{sv}}}"), format!("{{\"n\":3}}"), format!("{{\"s\":{sv},\"z\":0}}")]),
                (52u32, vec![format!("{{\"t\":\"A\",\"s\":{sv}}}"), format!("{{\"s\":{sv},\"t\":\"A\"}}"), format!("{{\"t\":\"B\",\"n\":4}}")]),
            ] {
                for d in docs {
                    out.line(&format!("{} {} {}", tag, id, hex(d.as_bytes())));
                }
            }
        }
    }
    // several byte strings with invalid UTF-8 in one document (raw bytes, `from_slice` only), with text strings between them
    if tag == "c04" {
        let bad: &[&[u8]] = &[b"\xff", b"\xfe\xfd", b"a\x80", b"\xc3", b"\xf0\x9f\x98", b"ok", b"", b"\xc3\xa9", b"\\n\xff"];
        for (i, a) in bad.iter().enumerate() {
            for (j, b) in bad.iter().enumerate() {
                if !thorough && (i * 9 + j) % 2 == 1 && i > 1 && j > 1 {
                    continue;
                }
                let q = |x: &[u8]| {
                    let mut v = b"\"".to_vec();
                    v.extend_from_slice(x);
                    v.push(b'"');
                    v
                };
                for text in [&b"t"[..], b"", b"caf\xc3\xa9", b"\xff"] {
                    let mut d = b"[".to_vec();
                    d.extend(q(a));
                    d.push(b',');
                    d.extend(q(text));
                    d.push(b',');
                    d.extend(q(b));
                    d.push(b']');
                    out.line(&format!("{} 47 {}", tag, hex(&d)));
                }
                let mut d = b"[".to_vec();
                d.extend(q(a));
                d.push(b',');
                d.extend(q(b));
                d.extend_from_slice(b" , ");
                d.extend(q(a));
                d.push(b']');
                out.line(&format!("{} 48 {}", tag, hex(&d)));
                let mut d = b"{\"k1\":".to_vec();
                d.extend(q(a));
                d.extend_from_slice(b",\"k2\":");
                d.extend(q(b));
                d.extend_from_slice(b",\"k3\":\"z\"}");
                out.line(&format!("{} 49 {}", tag, hex(&d)));
            }
        }
    }
    // ignored members (unknown fields of the derived structs 23 and 31, IgnoredAny) holding long numbers whose dot / exponent
    // stand at every offset of the 32-byte blocks of the validating number skipper, well-formed and with a doubled tail
    let tails: &[&str] = &["", ".5", "e2", ".5.5", ".5.5e1", ".25.", "e1e1"];
    for nd in 1..=100usize {
        if !thorough && !(nd % 32 <= 2 || nd % 32 >= 29 || nd % 7 == 0) {
            continue;
        }
        for (ti, tail) in tails.iter().enumerate() {
            let mut num = String::new();
            if (nd + ti) % 2 == 0 {
                num.push('-');
            }
            for k in 0..nd {
                num.push((b'1' + ((k * 5 + nd) % 9) as u8) as char);
            }
            num.push_str(tail);
            out.line(&format!("{} 23 {}", tag, hex(format!("{{\"zz\":{},\"a\":7}}", num).as_bytes())));
            out.line(&format!("{} 23 {}", tag, hex(format!("{{\"a\":7,\"zz\":[{}]}}", num).as_bytes())));
            out.line(&format!("{} 25 {}", tag, hex(format!("{{\"Struct\":{{\"x\":1,\"zz\":{} ,\"y\":true}}}}", num).as_bytes())));
        }
    }
}
