//! C01 — safe entry points never panic, abort or touch invalid memory.
//! case: `c01 <hexdoc>`: every safe entry point on the bytes, in process, three placements of the
//!   input: ordinary heap, ending exactly at an unmapped page (any read past the end faults), and
//!   starting exactly at a page start after an unmapped page; panics are caught and reported, the
//!   allocation balance of the library calls is reported (`leak=`).
//! case: `c01d <shape> <depth> <closed 0|1>`: a document nested `depth` levels, every entry point in a
//!   CHILD process with an 8 MiB main-thread stack: reports how the child ended.
use crate::c18::{tracked, LIVE};
use crate::util::*;
use serde::Deserialize;
use sonic_rs::{JsonValueTrait, LazyValue, OwnedLazyValue, Value};
use std::sync::atomic::Ordering;

/// `len` bytes placed so that the byte after them is in an unmapped page (`at_end`), or so that
/// they start at a page start preceded by an unmapped page
pub struct Guarded {
    base: *mut u8,
    total: usize,
    ptr: *mut u8,
    len: usize,
}
impl Guarded {
    pub fn new(data: &[u8], at_end: bool) -> Self {
        unsafe {
            let page = 4096usize;
            let pages = (data.len() + page - 1) / page + 1;
            let total = (pages + 2) * page;
            let base = libc::mmap(std::ptr::null_mut(), total, libc::PROT_READ | libc::PROT_WRITE, libc::MAP_PRIVATE | libc::MAP_ANONYMOUS, -1, 0) as *mut u8;
            assert!(base as isize != -1);
            // first and last page unmapped
            libc::mprotect(base as *mut _, page, libc::PROT_NONE);
            libc::mprotect(base.add(total - page) as *mut _, page, libc::PROT_NONE);
            let ptr = if at_end { base.add(total - page - data.len()) } else { base.add(page) };
            std::ptr::copy_nonoverlapping(data.as_ptr(), ptr, data.len());
            Guarded { base, total, ptr, len: data.len() }
        }
    }
    pub fn slice(&self) -> &[u8] {
        unsafe { std::slice::from_raw_parts(self.ptr, self.len) }
    }
}
impl Drop for Guarded {
    fn drop(&mut self) {
        unsafe {
            libc::munmap(self.base as *mut _, self.total);
        }
    }
}

#[derive(Deserialize)]
#[allow(dead_code)]
struct Emb<'a> {
    a: Option<i64>,
    #[serde(borrow)]
    s: Option<&'a str>,
    v: Option<Value>,
    l: Option<LazyValue<'a>>,
    o: Option<OwnedLazyValue>,
}

/// every safe entry point on one input; returns the names of those that panicked
fn all_entries(t: &[u8]) -> Vec<&'static str> {
    let mut bad = Vec::new();
    macro_rules! ep {
        ($name:expr, $body:expr) => {
            if std::panic::catch_unwind(std::panic::AssertUnwindSafe(|| {
                let _ = $body;
            }))
            .is_err()
            {
                bad.push($name);
            }
        };
    }
    ep!("dom", {
        if let Ok(v) = sonic_rs::from_slice::<Value>(t) {
            let _ = sonic_rs::to_string(&v);
            let _ = sonic_rs::to_string_pretty(&v);
            let _ = format!("{:?}", v);
            let _ = v.clone();
        }
    });
    ep!("dom_err", {
        if let Err(e) = sonic_rs::from_slice::<Value>(t) {
            let _ = format!("{} {:?} {} {}", e, e, e.line(), e.column());
        }
    });
    if let Ok(s) = std::str::from_utf8(t) {
        ep!("dom_str", sonic_rs::from_str::<Value>(s).map(|v| sonic_rs::to_vec(&v)));
        // the text itself (and every suffix start of its last 40 bytes) serialized as a string, a map key and an element: the
        // escaper reads its source in 32-byte blocks and byte by byte; with the text ending at an unmapped page any read behind
        // its last byte faults
        ep!("ser_str", {
            let _ = sonic_rs::to_string(s);
            let _ = sonic_rs::to_string_pretty(&[s]);
            let mut m = std::collections::BTreeMap::new();
            m.insert(s, 1u8);
            let _ = sonic_rs::to_vec(&m);
            for k in (s.len().saturating_sub(40)..s.len()).filter(|k| s.is_char_boundary(*k)) {
                let _ = sonic_rs::to_string(&s[k..]);
            }
        });
        ep!("lazy_str", sonic_rs::from_str::<LazyValue>(s).map(|v| (v.as_str().map(|x| x.len()), sonic_rs::to_string(&v))));
    }
    ep!("sj", sonic_rs::from_slice::<serde_json::Value>(t));
    ep!("lazy", sonic_rs::from_slice::<LazyValue>(t).map(|v| (v.get_type(), v.as_str().map(|x| x.len()), v.as_number(), sonic_rs::to_string(&v))));
    ep!("owned", sonic_rs::from_slice::<OwnedLazyValue>(t).map(|v| (v.get_type(), v.as_str().map(|x| x.len()), v.get(0).is_some(), v.get("a").is_some(), sonic_rs::to_string(&v))));
    ep!("typed", (sonic_rs::from_slice::<Emb>(t).is_ok(), sonic_rs::from_slice::<Vec<i64>>(t).is_ok(), sonic_rs::from_slice::<String>(t).is_ok(), sonic_rs::from_slice::<f64>(t).is_ok(),
        sonic_rs::from_slice::<std::collections::BTreeMap<String, Vec<Option<bool>>>>(t).is_ok(), sonic_rs::from_slice::<serde::de::IgnoredAny>(t).is_ok()));
    ep!("get", {
        let _ = sonic_rs::get(t, &["a"]).map(|v| v.as_raw_str().len());
        let _ = sonic_rs::get(t, sonic_rs::pointer!["a", 0, "b"].iter()).map(|v| v.as_raw_str().len());
        let _ = sonic_rs::get(t, &[0usize, 1]).map(|v| v.as_raw_str().len());
        let e: [&str; 0] = [];
        let _ = sonic_rs::get(t, &e).map(|v| v.as_raw_str().len());
    });
    ep!("get_many", {
        let mut tree = sonic_rs::PointerTree::new();
        tree.add_path(&["a"]);
        tree.add_path(&["a", "b"]);
        tree.add_path(&["c"]);
        let _ = sonic_rs::get_many(t, &tree).map(|v| v.len());
        let mut tree2 = sonic_rs::PointerTree::new();
        tree2.add_path(&[0usize]);
        tree2.add_path(&[2usize, 1]);
        let _ = sonic_rs::get_many(t, &tree2).map(|v| v.len());
    });
    ep!("schema", sonic_rs::get_by_schema(t, sonic_rs::json!({"a": null, "b": {"c": 1}, "x": []})));
    ep!("iter_arr", {
        let mut n = 0usize;
        for x in sonic_rs::to_array_iter(t) {
            match x {
                Ok(v) => n += v.as_raw_str().len(),
                Err(e) => {
                    let _ = format!("{}", e);
                    break;
                }
            }
        }
        n
    });
    ep!("iter_obj", {
        let mut n = 0usize;
        for x in sonic_rs::to_object_iter(t) {
            match x {
                Ok((k, v)) => n += k.len() + v.as_raw_str().len(),
                Err(_) => break,
            }
        }
        n
    });
    ep!("stream", {
        let mut n = 0;
        for x in sonic_rs::Deserializer::from_slice(t).into_stream::<Value>() {
            if x.is_err() {
                break;
            }
            n += 1;
            if n > 1000 {
                break;
            }
        }
    });
    ep!("stream_lazy", {
        let mut n = 0;
        for x in sonic_rs::Deserializer::from_slice(t).into_stream::<LazyValue>() {
            if x.is_err() {
                break;
            }
            n += 1;
            if n > 1000 {
                break;
            }
        }
    });
    ep!("lossy", sonic_rs::Deserializer::from_slice(t).utf8_lossy().deserialize::<Value>().map(|v| sonic_rs::to_string(&v)));
    ep!("rawnum", sonic_rs::Deserializer::from_slice(t).use_rawnumber().deserialize::<Value>().map(|v| sonic_rs::to_string(&v)));
    ep!("carriers", {
        let b = bytes::Bytes::copy_from_slice(t);
        let _ = sonic_rs::get(&b, &["a"]).map(|v| v.as_raw_str().len());
        if let Ok(s) = std::str::from_utf8(t) {
            let f = faststr::FastStr::new(s);
            let _ = sonic_rs::get(&f, &["a"]).map(|v| v.as_raw_str().len());
            let st = s.to_string();
            let _ = sonic_rs::get(&st, &["a"]).map(|v| v.as_raw_str().len());
        }
    });
    // `Deserializer::deserialize` "can be used repeatedly": also after it has reported an error
    ep!("again", {
        macro_rules! again {
            ($t:ty, $de:expr) => {{
                let mut de = $de;
                for _ in 0..3 {
                    match de.deserialize::<$t>() {
                        Ok(_) => {}
                        Err(e) => {
                            let _ = format!("{} {:?}", e, e);
                        }
                    }
                }
            }};
        }
        again!(Value, sonic_rs::Deserializer::from_slice(t));
        again!(serde_json::Value, sonic_rs::Deserializer::from_slice(t));
        again!(LazyValue, sonic_rs::Deserializer::from_slice(t));
        again!(sonic_rs::OwnedLazyValue, sonic_rs::Deserializer::from_slice(t));
        again!(serde::de::IgnoredAny, sonic_rs::Deserializer::from_slice(t));
        again!(String, sonic_rs::Deserializer::from_slice(t));
        again!(Value, sonic_rs::Deserializer::from_slice(t).utf8_lossy());
        again!(Value, sonic_rs::Deserializer::from_slice(t).use_rawnumber());
    });
    ep!("outlive", outlive(t, &mut bad));
    bad
}

/// results whose type lets them outlive the iterator / deserializer that produced them (keys of the object iterators, borrowed
/// strings of typed deserialization) must still read the same after it is dropped (the allocator overwrites freed memory)
fn outlive(t: &[u8], bad: &mut Vec<&'static str>) {
    let Ok(s) = std::str::from_utf8(t) else { return };
    macro_rules! keys_after {
        ($name:expr, $iter:expr) => {{
            let mut it = $iter;
            let mut kept: Vec<std::borrow::Cow<str>> = Vec::new();
            let mut copy: Vec<Vec<u8>> = Vec::new();
            for x in &mut it {
                match x {
                    Ok((k, _v)) => {
                        copy.push(k.as_bytes().to_vec());
                        kept.push(k);
                    }
                    Err(_) => break,
                }
            }
            drop(it);
            if kept.iter().map(|k| k.as_bytes()).ne(copy.iter().map(|k| &k[..])) {
                bad.push($name);
            }
        }};
    }
    let f = faststr::FastStr::new(s);
    let b = bytes::Bytes::copy_from_slice(t);
    let st = s.to_string();
    keys_after!("dangling-keys:to_object_iter(&FastStr)", sonic_rs::to_object_iter(&f));
    keys_after!("dangling-keys:to_object_iter(&Bytes)", sonic_rs::to_object_iter(&b));
    keys_after!("dangling-keys:to_object_iter(&String)", sonic_rs::to_object_iter(&st));
    keys_after!("dangling-keys:to_object_iter(&str)", sonic_rs::to_object_iter(s));
    keys_after!("dangling-keys:to_object_iter_unchecked(&FastStr)", unsafe { sonic_rs::to_object_iter_unchecked(&f) });
    let e: [&str; 0] = [];
    if let Some(it) = sonic_rs::get(&f, &e).ok().and_then(|lv| lv.into_object_iter()) {
        keys_after!("dangling-keys:get(&FastStr).into_object_iter", it);
    }
    if let Some(it) = sonic_rs::get(&b, &e).ok().and_then(|lv| lv.into_object_iter()) {
        keys_after!("dangling-keys:get(&Bytes).into_object_iter", it);
    }
    if let Some(it) = sonic_rs::from_str::<LazyValue>(s).ok().and_then(|lv| lv.into_object_iter()) {
        keys_after!("dangling-keys:from_str<LazyValue>.into_object_iter", it);
    }
    // typed values borrowing from the input of a Deserializer built from a carrier
    macro_rules! typed_after {
        ($name:expr, $de:expr) => {{
            use serde::Deserialize;
            let mut de = $de;
            if let Ok(v) = <std::collections::BTreeMap<&str, std::borrow::Cow<str>>>::deserialize(&mut de) {
                let copy: Vec<(Vec<u8>, Vec<u8>)> = v.iter().map(|(k, x)| (k.as_bytes().to_vec(), x.as_bytes().to_vec())).collect();
                drop(de);
                if v.iter().map(|(k, x)| (k.as_bytes(), x.as_bytes())).ne(copy.iter().map(|(k, x)| (&k[..], &x[..]))) {
                    bad.push($name);
                }
            }
            let mut de = $de;
            if let Ok(v) = <&str>::deserialize(&mut de) {
                let copy = v.as_bytes().to_vec();
                drop(de);
                if v.as_bytes() != &copy[..] {
                    bad.push($name);
                }
            }
        }};
    }
    typed_after!("dangling-borrow:Deserializer::from_json(&FastStr)", sonic_rs::Deserializer::from_json(&f));
    typed_after!("dangling-borrow:Deserializer::from_json(&Bytes)", sonic_rs::Deserializer::from_json(&b));
    typed_after!("dangling-borrow:Deserializer::from_json(&String)", sonic_rs::Deserializer::from_json(&st));
    typed_after!("dangling-borrow:Deserializer::from_str", sonic_rs::Deserializer::from_str(s));
}

pub fn run_case(t: &[u8]) -> String {
    // first run: lets every thread-local / process-wide buffer reach its size for this input;
    // second run: the allocation balance of the library calls must be zero
    let _ = all_entries(t);
    drop(sonic_rs::verif::take_arenas_freed());
    let live0 = LIVE.load(Ordering::SeqCst);
    let mut bad = tracked(|| {
        let b = all_entries(t);
        // (the verif hook logs released arenas: empty the log inside the counted region)
        drop(sonic_rs::verif::take_arenas_freed());
        b
    });
    // (the list of failing entry points was allocated inside the counted region and is still alive)
    let leak = LIVE.load(Ordering::SeqCst) - live0 - (bad.capacity() * std::mem::size_of::<&'static str>()) as isize;
    // the same input ending at / starting after an unmapped page
    for at_end in [true, false] {
        let g = Guarded::new(t, at_end);
        for b in all_entries(g.slice()) {
            if !bad.contains(&b) {
                bad.push(b);
            }
        }
    }
    format!("panics={} leak={}", if bad.is_empty() { "-".to_string() } else { bad.join(",") }, leak)
}

fn deep_doc(shape: &str, depth: usize, closed: bool) -> Vec<u8> {
    let (open, close): (&str, &str) = match shape {
        "arr" => ("[", "]"),
        "obj" => ("{\"a\":", "}"),
        "mix" => ("[{\"a\":", "}]"),
        _ => ("[", "]"),
    };
    let mut d = Vec::with_capacity(depth * (open.len() + close.len()) + 4);
    for _ in 0..depth {
        d.extend_from_slice(open.as_bytes());
    }
    d.extend_from_slice(b"1");
    if closed {
        for _ in 0..depth {
            d.extend_from_slice(close.as_bytes());
        }
    }
    d
}

pub const DEEP_ENTRIES: &[&str] = &["dom", "dom2", "sj", "lazy", "owned", "typed", "ignored", "get", "iter", "lossy", "ser"];

/// one entry point on a deeply nested document (runs in the child process)
pub fn child(entry: &str, shape: &str, depth: usize, closed: bool) {
    let d = deep_doc(shape, depth, closed);
    #[derive(Deserialize)]
    #[serde(untagged)]
    #[allow(dead_code)]
    enum Rec {
        A(Vec<Rec>),
        O(std::collections::BTreeMap<String, Rec>),
        N(i64),
    }
    let ok = match entry {
        "dom" => sonic_rs::from_slice::<Value>(&d).is_ok(),
        "dom2" => {
            let mut doc = b"0 ".to_vec();
            doc.extend_from_slice(&d);
            let mut it = sonic_rs::Deserializer::from_slice(&doc).into_stream::<Value>();
            let _ = it.next();
            matches!(it.next(), Some(Ok(_)))
        }
        "sj" => sonic_rs::from_slice::<serde_json::Value>(&d).is_ok(),
        "lazy" => sonic_rs::from_slice::<LazyValue>(&d).is_ok(),
        "owned" => sonic_rs::from_slice::<OwnedLazyValue>(&d).is_ok(),
        "typed" => sonic_rs::from_slice::<Rec>(&d).is_ok(),
        "ignored" => sonic_rs::from_slice::<serde::de::IgnoredAny>(&d).is_ok(),
        "get" => sonic_rs::get(&d[..], &[0usize]).is_ok() || sonic_rs::get(&d[..], &["a"]).is_ok(),
        "iter" => sonic_rs::to_array_iter(&d[..]).next().map(|x| x.is_ok()).unwrap_or(false),
        "lossy" => sonic_rs::Deserializer::from_slice(&d).utf8_lossy().deserialize::<Value>().is_ok(),
        "ser" => match sonic_rs::from_slice::<Value>(&d) {
            Ok(v) => sonic_rs::to_string(&v).is_ok() && sonic_rs::to_string_pretty(&v).is_ok() && format!("{:?}", v).len() > 0 && v.clone() == v,
            Err(_) => false,
        },
        _ => false,
    };
    println!("{}", if ok { "ok" } else { "err" });
}

fn run_deep(shape: &str, depth: usize, closed: bool) -> String {
    let exe = std::env::current_exe().unwrap();
    let mut f = Vec::new();
    for e in DEEP_ENTRIES {
        // the child gets 20 s (a quadratic or exponential blow-up counts as a failure to return)
        let spawned = std::process::Command::new(&exe)
            .args(["c01", "child", e, shape, &depth.to_string(), if closed { "1" } else { "0" }])
            .stdout(std::process::Stdio::piped())
            .stderr(std::process::Stdio::null())
            .spawn();
        let r = match spawned {
            Ok(mut ch) => {
                use std::os::unix::process::ExitStatusExt;
                let t0 = std::time::Instant::now();
                loop {
                    match ch.try_wait() {
                        Ok(Some(st)) => {
                            let mut so = String::new();
                            if let Some(mut o) = ch.stdout.take() {
                                use std::io::Read;
                                let _ = o.read_to_string(&mut so);
                            }
                            break if let Some(sig) = st.signal() {
                                format!("SIG{sig}")
                            } else if st.success() {
                                so.trim().to_string()
                            } else {
                                format!("EXIT{}", st.code().unwrap_or(-1))
                            };
                        }
                        Ok(None) => {
                            if t0.elapsed().as_secs() >= 20 {
                                let _ = ch.kill();
                                let _ = ch.wait();
                                break "TIMEOUT".to_string();
                            }
                            std::thread::sleep(std::time::Duration::from_millis(5));
                        }
                        Err(_) => break "WAITERR".to_string(),
                    }
                }
            }
            Err(_) => "SPAWNERR".into(),
        };
        f.push(format!("{e}={r}"));
    }
    f.join(" ")
}

pub fn run() {
    let big = format!("[{}1]", "1,".repeat(20000));
    let _ = sonic_rs::from_str::<Value>(&big);
    let mut o: Value = sonic_rs::from_str("{\"a\":1}").unwrap();
    {
        use sonic_rs::JsonValueMutTrait;
        let _ = o.as_object_mut().unwrap().insert(&"b", 1);
    }
    drop(o);
    let _ = all_entries(b"{\"a\":{\"b\":[1,\"x\\n\"]},\"c\":1.5e3}");
    let mut out = Out::new();
    for line in lines_in() {
        let p: Vec<&str> = line.split(' ').collect();
        if p[0] == "c01d" {
            out.line(&run_deep(p[1], p[2].parse().unwrap(), p[3] == "1"));
        } else {
            let t = unhex(p.get(1).copied().unwrap_or("-"));
            out.line(&run_case(&t));
        }
    }
}

pub fn gen(seed: u64, thorough: bool) {
    let mut out = Out::new();
    let mut r = Rng::new(seed ^ 0x01);
    // deep nesting
    for shape in ["arr", "obj", "mix"] {
        for depth in [100usize, 254, 255, 256, 1000, 100_000, 2_000_000] {
            for closed in [1, 0] {
                if depth >= 100_000 && closed == 1 && shape != "arr" && !thorough {
                    continue;
                }
                out.line(&format!("c01d {shape} {depth} {closed}"));
            }
        }
    }
    let fixed: &[&[u8]] = &[
        b"", b" ", b"\"", b"\"\\", b"\"\\u", b"\"\\ud800\\u", b"[", b"{", b"{\"", b"{\"a\"", b"{\"a\":", b"[1,", b"-", b"1e", b"tru", b"nul", b"\xff", b"\"\xff\"", b"\"\xed\xa0\x80\"",
        b"\xef\xbb\xbf1", b"1e999999999999999999999", b"-1e-999999999999999999999", b"0.00000000000000000000000000000000000000000000000000000000000000000000001e71",
        b"123456789012345678901234567890123456789012345678901234567890123456789012345678901234567890", b"[[[[[[[[[[[[[[[[[[[[[[[[[[[[[[[[",
        b"{\"a\":{\"b\":[1,2,{\"c\":\"\\u0000\\ud83d\\ude00\"}]},\"c\":[]}", b"\"\\uDBFF\\uDFFF\"", b"\"\\udc00\"", b"[\"a\",]", b"{\"a\":1,}", b"[1 2]", b"{\"a\" 1}", b"nulll", b"truee", b"1.", b".1", b"0x1",
    ];
    for t in fixed {
        out.line(&format!("c01 {}", hex(t)));
    }
    // short and long documents whose keys / strings may be kept after the iterator or deserializer is gone
    // (a FastStr of up to 24 bytes stores its bytes inline: a clone is a copy)
    for t in ["{\"k\":1}", "{\"kkkk\":1,\"mmmm\":2}", "{\"a\":\"b\",\"c\":\"d\"}", "{\"k\": \"v\\\\w\"}", "\"hello-world-0123\"", "\"h\"",
        "{\"a-long-key-of-some-length\":\"a-long-value-of-some-length\",\"another-key\":\"another-value\",\"esc\\nkey\":\"x\"}",
        "{\"a\":{\"b\":1},\"c\":[1,2],\"dddddddddddddddddddddddddddddddddd\":null}", "\"a string that is longer than twenty-four bytes\""] {
        out.line(&format!("c01 {}", hex(t.as_bytes())));
    }
    // strings and tokens of every length around the vector and page sizes
    let lens: Vec<usize> = if thorough { (0..=200).chain([255, 256, 257, 1023, 1024, 1025, 4094, 4095, 4096, 4097, 8191, 8192, 8193]).collect() } else { (0..=70).chain([127, 128, 129, 255, 256, 257, 4095, 4096, 4097]).collect() };
    for &l in &lens {
        for fill in [b'a', b'\\', b'"', 0xc3u8, b' ', b'1', b'['] {
            let mut t = vec![b'"'];
            t.extend(std::iter::repeat(fill).take(l));
            out.line(&format!("c01 {}", hex(&t)));
            t.push(b'"');
            out.line(&format!("c01 {}", hex(&t)));
            let mut t2: Vec<u8> = std::iter::repeat(fill).take(l).collect();
            out.line(&format!("c01 {}", hex(&t2)));
            t2.insert(0, b'[');
            out.line(&format!("c01 {}", hex(&t2)));
        }
    }
    let n = if thorough { 60000 } else { 4000 };
    let cfg = GenCfg { max_depth: 6, max_items: 6, ws: true, dup_keys: true, long_strings: true };
    for k in 0..n {
        let d = gen_doc(&mut r, &cfg);
        let t = match k % 4 {
            0 => d,
            1 => mutate(&mut r, &d),
            2 => {
                let m = mutate(&mut r, &d);
                mutate(&mut r, &m)
            }
            _ => {
                // truncation at a random point
                let cut = r.below(d.len() + 1);
                d[..cut].to_vec()
            }
        };
        out.line(&format!("c01 {}", hex(&t)));
    }
}
