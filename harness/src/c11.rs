//! C11 — multi-path and schema extraction agree with single-path get.
//! case: `c11 <hexdoc> <path|path|...>`   path: `-` or segments `k<hexkey>` / `i<n>` joined by `/`
//!   output: many=<A:hexraw|N , ...>|Err  manyu=<same, get_many_unchecked, only for well-formed docs>  single=<A:hexraw|E per path>
//! case: `c11s <hexschema> <hexdoc>`      output: schema=<dump with sorted keys>|Err
use crate::util::*;
use sonic_rs::{JsonContainerTrait, JsonValueTrait, PointerNode, PointerTree, Value};

fn parse_path(s: &str) -> Vec<PointerNode> {
    if s == "-" {
        return Vec::new();
    }
    s.split('/')
        .map(|seg| {
            if let Some(h) = seg.strip_prefix('k') {
                PointerNode::Key(String::from_utf8(unhex(h)).unwrap().into())
            } else {
                PointerNode::Index(seg[1..].parse().unwrap())
            }
        })
        .collect()
}

fn show(r: Result<Vec<Option<sonic_rs::LazyValue<'_>>>, sonic_rs::Error>, n: usize) -> String {
    match r {
        Ok(v) => {
            if v.len() != n {
                return format!("LEN{}", v.len());
            }
            v.iter().map(|x| match x {
                Some(l) => format!("A:{}", hex(l.as_raw_str().as_bytes())),
                None => "N".to_string(),
            }).collect::<Vec<_>>().join(",")
        }
        Err(_) => "Err".into(),
    }
}

/// the DECODED view of the slots (`as_str`): a slot holds exactly what `get` returns, seen through every accessor — the raw
/// text alone does not show whether the value still knows that it contains escapes
fn show_str(r: Result<Vec<Option<sonic_rs::LazyValue<'_>>>, sonic_rs::Error>) -> String {
    use sonic_rs::JsonValueTrait;
    match r {
        Ok(v) => v
            .iter()
            .map(|x| match x {
                Some(l) => match l.as_str() {
                    Some(s) => format!("S{}", hex(s.as_bytes())),
                    None => "-".to_string(),
                },
                None => "N".to_string(),
            })
            .collect::<Vec<_>>()
            .join(","),
        Err(_) => "Err".into(),
    }
}

fn dump_sorted(v: &Value, out: &mut String) {
    if let Some(a) = v.as_array() {
        out.push('[');
        for (i, x) in a.iter().enumerate() {
            if i > 0 {
                out.push(',');
            }
            dump_sorted(x, out);
        }
        out.push(']');
    } else if let Some(o) = v.as_object() {
        let mut ms: Vec<(&str, &Value)> = o.iter().collect();
        ms.sort_by(|a, b| a.0.as_bytes().cmp(b.0.as_bytes()));
        out.push('{');
        for (i, (k, x)) in ms.iter().enumerate() {
            if i > 0 {
                out.push(',');
            }
            out.push_str(&format!("S{}:", hex(k.as_bytes())));
            dump_sorted(x, out);
        }
        out.push('}');
    } else {
        crate::c03::dump(v, out);
    }
}

pub fn run() {
    let mut out = Out::new();
    for line in lines_in() {
        let p: Vec<String> = line.split(' ').map(|s| s.to_string()).collect();
        let res = guarded(move || {
            if p[0] == "c11s" {
                let schema = unhex(&p[1]);
                let doc = unhex(&p[2]);
                let sv: Value = match sonic_rs::from_slice(&schema) {
                    Ok(v) => v,
                    Err(_) => return "schema=BADSCHEMA".into(),
                };
                match sonic_rs::get_by_schema(&doc[..], sv) {
                    Ok(v) => {
                        let mut s = String::new();
                        dump_sorted(&v, &mut s);
                        format!("schema={s}")
                    }
                    Err(_) => "schema=Err".into(),
                }
            } else {
                let doc = unhex(&p[1]);
                let paths: Vec<Vec<PointerNode>> = p[2].split('|').map(parse_path).collect();
                let mut tree = PointerTree::new();
                for pa in &paths {
                    tree.add_path(pa.iter());
                }
                let many = show(sonic_rs::get_many(&doc[..], &tree), paths.len());
                let wf = sonic_rs::from_slice::<Value>(&doc).is_ok();
                let manyu = if wf { show(unsafe { sonic_rs::get_many_unchecked(&doc[..], &tree) }, paths.len()) } else { "skip".into() };
                let single: Vec<String> = paths.iter().map(|pa| match sonic_rs::get(&doc[..], pa.iter()) {
                    Ok(l) => format!("A:{}", hex(l.as_raw_str().as_bytes())),
                    Err(_) => "E".into(),
                }).collect();
                let many_s = show_str(sonic_rs::get_many(&doc[..], &tree));
                let manyu_s = if wf { show_str(unsafe { sonic_rs::get_many_unchecked(&doc[..], &tree) }) } else { "skip".into() };
                let single_s: Vec<String> = paths.iter().map(|pa| {
                    use sonic_rs::JsonValueTrait;
                    match sonic_rs::get(&doc[..], pa.iter()) {
                        Ok(l) => match l.as_str() {
                            Some(s) => format!("S{}", hex(s.as_bytes())),
                            None => "-".to_string(),
                        },
                        Err(_) => "E".into(),
                    }
                }).collect();
                format!("many={} manyu={} single={} manyS={} manyuS={} singleS={}", many, manyu, single.join(","), many_s, manyu_s, single_s.join(","))
            }
        });
        out.line(&res);
    }
}

const KEYS: &[&str] = &["a", "b", "c", "d", "k", "e\n", "\u{e9}"];

/// a document without duplicate keys (the property is about duplicate-free documents)
fn gen_doc_nodup(r: &mut Rng, depth: usize, out: &mut String) {
    match r.below(if depth >= 4 { 5 } else { 9 }) {
        0 => out.push_str(&format!("{}", r.below(1000) as i64 - 500)),
        1 => out.push_str("\"s\\n\""),
        2 => out.push_str("true"),
        3 => out.push_str("null"),
        4 => out.push_str(if r.chance(1, 2) { "[]" } else { "{}" }),
        5 | 6 => {
            out.push('[');
            if r.chance(1, 3) { out.push(' '); }
            let n = 1 + r.below(4);
            for i in 0..n {
                if i > 0 {
                    out.push(',');
                }
                gen_doc_nodup(r, depth + 1, out);
            }
            out.push(']');
        }
        _ => {
            out.push('{');
            let n = 1 + r.below(4);
            let start = r.below(KEYS.len());
            for i in 0..n {
                if i > 0 {
                    out.push_str(if r.chance(1, 3) { " , " } else { "," });
                }
                let k = KEYS[(start + i) % KEYS.len()];
                out.push_str(&sonic_rs::to_string(k).unwrap());
                out.push(':');
                gen_doc_nodup(r, depth + 1, out);
            }
            out.push('}');
        }
    }
}

/// a path into the real value, possibly ending with a missing key / out-of-range index
fn gen_path(r: &mut Rng, v: &Value, allow_missing: bool) -> String {
    let mut segs: Vec<String> = Vec::new();
    let mut cur = v;
    loop {
        if r.chance(1, 4) {
            break;
        }
        if let Some(a) = cur.as_array() {
            if a.is_empty() {
                break;
            }
            if allow_missing && r.chance(1, 12) {
                segs.push(format!("i{}", a.len() + r.below(2)));
                break;
            }
            let k = r.below(a.len());
            segs.push(format!("i{k}"));
            cur = &a[k];
        } else if let Some(o) = cur.as_object() {
            let keys: Vec<&str> = o.iter().map(|(k, _)| k).collect();
            if keys.is_empty() {
                break;
            }
            if allow_missing && r.chance(1, 8) {
                segs.push(format!("k{}", hex(b"zz")));
                break;
            }
            let k = *r.pick(&keys);
            segs.push(format!("k{}", hex(k.as_bytes())));
            cur = o.get(&k).unwrap();
        } else {
            break;
        }
    }
    if segs.is_empty() { "-".into() } else { segs.join("/") }
}

/// a schema for the document: a sub-selection of its keys with defaults, plus absent keys
fn gen_schema(r: &mut Rng, v: &Value, depth: usize, out: &mut String) {
    if let Some(o) = v.as_object() {
        if depth < 3 && r.chance(5, 6) {
            out.push('{');
            let mut first = true;
            for (k, x) in o.iter() {
                if r.chance(2, 3) {
                    if !first {
                        out.push(',');
                    }
                    first = false;
                    out.push_str(&sonic_rs::to_string(k).unwrap());
                    out.push(':');
                    gen_schema(r, x, depth + 1, out);
                }
            }
            if r.chance(1, 2) {
                if !first {
                    out.push(',');
                }
                out.push_str("\"absent\":{\"dflt\":[1]}");
            }
            out.push('}');
            return;
        }
    }
    if depth == 0 {
        // the top-level schema must be an object
        out.push_str(*r.pick(&["{}", "{\"absent\":1}", "{\"a\":null,\"zz\":{\"q\":[]}}"]));
    } else {
        out.push_str(*r.pick(&["null", "0", "\"d\"", "[]", "{}", "[9]", "{\"q\":1}"]));
    }
}

pub fn gen(seed: u64, thorough: bool) {
    let mut out = Out::new();
    let mut r = Rng::new(seed ^ 0x11);
    let h = |s: &str| hex(s.as_bytes());
    let d = h("{\"a\":[1,{\"b\":2}],\"c\":3,\"d\":{\"e\":{\"f\":[true,null]}}}");
    for ps in [
        "k61/i1/k62|k63|k7a7a|-", "k61|k61|k61/i0|k61/i1|k61/i1/k62", "-|-", "k64/k65/k66/i1|k64/k65|k64", "k63|k61/i1/k62|k64/k65/k66/i0|k63",
        "k61/i5", "k7a7a", "k64/k7a7a/k61", "k61/i0|k61/i9", "k63|k7a7a|k64",
    ] {
        out.line(&format!("c11 {d} {ps}"));
    }
    out.line(&format!("c11 {} k61", h("{}")));
    out.line(&format!("c11 {} i0", h("[]")));
    out.line(&format!("c11 {} i0|i2|i1|i2", h("[10,[20],{\"x\":30}]")));
    for (s, dd) in [
        ("{\"a\":null,\"b\":{\"x\":1},\"c\":5}", "{\"a\":[1],\"b\":{\"x\":2,\"y\":3}}"),
        ("{}", "{\"a\":1}"), ("{\"a\":{}}", "{\"a\":{\"z\":1}}"), ("{\"a\":{\"k\":0}}", "{\"a\":7}"), ("{\"a\":1}", "[1,2]"), ("[1]", "{\"a\":1}"),
        ("{\"a\":{\"b\":{\"c\":null}}}", "{\"a\":{\"b\":{\"c\":[1,2],\"d\":0},\"e\":1},\"f\":2}"), ("null", "3"), ("{\"a\":1}", "{}"), ("{\"a\":1,\"b\":2}", " { \"b\" : [ ] } "),
    ] {
        out.line(&format!("c11s {} {}", h(s), h(dd)));
    }
    let n = if thorough { 30000 } else { 2500 };
    for k in 0..n {
        let mut doc = String::new();
        gen_doc_nodup(&mut r, 0, &mut doc);
        let v: Value = sonic_rs::from_str(&doc).unwrap();
        if k % 4 == 3 {
            let mut schema = String::new();
            gen_schema(&mut r, &v, 0, &mut schema);
            out.line(&format!("c11s {} {}", h(&schema), h(&doc)));
        } else {
            let np = 1 + r.below(6);
            let allow_missing = k % 3 != 0;
            let mut paths: Vec<String> = (0..np).map(|_| gen_path(&mut r, &v, allow_missing)).collect();
            if r.chance(1, 3) && !paths.is_empty() {
                let dup = paths[r.below(paths.len())].clone();
                paths.push(dup);
            }
            out.line(&format!("c11 {} {}", h(&doc), paths.join("|")));
        }
    }
}
