//! C12 — lazy iterators.  case: `c12 <hexdoc>`
use crate::util::*;

fn span_of(doc: &[u8], raw: &[u8]) -> String {
    let off = (raw.as_ptr() as usize).wrapping_sub(doc.as_ptr() as usize);
    if off <= doc.len() && off + raw.len() <= doc.len() {
        format!("{}:{}", off, off + raw.len())
    } else {
        format!("hex{}", hex(raw))
    }
}

fn join(v: Vec<String>) -> String {
    if v.is_empty() { "-".into() } else { v.join(",") }
}

pub fn run_case(doc: &[u8], wellformed: bool) -> String {
    let mut f: Vec<String> = Vec::new();
    macro_rules! ep {
        ($name:expr, $body:expr) => {
            f.push(format!("{}={}", $name, guarded(|| $body)));
        };
    }
    macro_rules! drain_arr {
        ($it:expr, $base:expr) => {{
            let mut it = $it;
            let mut items = Vec::new();
            let mut end = "END".to_string();
            while let Some(x) = it.next() {
                match x {
                    Ok(lv) => items.push(span_of($base, lv.as_raw_str().as_bytes())),
                    Err(e) => {
                        end = format!("E:{:?}", e.classify());
                        break;
                    }
                }
                if items.len() > 100000 { end = "NOEND".into(); break; }
            }
            let extra = (0..3).filter(|_| it.next().is_some()).count();
            format!("{}|{}|{}", join(items), end, extra)
        }};
    }
    macro_rules! drain_obj {
        ($it:expr, $base:expr) => {{
            let mut it = $it;
            let mut items = Vec::new();
            let mut end = "END".to_string();
            while let Some(x) = it.next() {
                match x {
                    Ok((k, lv)) => items.push(format!("{}:{}", hex(k.as_bytes()), span_of($base, lv.as_raw_str().as_bytes()))),
                    Err(e) => {
                        end = format!("E:{:?}", e.classify());
                        break;
                    }
                }
                if items.len() > 100000 { end = "NOEND".into(); break; }
            }
            let extra = (0..3).filter(|_| it.next().is_some()).count();
            format!("{}|{}|{}", join(items), end, extra)
        }};
    }
    ep!("arr", drain_arr!(sonic_rs::to_array_iter(doc), doc));
    ep!("obj", drain_obj!(sonic_rs::to_object_iter(doc), doc));
    if let Ok(s) = std::str::from_utf8(doc) {
        ep!("arr_str", drain_arr!(sonic_rs::to_array_iter(s), doc));
        ep!("obj_str", drain_obj!(sonic_rs::to_object_iter(s), doc));
        let fs = faststr::FastStr::new(s);
        let fs2 = fs.clone();
        ep!("arr_fs", drain_arr!(sonic_rs::to_array_iter(&fs2), fs2.as_bytes()));
    }
    {
        let b = bytes::Bytes::copy_from_slice(doc);
        let b2 = b.clone();
        ep!("obj_bytes", drain_obj!(sonic_rs::to_object_iter(&b2), &b2[..]));
    }
    if wellformed {
        ep!("arr_u", drain_arr!(unsafe { sonic_rs::to_array_iter_unchecked(doc) }, doc));
        ep!("obj_u", drain_obj!(unsafe { sonic_rs::to_object_iter_unchecked(doc) }, doc));
        // LazyValue::into_array_iter / into_object_iter on the first value
        ep!("lv_arr", match sonic_rs::get(doc, sonic_rs::pointer![]) {
            Ok(lv) => match lv.into_array_iter() {
                Some(it) => drain_arr!(it, doc),
                None => "notarr".into(),
            },
            Err(_) => "R".into(),
        });
        ep!("lv_obj", match sonic_rs::get(doc, sonic_rs::pointer![]) {
            Ok(lv) => match lv.into_object_iter() {
                Some(it) => drain_obj!(it, doc),
                None => "notobj".into(),
            },
            Err(_) => "R".into(),
        });
    }
    f.join(" ")
}

pub fn run() {
    let mut out = Out::new();
    for line in lines_in() {
        let p: Vec<&str> = line.split(' ').collect();
        let doc = unhex(p.get(1).copied().unwrap_or("-"));
        let wf = p.get(2).copied() == Some("w");
        out.line(&run_case(&doc, wf));
    }
}

pub fn gen(seed: u64, thorough: bool) {
    let mut out = Out::new();
    let mut r = Rng::new(seed ^ 0x12);
    let fixed: &[&[u8]] = &[
        b"[]", b"{}", b"[1]", b" [ 1 , 2 ] x", b"[1,2]\xff", b"[1,2,\"\xff\"]", b"{\"a\":1,\"b\":[1,2]} trailing", b"[1,,2]", b"[1 2]", b"[,1]",
        b"{\"a\":1,}", b"{\"a\" 1}", b"{,\"a\":1}", b"[1,2", b"{\"\\u0061\":\"\\uZZZZ\"}", b"[\"\\uZZZZ\"]", b"1", b"\"x\"", b"", b"[[[[]]]]", b"{\"a\":{\"a\":{}}}",
    ];
    for t in fixed {
        let wf = serde_json::from_slice::<serde_json::Value>(t).is_ok();
        out.line(&format!("c12 {} {}", hex(t), if wf { "w" } else { "m" }));
    }
    // number items whose dot / exponent stand at the edges of the number skipper's 32-byte blocks, well-formed and with a
    // malformed tail: the item ends where the longest number token ends, the error comes with the next poll
    for (k, t) in number_shapes().into_iter().enumerate() {
        if !thorough && k % 2 == 1 {
            continue;
        }
        let docs: [Vec<u8>; 3] = [
            [b"[".as_slice(), &t, b"]"].concat(),
            [b"[1, ".as_slice(), &t, b" ,2]"].concat(),
            [b"{\"k\":".as_slice(), &t, b",\"l\":1}"].concat(),
        ];
        for d in docs.iter() {
            let wf = serde_json::from_slice::<serde_json::Value>(d).is_ok();
            out.line(&format!("c12 {} {}", hex(d), if wf { "w" } else { "m" }));
        }
    }
    let n = if thorough { 30000 } else { 2500 };
    let cfg = GenCfg { max_depth: 3, max_items: 6, ws: true, dup_keys: true, long_strings: true };
    for _ in 0..n {
        // a container of every size 0..N
        let mut d = Vec::new();
        gen_ws(&mut r, &cfg, &mut d);
        let is_arr = r.chance(1, 2);
        let size = r.below(9);
        d.push(if is_arr { b'[' } else { b'{' });
        gen_ws(&mut r, &cfg, &mut d);
        let mut used = Vec::new();
        for i in 0..size {
            if i > 0 {
                d.push(b',');
                gen_ws(&mut r, &cfg, &mut d);
            }
            if !is_arr {
                gen_key(&mut r, &cfg, &mut used, &mut d);
                gen_ws(&mut r, &cfg, &mut d);
                d.push(b':');
                gen_ws(&mut r, &cfg, &mut d);
            }
            gen_value(&mut r, &cfg, 1, &mut d);
            gen_ws(&mut r, &cfg, &mut d);
        }
        d.push(if is_arr { b']' } else { b'}' });
        if r.chance(1, 3) {
            // trailing bytes after the container are never looked at
            d.extend_from_slice(*r.pick(&[&b" x"[..], b"]", b"}", b"\n{", b" 1 2"]));
        }
        let wf = true;
        out.line(&format!("c12 {} {}", hex(&d), if wf { "w" } else { "m" }));
        if r.chance(1, 3) {
            // nested containers holding strings full of escaped quotes / backslashes / brackets, of
            // sweeping length: the 64-byte string-mask carries of the unchecked skipper
            let mut w = Vec::new();
            let is_arr2 = r.chance(1, 2);
            w.extend_from_slice(if is_arr2 { &b"["[..] } else { &b"{\"k\":"[..] });
            let n_el = 1 + r.below(3);
            for e in 0..n_el {
                if e > 0 {
                    w.extend_from_slice(if is_arr2 { &b","[..] } else { &b",\"k2\":"[..] });
                }
                w.extend_from_slice(if r.chance(1, 2) { &b"[\""[..] } else { &b"{\"q\":\""[..] });
                let closer: &[u8] = if w.ends_with(b"[\"") { b"\"]" } else { b"\"}" };
                let k = r.below(150);
                for _ in 0..k {
                    w.extend_from_slice(*r.pick(&[&b"\\\\"[..], b"\\\"", b"[", b"]", b"{", b"}", b",", b"a", b"b", b" ", b"\\\\\\\""]));
                }
                w.extend_from_slice(closer);
            }
            w.extend_from_slice(if is_arr2 { &b"]"[..] } else { &b"}"[..] });
            out.line(&format!("c12 {} w", hex(&w)));
        }
        let m = mutate(&mut r, &d);
        out.line(&format!("c12 {} m", hex(&m)));
        if r.chance(1, 3) && !d.is_empty() {
            let cut = r.below(d.len());
            out.line(&format!("c12 {} m", hex(&d[..cut])));
        }
    }
}
