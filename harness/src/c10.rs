//! C10 / C14 — path lookups.  case: `c10 <hexdoc> <path>` / `c14 <hexdoc> <path>`
//! path: `-` or steps joined by `/`: k<hexkey>, i<n>
use crate::util::*;
use sonic_rs::{JsonValueTrait, LazyValue, OwnedLazyValue, PointerNode, PointerTree, Value};

pub fn parse_path(s: &str) -> Vec<PointerNode> {
    if s == "-" {
        return vec![];
    }
    s.split('/')
        .map(|t| {
            if let Some(h) = t.strip_prefix('k') {
                PointerNode::Key(String::from_utf8(unhex(h)).unwrap().into())
            } else {
                PointerNode::Index(t[1..].parse().unwrap())
            }
        })
        .collect()
}

pub fn path_str(p: &[PointerNode]) -> String {
    if p.is_empty() {
        return "-".into();
    }
    p.iter()
        .map(|n| match n {
            PointerNode::Key(k) => format!("k{}", hex(k.as_bytes())),
            PointerNode::Index(i) => format!("i{}", i),
        })
        .collect::<Vec<_>>()
        .join("/")
}

fn span_of(doc: &[u8], raw: &[u8]) -> String {
    let off = (raw.as_ptr() as usize).wrapping_sub(doc.as_ptr() as usize);
    if off <= doc.len() && off + raw.len() <= doc.len() {
        format!("F:{}:{}", off, off + raw.len())
    } else {
        // FastStr inlines short strings: the carrier copied the bytes, report them by content
        format!("F:hex:{}", hex(raw))
    }
}

fn cat(e: &sonic_rs::Error) -> String {
    format!("E:{:?}", e.classify())
}

pub fn run_case(doc: &[u8], path: &[PointerNode], wellformed_only: bool) -> String {
    let mut f: Vec<String> = Vec::new();
    macro_rules! ep {
        ($name:expr, $body:expr) => {
            f.push(format!("{}={}", $name, guarded(|| $body)));
        };
    }
    ep!("get", match sonic_rs::get(doc, path) {
        Ok(lv) => span_of(doc, lv.as_raw_str().as_bytes()),
        Err(e) => cat(&e),
    });
    ep!("get_slice", match sonic_rs::get_from_slice(doc, path) {
        Ok(lv) => span_of(doc, lv.as_raw_str().as_bytes()),
        Err(e) => cat(&e),
    });
    {
        let b = bytes::Bytes::copy_from_slice(doc);
        let bb = b.clone();
        ep!("get_bytes", match sonic_rs::get_from_bytes(&bb, path) {
            Ok(lv) => span_of(&bb, lv.as_raw_str().as_bytes()),
            Err(e) => cat(&e),
        });
    }
    if let Ok(s) = std::str::from_utf8(doc) {
        ep!("get_str", match sonic_rs::get_from_str(s, path) {
            Ok(lv) => span_of(doc, lv.as_raw_str().as_bytes()),
            Err(e) => cat(&e),
        });
        let owned = s.to_string();
        ep!("get_string", match sonic_rs::get(&owned, path) {
            Ok(lv) => span_of(owned.as_bytes(), lv.as_raw_str().as_bytes()),
            Err(e) => cat(&e),
        });
        let fs = faststr::FastStr::new(s);
        ep!("get_faststr", match sonic_rs::get_from_faststr(&fs, path) {
            Ok(lv) => span_of(fs.as_bytes(), lv.as_raw_str().as_bytes()),
            Err(e) => cat(&e),
        });
    }
    if wellformed_only {
        // unchecked variants are only specified on well-formed input
        ep!("getu", match unsafe { sonic_rs::get_unchecked(doc, path) } {
            Ok(lv) => span_of(doc, lv.as_raw_str().as_bytes()),
            Err(e) => cat(&e),
        });
        if let Ok(s) = std::str::from_utf8(doc) {
            ep!("getu_str", match unsafe { sonic_rs::get_from_str_unchecked(s, path) } {
                Ok(lv) => span_of(doc, lv.as_raw_str().as_bytes()),
                Err(e) => cat(&e),
            });
        }
        // DOM / lazy / owned-lazy pointer: answers by content
        ep!("dom", match sonic_rs::from_slice::<Value>(doc) {
            Ok(v) => match v.pointer(path) {
                Some(x) => format!("F:{}", hex(sonic_rs::to_string(x).unwrap().as_bytes())),
                None => "N".into(),
            },
            Err(_) => "R".into(),
        });
        ep!("lazy", match sonic_rs::from_slice::<LazyValue>(doc) {
            Ok(v) => match v.pointer(path) {
                Some(x) => format!("F:{}", hex(x.as_raw_str().as_bytes())),
                None => "N".into(),
            },
            Err(_) => "R".into(),
        });
        ep!("owned", match sonic_rs::from_slice::<OwnedLazyValue>(doc) {
            Ok(v) => match v.pointer(path) {
                Some(x) => format!("F:{}", hex(sonic_rs::to_string(x).unwrap().as_bytes())),
                None => "N".into(),
            },
            Err(_) => "R".into(),
        });
        // the raw text found must parse to the same value as the DOM lookup
        ep!("same", match (sonic_rs::get(doc, path), sonic_rs::from_slice::<Value>(doc)) {
            (Ok(lv), Ok(v)) => match (sonic_rs::from_str::<Value>(lv.as_raw_str()), v.pointer(path)) {
                (Ok(a), Some(b)) => (if &a == b { "eq" } else { "NEQ" }).to_string(),
                _ => "NEQ".into(),
            },
            (Err(_), Ok(v)) => (if v.pointer(path).is_none() { "eq" } else { "NEQ" }).to_string(),
            _ => "na".into(),
        });
    } else {
        // C14: multi-path and schema extraction on arbitrary bytes: filled slots by span
        ep!("many", {
            let mut tree = PointerTree::new();
            tree.add_path(path.iter());
            // a second, shape-consistent path (add_path panics on key/index clashes at one node)
            match path.first() {
                Some(PointerNode::Index(_)) => tree.add_path(sonic_rs::pointer![0].iter()),
                _ => tree.add_path(sonic_rs::pointer!["a"].iter()),
            }
            match sonic_rs::get_many(doc, &tree) {
                Ok(v) => {
                    let items: Vec<String> = v
                        .iter()
                        .map(|o| match o {
                            Some(lv) => span_of(doc, lv.as_raw_str().as_bytes())[2..].to_string(),
                            None => "N".into(),
                        })
                        .collect();
                    format!("S:{}", items.join(","))
                }
                Err(e) => cat(&e),
            }
        });
        ep!("schema", {
            let schema: Value = sonic_rs::from_str(r#"{"a":null,"b":{"c":1},"x":[]}"#).unwrap();
            match sonic_rs::get_by_schema(doc, schema) {
                // (members in key order: the schema object is a hash map with a per-process seed)
                Ok(v) => {
                    let j: serde_json::Value = serde_json::from_str(&sonic_rs::to_string(&v).unwrap()).unwrap_or(serde_json::Value::Null);
                    format!("S:{}", hex(serde_json::to_string(&j).unwrap().as_bytes()))
                }
                Err(e) => cat(&e),
            }
        });
    }
    f.join(" ")
}

pub fn run(wellformed_only: bool) {
    let mut out = Out::new();
    for line in lines_in() {
        let p: Vec<&str> = line.split(' ').collect();
        let doc = unhex(p.get(1).copied().unwrap_or("-"));
        let path = parse_path(p.get(2).copied().unwrap_or("-"));
        out.line(&run_case(&doc, &path, wellformed_only));
    }
}

/// all paths of a document (via serde_json, keys de-duplicated by it)
fn all_paths(v: &serde_json::Value, cur: &mut Vec<PointerNode>, out: &mut Vec<Vec<PointerNode>>) {
    out.push(cur.clone());
    match v {
        serde_json::Value::Array(a) => {
            for (i, x) in a.iter().enumerate() {
                cur.push(PointerNode::Index(i));
                all_paths(x, cur, out);
                cur.pop();
            }
        }
        serde_json::Value::Object(m) => {
            for (k, x) in m.iter() {
                cur.push(PointerNode::Key(k.clone().into()));
                all_paths(x, cur, out);
                cur.pop();
            }
        }
        _ => {}
    }
}

fn perturb(r: &mut Rng, p: &[PointerNode]) -> Vec<PointerNode> {
    let mut q = p.to_vec();
    match r.below(6) {
        0 => q.push(PointerNode::Key("zz".into())),
        1 => q.push(PointerNode::Index(r.below(4))),
        2 if !q.is_empty() => {
            let i = r.below(q.len());
            q[i] = match &q[i] {
                PointerNode::Key(_) => PointerNode::Index(0),
                PointerNode::Index(n) => PointerNode::Index(n + 7),
            };
        }
        3 if !q.is_empty() => {
            let i = r.below(q.len());
            q[i] = PointerNode::Key("".into());
        }
        4 if !q.is_empty() => {
            q.pop();
            q.push(PointerNode::Key("a".into()));
        }
        _ => q.push(PointerNode::Key("".into())),
    }
    q
}

pub fn gen(seed: u64, thorough: bool, malformed: bool) {
    let name = if malformed { "c14" } else { "c10" };
    let mut out = Out::new();
    let mut r = Rng::new(seed ^ if malformed { 0x14 } else { 0x10 });
    let fixed: &[(&[u8], &str)] = &[
        (b"{xx\"a\":1}", "k61"), (b"{,\"a\":1}", "k61"), (b"{ 1 2 3 \"a\":1}", "k61"), (b"{\"a\":1}", "k61"), (b"{\"\\u0061\":1}", "k61"),
        (b"{\"a\":1,\"a\":2}", "k61"), (b"[1,2,3]", "i2"), (b"[1,2,3]", "i3"), (b"[]", "i0"), (b"{}", "k61"), (b"{\"\":5}", "k-"),
        (b" [ 1 , [ 2 , {\"k\" : \"v\\\"]\" } ] ] ", "i1/i1/k6b"), (b"{\"a\":{\"b\":[true,false,null]}}", "k61/k62/i2"), (b"1", "-"), (b" \"x\" ", "-"),
        (b"{\"a\":\"\\uZZZZ\"}", "k61"), (b"{\"b\":\"\\uZZZZ\",\"a\":1}", "k61"), (b"{\"a\":1}\xff", "k61"), (b"{\"b\":\"\xff\",\"a\":1}", "k61"),
        (b"{\"a\":[1,2", "k61/i0"), (b"[1 2]", "i1"), (b"{\"a\" 1}", "k61"), (b"{\"a\":01}", "k61"), (b"{\"a\":1 \"b\":2}", "k62"),
    ];
    for (d, p) in fixed {
        let wf = serde_json::from_slice::<serde_json::Value>(d).is_ok();
        if malformed || wf {
            out.line(&format!("{} {} {}", name, hex(d), p));
        }
    }
    // number shapes around the 32-byte blocks of the number skipper: integer parts of every length up to 100 digits, with
    // well-formed and (malformed stream) doubled fraction / exponent tails; the number is the target or a sibling passed over
    {
        let wf_tails: &[&str] = &["", ".5", ".25e3", "e2", "E-7", ".000000000000000000000000000000005"];
        let bad_tails: &[&str] = &[".5.5", ".5.5e1", ".25.", "..5", ".5e1.5", "e1e1", ".5e", "e+"];
        let step = if thorough { 1 } else { 1 };
        for nd in (1..=100usize).step_by(step) {
            let tails: Vec<&str> = if malformed { bad_tails.iter().chain(wf_tails.iter().take(2)).copied().collect() } else { wf_tails.to_vec() };
            for (ti, tail) in tails.iter().enumerate() {
                if !thorough && !(nd % 32 <= 2 || nd % 32 >= 29 || (nd + ti) % 5 == 0) {
                    continue;
                }
                let mut num = String::new();
                if (nd + ti) % 3 == 0 {
                    num.push('-');
                }
                for k in 0..nd {
                    num.push((b'1' + ((k * 7 + nd) % 9) as u8) as char);
                }
                num.push_str(tail);
                out.line(&format!("{} {} i0", name, hex(format!("[{}]", num).as_bytes())));
                out.line(&format!("{} {} k{}", name, hex(format!("{{\"skipped\":{},\"target\":true}}", num).as_bytes()), hex(b"target")));
                out.line(&format!("{} {} i1", name, hex(format!("[{} ,[7]]", num).as_bytes())));
            }
        }
    }
    // an escaped quote at every offset 0..130 of a container that the unchecked skipper passes over, followed by backslash-free
    // text of several lengths and then real quotes (the escape carry of the 64-byte blocks must be consumed by a block without
    // backslashes); a string full of brackets follows the container, the target comes after it
    if !malformed {
        for off in 0..=130usize {
            for &n in (if thorough { &[0usize, 1, 30, 61, 62, 63, 64, 65, 100][..] } else { &[30usize, 62, 63, 64][..] }) {
                for &m in &[0usize, 30, 63] {
                    if !thorough && (off + n + m) % 2 == 1 && !(off % 64 >= 60 || off % 64 <= 2) {
                        continue;
                    }
                    let mut inner = b"[\"".to_vec();
                    inner.extend(std::iter::repeat(b'x').take(off));
                    inner.extend_from_slice(b"\\\"");
                    inner.extend(std::iter::repeat(b'y').take(n));
                    inner.extend_from_slice(b"\",\"");
                    inner.extend(std::iter::repeat(b'w').take(m));
                    inner.extend_from_slice(b"\"]");
                    let mut d = b"[".to_vec();
                    d.extend_from_slice(&inner);
                    d.extend_from_slice(b",\"],7,8\",1]");
                    out.line(&format!("{} {} i2", name, hex(&d)));
                    if (off + n) % 3 == 0 {
                        let mut d = b"{\"a\":".to_vec();
                        d.extend_from_slice(&inner);
                        d.extend_from_slice(b",\"q\":\"}{\",\"z\":1}");
                        out.line(&format!("{} {} k7a", name, hex(&d)));
                    }
                }
            }
        }
    }
    let n = if thorough { 12000 } else { 1200 };
    let cfg = GenCfg { max_depth: 4, max_items: 4, ws: true, dup_keys: false, long_strings: true };
    for i in 0..n {
        let mut d = gen_doc(&mut r, &cfg);
        if i % 4 == 0 {
            // long string/whitespace content so that the block scanners of the unchecked path
            // cross 32/64-byte edges with brackets, quotes and backslash runs inside strings
            let mut body = Vec::new();
            let k = 20 + r.below(120);
            for _ in 0..k {
                body.extend_from_slice(*r.pick(&[&b"\\\\"[..], b"\\\"", b"[", b"]", b"{", b"}", b",", b"a", b" ", b":", b"\\\\\\\""]));
            }
            let mut w = b"{\"p\":\"".to_vec();
            w.extend_from_slice(&body);
            w.extend_from_slice(b"\",\"q\":[\"");
            w.extend_from_slice(&body);
            w.extend_from_slice(b"\",");
            w.extend_from_slice(&d);
            w.extend_from_slice(b"],\"a\":");
            w.extend_from_slice(&d);
            w.extend_from_slice(b"}");
            d = w;
        }
        let parsed: Option<serde_json::Value> = serde_json::from_slice(&d).ok();
        let mut paths = Vec::new();
        if let Some(v) = &parsed {
            all_paths(v, &mut Vec::new(), &mut paths);
        } else {
            paths.push(vec![]);
        }
        let take = if thorough { 8 } else { 4 };
        for _ in 0..take.min(paths.len().max(1)) {
            let p = paths[r.below(paths.len())].clone();
            let (doc, p) = if malformed {
                let mut m = mutate(&mut r, &d);
                if r.chance(1, 3) {
                    m = mutate(&mut r, &m);
                }
                (m, p)
            } else if r.chance(1, 4) {
                (d.clone(), perturb(&mut r, &p))
            } else {
                (d.clone(), p)
            };
            // keys must be valid UTF-8 to be expressible as &str paths
            out.line(&format!("{} {} {}", name, hex(&doc), path_str(&p)));
        }
        if i % 3 == 1 {
            // keys that are long string bodies with escapes (the key decoder parse_string_raw and
            // its 32-byte blocks), looked up past them; in the malformed stream a control
            // character is planted shortly before a backslash
            let lcfg = GenCfg { long_strings: true, ..GenCfg::default() };
            let mut w = b"{".to_vec();
            for kx in 0..(1 + r.below(3)) {
                let mut body = Vec::new();
                while body.len() < 8 + r.below(60) {
                    gen_string_body(&mut r, &lcfg, &mut body);
                }
                w.push(b'"');
                w.extend_from_slice(format!("k{}", kx).as_bytes());
                w.extend_from_slice(&body);
                w.extend_from_slice(b"\":");
                gen_value(&mut r, &cfg, 2, &mut w);
                w.push(b',');
            }
            w.extend_from_slice(b"\"target\":[true, 2]}");
            let tp = vec![PointerNode::Key("target".into()), PointerNode::Index(r.below(2))];
            if malformed {
                let bs: Vec<usize> = w.iter().enumerate().filter(|(_, b)| **b == b'\\').map(|(i, _)| i).collect();
                if !bs.is_empty() {
                    let p = bs[r.below(bs.len())];
                    let at = p.saturating_sub(1 + r.below(31)).max(1);
                    w.insert(at, *r.pick(b"\x00\x01\x1f\n\t"));
                }
            }
            out.line(&format!("{} {} {}", name, hex(&w), path_str(&tp)));
        }
        if malformed && !d.is_empty() {
            // every prefix (sampled) with the deepest path
            let cut = r.below(d.len());
            let p = paths[r.below(paths.len())].clone();
            out.line(&format!("{} {} {}", name, hex(&d[..cut]), path_str(&p)));
        }
    }
}
