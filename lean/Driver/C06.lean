import Driver.Util
import SonicModel.Spec.Tree
import SonicModel.Spec.Num
import SonicModel.Impl.Ser
import SonicModel.Spec.Sort
namespace Driver
open Sonic Sonic.Spec Sonic.Impl

/-- what `Serialize for Value` feeds to the serializer in raw-number mode: numbers by their literal -/
partial def toSV (buf : Buf) : Json → SV
  | .null => .null
  | .bool b => .bool b
  | .num s e => .num (buf.extract s e).toList
  | .str s => .str s
  | .arr xs => .seq (xs.map (toSV buf))
  | .obj ms => .map (ms.map fun (k, v) => (SKey.str k, toSV buf v))

partial def hasInf6 (buf : Buf) : Json → Bool
  | .num s e => (classify (decOf buf s e)) == .infinite
  | .arr xs => xs.any (hasInf6 buf)
  | .obj ms => ms.any fun (_, v) => hasInf6 buf v
  | _ => false

def ser (fmt : Fmt) (sv : SV) : String :=
  match events fmt 0 sv with
  | some evs => hex (flatten evs)
  | none => "ERR"

/-- `c06 <hexdoc>` -/
def c06 (args : List String) : String :=
  match args with
  | [h] =>
    match unhex h with
    | some buf =>
      match docTree false buf with
      | some j =>
        if !(utf8Valid buf) then "spec.acc=R" else
        let sv := toSV buf j
        let svs := toSV buf (sortKeys j)
        s!"spec.acc={ar (!(hasInf6 buf j))} spec.rawacc=A spec.raw={ser none sv} spec.rawpretty={ser (some [32, 32]) sv} spec.rawsorted={ser none svs} spec.rawprettysorted={ser (some [32, 32]) svs}"
      | none => "spec.acc=R"
    | none => "bad-hex"
  | _ => "bad-args"

end Driver
