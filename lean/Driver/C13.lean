import Driver.C03
import SonicModel.Impl.Lazy
namespace Driver
open Sonic Sonic.Spec Sonic.Lazy

/-- `c13 <hexdoc>`: the specification's view of the text: tree dump, trimmed raw text, kind by first
    byte, and the owned-lazy serializations after the two mutations of the harness -/
def c13 (args : List String) : String :=
  match args with
  | [h] =>
    match unhex h with
    | some buf =>
      let i := skipWs buf 0
      match tree false (fuelFor buf) buf i with
      | some (j, e) =>
        if skipWs buf e != buf.size || !(utf8Valid buf) then "spec=R" else
        let raw := (buf.extract i e).toList
        let dumpS := if hasInf buf j then "R" else dumpJson buf false j
        let kind := match (buf[i]?).bind kindOfByte with
          | some k => (if k == kindOfJson j then "ok" else "MISMATCH") | none => "none"
        let newStr : OL := .str [110, 101, 119]
        let one : OL := .raw [49]
        let tru : OL := .arr [.raw [116, 114, 117, 101]]
        let push : String := match load1 raw with
          | some (.arr xs) => hex (ser (.arr (xs ++ [newStr])))
          | some (.obj ms) => hex (ser (.obj (ms ++ [([110, 101, 119], one)])))
          | _ => "NA"
        let repl : String := match load1 raw with
          | some (.arr (_ :: xs)) => hex (ser (.arr (tru :: xs)))
          | some (.obj ((k, _) :: ms)) =>
            -- `pointer_mut([key])` addresses the FIRST member of that key
            hex (ser (.obj ((k, tru) :: ms)))
          | _ => "NA"
        s!"spec={dumpS} raw={hex raw} kind={kind} push={push} repl={repl}"
      | none => "spec=R"
    | none => "bad-hex"
  | _ => "bad-args"

end Driver
