import Driver.Util
import SonicModel.Impl.Get
import SonicModel.Impl.GetU
import SonicModel.Impl.IterU
namespace Driver
open Sonic Sonic.Impl Sonic.Spec

/-- path syntax: `-` (root) or steps joined by `/`: `k<hexkey>` (`k-` = empty key), `i<n>` -/
def parsePath (s : String) : Option (List Step) :=
  if s == "-" then some [] else
  (s.splitOn "/").mapM fun t =>
    if t.startsWith "k" then (unhex (t.drop 1).toString).map (fun b => Step.key b.toList)
    else if t.startsWith "i" then ((t.drop 1).toString.toNat?).map Step.idx
    else none

def lookStr : Look → String
  | .found s e => s!"F:{s}:{e}"
  | .missing => "missing"
  | .wrongKind => "wrongkind"
  | .malformed => "malformed"

def gresStr : GRes → String
  | .found s e => s!"F:{s}:{e}"
  | .err c p => s!"E:{c.name}:{c.category.name}:{p}"
  | .fuel => "FUEL"

/-- `c10 <hexdoc> <path>` -/
def c10 (args : List String) : String :=
  match args with
  | [h, p] =>
    match unhex h, parsePath p with
    | some buf, some path =>
      let sp := lookup buf path
      let m := getEntry true buf path
      let ms := getEntry false buf path
      -- UTF-8 validity of the text up to the end of the value the specification finds
      let pre8 := match sp with
        | .found _ e => Spec.utf8FirstInvalid buf 0 ≥ e
        | _ => true
      let wf := (Spec.document false buf).isSome && Spec.utf8Valid buf
      let wfs := (Spec.document true buf).isSome && Spec.utf8Valid buf
      let mu := Sonic.GetU.getUnchecked buf 0 path
      s!"m.get={gresStr m} m.get_str={gresStr ms} m.getu={gresStr mu} spec={lookStr sp} pre8={ar pre8} wf={ar wf} wfs={ar wfs}"
    | _, _ => "bad-args"
  | _ => "bad-args"

/-- `c14v <hexdoc> <s:e,s:e,...>` : is each span exactly one well-formed value (no surrounding
    whitespace), inside the input, and is the text up to its end valid UTF-8? -/
def c14v (args : List String) : String :=
  match args with
  | [h, spans] =>
    match unhex h with
    | some buf =>
      let items := if spans == "-" then [] else spans.splitOn ","
      let rs := items.map fun it =>
        match it.splitOn ":" with
        | [a, b] =>
          match a.toNat?, b.toNat? with
          | some s, some e =>
            let inside : Bool := s ≤ e && e ≤ buf.size
            let wf : Bool := (match Spec.value false (Spec.fuelFor buf) buf s with | .ok e' => e' == e | _ => false) && skipWs buf s == s
            let u8 : Bool := Spec.utf8FirstInvalid buf 0 ≥ e
            if inside && wf && u8 then "ok" else s!"BAD(inside={inside},wf={wf},utf8={u8})"
          | _, _ => "bad-span"
        | _ => "bad-span"
      s!"spans={if rs.isEmpty then "-" else String.intercalate "," rs}"
    | none => "bad-hex"
  | _ => "bad-args"

/-- `next_elem_impl`: one step, then `check_invalid_utf8(false)` on what was parsed so far
    (`inv` = `next_invalid_utf8`), with the `ending` latch -/
partial def drainArr (buf : Buf) (inv : Nat) (i : Nat) (first : Bool) (acc : List String) (n : Nat) : List String × String :=
  if n == 0 then (acc.reverse, "NOEND") else
  match arrayElemLazy buf.size buf i first with
  | .error (c, p) => (acc.reverse, s!"E:{(finalError buf.size (if inv < buf.size then some inv else none) c p).1.name}")
  | .ok none => (acc.reverse, "END")
  | .ok (some (s, e, nx)) =>
    if inv < nx then (acc.reverse, "E:InvalidUTF8")
    else drainArr buf inv nx false (s!"{s}:{e}" :: acc) (n-1)

partial def drainObj (buf : Buf) (inv : Nat) (i : Nat) (first : Bool) (acc : List String) (n : Nat) : List String × String :=
  if n == 0 then (acc.reverse, "NOEND") else
  match entryLazy buf.size buf i first with
  | .error (c, p) => (acc.reverse, s!"E:{(finalError buf.size (if inv < buf.size then some inv else none) c p).1.name}")
  | .ok none => (acc.reverse, "END")
  | .ok (some (k, s, e, nx)) =>
    if inv < nx then (acc.reverse, "E:InvalidUTF8")
    else drainObj buf inv nx false (s!"{hex k}:{s}:{e}" :: acc) (n-1)

def joinItems (l : List String) : String := if l.isEmpty then "-" else String.intercalate "," l

/-- `c12 <hexdoc>` : item sequences of the checked iterators (model) and of the specification -/
def c12 (args : List String) : String :=
  match args with
  | h :: _ =>
    match unhex h with
    | some buf =>
      let u := Spec.utf8Valid buf
      let inv := Spec.utf8FirstInvalid buf 0
      let (ma, ea) := drainArr buf inv 0 true [] 100000
      let (mo, eo) := drainObj buf inv 0 true [] 100000
      let (sa, oka) := arrayItems buf (skipWs buf 0)
      let (so, oko) := objectItems buf (skipWs buf 0)
      -- the library (proved) drains, without the UTF-8 latch: must equal the specification
      let (la, lao) := Impl.drainArr buf 0 true
      let (lo, loo) := Impl.drainObj buf 0 true
      let libOk : Bool := (la, lao) == (sa, oka) && (lo, loo) == (so, oko)
      -- the unchecked iterators (block skippers, skip_number_unsafe)
      let (ua, uao) := Sonic.GetU.drainArrU buf 0 true
      let (uo, uoo) := Sonic.GetU.drainObjU buf 0 true
      let uas := ua.map fun (s, e) => s!"{s}:{e}"
      let uos := uo.map fun (k, s, e) => s!"{hex k}:{s}:{e}"
      let sas := sa.map fun (s, e) => s!"{s}:{e}"
      let sos := so.map fun (k, s, e) => s!"{hex k}:{s}:{e}"
      s!"m.arr={joinItems ma}|{ea} m.obj={joinItems mo}|{eo} spec.arr={joinItems sas}|{if oka then "END" else "ERR"} spec.obj={joinItems sos}|{if oko then "END" else "ERR"} utf8={ar u} inv={inv} lib={ar libOk} mu.arr={joinItems uas}|{if uao then "END" else "ERR"} mu.obj={joinItems uos}|{if uoo then "END" else "ERR"}"
    | none => "bad-hex"
  | [] => "bad-args"

end Driver
