import Driver.Util
import SonicModel.Spec.Typed
import SonicModel.Impl.De
namespace Driver
open Sonic Sonic.Spec

def b (s : String) : List UInt8 := s.toUTF8.toList

def tyS : Ty := .struct [.mk (b "a") (.int 32 true) false, .mk (b "b") (.opt .str) false, .mk (b "c") (.seq (.int 8 false)) true] false
def tyE : Ty := .enum [.unit (b "Unit"), .newtype (b "New") (.int 32 true), .tuple (b "Tup") [.int 32 true, .str],
  .struct (b "Struct") [.mk (b "x") (.int 32 true) false, .mk (b "y") (.opt .bool) false]]

/-- the type family of the harness (same numbering) -/
def tyOf : Nat → Option Ty
  | 1 => some .bool
  | 2 => some (.int 8 false) | 3 => some (.int 8 true) | 4 => some (.int 16 false) | 5 => some (.int 16 true)
  | 6 => some (.int 32 false) | 7 => some (.int 32 true) | 8 => some (.int 64 false) | 9 => some (.int 64 true)
  | 10 => some (.int 128 false) | 11 => some (.int 128 true)
  | 12 => some .f64
  | 13 => some .char
  | 14 => some .str
  | 15 => some .unit
  | 16 => some (.opt (.int 32 true))
  | 17 => some (.tuple [.int 32 true, .str])
  | 18 => some (.seq (.int 16 false))
  | 19 => some (.map .str (.int 32 true))
  | 20 => some (.map (.int 32 true) .bool)
  | 21 => some (.map .bool (.int 8 false))
  | 22 => some (.map (.unitEnum [b "Blue", b "Green", b "Red"]) (.int 32 true))
  | 23 => some tyS
  | 24 => some (.struct [.mk (b "id") (.int 32 false) false, .mk (b "name") .str false] true)
  | 25 => some tyE
  | 26 => some .bytes
  | 27 => some (.newtype (.int 32 true))
  | 28 => some .unit
  | 29 => some (.tuple [.int 8 false, .int 8 false, .int 8 false])
  | 30 => some (.seq (.opt .bool))
  | 31 => some (.struct [.mk (b "e") tyE false, .mk (b "list") (.seq tyS) false, .mk (b "m") (.map .str (.opt (.int 32 true))) false] false)
  | 32 => some (.opt (.seq .str))
  | 33 => some (.tuple [.int 32 true, .bool])
  | 34 => some (.map (.int 64 false) .str)
  | 35 => some (.map (.int 8 true) .unit)
  | 36 => some (.enum [.tuple (b "T") [], .struct (b "S") [], .newtype (b "One") (.int 8 false)])
  | _ => none

/-- `c04 <type id> <hexdoc>` -/
def c04 (args : List String) : String :=
  match args with
  | [id, h] =>
    match id.toNat?, unhex h with
    | some id, some buf =>
      (match tyOf id with
       | some ty =>
         let shw (v : Val) : String := if id == 12 then String.ofList (v.render.map fun c => Char.ofNat c.toNat) else hex v.render
         let m : String :=
           if !(utf8Valid buf) then "R"
           else match Sonic.De.deDoc ty buf with
             | .ok v _ => shw v
             | .err => "R"
             | .fuel => "FUEL"
         -- a byte buffer is not text: unpaired surrogate escapes inside it are outside the reference (and the model); such
         -- cases (well-formed once the escapes are read leniently) are compared with serde_json only
         if id == 26 && utf8Valid buf && (docTree false buf).isNone && (docTree true buf).isSome then "spec=NOTMODELLED model=NOTMODELLED" else
         (match decodeDoc ty buf with
          | some v => "spec=" ++ shw v
          | none => "spec=R") ++ " model=" ++ m
       | none => "spec=NOTMODELLED")
    | _, _ => "bad-args"
  | _ => "bad-args"

end Driver
