import Driver.Util
import Driver.C02
import SonicModel.Impl.Err
namespace Driver
open Sonic Sonic.Impl

/-- `c20 <hex> <off,off,...>` : line/column of each offset by the specification and by the model of
    `Position::from_index`, whether `Error::syntax` can build its snippet there, and the model's
    verdict for the LazyValue entry point -/
def c20 (args : List String) : String :=
  match args with
  | [h, offs] =>
    match unhex h with
    | none => "bad-hex"
    | some buf =>
      let os := if offs == "-" then [] else (offs.splitOn ",").filterMap String.toNat?
      let pos := os.map fun o =>
        let (l, c) := Spec.position buf o
        let (l2, c2) := positionFromIndex buf o
        let sn := if o ≤ buf.size then (if (snippet buf o).isSome then "s" else "SNIPPET-FAULT") else "x"
        s!"{o}:{l}:{c}:{l2}:{c2}:{sn}"
      let lz := lazyFrom true buf
      let lzs := match lz with
        | .reject c o => let (l, cc) := positionFromIndex buf o; s!"R:{c.name}:{o}:{l}:{cc}"
        | v => verdictStr v
      s!"m.lazy={lzs} pos={if pos.isEmpty then "-" else String.intercalate "," pos}"
  | _ => "bad-args"

end Driver
