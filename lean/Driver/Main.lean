import Driver.C02
import Driver.C20
import Driver.C09
import Driver.C10
import Driver.C05
import Driver.C03
import Driver.C07
import Driver.C08
import Driver.C18
import Driver.C16
import Driver.C15
import Driver.C06
import Driver.C13
import Driver.C11
import Driver.C04
import Driver.C19
import Driver.C17
open Driver

def handle (line : String) : String :=
  match line.trimAscii.toString.splitOn " " with
  | "c02" :: args => c02 args
  | "c20" :: args => c20 args
  | "c09" :: args => c09 args
  | "c05" :: args => c05 args
  | "c03" :: args => c03 args
  | "c07" :: args => c07 args
  | "c08v" :: args => c08v args
  | "c18v" :: args => c18v args
  | "c10" :: args => c10 args
  | "c12" :: args => c12 args
  | "c14" :: args => c10 args
  | "c14v" :: args => c14v args
  | "c16" :: args => c16 args
  | "c15" :: args => c15 args
  | "c06" :: args => c06 args
  | "c13" :: args => c13 args
  | "c11" :: args => c11 args
  | "c11s" :: args => c11s args
  | "c04" :: args => c04 args
  | "c17" :: args => c17 args
  | "c19" :: args => c19 args
  | "c19e" :: args => c19e args
  | "c19x" :: _ => "spec=-"
  | _ => "bad-op"

partial def loop (h : IO.FS.Stream) (out : IO.FS.Stream) : IO Unit := do
  let line ← h.getLine
  if line.isEmpty then return ()
  out.putStrLn (handle line)
  loop h out

def main : IO Unit := do
  let out ← IO.getStdout
  loop (← IO.getStdin) out
  out.flush
