import Driver.Util
import Driver.C03
import Driver.C05
import SonicModel.Spec.Grammar
namespace Driver
open Sonic Sonic.Spec

/-- `c08v <kind> <hex text>` : is the text one JSON number token, and what does it denote?
    kind f: f64 bits of the nearest double; g: f32 bits (nearest double narrowed once); i: the integer -/
def c08v (args : List String) : String :=
  match args with
  | [kind, h] =>
    match unhex h with
    | some buf =>
      let gram := buf.size > 0 && number buf 0 == some buf.size
      if !gram then "gram=R"
      else
        let d := decOf buf 0 buf.size
        match kind with
        | "f" => s!"gram=A val={match f64Bits d with | some b => hex16 b | none => "INF"}"
        | "g" => s!"gram=A val={match f64Bits d with | some b => (hex16 (f64ToF32Bits b)).drop 8 | none => "INF"}"
        | _ =>
          if d.isInt then s!"gram=A val={if d.neg && d.mant != 0 then "-" else ""}{d.mant}" else "gram=A val=NOTINT"
    | none => "bad-hex"
  | _ => "bad-args"

end Driver
