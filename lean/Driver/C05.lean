import Driver.Util
import SonicModel.Impl.Ser
import SonicModel.Spec.Tree
import SonicModel.Spec.Num
namespace Driver
open Sonic Sonic.Impl Sonic.Spec

/-- driver-side value: like `SV` but floats are given by their bits (their text is ryu's) -/
inductive DK where
  | str (s : List UInt8) | num (t : List UInt8) | bool (b : Bool) | flt (bits : Nat) | bad
  deriving Repr, Inhabited

inductive DV where
  | null | bool (b : Bool) | num (t : List UInt8) | f64 (bits : Nat) | f32 (bits : Nat)
  | str (s : List UInt8) | seq (xs : List DV) | map (ms : List (DK × DV)) | variant (n : List UInt8) (v : DV)
  deriving Repr, Inhabited

def hexNat (cs : List Char) : Nat := cs.foldl (fun a c => a * 16 + (hexDigit c).getD 0) 0

def takeHex (cs : List Char) : List Char × List Char :=
  (cs.takeWhile (fun c => (hexDigit c).isSome || c == '-'), cs.dropWhile (fun c => (hexDigit c).isSome || c == '-'))

def hexBytes (cs : List Char) : List UInt8 := ((unhex (String.ofList cs)).getD #[]).toList

mutual
partial def pVal (cs : List Char) : Option (DV × List Char) :=
  match cs with
  | 'n' :: r => some (.null, r)
  | 't' :: r => some (.bool true, r)
  | 'f' :: r => some (.bool false, r)
  | 'N' :: r => let (h, r') := takeHex r; some (.num (hexBytes h), r')
  | 'F' :: r => let (h, r') := takeHex r; some (.f64 (hexNat h), r')
  | 'G' :: r => let (h, r') := takeHex r; some (.f32 (hexNat h), r')
  | 'S' :: r => let (h, r') := takeHex r; some (.str (hexBytes h), r')
  | 'V' :: r =>
    let (h, r') := takeHex r
    match r' with
    | ':' :: r2 => (pVal r2).map fun (v, r3) => (.variant (hexBytes h) v, r3)
    | _ => none
  | '[' :: ']' :: r => some (.seq [], r)
  | '[' :: r => (pSeq r).map fun (xs, r') => (.seq xs, r')
  | '{' :: '}' :: r => some (.map [], r)
  | '{' :: r => (pMap r).map fun (ms, r') => (.map ms, r')
  | _ => none
partial def pSeq (cs : List Char) : Option (List DV × List Char) :=
  match pVal cs with
  | some (v, ',' :: r) => (pSeq r).map fun (xs, r') => (v :: xs, r')
  | some (v, ']' :: r) => some ([v], r)
  | _ => none
partial def pKey (cs : List Char) : Option (DK × List Char) :=
  match cs with
  | 'S' :: r => let (h, r') := takeHex r; some (.str (hexBytes h), r')
  | 'N' :: r => let (h, r') := takeHex r; some (.num (hexBytes h), r')
  | 'B' :: 't' :: r => some (.bool true, r)
  | 'B' :: 'f' :: r => some (.bool false, r)
  | 'F' :: r => let (h, r') := takeHex r; some (.flt (hexNat h), r')
  | 'X' :: r => some (.bad, r)
  | _ => none
partial def pMap (cs : List Char) : Option (List (DK × DV) × List Char) :=
  match pKey cs with
  | some (k, ':' :: r) =>
    match pVal r with
    | some (v, ',' :: r2) => (pMap r2).map fun (ms, r') => ((k, v) :: ms, r')
    | some (v, '}' :: r2) => some ([(k, v)], r2)
    | _ => none
  | _ => none
end

def numText (buf : Buf) (s e : Nat) : List UInt8 := (buf.extract s e).toList

/-- does the number literal `buf[s..e)` denote the f64 with these bits? -/
def isF64 (buf : Buf) (s e : Nat) (bits : Nat) : Bool :=
  f64Bits (decOf buf s e) == some bits

/-- f32: the text must be nearer to this f32 than to its neighbours; checked by reading the text
    as f64 and narrowing (round-to-nearest-even on the 29 dropped bits; ties and double rounding
    are avoided by ryu's shortest output being far from the midpoints) -/
def f64ToF32Bits (b : Nat) : Nat :=
  let sign : Nat := b / 2^63
  let ex : Nat := (b / 2^52) % 2048
  let man : Nat := b % 2^52
  if ex == 0 then sign * 2^31      -- f64 subnormal -> f32 zero
  else
    let e32 : Int := (ex : Int) - 1023 + 127
    if e32 ≥ 255 then sign * 2^31 + 255 * 2^23
    else if e32 ≥ 1 then
      let m := divRne (man) (2^29)
      let r := e32.toNat * 2^23 + m     -- carry into the exponent is the right thing
      sign * 2^31 + r
    else
      -- f32 subnormal: shift the 53-bit significand
      let sig := 2^52 + man
      let sh := (1 - e32).toNat + 29
      sign * 2^31 + divRne sig (2^sh)

/-- walk the value and the parsed output together: structure, strings, integers exact, floats by
    value; returns the `SV` with the float texts filled in from the output -/
partial def align (buf : Buf) : DV → Json → Option SV
  | .null, .null => some .null
  | .bool a, .bool b => if a == b then some (.bool a) else none
  | .num t, .num s e => if numText buf s e == t then some (.num t) else none
  | .f64 bits, .num s e => if isF64 buf s e bits then some (.num (numText buf s e)) else none
  | .f32 bits, .num s e =>
    match f64Bits (decOf buf s e) with
    | some b64 => if f64ToF32Bits b64 == bits then some (.num (numText buf s e)) else none
    | none => none
  | .str a, .str b => if a == b then some (.str a) else none
  | .seq xs, .arr ys =>
    if xs.length != ys.length then none
    else ((xs.zip ys).mapM fun (x, y) => align buf x y).map SV.seq
  | .map ms, .obj os =>
    if ms.length != os.length then none
    else ((ms.zip os).mapM fun ((k, v), (name, y)) =>
      (match k with
        | DK.str s => if s == name then some (SKey.str s) else none
        | DK.num t => if t == name then some (SKey.num t) else none
        | DK.bool b => if name == (if b then [116,114,117,101] else [102,97,108,115,101]) then some (SKey.bool b) else none
        | DK.flt bits =>
          -- the key text is a number literal denoting that float
          let kb : Buf := name.toArray
          if number kb 0 == some kb.size && f64Bits (decOf kb 0 kb.size) == some bits then some (SKey.num name) else none
        | DK.bad => none).bind fun sk => (align buf v y).map fun sv => (sk, sv)).map SV.map
  | .variant n v, .obj [(name, y)] => if n == name then (align buf v y).map (SV.variant n) else none
  | _, _ => none

partial def hasBadKey : DV → Bool
  | .seq xs => xs.any hasBadKey
  | .map ms => ms.any fun (k, v) => (match k with | DK.bad => true | _ => false) || hasBadKey v
  | .variant _ v => hasBadKey v
  | _ => false

/-- `c05 <sv> <compact> <pretty>` with outputs `O:<hex>` or `E:<category>` -/
def c05 (args : List String) : String :=
  match args with
  | [sv, comp, pret] =>
    match pVal sv.toList with
    | some (dv, []) =>
      let expectErr := hasBadKey dv
      let outOf (s : String) : Option Buf := if s.startsWith "O:" then unhex (s.drop 2).toString else none
      match outOf comp, outOf pret with
      | some cb, some pb =>
        if expectErr then "verdict=IMPL-ACCEPTS-BAD-KEY"
        else
          match docTree false cb with
          | none => s!"verdict=COMPACT-NOT-JSON utf8={ar (utf8Valid cb)}"
          | some tree =>
            match align cb dv tree with
            | none => "verdict=COMPACT-DENOTES-OTHER-VALUE"
            | some svv =>
              let mc := (events none 0 svv).map flatten
              let mp := (events (some [32, 32]) 0 svv).map flatten
              let c1 := mc == some cb.toList
              let p1 := mp == some pb.toList
              let u := utf8Valid cb && utf8Valid pb
              let ptree := (docTree false pb).isSome
              s!"verdict=ok compact={ar c1} pretty={ar p1} utf8={ar u} prettyjson={ar ptree}"
      | none, none => if expectErr then "verdict=ok-error" else "verdict=IMPL-REJECTS-SERIALIZABLE"
      | _, _ => "verdict=COMPACT-PRETTY-DISAGREE"
    | _ => "bad-sv"
  | _ => "bad-args"

end Driver
