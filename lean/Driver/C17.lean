import Driver.Util
import SonicModel.Impl.Simd
import SonicModel.Impl.Block
import SonicModel.Impl.StrSkip
import SonicModel.Impl.Space
namespace Driver
open Sonic Sonic.Simd

def hexNat17 (n : Nat) : String := String.ofList (Nat.toDigits 16 n)

def parseHexNat (s : String) : Option Nat :=
  s.toList.foldlM (fun acc c => (hexDigit c).map fun d => acc * 16 + d) 0

/-- `c17 px|ns|v ...`: the lane-wise model of the primitive -/
def c17 (args : List String) : String :=
  match args with
  | ["px", h] => match parseHexNat h with
    | some x => "r=" ++ hexNat17 (pxor (BitVec.ofNat 64 x)).toNat
    | none => "bad-args"
  | ["ns", h] => match unhex h with
    | some b => "r=" ++ hexNat17 (nonspaceBits b.toList)
    | none => "bad-args"
  | ["esc", hp, hb] => match parseHexNat hp, parseHexNat hb with
    | some p, some b =>
      let r := Sonic.Block.getEscaped (BitVec.ofNat 64 p) (BitVec.ofNat 64 b)
      s!"r={hexNat17 r.1.toNat} c={hexNat17 r.2.toNat}"
    | _, _ => "bad-args"
  | ["sb", hblock, hpi, hpe] => match unhex hblock, parseHexNat hpi, parseHexNat hpe with
    | some blk, some pi, some pe =>
      let b := blk.toList.take 64
      let r := Sonic.Block.stringBits (Sonic.Block.toMask (· == 92) b) (Sonic.Block.toMask (· == 34) b) (BitVec.ofNat 64 pi) (BitVec.ofNat 64 pe)
      s!"r={hexNat17 r.1.toNat} pi={hexNat17 r.2.1.toNat} pe={hexNat17 r.2.2.toNat}"
    | _, _, _ => "bad-args"
  | ["cb", ht, kind] => match unhex ht with
    | some t =>
      let (left, right) : UInt8 × UInt8 := if kind == "o" then (123, 125) else (91, 93)
      -- the block loop with the final state, as the harness drives it
      let rec go (fuel : Nat) (data : List UInt8) (s : Sonic.Block.St) (eaten : Nat) : String :=
        match fuel with
        | 0 => "fuel"
        | fuel + 1 =>
          let whole := data.length ≥ 64
          let blk := if whole then data.take 64 else data ++ List.replicate (64 - data.length) 0
          match Sonic.Block.containerBlock blk s left right with
          | (some n, s') => s!"r={eaten + n} l={s'.l} rr={s'.r}"
          | (none, s') =>
            if whole then go fuel (data.drop 64) s' (eaten + 64)
            else s!"r=none l={s'.l} rr={s'.r} pi={hexNat17 s'.prevIn.toNat} pe={hexNat17 s'.prevEsc.toNat}"
      go (t.size / 64 + 2) t.toList Sonic.Block.St.init 0
    | none => "bad-args"
  | ["ss"] => match Sonic.StrSkip.skipString 1 [] 0#32 0 false with
    | some (n, e) => s!"r={n} esc={if e then 1 else 0}"
    | none => "r=none"
  | ["ss", ht] => match unhex ht with
    | some t =>
      match Sonic.StrSkip.skipString (t.size / 32 + 1) t.toList 0#32 0 false with
      | some (n, e) => s!"r={n} esc={if e then 1 else 0}"
      | none => "r=none"
    | none => "bad-args"
  | ["sp", hd, ops] =>
    let data : Option Buf := unhex hd
    match data with
    | some buf =>
      let step (acc : Sonic.Space.St × List String) (op : Char) : Sonic.Space.St × List String :=
        let (st, out) := acc
        let (r, st') : Option UInt8 × Sonic.Space.St :=
          if op == 's' then Sonic.Space.skipSpace buf st
          else if op == 'p' then Sonic.Space.skipSpacePeek buf st
          else if '1' ≤ op && op ≤ '9' then (none, Sonic.Space.eat buf st (op.toNat - 48))
          else (none, st)
        let b := match r with | some c => toString c.toNat | none => "-"
        (st', out ++ [s!"{b}:{st'.idx}:{hexNat17 st'.bits}:{st'.start}"])
      let (_, out) := ops.toList.foldl step (Sonic.Space.init, [])
      "t=" ++ ";".intercalate out
    | none => "bad-args"
  | ["bm", w, hx, hy, n] => match w.toNat?, parseHexNat hx, parseHexNat hy, n.toNat? with
    | some w, some x, some y, some n =>
      -- the lane-wise meaning: lowest set lane; `x` has a set lane below the lowest set lane of `y` (the masks of a block are
      -- disjoint); no lane set; the `n` highest lanes cleared (all of them for `n = LEN`)
      let low (v : Nat) : Nat := ((List.range w).find? (fun i => v.testBit i)).getD w
      let fo := if x == 0 then "-" else toString (low x)
      let before := if low x < low y then 1 else 0
      let chb := x % 2 ^ (w - n)
      s!"fo={fo} before={before} zero={if x == 0 then 1 else 0} chb={hexNat17 chb}"
    | _, _, _, _ => "bad-args"
  | ["d2i", a, need] => match unhex a, need.toNat? with
    | some a, some need =>
      let sc := str2intScalar a.toList need
      match str2intSimd (a.toList.take 16) need with
      | some (r, n) => if (r, n) = sc then s!"r={r} n={n}" else s!"MODEL-SPLIT simd r={r} n={n} scalar r={sc.1} n={sc.2}"
      | none => "unreachable"
    | _, _ => "bad-args"
  | ["v", n, a, c] => match n.toNat?, unhex a, unhex c with
    | some n, some a, some c =>
      let v := a.toList.take n
      let c := c[0]!
      s!"eq={hexNat17 (eqMask v c)} le={hexNat17 (leMaskU v c)} ieq={hexNat17 (eqMask v c)} ile={hexNat17 (leMaskI v c)} igt={hexNat17 (gtMaskI v c)} store=A"
    | _, _, _ => "bad-args"
  | _ => "bad-args"

end Driver
