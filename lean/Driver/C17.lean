import Driver.Util
import SonicModel.Impl.Simd
namespace Driver
open Sonic Sonic.Simd

def hexNat17 (n : Nat) : String := String.ofList (Nat.toDigits 16 n)

def parseHexNat (s : String) : Option Nat :=
  s.toList.foldlM (fun acc c => (hexDigit c).map fun d => acc * 16 + d) 0

/-- `c17 px|ns|v ...`: the lane-wise model of the primitive -/
def c17 (args : List String) : String :=
  match args with
  | ["px", h] => match parseHexNat h with
    | some x => "r=" ++ hexNat17 (pxor (BitVec.ofNat 64 x)).toNat
    | none => "bad-args"
  | ["ns", h] => match unhex h with
    | some b => "r=" ++ hexNat17 (nonspaceBits b.toList)
    | none => "bad-args"
  | ["d2i", a, need] => match unhex a, need.toNat? with
    | some a, some need =>
      let sc := str2intScalar a.toList need
      match str2intSimd (a.toList.take 16) need with
      | some (r, n) => if (r, n) = sc then s!"r={r} n={n}" else s!"MODEL-SPLIT simd r={r} n={n} scalar r={sc.1} n={sc.2}"
      | none => "unreachable"
    | _, _ => "bad-args"
  | ["v", n, a, c] => match n.toNat?, unhex a, unhex c with
    | some n, some a, some c =>
      let v := a.toList.take n
      let c := c[0]!
      s!"eq={hexNat17 (eqMask v c)} le={hexNat17 (leMaskU v c)} ieq={hexNat17 (eqMask v c)} ile={hexNat17 (leMaskI v c)} igt={hexNat17 (gtMaskI v c)} store=A"
    | _, _, _ => "bad-args"
  | _ => "bad-args"

end Driver
