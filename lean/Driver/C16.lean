import Driver.Util
import SonicModel.Spec.Tree
import SonicModel.Impl.Rc
namespace Driver
open Sonic Sonic.Spec Sonic.Rc

/-- `raw` = raw-number mode: a number is an arena node (like a string), not a static one -/
partial def toT (raw : Bool) : Json → T
  | .null => .leaf
  | .bool _ => .leaf
  | .num _ _ => if raw then .str else .leaf
  | .str _ => .str
  | .arr [] => .emptyArr
  | .arr xs => .arr (xs.map (toT raw))
  | .obj [] => .emptyObj
  | .obj ms => .obj (ms.map fun (k, v) => (k, toT raw v))

def docT (raw : Bool) (h : String) : Option T :=
  match unhex h with
  | some buf => (docTree false buf).map (toT raw)
  | none => none

def keyStr (k : List UInt8) : String := String.ofList (k.map fun b => Char.ofNat b.toNat)

/-- the representation dump of `Value::verif_shape` -/
partial def shape (s : St) : Item → String
  | .stat _ => "S"
  | .fstr => "F"
  | .root a _ => s!"R(a{a}#{s.arena a})"
  | .own c =>
    if s.cobj c then
      "M#" ++ toString (s.ccnt c) ++ "{" ++ String.join ((s.citems c).map fun (k, it) => keyStr k ++ ":" ++ shape s it) ++ "}"
    else "O#" ++ toString (s.ccnt c) ++ "[" ++ String.join ((s.citems c).map fun (_, it) => shape s it) ++ "]"

def parseOp (raw : Bool) (w : String) : Option Op :=
  match w.splitOn ":" with
  | ["P", h] => (docT raw h).map .parse
  | ["C", i] => i.toNat?.map .clone
  | ["D", i] => i.toNat?.map .drop
  | ["T", i] => i.toNat?.map .take
  | ["H", i, k, key] => match i.toNat?, k.toNat?, unhex key with
    | some i, some k, some key => some (.child i k key.toList)
    | _, _, _ => none
  | ["M", i] => i.toNat?.map .toMut
  | ["U", i, j] => match i.toNat?, j.toNat? with
    | some i, some j => some (.push i j)
    | _, _ => none
  | ["I", i, j, key] => match i.toNat?, j.toNat?, unhex key with
    | some i, some j, some key => some (.insert i j key.toList)
    | _, _, _ => none
  | ["O", j] => j.toNat?.map .pop
  | ["R", j, key] => match j.toNat?, unhex key with
    | some j, some key => some (.remove j key.toList)
    | _, _ => none
  | ["S", _] => some .dopen
  | ["V", h, f] => (docT raw h).map fun t => .dval t (f == "1")
  | ["E"] => some .dclose
  | ["F", f] => some (.dfail (f == "1"))
  | ["X", _] => some (.dfail true)     -- a rejected whole-input parse: its arena is created and released by the step
  | _ => none

def sortNat (l : List Nat) : List Nat := (l.toArray.qsort (· < ·)).toList

/-- `c16 <op>;<op>;...` → per step: the shapes of all live values, and the arenas released by the step -/
def c16 (args : List String) : String :=
  match args with
  | [mode, prog] =>
    let raw := mode == "r"
    let rec go (s : St) (ws : List String) (acc : List String) : List String :=
      match ws with
      | [] => acc.reverse
      | w :: rest =>
        match parseOp raw w with
        | none => (s!"bad-op({w})" :: acc).reverse
        | some op =>
          match step s op with
          | none => ("reject" :: acc).reverse
          | some s' =>
            let nfreed := s'.freedLog.length - s.freedLog.length
            let freed := sortNat (s'.freedLog.take nfreed)
            let line := String.intercalate "/" (s'.live.map (shape s')) ++ "|" ++
              String.intercalate "," (freed.map toString) ++ (if s'.pending.isEmpty then "" else "|fuel")
            go s' rest (line :: acc)
    String.intercalate ";" (go init (prog.splitOn ";") [])
  | _ => "bad-args"

end Driver
