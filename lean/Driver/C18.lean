import Driver.Util
import SonicModel.Impl.Cache
namespace Driver
open Sonic Sonic.Cache

structure Th where
  prog : List Char
  localCell : Option Bool := none   -- own clone exists?  some true = its cell is non-null, some false = null
  xphase : Nat := 0                 -- inside X on a null clone: 0 = before load, 1 = before CAS
  deriving Inhabited

/-- kind of the next hook point of thread `t` (after skipping operations without hook points);
    `none` = the thread has finished -/
partial def normalize (arc : Bool) (s : St) (ths : Array Th) (t : Nat) : St × Array Th :=
  let th := ths[t]!
  match th.prog with
  | [] =>
    -- implicit drop of a remaining clone at thread end (Arc variant: one load)
    (s, ths)
  | op :: rest =>
    if op == 'R' then
      match s.pc t with
      | .loaded => normalize arc (step true s t (.read false)) ths t        -- decode + allocate: no hook point
      | .done _ => normalize arc (step true s t .reset) (ths.set! t { th with prog := rest }) t
      | _ => (s, ths)
    -- (a clone of a loaded owned-lazy value keeps its raw text and a private copy of the cache, /repo 0f7354f:
    --  reading it is one load of its own cell, see `expectedKind` / `advance`)
    else if !arc && op == 'D' then
      normalize arc s (ths.set! t { th with prog := rest, localCell := none }) t  -- Box drop uses get_mut
    else if (op == 'X' || op == 'D') && th.localCell == none then
      normalize arc s (ths.set! t { th with prog := rest }) t                -- no clone: nothing happens
    else (s, ths)

def expectedKind (arc : Bool) (s : St) (th : Th) (t : Nat) : Option Char :=
  match th.prog with
  | [] => if arc && th.localCell.isSome then some 'L' else none
  | op :: _ =>
    if op == 'R' then (match s.pc t with | .idle => some 'L' | .built _ => some 'S' | _ => none)
    else if op == 'C' then some 'L'
    else if op == 'X' then (if th.localCell == some true then some 'L' else if th.xphase == 0 then some 'L' else some 'S')
    else if op == 'D' then some 'L'
    else none

/-- one scheduled hook point of thread `t` -/
def advance (arc : Bool) (s : St) (ths : Array Th) (t : Nat) : St × Array Th :=
  let th := ths[t]!
  match th.prog with
  | [] => (if arc then step true s t .dropClone else s, ths.set! t { th with localCell := none })
  | op :: rest =>
    if op == 'R' then (step true s t (.read false), ths)
    else if op == 'C' then
      let nonnull := s.cell.isSome
      if arc then (step true s t .clone, ths.set! t { th with prog := rest, localCell := some nonnull })
      else if th.xphase > 0 then
        -- deep copy of the parsed tree: one (Relaxed) load per child that is itself a lazy raw value
        (s, if th.xphase ≥ 2 then ths.set! t { th with prog := rest, xphase := 0, localCell := some true }
            else ths.set! t { th with xphase := th.xphase + 1 })
      else if nonnull then (s, ths.set! t { th with xphase := 1 })
      else (s, ths.set! t { th with prog := rest, localCell := some false })
    else if op == 'X' then
      if th.localCell == some true then (s, ths.set! t { th with prog := rest })
      else if th.xphase == 0 then (s, ths.set! t { th with xphase := 1 })
      else (s, ths.set! t { th with prog := rest, xphase := 0, localCell := some true })   -- the clone now owns a private decoding
    else -- D
      ((if arc then step true s t .dropClone else s), ths.set! t { th with prog := rest, localCell := none })

/-- `c18v <kind> <progs> <sched> <kinds>` -/
def c18v (args : List String) : String :=
  match args with
  | [kind, progs, sched, kinds] =>
    let arc := kind == "l"
    let ths0 : Array Th := ((progs.splitOn "/").map fun p => ({ prog := p.toList } : Th)).toArray
    let steps := (if sched == "-" then [] else sched.splitOn ",").map fun x => ((x.replace "!" "").toNat?.getD 0, x.endsWith "!")
    let ks := (if kinds == "-" then [] else kinds.splitOn ",").map fun k => k.toList.headD 'L'
    let rec go (s : St) (ths : Array Th) (st : List ((Nat × Bool) × Char)) (n : Nat) : String × St × Array Th :=
      match st with
      | [] => ("ok", s, ths)
      | ((t, _), k) :: rest =>
        let (s1, ths1) := normalize arc s ths t
        match expectedKind arc s1 ths1[t]! t with
        | none => (s!"model-thread-{t}-has-no-step-at-{n}", s1, ths1)
        | some ek =>
          let kk := if k == 'W' then 'S' else k
          if ek != kk then (s!"kind-mismatch-at-{n}:model-{ek}-impl-{k}", s1, ths1)
          else
            let (s2, ths2) := advance arc s1 ths1 t
            go s2 ths2 rest (n+1)
    let (verdict, sF, thsF) := go init ths0 (steps.zip ks) 0
    -- everything must have finished
    let fin := (List.range thsF.size).all fun t =>
      let (s', th') := normalize arc sF thsF t
      (expectedKind arc s' th'[t]! t).isNone
    let crash := (List.range thsF.size).any fun t => sF.pc t == .crashed
    let refsOk : Bool := match sF.cell with
      | some p => sF.refs p == 1 + (sF.holders p).length && (!arc || (sF.holders p).isEmpty || true)
      | none => true
    let readers := (List.range thsF.size).filterMap fun t => match sF.pc t with | .done r => some r | _ => none
    s!"valid={verdict} finished={ar fin} crash={ar crash} refs={ar refsOk} cell={match sF.cell with | some p => toString p | none => "none"} objs={sF.next}"
  | _ => "bad-args"

end Driver
