import Driver.C10
import Driver.C03
import SonicModel.Impl.Many
import SonicModel.Spec.Sort
namespace Driver
open Sonic Sonic.Spec Sonic.Many

/-- the step at which a path stops resolving: a missing key, or anything else -/
def missKind (buf : Buf) (path : List Step) : String :=
  let rec go (n : Nat) (fuel : Nat) : String :=
    match fuel with
    | 0 => "X"
    | fuel + 1 =>
      match lookup buf (path.take (n + 1)) with
      | .found _ _ => go (n + 1) fuel
      | .missing => (match path[n]? with | some (.key _) => "MK" | _ => "MI")
      | .wrongKind => "W"
      | .malformed => "X"
  go 0 (path.length + 1)

/-- `c11 <hexdoc> <path|path|...>` -/
def c11 (args : List String) : String :=
  match args with
  | [h, ps] =>
    match unhex h with
    | some buf =>
      let rs := (ps.splitOn "|").map fun p =>
        match parsePath p with
        | some path =>
          (match lookup buf path with
           | .found s e => "A:" ++ hex (buf.extract s e).toList
           | .missing => missKind buf path
           | .wrongKind => "W"
           | .malformed => "X")
        | none => "bad-path"
      let wf := (Spec.document true buf).isSome && Spec.utf8Valid buf
      -- the walker model on the specification's tree, and the single-path lookups on the same tree
      let paths := (ps.splitOn "|").filterMap parsePath
      let (walkS, lookS) : String × String := match docTree false buf with
        | some doc =>
          let shown (o : Option Json) : String := match o with
            | some v => "A:" ++ dumpJson buf true v
            | none => "N"
          ((match getMany paths doc with
            | some out => String.intercalate ";" (out.map shown)
            | none => "Err"),
           String.intercalate ";" (paths.map fun p => shown (lookJ doc p)))
        | none => ("notree", "notree")
      -- the text-level lookup of each path, dumped the same way (ties `lookJ` to `Spec.lookup`)
      let specd := String.intercalate ";" ((ps.splitOn "|").map fun p =>
        match parsePath p with
        | some path => (match lookup buf path with
          | .found s _ => (match tree false (fuelFor buf) buf s with
            | some (v, _) => "A:" ++ dumpJson buf true v
            | none => "X")
          | _ => "N")
        | none => "bad-path")
      s!"spec={String.intercalate "," rs} wf={ar wf} walk={walkS} look={lookS} specd={specd}"
    | none => "bad-hex"
  | _ => "bad-args"

/-- `c11s <hexschema> <hexdoc>`: the specification of get_by_schema on the two trees (dump with sorted keys) -/
def c11s (args : List String) : String :=
  match args with
  | [hs, hd] =>
    match unhex hs, unhex hd with
    | some sb, some db =>
      -- both texts in one buffer, so that number spans of both trees refer to the same bytes
      let buf : Buf := sb ++ #[32] ++ db
      match tree false (fuelFor buf) buf (skipWs buf 0) with
      | some (ts, e1) =>
        if (docTree false sb).isNone then "spec=BADSCHEMA" else
        -- the schema must be an object (documented error otherwise)
        if (match ts with | .obj _ => false | _ => true) then "spec=NONOBJ" else
        (match tree false (fuelFor buf) buf (skipWs buf e1) with
         | some (td, e2) =>
           if skipWs buf e2 != buf.size || !(utf8Valid db) || hasInf buf td then "spec=R"
           else "spec=" ++ dumpJson buf false (sortKeys (fill ts td))
         | none => "spec=R")
      | none => "spec=BADSCHEMA"
    | _, _ => "bad-hex"
  | _ => "bad-args"

end Driver
