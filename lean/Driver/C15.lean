import Driver.Util
import SonicModel.Spec.Tree
import SonicModel.Impl.Mut
namespace Driver
open Sonic Sonic.Spec Sonic.Mut

def spanInt (buf : Buf) (s e : Nat) : Int :=
  let bs := (buf.extract s e).toList
  match bs with
  | 45 :: ds => - (Int.ofNat (ds.foldl (fun acc b => acc * 10 + (b.toNat - 48)) 0))
  | ds => Int.ofNat (ds.foldl (fun acc b => acc * 10 + (b.toNat - 48)) 0)

/-- a freshly parsed document: every container is an arena node -/
partial def toDV (buf : Buf) : Json → DV
  | .null => .null
  | .bool b => .bool b
  | .num s e => .num (spanInt buf s e)
  | .str s => .str s
  | .arr xs => .arrNode (xs.map (toDV buf))
  | .obj ms => .objNode (ms.map fun (k, v) => (k, toDV buf v))

/-- a value built in memory (`to_value`): every container is owned from the start -/
partial def toDVMut (buf : Buf) : Json → DV
  | .null => .null
  | .bool b => .bool b
  | .num s e => .num (spanInt buf s e)
  | .str s => .str s
  | .arr xs => .arrMut (xs.map (toDVMut buf))
  | .obj ms => .objMut (ms.map fun (k, v) => (k, toDVMut buf v))

def docDVMut (h : String) : Option DV :=
  match unhex h with
  | some buf => (docTree false buf).map (toDVMut buf)
  | none => none

def docDV (h : String) : Option DV :=
  match unhex h with
  | some buf => (docTree false buf).map (toDV buf)
  | none => none

def sortKV {α} (l : List (Key × α)) : List (Key × α) :=
  (l.toArray.qsort (fun a b => decide (a.1 < b.1))).toList

partial def dumpJ : J → String
  | .null => "n"
  | .bool b => if b then "t" else "f"
  | .num n => s!"I{n}"
  | .str s => "S" ++ hex s
  | .arr xs => "[" ++ String.intercalate "," (xs.map dumpJ) ++ "]"
  | .obj ms => "{" ++ String.intercalate "," ((sortKV ms).map fun (k, v) => "S" ++ hex k ++ ":" ++ dumpJ v) ++ "}"

/-- representation skeleton: `A` / `B` = array / object still in its arena (or static empty),
    `O[..]` / `M{..}` = owned, `.` = scalar -/
partial def skel : DV → String
  | .arrNode _ => "A"
  | .objNode _ => "B"
  | .arrMut xs => "O[" ++ String.join (xs.map skel) ++ "]"
  | .objMut ms => "M{" ++ String.join ((sortKV ms).map fun (k, v) => hex k ++ ":" ++ skel v) ++ "}"
  | _ => "."

def parsePath15 (s : String) : Option (List Idx) :=
  if s == "-" then some [] else
  (s.splitOn "/").mapM fun seg =>
    match seg.toList with
    | 'k' :: rest => (unhex (String.ofList rest)).map fun b => Idx.key b.toList
    | 'i' :: rest => (String.ofList rest).toNat?.map Idx.idx
    | _ => none

/-- a value argument: `v<hexdoc>` = freshly parsed, `s<j>.<path>` = clone of a part of slot `j` -/
def parseArg (s : String) : Option Arg :=
  match s.toList with
  | 'v' :: rest => (docDV (String.ofList rest)).map .lit
  | 's' :: rest =>
    match (String.ofList rest).splitOn "." with
    | [j, p] => match j.toNat?, parsePath15 p with
      | some j, some p => some (.part j p)
      | _, _ => none
    | _ => none
  | _ => none

def showOut (o : Out DV) : String :=
  match o with
  | .done => "done"
  | .val v => "val:" ++ dumpJ (abs v)
  | .vals vs => "vals:[" ++ String.intercalate "," (vs.map fun v => dumpJ (abs v)) ++ "]"
  | .none => "none"
  | .missing => "missing"
  | .panic => "panic"

def showOutJ (o : Out J) : String :=
  match o with
  | .done => "done"
  | .val v => "val:" ++ dumpJ v
  | .vals vs => "vals:[" ++ String.intercalate "," (vs.map dumpJ) ++ "]"
  | .none => "none"
  | .missing => "missing"
  | .panic => "panic"

def parseMOp (name : String) (args : List String) : Option (MOp Arg) :=
  match name, args with
  | "push", [x] => (parseArg x).map .push
  | "pop", [] => some .pop
  | "insat", [n, x] => match n.toNat?, parseArg x with
    | some n, some x => some (.insertAt n x)
    | _, _ => none
  | "remat", [n] => n.toNat?.map .removeAt
  | "swaprem", [n] => n.toNat?.map .swapRemove
  | "trunc", [n] => n.toNat?.map .truncate
  | "clear", [] => some .clear
  | "oins", [k, x] => match unhex k, parseArg x with
    | some k, some x => some (.objInsert k.toList x)
    | _, _ => none
  | "orem", [k] => (unhex k).map fun k => .objRemove k.toList
  | "take", [] => some .take
  | "assign", [x] => (parseArg x).map .assign
  | "setk", [k, x] => match unhex k, parseArg x with
    | some k, some x => some (.setKey k.toList x)
    | _, _ => none
  | "seti", [n, x] => match n.toNat?, parseArg x with
    | some n, some x => some (.setIdx n x)
    | _, _ => none
  | "orins", [k, x] => match unhex k, parseArg x with
    | some k, some x => some (.orInsert k.toList x)
    | _, _ => none
  | "orinsw", [k, x] => match unhex k, parseArg x with
    | some k, some x => some (.orInsert k.toList x)
    | _, _ => none
  | "orinswk", [k, x] => match unhex k, parseArg x with
    | some k, some x => some (.orInsert k.toList x)
    | _, _ => none
  | "splitoff", [n] => n.toNat?.map .splitOff
  | "drain", [a, b] => match a.toNat?, b.toNat? with
    | some a, some b => some (.drain a b)
    | _, _ => none
  | "extw", [a, b] => match a.toNat?, b.toNat? with
    | some a, some b => some (.extendWithin a b)
    | _, _ => none
  | "resize", [n, x] => match n.toNat?, parseArg x with
    | some n, some x => some (.resize n x)
    | _, _ => none
  | "retnn", [] => some .retainNonNull
  | "append", [x] => (parseArg x).map .append
  | _, _ => none

def parseHOp (w : String) : Option HOp :=
  match w.splitOn ":" with
  | ["P", h] => (docDV h).map .new
  | ["B", h] => (docDVMut h).map .new
  | ["C", i] => i.toNat?.map .clone
  | ["D", i] => i.toNat?.map .drop
  | ["G", i, path] => match i.toNat?, parsePath15 path with
    | some i, some path => some (.read i path)
    | _, _ => none
  | "X" :: i :: path :: name :: margs => match i.toNat?, parsePath15 path, parseMOp name margs with
    | some i, some path, some op => some (.mutate i path op)
    | _, _, _ => none
  | _ => none

def showStep (w : String) (o : String) : String :=
  if w.startsWith "P" || w.startsWith "B" || w.startsWith "C" || w.startsWith "D" then "ok" else o

/-- the history on the representation model (`DV.hstep`): per step `result|dumps|skeletons` -/
def runDV (prog : String) : String :=
  let rec go (slots : List DV) (ws : List String) (acc : List String) : List String :=
    match ws with
    | [] => acc.reverse
    | w :: rest =>
      match (parseHOp w).bind (DV.hstep slots) with
      | none => (s!"bad-op({w})" :: acc).reverse
      | some (slots', o) =>
        let line := showStep w (showOut o) ++ "|" ++ String.intercalate "," (slots'.map fun v => dumpJ (abs v)) ++ "|" ++
          String.intercalate "," (slots'.map skel)
        go slots' rest (line :: acc)
  String.intercalate ";" (go [] (prog.splitOn ";") [])

/-- the same history on the reference model of plain vectors and maps (`J.hstep`): per step `result|dumps` -/
def runJ (prog : String) : String :=
  let rec go (slots : List J) (ws : List String) (acc : List String) : List String :=
    match ws with
    | [] => acc.reverse
    | w :: rest =>
      match (parseHOp w).bind (J.hstep slots) with
      | none => (s!"bad-op({w})" :: acc).reverse
      | some (slots', o) =>
        let line := showStep w (showOutJ o) ++ "|" ++ String.intercalate "," (slots'.map dumpJ)
        go slots' rest (line :: acc)
  String.intercalate ";" (go [] (prog.splitOn ";") [])

/-- `c15 <op>;<op>;...` -/
def c15 (args : List String) : String :=
  match args with
  | [prog] => "model=" ++ runDV prog ++ " spec=" ++ runJ prog
  | _ => "bad-args"

end Driver
