import Driver.Util
import SonicModel.Spec.Tree
import SonicModel.Spec.Num
import SonicModel.Impl.DomParse
namespace Driver
open Sonic Sonic.Spec

def hex16 (n : Nat) : String :=
  let ds := (List.range 16).reverse.map fun k => hexNib ((n / 16 ^ k) % 16)
  String.ofList ds

/-- canonical dump; `raw` = raw-number mode (numbers by literal) -/
partial def dumpJson (buf : Buf) (raw : Bool) : Json → String
  | .null => "n"
  | .bool b => if b then "t" else "f"
  | .num s e =>
    if raw then "R" ++ hex (buf.extract s e).toList
    else match classify (decOf buf s e) with
      | .u64 v => s!"U{v}"
      | .i64 v => s!"I{v}"
      | .f64 b => "F" ++ hex16 b
      | .infinite => "INF"
  | .str s => "S" ++ hex s
  | .arr xs => "[" ++ String.intercalate "," (xs.map (dumpJson buf raw)) ++ "]"
  | .obj ms => "{" ++ String.intercalate "," (ms.map fun (k, v) => "S" ++ hex k ++ ":" ++ dumpJson buf raw v) ++ "}"

partial def hasInf (buf : Buf) : Json → Bool
  | .num s e => (classify (decOf buf s e)) == .infinite
  | .arr xs => xs.any (hasInf buf)
  | .obj ms => ms.any fun (_, v) => hasInf buf v
  | _ => false

/-- `c03 <hexdoc>` -/
def c03 (args : List String) : String :=
  match args with
  | [h] =>
    match unhex h with
    | some buf =>
      let u := utf8Valid buf
      let strict : String := match docTree false buf with
        | some j => if u && !(hasInf buf j) then dumpJson buf false j else "R"
        | none => "R"
      let raw : String := match docTree false buf with
        | some j => if u then dumpJson buf true j else "R"
        | none => "R"
      -- lossy: invalid UTF-8 is repaired first, surrogate errors become U+FFFD
      let lb : Buf := (utf8Lossy buf 0).toArray
      let lossy : String := match docTree true lb with
        | some j => if !(hasInf lb j) then dumpJson lb false j else "R"
        | none => "R"
      -- `Deserializer::deserialize` (no trailing check): the first value only; the text up to its
      -- end must be valid UTF-8
      let pre (b : Buf) (lossyMode rawMode : Bool) : String :=
        match tree lossyMode (fuelFor b) b (skipWs b 0) with
        | some (j, e) =>
          if (lossyMode || utf8FirstInvalid b 0 ≥ e) && (rawMode || !(hasInf b j)) then dumpJson b rawMode j else "R"
        | none => "R"
      -- the model of the decoding parser (`parse_value` / `parse_array` / `parse_object`), whole input
      let mdom : String := match Sonic.DomP.document buf with
        | some j => if u then dumpJson buf false j else "R"
        | none => "R"
      s!"spec={strict} spec.raw={raw} spec.lossy={lossy} spec.pre={pre buf false false} spec.raw.pre={pre buf false true} spec.lossy.pre={pre lb true false} utf8={ar u} m.dom={mdom}"
    | none => "bad-hex"
  | _ => "bad-args"

end Driver
