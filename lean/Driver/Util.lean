import SonicModel.Basic
namespace Driver
open Sonic

def hexDigit (c : Char) : Option Nat :=
  if '0' ≤ c && c ≤ '9' then some (c.toNat - 48)
  else if 'a' ≤ c && c ≤ 'f' then some (c.toNat - 87)
  else if 'A' ≤ c && c ≤ 'F' then some (c.toNat - 55)
  else none

/-- "-" denotes the empty byte string -/
def unhex (s : String) : Option Buf :=
  if s == "-" then some #[] else
  let cs := s.toList
  let rec go : List Char → Array UInt8 → Option (Array UInt8)
    | [], acc => some acc
    | [_], _ => none
    | a :: b :: rest, acc =>
      match hexDigit a, hexDigit b with
      | some x, some y => go rest (acc.push (UInt8.ofNat (x * 16 + y)))
      | _, _ => none
  go cs #[]

def hexNib (n : Nat) : Char := if n < 10 then Char.ofNat (48 + n) else Char.ofNat (87 + n)

def hex (bs : List UInt8) : String :=
  if bs.isEmpty then "-" else
  String.ofList (bs.foldr (fun b acc => hexNib (b.toNat / 16) :: hexNib (b.toNat % 16) :: acc) [])

def ar (b : Bool) : String := if b then "A" else "R"

end Driver
