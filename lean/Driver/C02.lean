import Driver.Util
import SonicModel.Impl.Entry
import SonicModel.Impl.DomParse
import SonicModel.Impl.NumSkip
import SonicModel.Impl.DomPadded
namespace Driver
open Sonic Sonic.Impl

def verdictStr : Verdict → String
  | .accept s e => s!"A:{s}:{e}"
  | .reject c o => s!"R:{c.name}:{o}"
  | .fuel => "FUEL"

/-- `acc <hex>` : accept/reject of every modelled entry point + the specification's verdicts -/
def c02 (args : List String) : String :=
  match args with
  | [h] =>
    match unhex h with
    | none => "bad-hex"
    | some buf =>
      let u := Spec.utf8Valid buf
      let g := (Spec.document false buf).isSome
      let s := (Spec.document true buf).isSome
      let lz := lazyFrom true buf
      -- stream style (`Deserializer::deserialize`, no trailing check): a strict value at the
      -- first non-blank byte whose text is valid UTF-8
      let pre := match Spec.value true (Spec.fuelFor buf) buf (skipWs buf 0) with
        | .ok e => Spec.utf8FirstInvalid buf 0 ≥ e
        | _ => false
      -- … and the validate-and-skip strength of the same
      let spre := match Spec.value false (Spec.fuelFor buf) buf (skipWs buf 0) with
        | .ok e => Spec.utf8FirstInvalid buf 0 ≥ e
        | _ => false
      let md := (Sonic.DomP.document buf).isSome
      let mdp := (Sonic.DomP.fromSlicePadded buf).isSome    -- the same parser on the padded copy, `n > len`, trailing check
      -- a leading number through the 32-lane model of do_skip_number (Impl/NumSkip.lean) and through the scalar one
      let w := skipWs buf 0
      let ires (r : IRes) : String := match r with
        | .ok e => s!"ok:{w}:{e}"
        | .err c o => s!"err:{c.name}:{o}"
        | .fuel => "FUEL"
      let nb : String := match buf[w]? with
        | some c => if c == 45 || isDigit c then
            s!" m.numB={ires (doSkipNumberB true buf c (w + 1))} m.numS={ires (doSkipNumber buf c (w + 1))}" else ""
        | none => ""
      s!"m.lazy={verdictStr lz} spec.skip={ar (u && g)} spec.full={ar (u && s)} spec.prefix={ar pre} spec.sprefix={ar spre} utf8={ar u} m.dom={ar (u && md)} m.domp={ar (u && mdp)}{nb}"
  | _ => "bad-args"

end Driver
