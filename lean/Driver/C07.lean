import Driver.Util
import Driver.C03
import SonicModel.Impl.Num
import SonicModel.Spec.Grammar
namespace Driver
open Sonic Sonic.Impl Sonic.Spec

/-- exact comparison `a·10^ea ≤ b·10^eb` -/
def leDec (a : Nat) (ea : Int) (b : Nat) (eb : Int) : Bool :=
  let m := min ea eb
  a * 10 ^ (ea - m).toNat ≤ b * 10 ^ (eb - m).toNat

def intRange (name : String) : Int × Int :=
  match name with
  | "i8" => (-128, 127) | "u8" => (0, 255) | "i16" => (-32768, 32767) | "u16" => (0, 65535)
  | "i32" => (-2147483648, 2147483647) | "u32" => (0, 4294967295)
  | "i64" => (-9223372036854775808, 9223372036854775807) | "u64" => (0, 18446744073709551615)
  | "i128" => (-170141183460469231731687303715884105728, 170141183460469231731687303715884105727)
  | _ => (0, 340282366920938463463374607431768211455)

/-- `c07 <hex literal>` -/
def c07 (args : List String) : String :=
  match args with
  | [h] =>
    match unhex h with
    | some buf =>
      let gram := number buf 0 == some buf.size && buf.size > 0
      if !gram then "spec.gram=R"
      else
        let d := decOf buf 0 buf.size
        let cls := classify d
        let clsS := match cls with
          | .u64 v => s!"U{v}" | .i64 v => s!"I{v}" | .f64 b => "F" ++ hex16 b | .infinite => "R"
        let f64S := match f64Bits d with | some b => hex16 b | none => "R"
        -- integer targets: exactly the integer literals in range (`-0` is a float literal, as for serde_json)
        let ival : Option Int := if d.isInt && !(d.neg && d.mant == 0) then some (if d.neg then -(d.mant : Int) else d.mant) else none
        let widths := ["i8","u8","i16","u16","i32","u32","i64","u64","i128","u128"]
        let ints := widths.map fun w =>
          let (lo, hi) := intRange w
          match ival with
          | some v => if lo ≤ v && v ≤ hi then s!"spec.{w}={v}" else s!"spec.{w}=R"
          | none => s!"spec.{w}=R"
        -- the digit machine
        let neg := buf[0]? = some 45
        let (pn, stop) := parseNumber buf Gen.expAccBound (if neg then 1 else 0) neg
        let contract (sig : Nat) (e10 : Int) (trunc : Bool) : Bool :=
          if trunc then leDec sig e10 d.mant d.exp && !(leDec (sig+1) e10 d.mant d.exp)
          else leDec sig e10 d.mant d.exp && leDec d.mant d.exp sig e10
        let (mS, cS) : String × String := match pn with
          | .unsigned v => (s!"U{v}", "na")
          | .signed v => (s!"I{v}", "na")
          | .zero n => ("F" ++ hex16 (if n then 2^63 else 0), if d.mant == 0 then "ok" else "BAD")
          | .negIntAsFloat sig => ((match roundF64 sig 0 with | some b => "F" ++ hex16 (b + 2^63) | none => "R"), if sig == d.mant && d.exp == 0 then "ok" else "BAD")
          | .toFloat n sig e10 trunc =>
            let okc := contract sig e10 trunc
            ((if trunc || !okc then "F?" else match roundF64 sig e10 with | some b => "F" ++ hex16 (if n then b + 2^63 else b) | none => "R"),
             if okc then "ok" else "BAD")
          | .invalid => ("R", "na")
        let stopOk := pn == .invalid || stop == buf.size
        s!"spec.gram=A spec.dom={clsS} spec.f64={f64S} {String.intercalate " " ints} m.dom={mS} contract={cS} m.stop={ar stopOk}"
    | none => "bad-hex"
  | _ => "bad-args"

end Driver
