import Driver.C04
import SonicModel.Spec.DomVal
namespace Driver
open Sonic Sonic.Spec

partial def toDJ (buf : Buf) : Json → DJ
  | .null => .null
  | .bool b => .bool b
  | .num s e => match classify (decOf buf s e) with
    | .u64 v => .int v
    | .i64 v => .int v
    | .f64 b => .f64 b
    | .infinite => .null
  | .str s => .str s
  | .arr xs => .arr (xs.map (toDJ buf))
  | .obj ms => .obj (ms.map fun (k, v) => (k, toDJ buf v))

partial def hasDupKeys : Json → Bool
  | .arr xs => xs.any hasDupKeys
  | .obj ms => (ms.map (·.1)).eraseDups.length != ms.length || ms.any (fun m => hasDupKeys m.2)
  | _ => false

def docDup (h : String) : Bool :=
  match unhex h with
  | some buf => match docTree false buf with
    | some j => hasDupKeys j
    | none => false
  | none => false

def docDJ (h : String) : Option DJ :=
  match unhex h with
  | some buf => if utf8Valid buf then (docTree false buf).map (toDJ buf) else none
  | none => none

/-- `c19 <type id> <hexdoc>`: the text `to_string(x)` must be, for the value `x` the document denotes -/
def c19 (args : List String) : String :=
  match args with
  | [id, h] =>
    match id.toNat?, unhex h with
    | some id, some buf =>
      (match tyOf id with
       | some ty =>
         (match decodeDoc ty buf with
          | some v => "spec=" ++ (if id == 12 then "FLOAT" else hex v.render) ++ " viadom=" ++ (if id == 12 then "FLOAT" else hex v.toJ.render)
          | none => "spec=R")
       | none => "spec=NOTMODELLED")
    | _, _ => "bad-args"
  | _ => "bad-args"

/-- `c19e <hexdoc a> <hexdoc b>`: the equality model on the two DOM values -/
def c19e (args : List String) : String :=
  match args with
  | [a, b] =>
    match docDJ a, docDJ b with
    | some x, some y => s!"m.eq={ar (x.eq y)} m.rev={ar (y.eq x)} m.refl={ar (x.eq x && y.eq y)} dup={ar (docDup a || docDup b)}"
    | _, _ => "m.eq=SKIP"
  | _ => "bad-args"

end Driver
