import Driver.Util
import SonicModel.Impl.Str
import SonicModel.Impl.StrBlock
import SonicModel.Impl.StrInplace
import SonicModel.Spec.Grammar
namespace Driver
open Sonic Sonic.Impl

/-- `c09 <hexdoc> <lit_start> <kind>` : the literal whose opening quote is at `lit_start` -/
def c09 (args : List String) : String :=
  match args with
  | [h, ls, _kind] =>
    match unhex h, ls.toNat? with
    | some buf, some s =>
      let u := Spec.utf8Valid buf
      let docOk := (Spec.document true buf).isSome        -- the surrounding document (strict)
      let docOkL := (Spec.document false buf).isSome
      let strict := Spec.stringS false buf (s+1)
      let lossy := Spec.stringS true buf (s+1)
      let m := decodeFrom false buf (s+1)
      let ml := decodeFrom true buf (s+1)
      let showO (o : Option (List UInt8 × Nat)) : String := match o with
        | some (bs, e) => s!"S:{hex bs}:{e}"
        | none => "R"
      let showM (r : DecRes) : String := match r with
        | .ok bs e esc => s!"S:{hex bs}:{e}:{if esc then 1 else 0}"
        | .err c p => s!"R:{c.name}:{p}"
      let lossyRepaired : String := match lossy with
        | some (bs, _) => "S:" ++ hex (Spec.utf8Lossy bs.toArray 0)
        | none => "R"
      -- the copying decoder with its 32-byte blocks (Impl/StrBlock.lean), next to the scalar one (proved equal as views)
      let showB (o : Option DecRes) : String := match o with
        | some (.ok bs e _) => s!"S:{hex bs}:{e}"
        | some (.err _ _) => "R"
        | none => "FUEL"
      let showV (r : DecRes) : String := match r with
        | .ok bs e _ => s!"S:{hex bs}:{e}"
        | .err _ _ => "R"
      let mb := showB (Sonic.StrBlock.parseStringRaw false buf (s+1))
      let mbl := showB (Sonic.StrBlock.parseStringRaw true buf (s+1))
      -- the in-place decoder on the padded copy (Impl/StrInplace.lean), and the specification's reading of that copy
      let pb := Sonic.StrIn.pad buf
      let showI (r : Sonic.StrIn.Res) : String := match r with
        | .ok mem cnt e =>
          let frame := mem.size == pb.size && (List.range pb.size).all (fun k => (k ≥ s + 1 && k < e) || mem[k]? == pb[k]?)
          s!"S:{hex (Sonic.StrBlock.bytes mem (s+1) (s+1+cnt))}:{e}:{if frame then 1 else 0}"
        | .err _ => "R"
        | .fault => "FAULT"
        | .fuel => "FUEL"
      let showP (o : Option (List UInt8 × Nat)) : String := match o with
        | some (bs, e) => s!"S:{hex bs}:{e}:1"
        | none => "R"
      let ip := if s + 1 ≤ buf.size then showI (Sonic.StrIn.run false pb (s+1)) else "skip"
      let ipl := if s + 1 ≤ buf.size then showI (Sonic.StrIn.run true pb (s+1)) else "skip"
      let sip := if s + 1 ≤ buf.size then showP (Spec.stringS false pb (s+1)) else "skip"
      let sipl := if s + 1 ≤ buf.size then showP (Spec.stringS true pb (s+1)) else "skip"
      let hasBs : Bool := match strict with
        | some (_, e) => (buf.toList.drop (s+1)).take (e - 1 - (s+1)) |>.any (· == 92)
        | none => false
      s!"spec.strict={showO strict} spec.lossy={lossyRepaired} m.strict={showM m} m.lossy={showM ml} g={ar (Spec.stringG buf (s+1)).isSome} pre8={ar (Spec.utf8FirstInvalid buf 0 ≥ (match Spec.stringG buf (s+1) with | some e => e | none => 0))} utf8={ar u} doc={ar docOk} docg={ar docOkL} bs={if hasBs then 1 else 0} m.blk={mb} m.blkS={showV m} m.blkl={mbl} m.blklS={showV ml} m.ip={ip} m.ipl={ipl} spec.ip={sip} spec.ipl={sipl}"
    | _, _ => "bad-args"
  | _ => "bad-args"

end Driver
