import SonicModel.Basic
import SonicModel.Spec.Grammar
import SonicModel.Impl.Skip
import SonicModel.Lemmas.SkipRefine
import SonicModel.Lemmas.SpecMono
import SonicModel.Lemmas.SkipMain
