/-
  Who owns the bytes a borrowed result points to (`src/input.rs`: `JsonInput::to_json_slice`,
  `src/reader.rs`: `PinnedInput`, `src/lazyvalue/iterator.rs`: `ObjectJsonIter`).

  A reader is built from a carrier.  `&[u8]`, `&str`, `&String` are borrowed as they are.  For `&Bytes`
  and `&FastStr` the reader is given a *handle* (`Bytes::slice_ref` → `FastStr::from_bytes`, resp.
  `FastStr::clone`): a handle of more than 24 bytes shares the caller's buffer, a handle of at most
  24 bytes is an inline copy that lives and dies with the reader.  Typed deserialization hands out
  `&'de str`, the object iterators hand out `Cow<'de, str>` keys — `'de` being the lifetime of the
  caller's input, not of the reader.
-/
namespace Sonic
namespace Borrow

inductive Carrier where
  | slice | str | string          -- `&[u8]`, `&str`, `&String`
  | bytes (len : Nat)             -- `&Bytes`
  | faststr (len : Nat)           -- `&FastStr`
  | ownedLazy (len : Nat)         -- `LazyValue::into_object_iter`: the iterator gets the only handle
  deriving Repr, DecidableEq

/-- where the bytes of a result live -/
inductive Home where
  | callerInput       -- lives for `'de`
  | reader            -- freed when the reader / iterator is dropped
  | result            -- owned by the result itself
  deriving Repr, DecidableEq

def inlineCap : Nat := 24

/-- `FastStr::clone` / `FastStr::from_bytes`: does the handle share the caller's buffer? -/
def handleShares (len : Nat) : Bool := len > inlineCap

/-- the buffer the reader scans, as first written: always the handle -/
def readerBufferOld : Carrier → Home
  | .slice | .str | .string => .callerInput
  | .bytes n | .faststr n => if handleShares n then .callerInput else .reader
  | .ownedLazy _ => .reader

/-- … and with `shared_or_borrowed`: the handle only if it shares the buffer, the input itself otherwise -/
def readerBuffer : Carrier → Home
  | .slice | .str | .string => .callerInput
  | .bytes _ | .faststr _ => .callerInput
  | .ownedLazy _ => .reader

/-- a `&'de str` of typed deserialization points into the buffer the reader scans -/
def borrowedStrHome (old : Bool) (c : Carrier) : Home := if old then readerBufferOld c else readerBuffer c

/-- an unescaped key of `ObjectJsonIter`: borrowed from the scanned buffer, unless the iterator knows
    that it owns its input (`owns_input`) and copies the key -/
def keyHome (old : Bool) (c : Carrier) : Home :=
  if old then readerBufferOld c
  else match c with
    | .ownedLazy _ => .result
    | c => readerBuffer c

end Borrow
end Sonic
