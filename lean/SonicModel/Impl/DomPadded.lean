/-
  `from_slice::<Value>` as the code composes it (src/value/node.rs `parse_with_padding`, src/serde/de.rs `deserialize_value`,
  `from_trait`): the decoding parser runs on the PADDED copy of the text; a value that ends behind the text is an EOF error
  (`n > len`); then `parse_trailing` allows only blanks up to the end of the text.
-/
import SonicModel.Impl.DomParse
import SonicModel.Impl.StrInplace
namespace Sonic
namespace DomP
open Gen Spec Impl

def fromSlicePadded (t : Buf) : Option Json :=
  match DomP.value (Spec.fuelFor (StrIn.pad t)) (StrIn.pad t) 0 with
  | .ok tr e => if e ≤ t.size ∧ skipWs t e = t.size then some tr else none
  | _ => none

end DomP
end Sonic
