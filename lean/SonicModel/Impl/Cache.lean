/-
  The publish-once caches of `LazyValue` (`Inner::parse_from`, `Clone for Inner`, `Drop for Inner`:
  an `Arc<String>` behind an `AtomicPtr`) and of `OwnedLazyValue` (`LazyRaw::load`: a `Box<Parsed>`
  behind an `AtomicPtr`) as a transition system at the granularity of their atomic operations,
  for ANY number of threads and ANY schedule.

  One shared value `S` with cell `cell`; thread `t` executes one atomic action per step:
    * reading (`as_str` / `get`):  load;  [decode + allocate];  compare-exchange;  on failure free
      the own object and use the witness.
    * cloning `S` (Arc variant): load; if non-null, increment the count and keep the pointer.
    * dropping the own clone: decrement (free at zero).
  `strong = false` is the code as originally written (weak compare-exchange: may fail spuriously
  with a null witness, which is then dereferenced); `strong = true` the repaired protocol.
-/
namespace Sonic
namespace Cache

inductive Pc where
  | idle                -- may start an operation
  | loaded              -- read: saw null, will decode and allocate
  | built (o : Nat)     -- read: owns the freshly decoded object `o`, will compare-exchange
  | done (r : Nat)      -- read finished with result object `r`
  | crashed             -- dereferenced a null witness
  deriving DecidableEq, Repr

structure St where
  cell : Option Nat            -- the shared AtomicPtr
  pc : Nat → Pc
  clone : Nat → Option Nat     -- the object held by thread t's own clone of S (if any)
  refs : Nat → Nat             -- Arc strong count of each object
  frees : Nat → Nat            -- how often each object was freed
  holders : Nat → List Nat     -- ghost: threads whose clone holds the object
  next : Nat                   -- fresh object ids

abbrev upd {α} (f : Nat → α) (t : Nat) (v : α) : Nat → α := fun x => if x = t then v else f x

inductive Act where
  | read (spur : Bool)   -- advance thread's read by one atomic action (spur: weak CAS fails spuriously)
  | clone                -- clone S (only when the thread has no clone yet)
  | dropClone            -- drop the thread's clone
  | reset                -- forget the finished read (the thread may read again)
  deriving DecidableEq, Repr

def release (s : St) (o : Nat) : St :=
  { s with refs := upd s.refs o (s.refs o - 1),
           frees := if s.refs o = 1 then upd s.frees o (s.frees o + 1) else s.frees }

def step (strong : Bool) (s : St) (t : Nat) (a : Act) : St :=
  match a with
  | .read spur =>
    match s.pc t with
    | .idle =>
      match s.cell with
      | some p => { s with pc := upd s.pc t (.done p) }
      | none => { s with pc := upd s.pc t .loaded }
    | .loaded =>
      { s with pc := upd s.pc t (.built s.next), refs := upd s.refs s.next 1, next := s.next + 1 }
    | .built o =>
      match s.cell with
      | none =>
        if spur && !strong then
          -- weak CAS failed spuriously: own object released, null witness dereferenced
          { release s o with pc := upd s.pc t .crashed }
        else { s with cell := some o, pc := upd s.pc t (.done o) }
      | some p => { release s o with pc := upd s.pc t (.done p) }
    | .done _ => s
    | .crashed => s
  | .clone =>
    match s.clone t, s.cell with
    | none, some p =>
      { s with clone := upd s.clone t (some p), refs := upd s.refs p (s.refs p + 1),
               holders := upd s.holders p (t :: s.holders p) }
    | _, _ => s          -- already has a clone, or the cell is null (the clone holds null: nothing to count)
  | .dropClone =>
    match s.clone t with
    | some p =>
      { release s p with clone := upd s.clone t none, holders := upd s.holders p ((s.holders p).erase t) }
    | none => s
  | .reset =>
    match s.pc t with
    | .done _ => { s with pc := upd s.pc t .idle }
    | _ => s

def init : St :=
  { cell := none, pc := fun _ => .idle, clone := fun _ => none, refs := fun _ => 0,
    frees := fun _ => 0, holders := fun _ => [], next := 0 }

def run (strong : Bool) (s : St) (sched : List (Nat × Act)) : St :=
  sched.foldl (fun s a => step strong s a.1 a.2) s

end Cache
end Sonic
