/-
  The manual reference counting of the DOM (`src/value/node.rs`, `src/value/shared.rs`,
  `src/serde/de.rs: deserialize_value`) as a transition system.

  A parsed document lives in an arena (`Arc<Shared>`).  A `Value` that is a *root node* holds one
  strong count of its arena (`Meta::pack_shared` increments, `Drop for Value` decrements and frees
  at zero); nodes inside the arena hold nothing.  Owned containers (`Arc<Vec<Value>>`,
  `Arc<AHashMap<FastStr, Value>>`) are reference counted by `Arc` and own the values stored in
  them.  `Drop` is modelled with an explicit work list (`pending`), one decrement per micro step,
  so that the invariant can be stated for every intermediate state.

  `T` is the immutable node tree of a parsed document (only what matters for counting).
-/
namespace Sonic
namespace Rc

inductive T where
  | leaf                          -- static node: null / bool / number
  | emptyArr                      -- `[]`: static node, becomes an owned Vec on first mutation
  | emptyObj                      -- `{}`
  | str                           -- string or raw number stored in the arena
  | arr (xs : List T)             -- non-empty array node (children in the arena)
  | obj (ms : List (List UInt8 × T))  -- non-empty object node
  deriving Repr, Inhabited

/-- a `Value` as far as ownership is concerned -/
inductive Item where
  | stat (k : Nat)                -- static node; 1 = empty array, 2 = empty object, 0 = anything else
  | root (a : Nat) (t : T)        -- root node: holds one strong count of arena `a`, views node `t`
  | own (c : Nat)                 -- ARR_MUT / OBJ_MUT: holds one strong count of container `c`
  | fstr                          -- FASTSTR / RAWNUM_FASTSTR: a boxed string of its own
  deriving Repr, Inhabited

structure St where
  arena : Nat → Nat               -- strong count of each arena
  afreed : Nat → Nat              -- how often each arena was released
  ccnt : Nat → Nat                -- Arc strong count of each owned container
  cobj : Nat → Bool               -- container is an object (map) / an array (Vec)
  citems : Nat → List (List UInt8 × Item)   -- array: keys unused (empty); object: sorted by key
  cfreed : Nat → Nat
  live : List Item                -- the values the program holds
  pending : List Item             -- values whose `Drop` is still to run
  handles : List Nat              -- `Arc<Shared>` handles held by parsers / deserializers
  nextA : Nat
  nextC : Nat
  freedLog : List Nat             -- arenas released, most recent first

abbrev upd {α} (f : Nat → α) (t : Nat) (v : α) : Nat → α := fun x => if x = t then v else f x

def init : St :=
  { arena := fun _ => 0, afreed := fun _ => 0, ccnt := fun _ => 0, cobj := fun _ => false,
    citems := fun _ => [], cfreed := fun _ => 0,
    live := [], pending := [], handles := [], nextA := 0, nextC := 0, freedLog := [] }

/-! ### micro steps -/

/-- `Arc::increment_strong_count` / `Arc::clone` for whatever the item refers to -/
def inc (s : St) : Item → St
  | .root a _ => { s with arena := upd s.arena a (s.arena a + 1) }
  | .own c => { s with ccnt := upd s.ccnt c (s.ccnt c + 1) }
  | _ => s

/-- release one strong count of arena `a` (`drop(Arc::from_raw(dom))`) -/
def decArena (s : St) (a : Nat) : St :=
  if s.arena a = 1 then
    { s with arena := upd s.arena a 0, afreed := upd s.afreed a (s.afreed a + 1), freedLog := a :: s.freedLog }
  else { s with arena := upd s.arena a (s.arena a - 1) }

/-- one step of `Drop`: the first pending value -/
def dropStep (s : St) : St :=
  match s.pending with
  | [] => s
  | .stat _ :: rest => { s with pending := rest }
  | .fstr :: rest => { s with pending := rest }
  | .root a _ :: rest => decArena { s with pending := rest } a
  | .own c :: rest =>
    if s.ccnt c = 1 then
      -- last reference: the Vec / map is dropped, and with it every value stored in it
      { s with pending := (s.citems c).map Prod.snd ++ rest,
               ccnt := upd s.ccnt c 0, citems := upd s.citems c [],
               cfreed := upd s.cfreed c (s.cfreed c + 1) }
    else { s with pending := rest, ccnt := upd s.ccnt c (s.ccnt c - 1) }

def drain : Nat → St → St
  | 0, s => s
  | n+1, s => match s.pending with
    | [] => s
    | _ :: _ => drain n (dropStep s)

/-- the value a node of arena `a` is cloned to (`Clone for Value`, `NodeInDom` arm) -/
def viewOf (a : Nat) : T → Item
  | .leaf => .stat 0
  | .emptyArr => .stat 1
  | .emptyObj => .stat 2
  | t => .root a t

def incAll (s : St) (its : List Item) : St := its.foldl inc s

/-- keep the first member of every key (`From<&[Pair]>` as repaired) -/
def dedupFirst {α} : List (List UInt8 × α) → List (List UInt8 × α)
  | [] => []
  | (k, v) :: rest => (k, v) :: (dedupFirst rest).filter (fun p => p.1 ≠ k)

def keyLt (a b : List UInt8) : Bool := decide (a < b)

def insertSorted {α} (p : List UInt8 × α) : List (List UInt8 × α) → List (List UInt8 × α)
  | [] => [p]
  | q :: rest => if keyLt p.1 q.1 then p :: q :: rest else q :: insertSorted p rest

def sortByKey {α} (l : List (List UInt8 × α)) : List (List UInt8 × α) := l.foldr insertSorted []

/-- `Arc::new(vec / map)` holding `items` (their counts are the caller's business) -/
def newCont (s : St) (isObj : Bool) (items : List (List UInt8 × Item)) : St :=
  { s with ccnt := upd s.ccnt s.nextC 1, cobj := upd s.cobj s.nextC isObj,
           citems := upd s.citems s.nextC items, nextC := s.nextC + 1 }

/-- the members a root container is promoted to -/
def kidsOf (a : Nat) : T → List (List UInt8 × Item)
  | .arr xs => xs.map (fun t => (([] : List UInt8), viewOf a t))
  | .obj ms => sortByKey ((dedupFirst ms).map (fun (p : List UInt8 × T) => (p.1, viewOf a p.2)))
  | _ => []

/-- `Value::to_mut`: promote a root container / a static empty container to an owned one.
    Returns the new state and the value now stored in the slot. -/
def toMut (s : St) (it : Item) : St × Item :=
  match it with
  | .root a (.arr xs) =>
    let kids := kidsOf a (.arr xs)
    let s1 := newCont (incAll s (kids.map Prod.snd)) false kids
    ({ s1 with pending := .root a (.arr xs) :: s1.pending }, .own s.nextC)   -- `*self = ..` drops the old root
  | .root a (.obj ms) =>
    let kids := kidsOf a (.obj ms)
    let s1 := newCont (incAll s (kids.map Prod.snd)) true kids
    ({ s1 with pending := .root a (.obj ms) :: s1.pending }, .own s.nextC)
  | .stat 1 => (newCont s false [], .own s.nextC)
  | .stat 2 => (newCont s true [], .own s.nextC)
  | it => (s, it)

/-- `Arc::make_mut`: un-share an owned container -/
def makeMut (s : St) (it : Item) : St × Item :=
  match it with
  | .own c =>
    if s.ccnt c > 1 then
      let items := s.citems c
      let s1 := newCont (incAll s (items.map Prod.snd)) (s.cobj c) items
      ({ s1 with ccnt := upd s1.ccnt c (s1.ccnt c - 1) }, .own s.nextC)
    else (s, it)
  | it => (s, it)

/-! ### operations of the program (each followed by running the pending drops) -/

inductive Op where
  | parse (t : T)                      -- `from_str::<Value>`: a fresh arena
  | clone (i : Nat)
  | drop (i : Nat)                     -- also: move to another thread and drop there
  | take (i : Nat)                     -- `mem::take`: the value moves to a new slot, `i` becomes null
  | child (i : Nat) (k : Nat) (key : List UInt8)   -- clone of a member: array index `k` / object key
  | toMut (i : Nat)                    -- `as_array_mut` / `as_object_mut`
  | push (i j : Nat)                   -- move `i` into the array `j`
  | insert (i j : Nat) (key : List UInt8)   -- move `i` into the object `j`; the old member is dropped
  | pop (j : Nat)                      -- array `j`: last element moves to a new slot
  | remove (j : Nat) (key : List UInt8)
  | dopen                              -- a `Deserializer` / stream over several documents
  | dval (t : T) (first : Bool)        -- its next value (`first`: reader index 0 → padded copy, own arena)
  | dclose
  | dfail (first : Bool)               -- its next value fails to parse (`Err`): no value is produced
  deriving Repr, Inhabited

def fuel : Nat := 100000

def isArrItem (s : St) : Item → Bool
  | .stat 1 => true
  | .root _ (.arr _) => true
  | .own c => !(s.cobj c)
  | _ => false

def isObjItem (s : St) : Item → Bool
  | .stat 2 => true
  | .root _ (.obj _) => true
  | .own c => s.cobj c
  | _ => false

/-- clone `it` into a new slot -/
def cloneInto (s : St) (it : Item) : St :=
  { inc s it with live := s.live ++ [it] }

/-- `from_str`: `Arc::new(Shared)`, clone of the root node, drop of the local `Arc` -/
def parseInto (s : St) (t : T) : St :=
  let a := s.nextA
  let s1 := { s with arena := upd s.arena a 1, nextA := a + 1, handles := a :: s.handles }  -- the parser's handle
  let s2 := cloneInto s1 (viewOf a t)
  decArena { s2 with handles := s.handles } a                                               -- the handle goes away

/-- the member of a container value selected by index / key -/
def memberOf (s : St) (it : Item) (k : Nat) (key : List UInt8) : Option Item :=
  match it with
  | .root a (.arr xs) => (xs[k]?).map (viewOf a)
  | .root a (.obj ms) => (ms.find? (fun (p : List UInt8 × T) => p.1 = key)).map (fun p => viewOf a p.2)
  | .own c =>
    ((if s.cobj c then (s.citems c).find? (fun (p : List UInt8 × Item) => p.1 = key) else (s.citems c)[k]?)).map Prod.snd
  | _ => none

def hasKey (key : List UInt8) (p : List UInt8 × Item) : Bool := p.1 = key
def notKey (key : List UInt8) (p : List UInt8 × Item) : Bool := p.1 ≠ key

/-! primitives on slots; each is the identity when it does not apply -/

def cloneAt (s : St) (i : Nat) : St :=
  match s.live[i]? with
  | some it => cloneInto s it
  | none => s

def dropAt (s : St) (i : Nat) : St :=
  match s.live[i]? with
  | some it => { s with live := s.live.eraseIdx i, pending := it :: s.pending }
  | none => s

def takeAt (s : St) (i : Nat) : St :=
  match s.live[i]? with
  | some it => { s with live := (s.live.set i (.stat 0)) ++ [it] }
  | none => s

def childAt (s : St) (i k : Nat) (key : List UInt8) : St :=
  match s.live[i]? with
  | some it => (match memberOf s it k key with | some m => cloneInto s m | none => s)
  | none => s

def toMutAt (s : St) (j : Nat) : St :=
  match s.live[j]? with
  | some it => { (toMut s it).1 with live := (toMut s it).1.live.set j (toMut s it).2 }
  | none => s

def makeMutAt (s : St) (j : Nat) : St :=
  match s.live[j]? with
  | some it => { (makeMut s it).1 with live := (makeMut s it).1.live.set j (makeMut s it).2 }
  | none => s

/-- `Value::as_mut` on slot `j` -/
def asMutAt (s : St) (j : Nat) : St := makeMutAt (toMutAt s j) j

/-- move slot `i` to the end of the owned array in slot `j` -/
def pushAt (s : St) (i j : Nat) : St :=
  match s.live[i]?, s.live[j]? with
  | some x, some (.own c) =>
    if i ≠ j then
      { s with citems := upd s.citems c (s.citems c ++ [([], x)]), live := s.live.eraseIdx i }
    else s
  | _, _ => s

def insertAt (s : St) (i j : Nat) (key : List UInt8) : St :=
  match s.live[i]?, s.live[j]? with
  | some x, some (.own c) =>
    if i ≠ j then
      { s with citems := upd s.citems c (insertSorted (key, x) ((s.citems c).filter (notKey key))),
               pending := ((s.citems c).filter (hasKey key)).map Prod.snd ++ s.pending,
               live := s.live.eraseIdx i }
    else s
  | _, _ => s

def popAt (s : St) (j : Nat) : St :=
  match s.live[j]? with
  | some (.own c) =>
    { s with citems := upd s.citems c (s.citems c).dropLast,
             live := s.live ++ ((s.citems c).getLast?.toList.map Prod.snd) }
  | _ => s

def removeAt (s : St) (j : Nat) (key : List UInt8) : St :=
  match s.live[j]? with
  | some (.own c) =>
    { s with citems := upd s.citems c ((s.citems c).filter (notKey key)),
             live := s.live ++ ((s.citems c).filter (hasKey key)).map Prod.snd }
  | _ => s

/-- next value of a deserializer from its shared arena (`self.shared`, created on first use) -/
def dvalShared (s : St) (t : T) : St :=
  match s.handles with
  | a :: _ => cloneInto s (viewOf a t)
  | [] =>
    let a := s.nextA
    cloneInto { s with arena := upd s.arena a 1, handles := [a], nextA := a + 1 } (viewOf a t)

/-- a failed parse on the padded path: the fresh arena is created and released at once -/
def parseFail (s : St) : St :=
  let a := s.nextA
  decArena { s with arena := upd s.arena a 1, nextA := a + 1 } a

/-- a failed parse on the copy path: the deserializer's arena exists afterwards (created on first use) -/
def dfailShared (s : St) : St :=
  match s.handles with
  | _ :: _ => s
  | [] => { s with arena := upd s.arena s.nextA 1, handles := [s.nextA], nextA := s.nextA + 1 }

def dcloseAt (s : St) : St :=
  match s.handles with
  | a :: rest => decArena { s with handles := rest } a
  | [] => s

def slotIs (s : St) (p : St → Item → Bool) (i : Nat) : Bool :=
  match s.live[i]? with
  | some it => p s it
  | none => false

/-- the operation proper, before the pending drops run; `none` = the operation does not apply -/
def stepCore (s : St) (op : Op) : Option St :=
  match op with
  | .parse t => some (parseInto s t)
  | .clone i => if i < s.live.length then some (cloneAt s i) else none
  | .drop i => if i < s.live.length then some (dropAt s i) else none
  | .take i => if i < s.live.length then some (takeAt s i) else none
  | .child i k key =>
    match s.live[i]? with
    | some it => if (memberOf s it k key).isSome then some (childAt s i k key) else none
    | none => none
  | .toMut i => if slotIs s isArrItem i || slotIs s isObjItem i then some (toMutAt s i) else none
  | .push i j =>
    if i < s.live.length ∧ i ≠ j ∧ slotIs s isArrItem j then some (pushAt (asMutAt s j) i j) else none
  | .insert i j key =>
    if i < s.live.length ∧ i ≠ j ∧ slotIs s isObjItem j then some (insertAt (asMutAt s j) i j key) else none
  | .pop j => if slotIs s isArrItem j then some (popAt (asMutAt s j) j) else none
  | .remove j key => if slotIs s isObjItem j then some (removeAt (asMutAt s j) j key) else none
  | .dopen => some s
  | .dval t first => if first then some (parseInto s t) else some (dvalShared s t)
  | .dclose => some (dcloseAt s)
  | .dfail first => if first then some (parseFail s) else some (dfailShared s)

def step (s : St) (op : Op) : Option St := (stepCore s op).map (drain fuel)

def run (s : St) : List Op → Option St
  | [] => some s
  | op :: rest => match step s op with
    | some s' => run s' rest
    | none => none

end Rc
end Sonic
