/-
  The recursion budget of the serde entry points (`src/serde/de.rs`: `remaining_depth`,
  `DepthGuard::guard` / `Drop for DepthGuard`) as a state machine over the nesting structure of
  the visited value.
-/
namespace Sonic
namespace Depth

/-- nesting structure of a value: a scalar, or a container with its members -/
inductive Nest where
  | leaf
  | node (kids : List Nest)
  deriving Inhabited

mutual
def Nest.depth : Nest → Nat
  | .leaf => 0
  | .node kids => 1 + Nest.depthL kids
def Nest.depthL : List Nest → Nat
  | [] => 0
  | k :: r => max k.depth (Nest.depthL r)
end

mutual
/-- visiting a value with the guard held while the container is visited (as repaired):
    returns `none` on RecursionLimitExceeded, otherwise the budget afterwards -/
def visit : Nat → Nest → Option Nat
  | b, .leaf => some b
  | b, .node kids =>
    if b ≤ 1 then none                      -- `guard`: the budget is left untouched on failure
    else match visitL (b - 1) kids with
      | some b' => some (b' + 1)            -- `Drop for DepthGuard`
      | none => none
def visitL : Nat → List Nest → Option Nat
  | b, [] => some b
  | b, k :: r => match visit b k with
    | some b' => visitL b' r
    | none => none
end

mutual
/-- as originally written (`let _ = DepthGuard::guard(self);`): the guard is dropped at once, the
    budget is decremented and incremented before the container is visited, its error discarded -/
def visitUnguarded : Nat → Nest → Option Nat
  | b, .leaf => some b
  | b, .node kids => visitUnguardedL b kids
def visitUnguardedL : Nat → List Nest → Option Nat
  | b, [] => some b
  | b, k :: r => match visitUnguarded b k with
    | some b' => visitUnguardedL b' r
    | none => none
end

end Depth
end Sonic
