/-
  Layer 2 — the IN-PLACE string decoder of src/util/string.rs (`parse_string_inplace`) with
  `handle_unicode_codepoint_mut` / `repr_utf16_surrogate` of src/util/unicode.rs: the decoder behind
  `from_str::<Value>` / `from_slice::<Value>` (whole-input DOM parse over a padded copy of the text).  It reads 32-byte
  blocks WITHOUT any bounds check (it relies on the padding `x"x\0…` behind the text) and writes the decoded bytes into
  the same buffer, behind the reader.

  Every load and store goes through a checked accessor here: an access outside the buffer is the result `fault`.
  `Thm/C09.inplace_decoder_*` proves that on a padded buffer no `fault` occurs, that the bytes written are the
  specification's decoding and that nothing at or behind the reader's final position is changed.

    scan      the first loop (no escape seen yet): blocks until a quote / control byte / backslash
    esc       the `'escape` loop: one escape, and directly following ones
    mv        the `'find_and_move` loop: blocks copied down to `dst`, bytewise up to a quote or a backslash
    copyWhile the two `while **src != c { *dst = **src; … }` loops
-/
import SonicModel.Impl.StrBlock
import SonicModel.Gen.Consts
namespace Sonic
namespace StrIn
open Gen Impl StrBlock

inductive Res where
  | ok (mem : Buf) (cnt : Nat) (src : Nat)   -- decoded bytes: `mem[sdst .. sdst+cnt)`; reader just behind the closing quote
  | err (code : Code)
  | fault                                     -- a load or a store outside the buffer
  | fuel
  deriving Repr, Inhabited

/-- store `bs` at `dst ..` -/
def wr (mem : Buf) (dst : Nat) : List UInt8 → Buf
  | [] => mem
  | b :: bs => wr (mem.setIfInBounds dst b) (dst + 1) bs

/-- `while **src != stop { *dst = **src; dst += 1; src += 1 }`; `none` = an access outside the buffer (or out of fuel:
    the loop has no bound in the code, it ends because the block just inspected holds the byte) -/
def copyWhile (stop : UInt8) : Nat → Buf → Nat → Nat → Option (Buf × Nat × Nat)
  | 0, _, _, _ => none
  | f+1, mem, src, dst =>
    match mem[src]? with
    | none => none
    | some c =>
      if c == stop then some (mem, src, dst)
      else if dst < mem.size then copyWhile stop f (mem.setIfInBounds dst c) (src + 1) (dst + 1) else none

/-- `handle_unicode_codepoint_mut`, `src` at the backslash of `\uXXXX`: outer `none` = a load outside the buffer,
    `some none` = the function returned `false`, otherwise the bytes to store and the new `src` -/
def unicodeMut (lossy : Bool) (mem : Buf) (src : Nat) : Option (Option (List UInt8 × Nat)) :=
  let fin (cp s : Nat) : Option (Option (List UInt8 × Nat)) :=
    some (if (codepointToUtf8 cp).isEmpty then none else some (codepointToUtf8 cp, s))
  match hexAt mem (src + 2) with
  | none => none
  | some p1 =>
    let s := src + 6
    -- `repr_utf16_surrogate`
    let surr : Option (Option (List UInt8 × Nat)) := some (if lossy then some (codepointToUtf8 0xFFFD, s) else none)
    if 0xD800 ≤ p1 && p1 < 0xDC00 then
      match mem[s]? with
      | none => none
      | some c0 =>
        if c0 != 92 then surr
        else
          match mem[s + 1]? with
          | none => none
          | some c1 =>
            if c1 != 117 then surr
            else
              match hexAt mem (s + 2) with
              | none => none
              | some p2 =>
                -- `low_bit = p2.wrapping_sub(0xdc00); (low_bit >> 10) != 0` ⇒ not a low surrogate
                if 0xDC00 ≤ p2 && p2 < 0xE000 then fin (0x10000 + ((p1 - 0xD800) <<< 10 ||| (p2 - 0xDC00))) (s + 6)
                else surr
    else if 0xDC00 ≤ p1 && p1 < 0xE000 then surr
    else fin p1 s

mutual
/-- the `'escape` loop: `src` at a backslash, `dst` where the next decoded byte goes -/
def esc (lossy : Bool) : Nat → Buf → Nat → Nat → Nat → Res
  | 0, _, _, _, _ => .fuel
  | f+1, mem, sdst, src, dst =>
    match mem[src + 1]? with
    | none => .fault
    | some e =>
      if e == 117 then
        match unicodeMut lossy mem src with
        | none => .fault
        | some none => .err .InvalidUnicodeCodePoint
        | some (some (bs, s)) =>
          if dst + bs.length ≤ mem.size then
            let mem' := wr mem dst bs
            match mem'[s]? with
            | none => .fault
            | some c => if c == 92 then esc lossy f mem' sdst s (dst + bs.length) else mv lossy f mem' sdst s (dst + bs.length)
          else .fault
      else
        let t := escapedTab[e.toNat]?.getD 0
        if dst < mem.size then
          -- `*dst = ESCAPED_TAB[..]; if *dst == 0 { error }`
          if t == 0 then .err .InvalidEscape
          else
            let mem' := mem.setIfInBounds dst t
            match mem'[src + 2]? with
            | none => .fault
            | some c => if c == 92 then esc lossy f mem' sdst (src + 2) (dst + 1) else mv lossy f mem' sdst (src + 2) (dst + 1)
        else .fault
/-- the `'find_and_move` loop -/
def mv (lossy : Bool) : Nat → Buf → Nat → Nat → Nat → Res
  | 0, _, _, _, _ => .fuel
  | f+1, mem, sdst, src, dst =>
    if src + 32 ≤ mem.size then
      let q := findP (· == 34) mem src (src + 32)
      let b := findP (· == 92) mem src (src + 32)
      let u := findP isCtl mem src (src + 32)
      if q < b ∧ ¬ (u < q) then
        match copyWhile 34 33 mem src dst with
        | none => .fault
        | some (mem', s, d) => .ok mem' (d - sdst) (s + 1)
      else if u < q then .err .ControlCharacterWhileParsingString
      else if ¬ (b < q) then
        if dst + 32 ≤ mem.size then mv lossy f (wr mem dst (bytes mem src (src + 32))) sdst (src + 32) (dst + 32) else .fault
      else
        match copyWhile 92 33 mem src dst with
        | none => .fault
        | some (mem', s, d) => esc lossy f mem' sdst s d
    else .fault
end

/-- the first loop: no escape seen yet, nothing is written -/
def scan (lossy : Bool) : Nat → Buf → Nat → Nat → Res
  | 0, _, _, _ => .fuel
  | f+1, mem, sdst, src =>
    if src + 32 ≤ mem.size then
      let q := findP (· == 34) mem src (src + 32)
      let b := findP (· == 92) mem src (src + 32)
      let u := findP isCtl mem src (src + 32)
      if q < b ∧ ¬ (u < q) then .ok mem (q - sdst) (q + 1)
      else if u < q then .err .ControlCharacterWhileParsingString
      else if b < q then esc lossy f mem sdst b b
      else scan lossy f mem sdst (src + 32)
    else .fault

/-- `parse_string_inplace(&mut src, repr)`: `i` = just behind the opening quote -/
def run (lossy : Bool) (mem : Buf) (i : Nat) : Res := scan lossy (3 * mem.size + 8) mem i i
-- (theorems speak about `run` as a whole: the elaborator must not unfold thousands of loop iterations to look at its result)
attribute [irreducible] run

/-- the literals that start at `is` (just behind their opening quotes) decoded one after the other in ONE buffer, as the
    whole-input DOM parse does with the strings and member names of a document; per literal the decoded length and the end;
    `none` = one of them was rejected (or faulted) -/
def runMany (lossy : Bool) : Buf → List Nat → Option (Buf × List (Nat × Nat))
  | mem, [] => some (mem, [])
  | mem, i :: rest =>
    match run lossy mem i with
    | .ok mem' cnt e => (runMany lossy mem' rest).map (fun r => (r.1, (cnt, e) :: r.2))
    | _ => none

/-- the padding `parse_with_padding` puts behind the text: the bytes and the total size the translator reads from the source
    (`Gen.paddingBytes` = `x"x`, `Gen.paddingSize` = 64), the rest zero -/
def padTail : Buf := Sonic.Gen.paddingBytes.toArray ++ Array.replicate (Sonic.Gen.paddingSize - Sonic.Gen.paddingBytes.length) (0 : UInt8)
def pad (t : Buf) : Buf := t ++ padTail

end StrIn
end Sonic
