/-
  Layer 2 — the copying string decoder of src/parser.rs with its 32-byte blocks:

    parse_string_raw       rawLoop / rawTail     blocks while 32 bytes remain (`peek_n(32)`), then bytewise;
                                                 `has_quote_first` → borrowed slice, `has_unescaped` → error,
                                                 `has_backslash` → copy what was read so far, `parse_string_escaped`
    parse_string_escaped   escEntry / escLoop / escTail   `parse_escaped_char`, then blocks (`has_unescaped` first,
                                                 `has_quote_first`, `has_backslash` → copy up to the backslash, escapes
                                                 again, otherwise copy 32 bytes), then bytewise
    parse_escaped_char     escChars              one escape, and directly following ones (`peek() == '\\'`)

  `StringBlock`'s three masks and `BitMask::before` / `first_offset` are modelled by their meaning (the offsets of the
  first quote, backslash and control byte of the block; `a.before(b)` = `a` has a bit below the lowest bit of `b`): the
  lane primitives are C17's.  `order` = the branch order of `parse_string_escaped`'s block (`true` = as coded:
  control bytes first; `false` = the change of seed C09d).
-/
import SonicModel.Impl.Str
import SonicModel.Impl.Skip
namespace Sonic
namespace StrBlock
open Gen Impl

def isCtl (c : UInt8) : Bool := c ≤ 0x1f

/-- first index in `[i, lim)` (inside the buffer) whose byte satisfies `p`; `lim` when there is none -/
def findP (p : UInt8 → Bool) (buf : Buf) (i lim : Nat) : Nat :=
  if h : i < lim ∧ i < buf.size then (if p buf[i] then i else findP p buf (i+1) lim) else lim
termination_by lim - i

/-- the bytes `buf[a..b)` -/
def bytes (buf : Buf) (a b : Nat) : List UInt8 := (buf.toList.take b).drop a

/-- `parse_escaped_char`, reader at `i` just after a backslash; `acc` = the bytes decoded so far.
    outer `none` = out of fuel, inner `none` = an error -/
def escChars (lossy : Bool) (buf : Buf) : Nat → Nat → List UInt8 → Option (Option (List UInt8 × Nat))
  | 0, _, _ => none
  | f+1, i, acc =>
    match buf[i]? with
    | none => some none
    | some e =>
      let step : Option (List UInt8 × Nat) :=
        if e == 117 then
          match parseEscapedUtf8 lossy buf (i+1) with
          | .error _ => none
          | .ok (cp, j) => if (codepointToUtf8 cp).isEmpty then none else some (acc ++ codepointToUtf8 cp, j)
        else if escapedTab[e.toNat]?.getD 0 != 0 then some (acc ++ [escapedTab[e.toNat]?.getD 0], i+1)
        else none
      match step with
      | none => some none
      | some (acc', j) => if buf[j]? = some 92 then escChars lossy buf f (j+1) acc' else some (some (acc', j))

mutual
/-- `parse_string_escaped` from its first `parse_escaped_char` on; reader at `i` just after a backslash -/
def escEntry (order lossy : Bool) (buf : Buf) : Nat → List UInt8 → Nat → Option DecRes
  | 0, _, _ => none
  | f+1, acc, i =>
    match escChars lossy buf (f+1) i acc with
    | none => none
    | some none => some (.err .InvalidEscape i)
    | some (some (acc', j)) => escLoop order lossy buf f acc' j
/-- the block loop of `parse_string_escaped` -/
def escLoop (order lossy : Bool) (buf : Buf) : Nat → List UInt8 → Nat → Option DecRes
  | 0, _, _ => none
  | f+1, acc, i =>
    if i + 32 ≤ buf.size then
      let q := findP (· == 34) buf i (i + 32)
      let b := findP (· == 92) buf i (i + 32)
      let u := findP isCtl buf i (i + 32)
      if order then
        if u < q then some (.err .ControlCharacterWhileParsingString u)
        else if q < b then some (.ok (acc ++ bytes buf i q) (q + 1) true)
        else if b < q then escEntry order lossy buf f (acc ++ bytes buf i b) (b + 1)
        else escLoop order lossy buf f (acc ++ bytes buf i (i + 32)) (i + 32)
      else
        -- seed C09d: quote, backslash (and on), control bytes last
        if q < b ∧ ¬ (u < q) then some (.ok (acc ++ bytes buf i q) (q + 1) true)
        else if b < q then escEntry order lossy buf f (acc ++ bytes buf i b) (b + 1)
        else if u < q then some (.err .ControlCharacterWhileParsingString u)
        else escLoop order lossy buf f (acc ++ bytes buf i (i + 32)) (i + 32)
    else escTail order lossy buf f acc i
/-- the bytewise loop of `parse_string_escaped` over the last bytes -/
def escTail (order lossy : Bool) (buf : Buf) : Nat → List UInt8 → Nat → Option DecRes
  | 0, _, _ => none
  | f+1, acc, i =>
    match buf[i]? with
    | none => some (.err .EofWhileParsing i)
    | some c =>
      if c == 34 then some (.ok acc (i + 1) true)
      else if c == 92 then escEntry order lossy buf f acc (i + 1)
      else if isCtl c then some (.err .ControlCharacterWhileParsingString i)
      else escTail order lossy buf f (acc ++ [c]) (i + 1)
end

mutual
/-- the block loop of `parse_string_raw`: `start` = the first byte of the literal, reader at `i` -/
def rawLoop (order lossy : Bool) (buf : Buf) : Nat → Nat → Nat → Option DecRes
  | 0, _, _ => none
  | f+1, start, i =>
    if i + 32 ≤ buf.size then
      let q := findP (· == 34) buf i (i + 32)
      let b := findP (· == 92) buf i (i + 32)
      let u := findP isCtl buf i (i + 32)
      if q < b ∧ ¬ (u < q) then some (.ok (bytes buf start q) (q + 1) false)
      else if u < q then some (.err .ControlCharacterWhileParsingString u)
      else if b < q then escEntry order lossy buf f (bytes buf start b) (b + 1)
      else rawLoop order lossy buf f start (i + 32)
    else rawTail order lossy buf f start i
/-- … and its bytewise loop -/
def rawTail (order lossy : Bool) (buf : Buf) : Nat → Nat → Nat → Option DecRes
  | 0, _, _ => none
  | f+1, start, i =>
    match buf[i]? with
    | none => some (.err .EofWhileParsing i)
    | some c =>
      if c == 34 then some (.ok (bytes buf start i) (i + 1) false)
      else if c == 92 then escEntry order lossy buf f (bytes buf start i) (i + 1)
      else if isCtl c then some (.err .ControlCharacterWhileParsingString i)
      else rawTail order lossy buf f start (i + 1)
end

/-- `parse_string_raw`, reader just after the opening quote -/
def parseStringRaw (lossy : Bool) (buf : Buf) (i : Nat) : Option DecRes := rawLoop true lossy buf (3 * buf.size + 8) i i

def isSpecial (c : UInt8) : Bool := c == 92 || c == 34 || isCtl c

/-- Layer 2 — the checked `skip_string` of src/parser.rs with its 32-byte blocks: the mask of backslash, quote and control
    lanes, its first set lane, `skip_escaped_chars` after a backslash, the bytewise loop over the last bytes -/
def skipStringB (buf : Buf) (len : Nat) : Nat → Nat → IRes
  | 0, _ => .fuel
  | f+1, i =>
    if i + 32 ≤ buf.size then
      let m := findP isSpecial buf i (i + 32)
      if m < i + 32 then
        match buf[m]? with
        | some c =>
          if c == 92 then
            (match skipEscapedChars buf len (m + 1) with
             | .ok j => if m < j then skipStringB buf len f j else .fuel
             | r => r)
          else if c == 34 then .ok (m + 1)
          else .err .ControlCharacterWhileParsingString (m + 1)
        | none => .fuel
      else skipStringB buf len f (i + 32)
    else skipString buf len i


end StrBlock
end Sonic
