/-
  Multi-path extraction (`src/pointer/tree.rs`, `src/parser.rs: get_many_rec`) — the path trie with
  per-node result slots, and the slot bookkeeping of the walker; and the specification of
  `get_by_schema` on trees.
-/
import SonicModel.Spec.Lookup
import SonicModel.Spec.Tree
namespace Sonic
namespace Many
open Spec

/-- `PointerTreeNode`: the indices (insertion order) of the paths ending here, and the children -/
inductive Trie where
  | node (order : List Nat) (kids : List (Step × Trie))
  deriving Inhabited

def Trie.empty : Trie := .node [] []
def Trie.order : Trie → List Nat
  | .node o _ => o
def Trie.kids : Trie → List (Step × Trie)
  | .node _ k => k

/-- update the child under `s` (created empty when absent): `entry(s).or_insert(default)` -/
def updKid (f : Trie → Trie) (s : Step) : List (Step × Trie) → List (Step × Trie)
  | [] => [(s, f Trie.empty)]
  | (s', c) :: rest => if s' = s then (s', f c) :: rest else (s', c) :: updKid f s rest

def findKid (s : Step) : List (Step × Trie) → Option Trie
  | [] => none
  | (s', c) :: rest => if s' = s then some c else findKid s rest

/-- `PointerTreeNode::add_path(path, order)` -/
def Trie.insert (idx : Nat) : List Step → Trie → Trie
  | [], .node o kids => .node (o ++ [idx]) kids
  | s :: rest, .node o kids => .node o (updKid (Trie.insert idx rest) s kids)

/-- the node a path leads to -/
def Trie.at : List Step → Trie → Option Trie
  | [], t => some t
  | s :: rest, .node _ kids => match findKid s kids with
    | some c => Trie.at rest c
    | none => none

/-- the slots registered at the end of a path -/
def orderAt (t : Trie) (q : List Step) : List Nat :=
  match t.at q with
  | some n => n.order
  | none => []

/-- `PointerTree::add_path` for every path in turn (`size` counts them) -/
def buildFrom (t : Trie) (n : Nat) : List (List Step) → Trie
  | [] => t
  | p :: rest => buildFrom (t.insert n p) (n + 1) rest

def build (paths : List (List Step)) : Trie := buildFrom Trie.empty 0 paths

/-! ### slot bookkeeping of `get_many_rec` -/

/-- `for p in &node.order { if out[*p].is_none() { out[*p] = Some(lv); *remain -= 1 } }` -/
def fillSlots {α} (v : α) : List Nat → List (Option α) × Nat → List (Option α) × Nat
  | [], st => st
  | p :: rest, (out, remain) =>
    match out[p]? with
    | some none => fillSlots v rest (out.set p (some v), remain - 1)
    | _ => fillSlots v rest (out, remain)

def unfilled {α} (out : List (Option α)) : Nat := (out.filter Option.isNone).length

/-! ### `get_by_schema` on trees -/

def lookupJ (k : List UInt8) : List (List UInt8 × Json) → Option Json
  | [] => none
  | (k', v) :: r => if k' = k then some v else lookupJ k r

/-! ### the walker of `get_many_rec` / `get_many_keys` / `get_many_index`, on the tree the text denotes

  The text scanning (`skip_one`, `parse_str`, separators) is C02/C10's subject; here the document is
  the specification's tree and a recorded value is the subtree (its span in the implementation).
  `none` = the call fails (not an object/array where the path set needs one, empty container,
  index beyond the array). -/

abbrev WSt := List (Option Json) × Nat      -- `out`, `remain`

/-- first child of a node decides `PointerTreeInner::{Empty, Index, Key}` -/
inductive Kind where | empty | index | key
  deriving DecidableEq, Repr

def kindOf : List (Step × Trie) → Kind
  | [] => .empty
  | (.idx _, _) :: _ => .index
  | (.key _, _) :: _ => .key

mutual
def walk : Trie → Json → WSt → Option WSt
  | t, v, st =>
    if st.2 = 0 then some st                      -- `if *remain == 0 { return Ok(()) }`
    else (walkKids t.kids v st).map fun st' => fillSlots v t.order st'
/-- the `match &node.children` -/
def walkKids : List (Step × Trie) → Json → WSt → Option WSt
  | kids, .arr (x :: xs), st =>
    (match kindOf kids with
     | .empty => some st                          -- skip_one
     | .index =>
       (walkElems kids (x :: xs) 0 0 st).bind fun r =>
         if r.2 < kids.length then none else some r.1            -- GetIndexOutOfArray
     | .key => none)                              -- not an object
  | kids, .obj (m :: ms), st =>
    (match kindOf kids with
     | .empty => some st
     | .key => walkMembers kids (m :: ms) st
     | .index => none)                            -- not an array
  | kids, _, st =>
    (match kindOf kids with
     | .empty => some st
     | _ => none)                                 -- scalar / GetInEmptyArray / GetInEmptyObject
def walkElems (kids : List (Step × Trie)) : List Json → Nat → Nat → WSt → Option (WSt × Nat)
  | [], _, visited, st => some (st, visited)
  | x :: rest, index, visited, st =>
    match findKid (.idx index) kids with
    | some c =>
      (match walk c x st with
       | none => none
       | some st' => if st'.2 = 0 then some (st', visited + 1)
                     else walkElems kids rest (index + 1) (visited + 1) st')
    | none => walkElems kids rest (index + 1) visited st
def walkMembers (kids : List (Step × Trie)) : List (List UInt8 × Json) → WSt → Option WSt
  | [], st => some st
  | (k, x) :: rest, st =>
    match findKid (.key k) kids with
    | some c =>
      (match walk c x st with
       | none => none
       | some st' => if st'.2 = 0 then some st' else walkMembers kids rest st')
    | none => walkMembers kids rest st
end

/-- `get_many`: all slots empty, `remain = size` -/
def getMany (paths : List (List Step)) (doc : Json) : Option (List (Option Json)) :=
  (walk (build paths) doc (List.replicate paths.length none, paths.length)).map (·.1)

/-- the single-path lookup on the tree: first member with an equal key, n-th element -/
def lookJ : Json → List Step → Option Json
  | v, [] => some v
  | .obj ms, .key k :: r => (lookupJ k ms).bind fun x => lookJ x r
  | .arr xs, .idx n :: r => (xs[n]?).bind fun x => lookJ x r
  | _, _ => none

mutual
/-- the schema with every key present in the document replaced by the document's value
    (recursively for non-empty object schemas), every absent key left as it is -/
def fill : Json → Json → Json
  | .obj (sm :: sms), .obj dms => .obj (fillM (sm :: sms) dms)
  | _, d => d
def fillM : List (List UInt8 × Json) → List (List UInt8 × Json) → List (List UInt8 × Json)
  | [], _ => []
  | (k, sv) :: rest, dms =>
    (match lookupJ k dms with
     | some dv => (k, fill sv dv)
     | none => (k, sv)) :: fillM rest dms
end

end Many
end Sonic
