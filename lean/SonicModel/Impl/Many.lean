/-
  Multi-path extraction (`src/pointer/tree.rs`, `src/parser.rs: get_many_rec`) — the path trie with
  per-node result slots, and the slot bookkeeping of the walker; and the specification of
  `get_by_schema` on trees.
-/
import SonicModel.Spec.Lookup
import SonicModel.Spec.Tree
namespace Sonic
namespace Many
open Spec

/-- `PointerTreeNode`: the indices (insertion order) of the paths ending here, and the children -/
inductive Trie where
  | node (order : List Nat) (kids : List (Step × Trie))
  deriving Inhabited

def Trie.empty : Trie := .node [] []
def Trie.order : Trie → List Nat
  | .node o _ => o
def Trie.kids : Trie → List (Step × Trie)
  | .node _ k => k

/-- update the child under `s` (created empty when absent): `entry(s).or_insert(default)` -/
def updKid (f : Trie → Trie) (s : Step) : List (Step × Trie) → List (Step × Trie)
  | [] => [(s, f Trie.empty)]
  | (s', c) :: rest => if s' = s then (s', f c) :: rest else (s', c) :: updKid f s rest

def findKid (s : Step) : List (Step × Trie) → Option Trie
  | [] => none
  | (s', c) :: rest => if s' = s then some c else findKid s rest

/-- `PointerTreeNode::add_path(path, order)` -/
def Trie.insert (idx : Nat) : List Step → Trie → Trie
  | [], .node o kids => .node (o ++ [idx]) kids
  | s :: rest, .node o kids => .node o (updKid (Trie.insert idx rest) s kids)

/-- the node a path leads to -/
def Trie.at : List Step → Trie → Option Trie
  | [], t => some t
  | s :: rest, .node _ kids => match findKid s kids with
    | some c => Trie.at rest c
    | none => none

/-- the slots registered at the end of a path -/
def orderAt (t : Trie) (q : List Step) : List Nat :=
  match t.at q with
  | some n => n.order
  | none => []

/-- `PointerTree::add_path` for every path in turn (`size` counts them) -/
def buildFrom (t : Trie) (n : Nat) : List (List Step) → Trie
  | [] => t
  | p :: rest => buildFrom (t.insert n p) (n + 1) rest

def build (paths : List (List Step)) : Trie := buildFrom Trie.empty 0 paths

/-! ### slot bookkeeping of `get_many_rec` -/

/-- `for p in &node.order { if out[*p].is_none() { out[*p] = Some(lv); *remain -= 1 } }` -/
def fillSlots {α} (v : α) : List Nat → List (Option α) × Nat → List (Option α) × Nat
  | [], st => st
  | p :: rest, (out, remain) =>
    match out[p]? with
    | some none => fillSlots v rest (out.set p (some v), remain - 1)
    | _ => fillSlots v rest (out, remain)

def unfilled {α} (out : List (Option α)) : Nat := (out.filter Option.isNone).length

/-! ### `get_by_schema` on trees -/

def lookupJ (k : List UInt8) : List (List UInt8 × Json) → Option Json
  | [] => none
  | (k', v) :: r => if k' = k then some v else lookupJ k r

mutual
/-- the schema with every key present in the document replaced by the document's value
    (recursively for non-empty object schemas), every absent key left as it is -/
def fill : Json → Json → Json
  | .obj (sm :: sms), .obj dms => .obj (fillM (sm :: sms) dms)
  | _, d => d
def fillM : List (List UInt8 × Json) → List (List UInt8 × Json) → List (List UInt8 × Json)
  | [], _ => []
  | (k, sv) :: rest, dms =>
    (match lookupJ k dms with
     | some dv => (k, fill sv dv)
     | none => (k, sv)) :: fillM rest dms
end

end Many
end Sonic
