/-
  Layer 2 — `skip_space` of src/parser.rs with its cached whitespace bitmap (`nospace_bits`, `nospace_start`):

    1. two bytewise tries (`reader.next()`),
    2. the cached bitmap of the 64-byte window starting at `nospace_start`, if the reader still stands inside it: lanes
       below the reader are masked off, the first remaining lane is the answer; otherwise the reader jumps behind the window,
    3. 64-byte blocks (`get_nonspace_bits`), the first block with a non-blank byte becomes the new cached window,
    4. bytewise over the last bytes.

  The state is what the real parser keeps between calls; `skip_space_peek` steps back over the byte it found; `eat` moves the
  reader forward (every other parser operation does that with respect to this cache).
-/
import SonicModel.Impl.Simd
namespace Sonic
namespace Space
open Simd

structure St where
  idx : Nat
  bits : Nat            -- `nospace_bits` (u64)
  start : Int           -- `nospace_start` (isize; -128 at first)
  deriving Repr, DecidableEq, Inhabited

def init : St := { idx := 0, bits := 0, start := -128 }

/-- the 64 bytes of the window at `i` -/
def window (buf : Buf) (i : Nat) : List UInt8 := (buf.toList.drop i).take 64

/-- `get_nonspace_bits` -/
def nsBits (buf : Buf) (i : Nat) : Nat := maskOf (fun b => !isWs b) (window buf i)

/-- the bytewise loop `while let Some(ch) = reader.next()` -/
def bytewise (buf : Buf) (i : Nat) : Option UInt8 × Nat :=
  let j := skipWs buf i
  match buf[j]? with
  | some c => (some c, j + 1)
  | none => (none, j)

/-- the block loop `while let Some(chunk) = reader.peek_n(64)`; `some (c, newIdx, bits, start)` = found in a block -/
def blocks (buf : Buf) : Nat → Nat → Option (UInt8 × Nat × Nat × Nat) ⊕ Nat
  | 0, i => .inr i
  | f+1, i =>
    if i + 64 ≤ buf.size then
      let bm := nsBits buf i
      if bm ≠ 0 then
        let cnt := tzF 64 bm
        .inl (some (buf[i + cnt]?.getD 0, i + cnt + 1, bm, i))
      else blocks buf f (i + 64)
    else .inr i

/-- `skip_space`: the byte found (or `None`) and the parser state afterwards -/
def skipSpace (buf : Buf) (st : St) : Option UInt8 × St :=
  -- fast path 1: two bytes
  match buf[st.idx]? with
  | some c0 =>
    if !isWs c0 then (some c0, { st with idx := st.idx + 1 })
    else
      match buf[st.idx + 1]? with
      | some c1 =>
        if !isWs c1 then (some c1, { st with idx := st.idx + 2 })
        else rest buf { st with idx := st.idx + 2 }
      | none => rest buf { st with idx := st.idx + 1 }
  | none => rest buf st
where
  /-- fast path 2 and the loops -/
  rest (buf : Buf) (st : St) : Option UInt8 × St :=
    let off : Int := (st.idx : Int) - st.start
    let st2 : Option (Option UInt8 × St) ⊕ St :=
      if off < 64 then
        let bitmap := (st.bits / 2 ^ off.toNat) * 2 ^ off.toNat      -- `nospace_bits & !((1 << off) - 1)`
        if bitmap ≠ 0 then
          let cnt := tzF 64 bitmap
          .inl (some (buf[st.start.toNat + cnt]?, { st with idx := st.start.toNat + cnt + 1 }))
        else .inr { st with idx := st.start.toNat + 64 }
      else .inr st
    match st2 with
    | .inl (some r) => r
    | .inl none => (none, st)
    | .inr st =>
      match blocks buf (buf.size / 64 + 1) st.idx with
      | .inl (some (c, j, bm, s)) => (some c, { idx := j, bits := bm, start := (s : Int) })
      | .inl none => (none, st)
      | .inr i =>
        let r := bytewise buf i
        (r.1, { st with idx := r.2 })

/-- `skip_space_peek` -/
def skipSpacePeek (buf : Buf) (st : St) : Option UInt8 × St :=
  match skipSpace buf st with
  | (some c, st') => (some c, { st' with idx := st'.idx - 1 })
  | (none, st') => (none, st')

/-- `reader.eat(n)` (bounded by the input, as the harness drives it) -/
def eat (buf : Buf) (st : St) (n : Nat) : St := { st with idx := st.idx + min n (buf.size - st.idx) }

end Space
end Sonic
