/-
  Layer 1 — the decoding parser behind `from_str::<Value>` (src/parser.rs `parse_value`,
  `parse_array`, `parse_object`, `parse_number_inplace`, `parse_string_inplace`,
  `parse_literal_visit`), as the tree of visitor events it emits (the node stack that turns the
  events into arena nodes is `Impl/Dom.lean`).  Numbers go through the digit machine of
  `Impl/Num.lean`; whether a float request is finite is the float back end's answer, which is not
  modelled: `Spec.finite` of the literal stands for it (the same trusted part as in C07).
  Strings and member names go through the decoder of `Impl/Str.lean`.
-/
import SonicModel.Impl.Num
import SonicModel.Impl.Str
import SonicModel.Impl.Skip
import SonicModel.Spec.Tree
import SonicModel.Spec.Num
namespace Sonic
namespace DomP
open Gen Spec Impl

inductive DRes where
  | ok (t : Json) (e : Nat)
  | err (code : Code) (idx : Nat)
  | fuel
  deriving Repr, Inhabited

/-- `parse_number_inplace(first)`: reader `j` just after the first byte `c` of the number -/
def numAt (buf : Buf) (c : UInt8) (j : Nat) : DRes :=
  let neg := c == 45
  let start := j - 1
  let now := if neg then j else j - 1
  match parseNumber buf Gen.expAccBound now neg with
  | (.invalid, k) => .err .InvalidNumber k
  | (.toFloat _ _ _ _, k) => if Spec.finite buf start k then .ok (.num start k) k else .err .FloatMustBeFinite k
  | (_, k) => .ok (.num start k) k

/-- `parse_string_inplace`: reader just after the opening quote -/
def strAt (buf : Buf) (j : Nat) : DRes :=
  match decodeFrom false buf j with
  | .ok bs e _ => .ok (.str bs) e
  | .err c p => .err c p

/-- `parse_literal_visit(first)`: reader just after the first byte -/
def litAtP (buf : Buf) (c : UInt8) (j : Nat) : DRes :=
  let go (rest : List UInt8) (t : Json) : DRes :=
    match parseLiteral buf j rest with
    | .ok e => .ok t e
    | .err c p => .err c p
    | .fuel => .fuel
  if c == 116 then go [114, 117, 101] (.bool true)
  else if c == 102 then go [97, 108, 115, 101] (.bool false)
  else if c == 110 then go [117, 108, 108] .null
  else .err .InvalidJsonValue j

mutual
/-- the `match first { … }` of `parse_value` / `parse_array` with `parse_array` / `parse_object` up to their loops
    inlined: `first` = what `skip_space` returned -/
def dispatch : Nat → Buf → Option (UInt8 × Nat) → DRes
  | 0, _, _ => .fuel
  | _+1, buf, none => .err .EofWhileParsing buf.size
  | f+1, buf, some (c, j) =>
    if c == 45 || isDigit c then numAt buf c j
    else if c == 34 then strAt buf j
    else if c == 123 then
      -- `parse_object`, reader just after `{`
      match skipSpace buf j with
      | some (c2, j2) =>
        if c2 == 125 then .ok (.obj []) j2
        else if c2 == 34 then objLoop f buf j2 []
        else .err .ExpectObjectKeyOrEnd j2
      | none => .err .ExpectObjectKeyOrEnd buf.size
    else if c == 91 then
      -- `parse_array`, reader just after `[`
      match skipSpace buf j with
      | some (c2, j2) => if c2 == 93 then .ok (.arr []) j2 else arrLoop f buf (some (c2, j2)) []
      | none => arrLoop f buf none []
    else litAtP buf c j
/-- the `loop` of `parse_array` -/
def arrLoop : Nat → Buf → Option (UInt8 × Nat) → List Json → DRes
  | 0, _, _, _ => .fuel
  | f+1, buf, first, acc =>
    match dispatch f buf first with
    | .ok t e =>
      match skipSpace buf e with
      | some (c, j) =>
        if c == 93 then .ok (.arr (acc ++ [t])) j
        else if c == 44 then arrLoop f buf (skipSpace buf j) (acc ++ [t])
        else .err .ExpectedArrayCommaOrEnd j
      | none => .err .ExpectedArrayCommaOrEnd buf.size
    | r => r
/-- the `loop` of `parse_object`, reader just after the opening quote of a member name -/
def objLoop : Nat → Buf → Nat → List (List UInt8 × Json) → DRes
  | 0, _, _, _ => .fuel
  | f+1, buf, q, acc =>
    match decodeFrom false buf q with
    | .err c p => .err c p
    | .ok name e1 _ =>
      match parseObjectClo buf e1 with
      | .ok v =>
        match dispatch f buf (skipSpace buf v) with
        | .ok t e =>
          match skipSpace buf e with
          | some (c, j) =>
            if c == 125 then .ok (.obj (acc ++ [(name, t)])) j
            else if c == 44 then
              match skipSpace buf j with
              | some (c2, j2) => if c2 == 34 then objLoop f buf j2 (acc ++ [(name, t)]) else .err .ExpectObjectKeyOrEnd j2
              | none => .err .ExpectObjectKeyOrEnd buf.size
            else .err .ExpectedArrayCommaOrEnd j
          | none => .err .ExpectedArrayCommaOrEnd buf.size
        | r => r
      | .err c p => .err c p
      | .fuel => .fuel
end

/-- `parse_value`: reader at `i`, leading whitespace not yet skipped -/
def value (f : Nat) (buf : Buf) (i : Nat) : DRes := dispatch f buf (skipSpace buf i)

/-- `from_slice::<Value>` on valid UTF-8: the value, then only whitespace -/
def document (buf : Buf) : Option Json :=
  match value (Spec.fuelFor buf) buf 0 with
  | .ok t e => if skipWs buf e = buf.size then some t else none
  | _ => none

end DomP
end Sonic
