/-
  Publication of a lazily built object through an atomic pointer, in a view-based release/acquire
  memory model (the fragment of the C++/Rust model that matters here).

  Two locations: `data` (the fields of the boxed `Parsed` / `Arc<String>`, written non-atomically while the
  object is built) and `ptr` (the `AtomicPtr`).  Each location has a history of messages, here the
  timestamps 0 (initial: data uninitialised, pointer null) and 1 (the publisher's write).  A thread has a
  *view*: for each location the newest timestamp it is aware of; it may read any message of a location
  that is not older than its view of it.  A release write (the successful `compare_exchange(.., AcqRel, ..)`)
  attaches the writer's view to its message; an acquire read joins the attached view into the reader's
  view; a relaxed read does not.
-/
import SonicModel.Gen.Orderings
namespace Sonic
namespace Visibility
open Gen

structure View where
  data : Nat
  ptr : Nat
  deriving Repr, DecidableEq

def View.join (a b : View) : View := ⟨max a.data b.data, max a.ptr b.ptr⟩

/-- the view attached to the pointer message written by the publisher -/
def publishedView (casSuccess : MemOrd) : View :=
  match casSuccess with
  | .release | .acqRel | .seqCst => ⟨1, 1⟩    -- the publisher built the object (data@1) before the CAS
  | _ => ⟨0, 1⟩                                 -- a relaxed / acquire-only CAS publishes nothing else

def isAcquire : MemOrd → Bool
  | .acquire | .acqRel | .seqCst => true
  | _ => false

/-- the reader: starts unaware of the publisher's writes, loads the pointer (message `tp ∈ {0,1}` — both
    are allowed once the pointer message exists), and if it is non-null reads the object's data
    (message `td`, allowed iff not older than the reader's view).  Result: `none` = this choice of
    messages is not an allowed execution; `some (p, d)` = pointer value read and data value read
    (`d = 0`: uninitialised memory). -/
def reader (loadOrd casSuccess : MemOrd) (tp td : Nat) : Option (Nat × Nat) :=
  let v0 : View := ⟨0, 0⟩
  if tp > 1 ∨ td > 1 then none
  else
    let v1 : View := if tp = 1 ∧ isAcquire loadOrd then v0.join (publishedView casSuccess) else ⟨v0.data, max v0.ptr tp⟩
    if tp = 0 then some (0, 0)                      -- null: the reader builds its own object
    else if td < v1.data then none                  -- an older data message may not be read any more
    else some (1, td)

end Visibility
end Sonic
