/-
  Entry-point compositions (`from_trait` in src/serde/de.rs) on top of the Layer 1 models.
-/
import SonicModel.Impl.Skip
import SonicModel.Spec.Grammar
namespace Sonic
namespace Impl
open Gen

/-- result of an entry point: accepted with the raw span of the value, or rejected with the
    final error code and offset (`Error::offset()`) -/
inductive Verdict where
  | accept (s e : Nat)
  | reject (code : Code) (off : Nat)
  | fuel
  deriving Repr, DecidableEq, Inhabited

/-- `Read::new(json, validate)` : `next_invalid_utf8` -/
def nextInvalid (validate : Bool) (buf : Buf) : Option Nat :=
  if validate then
    let p := Spec.utf8FirstInvalid buf 0
    if p < buf.size then some p else none
  else none

/-- `from_slice::<LazyValue>` / `::<IgnoredAny>` / `::<OwnedLazyValue>`(strict): `skip_one`, then
    `parse_trailing`, then `check_utf8_final` (checked reader, `len = buf.size`) -/
def lazyFrom (validate : Bool) (buf : Buf) : Verdict :=
  let inv := nextInvalid validate buf
  let len := buf.size
  match skipOne len (fuelFor buf) buf 0 with
  | .fuel => .fuel
  | .err c idx => let (c', o) := finalError len inv c idx; .reject c' o
  | .ok e =>
    match parseTrailing buf len e with
    | .fuel => .fuel
    | .err c idx => let (c', o) := finalError len inv c idx; .reject c' o
    | .ok _ =>
      match inv with
      | some p => .reject .InvalidUTF8 p
      | none => .accept (skipWs buf 0) e

end Impl
end Sonic
