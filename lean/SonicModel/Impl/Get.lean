/-
  Layer 1 — the checked path walkers of src/parser.rs (`get_from_object_checked`,
  `get_from_array_checked`, `get_from_with_iter`) and the lazy iterators' step functions
  (`parse_array_elem_lazy`, `parse_entry_lazy`, checked).  Same branch order and error codes as
  the Rust code; the "wrong kind" branch (`peek_invalid_type`) is abstracted to one error.
-/
import SonicModel.Impl.Skip
import SonicModel.Impl.Str
import SonicModel.Spec.Lookup
namespace Sonic
namespace Impl
open Gen Spec

/-- the loop of `get_from_object_checked`: reader just after the opening quote of a member name;
    `ok v` = reader stands just after the colon of the matching member -/
def getObjLoop (len : Nat) (buf : Buf) (k : List UInt8) (i : Nat) : IRes :=
  match decodeFrom false buf i with            -- parse_string_raw
  | .err c p => .err c p
  | .ok name e _ =>
    match parseObjectClo buf e with
    | .ok v =>
      if name = k then .ok v
      else match skipOne len (fuelFor buf) buf v with
        | .ok e2 =>
          match skipSpace buf e2 with
          | none => .err .EofWhileParsing (eofIdx buf e2)
          | some (c, j) =>
            if c == 125 then .err .GetUnknownKeyInObject j
            else if c == 44 then
              match skipSpace buf j with
              | some (c2, j2) =>
                if c2 == 34 then (if _hlt : i < j2 ∧ i < buf.size then getObjLoop len buf k j2 else .fuel)
                else .err .ExpectObjectKeyOrEnd j2
              | none => .err .ExpectObjectKeyOrEnd (eofIdx buf j)
            else .err .ExpectedObjectCommaOrEnd j
        | r => r
    | r => r
termination_by buf.size - i
decreasing_by omega

/-- `get_from_object_checked(key)`; `wrong` = the `peek_invalid_type` branch -/
def getFromObjectChecked (len : Nat) (buf : Buf) (i : Nat) (k : List UInt8) : IRes :=
  match skipSpace buf i with
  | none => .err .EofWhileParsing (eofIdx buf i)
  | some (c, j) =>
    if c == 123 then
      match skipSpace buf j with
      | some (c2, j2) =>
        if c2 == 34 then getObjLoop len buf k j2
        else if c2 == 125 then .err .GetInEmptyObject j2
        else .err .ExpectObjectKeyOrEnd j2
      | none => .err .ExpectObjectKeyOrEnd (eofIdx buf j)
    else .err .Message j

/-- the `while count > 0` loop of `get_from_array_checked` -/
def getArrLoop (len : Nat) : Nat → Buf → Nat → IRes
  | 0, _, i => .ok i
  | n+1, buf, i =>
    match skipOne len (fuelFor buf) buf i with
    | .ok e =>
      match skipSpace buf e with
      | none => .err .EofWhileParsing (eofIdx buf e)
      | some (c, j) =>
        if c == 93 then .err .GetIndexOutOfArray j
        else if c == 44 then
          match skipSpace buf j with            -- skip_space_peek
          | none => .err .EofWhileParsing (eofIdx buf j)
          | some (_, j2) => getArrLoop len n buf (j2 - 1)
        else .err .ExpectedArrayCommaOrEnd j
    | r => r

/-- `get_from_array_checked(index)` -/
def getFromArrayChecked (len : Nat) (buf : Buf) (i : Nat) (n : Nat) : IRes :=
  match skipSpace buf i with
  | none => .err .EofWhileParsing (eofIdx buf i)
  | some (c, j) =>
    if c == 91 then
      match skipSpace buf j with                -- skip_space_peek
      | none => .err .EofWhileParsing (eofIdx buf j)
      | some (c2, j2) =>
        if c2 == 93 then .err .GetInEmptyArray (j2 - 1)
        else getArrLoop len n buf (j2 - 1)
    else .err .Message j

inductive GRes where
  | found (s e : Nat)
  | err (code : Code) (idx : Nat)
  | fuel
  deriving Repr, DecidableEq, Inhabited

/-- `get_from_with_iter(path)` then `skip_one` -/
def getChecked (len : Nat) (buf : Buf) (i : Nat) : List Step → GRes
  | [] =>
    match skipOne len (fuelFor buf) buf i with
    | .ok e => .found (skipWs buf i) e
    | .err c p => .err c p
    | .fuel => .fuel
  | .key k :: rest =>
    match getFromObjectChecked len buf i k with
    | .ok v => getChecked len buf v rest
    | .err c p => .err c p
    | .fuel => .fuel
  | .idx n :: rest =>
    match getFromArrayChecked len buf i n with
    | .ok v => getChecked len buf v rest
    | .err c p => .err c p
    | .fuel => .fuel

/-- `sonic_rs::get(slice, path)`: the walker, then UTF-8 validation of everything up to the end of
    the returned value -/
def getEntry (validate : Bool) (buf : Buf) (path : List Step) : GRes :=
  match getChecked buf.size buf 0 path with
  | .found s e =>
    if validate && Spec.utf8FirstInvalid buf 0 < e then .err .InvalidUTF8 (Spec.utf8FirstInvalid buf 0)
    else .found s e
  | r => r

/-! ### lazy iterators (checked): `parse_array_elem_lazy` / `parse_entry_lazy` -/

/-- one step of the checked array iterator. `first` as in the Rust code.
    `some (s, e, next)` = an item; `none` = end; error = `.inr` -/
def arrayElemLazy (len : Nat) (buf : Buf) (i : Nat) (first : Bool) : Except (Code × Nat) (Option (Nat × Nat × Nat)) :=
  -- `if *first && self.skip_space() != Some(b'[')`
  let start : Except (Code × Nat) Nat :=
    if first then
      match skipSpace buf i with
      | some (c, j) => if c == 91 then .ok j else .error (.ExpectedArrayStart, j)
      | none => .error (.ExpectedArrayStart, eofIdx buf i)
    else .ok i
  match start with
  | .error e => .error e
  | .ok i =>
    match skipSpace buf i with           -- skip_space_peek
    | none => .error (.ExpectedArrayCommaOrEnd, eofIdx buf i)
    | some (c, j) =>
      let go (from_ : Nat) : Except (Code × Nat) (Option (Nat × Nat × Nat)) :=
        match skipOne len (fuelFor buf) buf from_ with
        | .ok e => .ok (some (skipWs buf from_, e, e))
        | .err c p => .error (c, p)
        | .fuel => .error (.Message, 0)
      if c == 93 then .ok none
      else if c == 44 && !first then go j
      else if first then go (j - 1)
      else .error (.ExpectedArrayCommaOrEnd, j - 1)

/-- one step of the checked object iterator: `(decoded key, s, e, next)` -/
def entryLazy (len : Nat) (buf : Buf) (i : Nat) (first : Bool) :
    Except (Code × Nat) (Option (List UInt8 × Nat × Nat × Nat)) :=
  let start : Except (Code × Nat) Nat :=
    if first then
      match skipSpace buf i with
      | some (c, j) => if c == 123 then .ok j else .error (.ExpectedObjectStart, j)
      | none => .error (.ExpectedObjectStart, eofIdx buf i)
    else .ok i
  match start with
  | .error e => .error e
  | .ok i =>
    let afterQuote : Except (Code × Nat) (Option Nat) :=
      match skipSpace buf i with
      | none => .error (.ExpectedObjectCommaOrEnd, eofIdx buf i)
      | some (c, j) =>
        if c == 125 then .ok none
        else if c == 34 && first then .ok (some j)
        else if c == 44 && !first then
          match skipSpace buf j with
          | some (c2, j2) => if c2 == 34 then .ok (some j2) else .error (.ExpectObjectKeyOrEnd, j2)
          | none => .error (.ExpectObjectKeyOrEnd, eofIdx buf j)
        else .error (.ExpectedObjectCommaOrEnd, j)
    match afterQuote with
    | .error e => .error e
    | .ok none => .ok none
    | .ok (some q) =>
      match decodeFrom false buf q with     -- parse_str (UTF-8 was validated up front)
      | .err c p => .error (c, p)
      | .ok name e _ =>
        match parseObjectClo buf e with
        | .ok v =>
          match skipOne len (fuelFor buf) buf v with
          | .ok e2 => .ok (some (name, skipWs buf v, e2, e2))
          | .err c p => .error (c, p)
          | .fuel => .error (.Message, 0)
        | .err c p => .error (c, p)
        | .fuel => .error (.Message, 0)

end Impl
end Sonic

namespace Sonic
namespace Impl
open Gen Spec

/-- draining the checked array iterator (`next_elem_impl` until `None`/error, with the `ending`
    latch): the spans yielded and whether the sequence ended cleanly.  The guard always holds (an
    item is non-empty); it only makes termination evident. -/
def drainArr (buf : Buf) (i : Nat) (first : Bool) : List (Nat × Nat) × Bool :=
  match arrayElemLazy buf.size buf i first with
  | .error _ => ([], false)
  | .ok none => ([], true)
  | .ok (some (s, e, nx)) =>
    if _h : i < nx ∧ i < buf.size then
      ((s, e) :: (drainArr buf nx false).1, (drainArr buf nx false).2)
    else ([(s, e)], false)
termination_by buf.size - i
decreasing_by all_goals omega

/-- draining the checked object iterator -/
def drainObj (buf : Buf) (i : Nat) (first : Bool) : List (List UInt8 × Nat × Nat) × Bool :=
  match entryLazy buf.size buf i first with
  | .error _ => ([], false)
  | .ok none => ([], true)
  | .ok (some (k, s, e, nx)) =>
    if _h : i < nx ∧ i < buf.size then
      ((k, s, e) :: (drainObj buf nx false).1, (drainObj buf nx false).2)
    else ([(k, s, e)], false)
termination_by buf.size - i
decreasing_by all_goals omega

end Impl
end Sonic
