/-
  Layer 2 — the bit-parallel block primitives of the unchecked container skipper
  (`src/parser.rs`: `get_escaped_branchless_u64`, `get_string_bits`, `skip_container_loop`,
  `skip_container`), one 64-byte block at a time, with the state carried between blocks.
  Masks are `BitVec 64` (bit `i` = byte `i` of the block), counters are unbounded.
-/
import SonicModel.Impl.Simd
namespace Sonic
namespace Block
open Simd

def EVEN : BitVec 64 := 0x5555555555555555#64

/-- `get_escaped_branchless_u64(prev_escaped, backslash)`: the mask of escaped bytes and the new carry -/
def getEscaped (prev bs : BitVec 64) : BitVec 64 × BitVec 64 :=
  let backslash := bs &&& ~~~prev
  let follows := (backslash <<< 1) ||| prev
  let oddStarts := backslash &&& ~~~EVEN &&& ~~~follows
  let sum := oddStarts + backslash
  -- `overflowing_add`: the carry out of bit 63
  let overflow : BitVec 64 := if (BitVec.setWidth 65 oddStarts + BitVec.setWidth 65 backslash).getLsbD 64 then 1#64 else 0#64
  let invert := sum <<< 1
  ((EVEN ^^^ invert) &&& follows, overflow)

/-- `get_string_bits`: in-string mask, new `prev_instring` (all ones / zero), new `prev_escaped` -/
def stringBits (bs quote prevIn prevEsc : BitVec 64) : BitVec 64 × BitVec 64 × BitVec 64 :=
  let esc := if bs ≠ 0#64 then getEscaped prevEsc bs else (prevEsc, 0#64)
  let q := quote &&& ~~~esc.1
  let inStr := pxor q ^^^ prevIn
  let prevIn' : BitVec 64 := if inStr.getLsbD 63 then BitVec.allOnes 64 else 0#64   -- `(in_string as i64 >> 63) as u64`
  (inStr, prevIn', esc.2)

/-- `count_ones`, bit by bit from the low end -/
def pc : Nat → BitVec 64 → Nat
  | 0, _ => 0
  | n+1, x => (if x.getLsbD 0 then 1 else 0) + pc n (x >>> 1)
def popcount (x : BitVec 64) : Nat := pc 64 x
/-- `trailing_zeros` (64 for zero) -/
def tzr : Nat → BitVec 64 → Nat
  | 0, _ => 0
  | n+1, x => if x.getLsbD 0 then 0 else 1 + tzr n (x >>> 1)
def tz (x : BitVec 64) : Nat := tzr 64 x

/-- the `while rbrace != 0` loop of `skip_container_loop` (`l0` = left braces before this block, `r` = right
    braces so far): `some n` = closed, `n` bytes of the block consumed; and the counters -/
def braceLoop : Nat → BitVec 64 → BitVec 64 → Nat → Nat → Option Nat × Nat × Nat
  | 0, _, lbrace, l0, r => (none, l0 + popcount lbrace, r)
  | fuel+1, rbrace, lbrace, l0, r =>
    if rbrace = 0#64 then (none, l0 + popcount lbrace, r)
    else
      let l := l0 + popcount (lbrace &&& (rbrace - 1#64))
      if l < r + 1 then (some (tz rbrace + 1), l, r + 1)
      else braceLoop fuel (rbrace &&& (rbrace - 1#64)) lbrace l0 (r + 1)

structure St where
  prevIn : BitVec 64
  prevEsc : BitVec 64
  l : Nat
  r : Nat
  deriving Repr

def toMask (p : UInt8 → Bool) (block : List UInt8) : BitVec 64 := BitVec.ofNat 64 (maskOf p block)

/-- `skip_container_loop` on one block of (up to) 64 bytes -/
def containerBlock (block : List UInt8) (s : St) (left right : UInt8) : Option Nat × St :=
  let sb := stringBits (toMask (· == 92) block) (toMask (· == 34) block) s.prevIn s.prevEsc
  let rbrace := toMask (· == right) block &&& ~~~sb.1
  let lbrace := toMask (· == left) block &&& ~~~sb.1
  let res := braceLoop 64 rbrace lbrace s.l s.r
  (res.1, { prevIn := sb.2.1, prevEsc := sb.2.2, l := res.2.1, r := res.2.2 })

/-- `skip_container`: whole 64-byte blocks, then the zero-padded rest; result = bytes consumed -/
def skipContainer : Nat → List UInt8 → St → UInt8 → UInt8 → Nat → Option Nat
  | 0, _, _, _, _, _ => none
  | fuel+1, data, s, left, right, eaten =>
    if data.length ≥ 64 then
      match containerBlock (data.take 64) s left right with
      | (some n, _) => some (eaten + n)
      | (none, s') => skipContainer fuel (data.drop 64) s' left right (eaten + 64)
    else
      match containerBlock (data ++ List.replicate (64 - data.length) 0) s left right with
      | (some n, _) => some (eaten + n)
      | (none, _) => none

def St.init : St := ⟨0#64, 0#64, 0, 0⟩

end Block
end Sonic
