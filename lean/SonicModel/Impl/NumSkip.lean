import SonicModel.Impl.Skip
namespace Sonic
namespace Impl
open Gen

/-- Layer 2 — the 32-lane loop of `do_skip_number` (src/parser.rs): the reader stands at `i` inside the digits of a
    number, `isFloat` = a fraction has been seen.  A block is taken while 32 bytes remain (`peek_n(32)`); the mask of
    non-digit lanes and its trailing zero count are modelled by their meaning (`skipDigits`: the lane primitives are
    C17's); after a `.` the first fraction digit is checked with `skip_single_digit`, and the scan goes on in the same block
    with the shifted mask unless `cnt + 2` runs over the block (`continue` with `is_float = true`).
    `keep` = whether that early `continue` remembers the fraction (it does; `false` is the mutation of seeds C02c / C14c). -/
def numLoop (keep : Bool) (buf : Buf) : Nat → Nat → Bool → IRes
  | 0, _, _ => .fuel
  | f+1, i, isFloat =>
    if i + 32 ≤ buf.size then
      let cnt := skipDigits buf i - i
      if 32 ≤ cnt then numLoop keep buf f (i + 32) isFloat
      else
        let ch := buf[i + cnt]?
        if ch = some 46 && !isFloat then
          match skipSingleDigit buf (i + cnt + 1) with
          | .ok _ =>
            let cnt2 := cnt + 2
            if 32 ≤ cnt2 then numLoop keep buf f (i + cnt2) (keep || isFloat)
            else
              let off := skipDigits buf (i + cnt2) - (i + cnt2)
              if cnt2 + off < 32 then
                let ch2 := buf[i + cnt2 + off]?
                if isExpChar ch2 then skipExponent buf (i + cnt2 + off + 1)
                else .ok (i + cnt2 + off)
              else numLoop keep buf f (i + 32) true
          | r => r
        else if isExpChar ch then skipExponent buf (i + cnt + 1)
        else .ok (i + cnt)
    else numTail buf i isFloat


/-- `do_skip_number` with its 32-lane loop: as `numAfterFirst` / `doSkipNumber` (Impl/Skip.lean) with `numLoop` where those
    have the scalar scan -/
def numAfterFirstB (keep : Bool) (buf : Buf) (first : UInt8) (i : Nat) : IRes :=
  if first == 48 && isDigitAt buf i then .err .InvalidNumber i
  else
    match buf[i]? with
    | some c =>
      if isDigit c then numLoop keep buf buf.size (i+1) false
      else if c == 46 then
        match skipSingleDigit buf (i+1) with
        | .ok k => numLoop keep buf buf.size k true
        | r => r
      else if c == 101 || c == 69 then skipExponent buf (i+1)
      else .ok i
    | none => .ok i

def doSkipNumberB (keep : Bool) (buf : Buf) (first : UInt8) (i : Nat) : IRes :=
  if first == 45 then
    match skipSingleDigit buf i with
    | .ok k => numAfterFirstB keep buf (buf[i]?.getD 0) k
    | r => r
  else numAfterFirstB keep buf first i

end Impl
end Sonic
