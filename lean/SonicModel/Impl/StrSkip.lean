/-
  Layer 2 — `skip_string_unchecked` (`src/parser.rs`): the unchecked string skipper of the unchecked
  lookups and iterators and of the children of owned lazy values.  Reader just after the opening
  quote; 32 bytes at a time: the first quote that is not escaped ends the string (the escape mask is
  only computed when a backslash stands before the first quote of the block or the previous block
  ended in an unescaped backslash), then a scalar loop over the last < 32 bytes.
  Result: number of bytes consumed up to and including the closing quote; `none` = end of input.
-/
import SonicModel.Impl.Simd
namespace Sonic
namespace StrSkip
open Simd

def EVEN : BitVec 32 := 0x55555555#32

/-- `get_escaped_branchless_u32` -/
def getEscaped (prev bs : BitVec 32) : BitVec 32 × BitVec 32 :=
  let backslash := bs &&& ~~~prev
  let follows := (backslash <<< 1) ||| prev
  let oddStarts := backslash &&& ~~~EVEN &&& ~~~follows
  let sum := oddStarts + backslash
  let overflow : BitVec 32 := if (BitVec.setWidth 33 oddStarts + BitVec.setWidth 33 backslash).getLsbD 32 then 1#32 else 0#32
  let invert := sum <<< 1
  ((EVEN ^^^ invert) &&& follows, overflow)

def tzr : Nat → BitVec 32 → Nat
  | 0, _ => 0
  | n+1, x => if x.getLsbD 0 then 0 else 1 + tzr n (x >>> 1)
def tz (x : BitVec 32) : Nat := tzr 32 x

def toMask (p : UInt8 → Bool) (block : List UInt8) : BitVec 32 := BitVec.ofNat 32 (maskOf p block)

/-- one 32-byte block: `some n` = the closing quote is byte `n-1` of the block; the new carry; and
    whether the escape analysis ran (`status = HasEscaped`) -/
def block (bl : List UInt8) (prev : BitVec 32) : Option Nat × BitVec 32 × Bool :=
  let bs := toMask (· == 92) bl
  let quote := toMask (· == 34) bl
  let need := decide (((quote - 1#32) &&& bs) ≠ 0#32) || decide (prev ≠ 0#32)
  let esc := if need then getEscaped prev bs else (0#32, prev)
  let q := if need then quote &&& ~~~esc.1 else quote
  if q ≠ 0#32 then (some (tz q + 1), esc.2, need) else (none, esc.2, need)

/-- the scalar loop over the last bytes (fewer than 32); `st` = `status == HasEscaped` -/
def tail : Nat → List UInt8 → Nat → Bool → Option (Nat × Bool)
  | 0, _, _, _ => none
  | fuel+1, data, eaten, st =>
    match data with
    | [] => none
    | ch :: rest =>
      if ch == 92 then
        (if data.length < 2 then none else tail fuel (rest.drop 1) (eaten + 2) true)
      else if ch == 34 then some (eaten + 1, st)
      else tail fuel rest (eaten + 1) st

/-- `skip_string_unchecked` on the bytes after the opening quote: bytes consumed up to and including the
    closing quote, and the status (`true` = `HasEscaped`); `none` = end of input -/
def skipString : Nat → List UInt8 → BitVec 32 → Nat → Bool → Option (Nat × Bool)
  | 0, _, _, _, _ => none
  | fuel+1, data, prev, eaten, st =>
    if data.length ≥ 32 then
      match block (data.take 32) prev with
      | (some n, _, need) => some (eaten + n, st || need)
      | (none, prev', need) => skipString fuel (data.drop 32) prev' (eaten + 32) (st || need)
    else
      -- `if prev_escaped != 0 { r.eat(1) }`, then the scalar loop
      if prev ≠ 0#32 then tail (data.length + 1) (data.drop 1) (eaten + 1) st
      else tail (data.length + 1) data eaten st

end StrSkip
end Sonic
