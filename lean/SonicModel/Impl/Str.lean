/-
  Layer 1 — the copying string decoder of src/parser.rs (`parse_string_raw`,
  `parse_string_escaped`, `parse_escaped_char`, `parse_escaped_utf8`) and the helpers of
  src/util/unicode.rs (`hex_to_u32_nocheck` over the generated `DIGIT_TO_VAL32`,
  `codepoint_to_utf8`).  The in-place decoder of src/util/string.rs decodes the same language
  (`parse_string_inplace` / `handle_unicode_codepoint_mut`); its differences are the error codes.
-/
import SonicModel.Basic
import SonicModel.Gen.Tables
namespace Sonic
namespace Impl
open Gen

def d2v (i : Nat) : Nat := digitToVal32[i]?.getD 0

/-- `hex_to_u32_nocheck` (a value `≥ 2^16` means "not four hex digits") -/
def hexToU32 (a b c d : UInt8) : Nat :=
  d2v (hexOff0 + a.toNat) ||| d2v (hexOff1 + b.toNat) ||| d2v (hexOff2 + c.toNat) ||| d2v d.toNat

/-- `codepoint_to_utf8`: the bytes written (empty = the function returned 0) -/
def codepointToUtf8 (cp : Nat) : List UInt8 :=
  if cp ≤ 0x7F then [cp.toUInt8]
  else if cp ≤ 0x7FF then [(((cp >>> 6) + 192) &&& 0xFF).toUInt8, ((cp &&& 63) + 128).toUInt8]
  else if cp ≤ 0xFFFF then
    [(((cp >>> 12) + 224) &&& 0xFF).toUInt8, (((cp >>> 6) &&& 63) + 128).toUInt8, ((cp &&& 63) + 128).toUInt8]
  else if cp ≤ 0x10FFFF then
    [((cp >>> 18) + 240).toUInt8, (((cp >>> 12) &&& 63) + 128).toUInt8,
     (((cp >>> 6) &&& 63) + 128).toUInt8, ((cp &&& 63) + 128).toUInt8]
  else []

inductive DecRes where
  | ok (bytes : List UInt8) (e : Nat) (escaped : Bool)
  | err (code : Code) (idx : Nat)
  deriving Repr, DecidableEq, Inhabited

def hexAt (buf : Buf) (i : Nat) : Option Nat :=
  match buf[i]?, buf[i+1]?, buf[i+2]?, buf[i+3]? with
  | some a, some b, some c, some d => some (hexToU32 a b c d)
  | _, _, _, _ => none

/-- `parse_escaped_utf8` with the reader at `i` (just after `\u`): code point and new index.
    As repaired: the six bytes after a high surrogate are inspected with `peek_n` and consumed
    only when they are a low-surrogate escape. -/
def parseEscapedUtf8 (lossy : Bool) (buf : Buf) (i : Nat) : Except (Code × Nat) (Nat × Nat) :=
  match hexAt buf i with
  | none => .error (.EofWhileParsing, i)
  | some p1 =>
    let i := i + 4
    if 0xD800 ≤ p1 && p1 < 0xDC00 then
      let bad : Except (Code × Nat) (Nat × Nat) :=
        if lossy then .ok (0xFFFD, i) else .error (.InvalidSurrogateUnicodeCodePoint, i)
      if i + 6 ≤ buf.size then
        if buf[i]? = some 92 && buf[i+1]? = some 117 then
          match hexAt buf (i+2) with
          | none => bad
          | some p2 =>
            -- low_bit = point2.wrapping_sub(0xdc00); (low_bit >> 10) != 0  ⇒  not a low surrogate
            if 0xDC00 ≤ p2 && p2 < 0xE000 then .ok (0x10000 + ((p1 - 0xD800) <<< 10 ||| (p2 - 0xDC00)), i + 6)
            else if lossy then .ok (0xFFFD, i) else .error (.InvalidSurrogateUnicodeCodePoint, i)
        else if lossy then .ok (0xFFFD, i) else .error (.InvalidSurrogateUnicodeCodePoint, i)
      else bad
    else if 0xDC00 ≤ p1 && p1 < 0xE000 then
      if lossy then .ok (0xFFFD, i) else .error (.InvalidSurrogateUnicodeCodePoint, i)
    else .ok (p1, i)

/-- the decoder proper, reader at `i` inside the literal; `acc` = bytes decoded so far (reversed
    is avoided: the result is built on the way back) -/
def decodeFrom (lossy : Bool) (buf : Buf) (i : Nat) : DecRes :=
  if h : i < buf.size then
    let c := buf[i]
    if c == 34 then .ok [] (i+1) false
    else if c == 92 then
      match buf[i+1]? with
      | none => .err .EofWhileParsing (i+1)
      | some e =>
        if e == 117 then
          match parseEscapedUtf8 lossy buf (i+2) with
          | .error (c, p) => .err c p
          | .ok (cp, j) =>
            let bs := codepointToUtf8 cp
            if bs.isEmpty then .err .InvalidUnicodeCodePoint j
            else if i + 2 < j then
              match decodeFrom lossy buf j with
              | .ok rest k _ => .ok (bs ++ rest) k true
              | r => r
            else .err .InvalidUnicodeCodePoint j
        else if escapedTab[e.toNat]?.getD 0 != 0 then
          match decodeFrom lossy buf (i+2) with
          | .ok rest k _ => .ok ((escapedTab[e.toNat]?.getD 0) :: rest) k true
          | r => r
        else .err .InvalidEscape (i+2)
    else if c ≤ 0x1f then .err .ControlCharacterWhileParsingString i
    else
      match decodeFrom lossy buf (i+1) with
      | .ok rest k esc => .ok (c :: rest) k esc
      | r => r
  else .err .EofWhileParsing i
termination_by buf.size - i
decreasing_by all_goals omega

end Impl
end Sonic
