/-
  Lazy values (`src/lazyvalue/value.rs`, `src/lazyvalue/owned.rs`): a `LazyValue` is a span of its
  source text; what it reports is computed from that text alone.  An `OwnedLazyValue` is either such
  a raw text or a container parsed ONE level (`LazyRaw::parse` / `load_owned_lazyvalue`), whose
  members are again raw texts; it serializes raw texts verbatim.
-/
import SonicModel.Spec.Lookup
import SonicModel.Spec.Tree
import SonicModel.Spec.Render
namespace Sonic
namespace Lazy
open Spec

inductive Kind where
  | null | bool | number | string | array | object
  deriving Repr, DecidableEq, Inhabited

/-- `LazyValue::get_type`: by the first byte of the raw text -/
def kindOfByte (c : UInt8) : Option Kind :=
  if c == 45 || isDigit c then some .number
  else if c == 34 then some .string
  else if c == 123 then some .object
  else if c == 91 then some .array
  else if c == 116 || c == 102 then some .bool
  else if c == 110 then some .null
  else none

/-- `LazyValue::as_bool`: the raw text is exactly `true` / `false` -/
def asBool (raw : List UInt8) : Option Bool :=
  if raw = [116, 114, 117, 101] then some true
  else if raw = [102, 97, 108, 115, 101] then some false
  else none

def kindOfJson : Json → Kind
  | .null => .null
  | .bool _ => .bool
  | .num _ _ => .number
  | .str _ => .string
  | .arr _ => .array
  | .obj _ => .object

/-- an `OwnedLazyValue` as far as its serialization is concerned -/
inductive OL where
  | raw (text : List UInt8)                 -- Raw / NonEscStrRaw / parsed scalar: written verbatim
  | str (s : List UInt8)                    -- a string built by `to_lazyvalue` / `From`
  | arr (xs : List OL)                      -- Parsed(LazyArray)
  | obj (ms : List (List UInt8 × OL))       -- Parsed(LazyObject): keys decoded, written escaped again
  deriving Repr, Inhabited

def joinComma : List (List UInt8) → List UInt8
  | [] => []
  | [x] => x
  | x :: rest => x ++ [44] ++ joinComma rest

mutual
def ser : OL → List UInt8
  | .raw t => t
  | .str s => quoted s
  | .arr xs => [91] ++ joinComma (serL xs) ++ [93]
  | .obj ms => [123] ++ joinComma (serM ms) ++ [125]
def serL : List OL → List (List UInt8)
  | [] => []
  | x :: r => ser x :: serL r
def serM : List (List UInt8 × OL) → List (List UInt8)
  | [] => []
  | (k, x) :: r => (quoted k ++ [58] ++ ser x) :: serM r
end

/-- `LazyRaw::parse`: one level of a raw container text (which starts at its first byte) -/
def load1 (text : List UInt8) : Option OL :=
  let buf := text.toArray
  match (buf[0]? : Option UInt8) with
  | some (91 : UInt8) =>
    let (items, ok) := arrayItems buf 0
    if ok then some (.arr (items.map fun (s, e) => .raw (buf.extract s e).toList)) else none
  | some (123 : UInt8) =>
    let (items, ok) := objectItems buf 0
    if ok then some (.obj (items.map fun (k, s, e) => (k, .raw (buf.extract s e).toList))) else none
  | _ => none

end Lazy
end Sonic
