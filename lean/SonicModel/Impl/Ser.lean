/-
  Layer 1 — the serializer of src/serde/ser.rs + src/format.rs over the serde data model, and the
  writers of src/writer.rs as small state machines.

  A serializable value is abstracted to `SV` (what `Serialize` impls feed to the serializer).
  `events fmt v` is the sequence of writer calls the serializer performs: ordinary `write_all`s and
  the `reserve_with`/`flush_len` pair used by `write_string_fast`.  Number texts produced by
  itoa/ryu are carried as bytes (`SV.num`), see C08 for their contract.
-/
import SonicModel.Basic
import SonicModel.Spec.Render
namespace Sonic
namespace Impl

/-- map keys as the `MapKeySerializer` accepts them -/
inductive SKey where
  | str (s : List UInt8)            -- str / char / unit variant
  | num (text : List UInt8)         -- integer or finite float: written between quotes
  | bool (b : Bool)
  | bad                             -- anything else: `key must be a string or number` error
  deriving Repr, Inhabited, DecidableEq

inductive SV where
  | null                                      -- unit, None, unit struct, non-finite float
  | bool (b : Bool)
  | num (text : List UInt8)                   -- integer of any width / finite float: itoa / ryu text
  | str (s : List UInt8)                      -- str, char, unit variant
  | seq (xs : List SV)                        -- seq, tuple, tuple struct, bytes (as numbers)
  | map (ms : List (SKey × SV))               -- map, struct
  | variant (name : List UInt8) (v : SV)      -- newtype / tuple / struct variant: {"name": v}
  deriving Repr, Inhabited

/-- one call on the writer -/
inductive WEvent where
  | write (bs : List UInt8)             -- `write_all`
  | reserveCommit (bs : List UInt8)     -- `reserve_with(6n+35)`, `format_string`, `flush_len(cnt)`
  | ws (bs : List UInt8)                -- `write_all` of indentation whitespace (pretty formatter)
  deriving Repr, Inhabited, DecidableEq

def WEvent.bytes : WEvent → List UInt8
  | .write b => b
  | .reserveCommit b => b
  | .ws b => b

def flatten (evs : List WEvent) : List UInt8 := evs.flatMap WEvent.bytes

/-- formatter: `none` = compact, `some indent` = pretty with that indent unit -/
abbrev Fmt := Option (List UInt8)

def indentOf (fmt : Fmt) (depth : Nat) : List WEvent :=
  match fmt with
  | none => []
  | some unit => [.ws (10 :: (List.replicate depth unit).flatten)]

def strEv (s : List UInt8) : WEvent := .reserveCommit (Spec.quoted s)

def keyEvents (k : SKey) : Option (List WEvent) :=
  match k with
  | .str s => some [strEv s]
  | .num t => some [.write [34], .write t, .write [34]]
  | .bool b => some [.write [34], .write (if b then [116, 114, 117, 101] else [102, 97, 108, 115, 101]), .write [34]]
  | .bad => none

mutual
/-- events of serializing `v` at nesting depth `depth` (`PrettyFormatter::current_indent`) -/
def events (fmt : Fmt) (depth : Nat) : SV → Option (List WEvent)
  | .null => some [.write [110, 117, 108, 108]]
  | .bool b => some [.write (if b then [116, 114, 117, 101] else [102, 97, 108, 115, 101])]
  | .num t => some [.write t]
  | .str s => some [strEv s]
  | .seq xs =>
    match xs with
    | [] => some [.write [91], .write [93]]       -- State::Empty: begin_array, end_array at once
    | _ => (seqEvents fmt (depth+1) xs true).map fun es => [.write [91]] ++ es ++ indentOf fmt depth ++ [.write [93]]
  | .map ms =>
    match ms with
    | [] => some [.write [123], .write [125]]
    | _ => (mapEvents fmt (depth+1) ms true).map fun es => [.write [123]] ++ es ++ indentOf fmt depth ++ [.write [125]]
  | .variant name v =>
    (events fmt (depth+1) v).map fun es =>
      [.write [123]] ++ indentOf fmt (depth+1) ++ [strEv name, .write [58]] ++
      (match fmt with | none => [] | some _ => [.ws [32]]) ++ es ++ indentOf fmt depth ++ [.write [125]]
def seqEvents (fmt : Fmt) (depth : Nat) : List SV → Bool → Option (List WEvent)
  | [], _ => some []
  | x :: rest, first =>
    match events fmt depth x, seqEvents fmt depth rest false with
    | some e, some r => some ((if first then [] else [.write [44]]) ++ indentOf fmt depth ++ e ++ r)
    | _, _ => none
def mapEvents (fmt : Fmt) (depth : Nat) : List (SKey × SV) → Bool → Option (List WEvent)
  | [], _ => some []
  | (k, x) :: rest, first =>
    match keyEvents k, events fmt depth x, mapEvents fmt depth rest false with
    | some ke, some e, some r =>
      some ((if first then [] else [.write [44]]) ++ indentOf fmt depth ++ ke ++ [.write [58]] ++
            (match fmt with | none => [] | some _ => [.ws [32]]) ++ e ++ r)
    | _, _, _ => none
end

/-! ### writers -/

/-- `Vec<u8>` / `BytesMut` writer: everything is appended -/
def runVec (evs : List WEvent) : List UInt8 := flatten evs

/-- `BufferedWriter<W>`: `write` goes straight to the inner writer; `flush_len` moves the reserved
    bytes to the inner writer at once -/
def runBuffered (evs : List WEvent) : List UInt8 :=
  evs.foldl (fun inner e => inner ++ e.bytes) []

/-- `io::BufWriter<W>` with the `WriteExt` impl as coded: `write_all` fills the BufWriter's own
    buffer (flushed to the inner sink when `cap` would be exceeded and at the end),
    `reserve_with`/`flush_len` are forwarded to `get_mut()` and bypass that buffer.
    State: (inner sink, pending buffer). -/
def stepIoBuf (cap : Nat) (flushFirst : Bool) (st : List UInt8 × List UInt8) (e : WEvent) : List UInt8 × List UInt8 :=
  let (inner, pend) := st
  match e with
  | .reserveCommit b => if flushFirst then (inner ++ pend ++ b, []) else (inner ++ b, pend)
  | e =>
    let b := e.bytes
    if pend.length + b.length > cap then
      (if b.length ≥ cap then (inner ++ pend ++ b, []) else (inner ++ pend, b))
    else (inner, pend ++ b)

def runIoBuf (cap : Nat) (flushFirst : Bool) (evs : List WEvent) : List UInt8 :=
  let (inner, pend) := evs.foldl (stepIoBuf cap flushFirst) ([], [])
  inner ++ pend

/-- a sink that accepts `n` bytes and then fails: what reached it, and whether an error was
    returned to the caller -/
def runFailAfter (n : Nat) (evs : List WEvent) : List UInt8 × Bool :=
  let all := flatten evs
  (all.take n, decide (n < all.length))

end Impl
end Sonic
