/-
  Layer 1 — error construction: `Position::from_index` (src/reader.rs), the snippet slicing of
  `Error::syntax` (src/error.rs), and the latch of `StreamDeserializer::next` /
  the lazy iterators (`is_ending` / `ending`).
  Every slice/array access of the modelled Rust code goes through a checked accessor, so an
  out-of-range index (a panic in Rust) shows up as `none`.
-/
import SonicModel.Basic
namespace Sonic
namespace Impl

/-- `Position::from_index(i, data)`: `(line, column)` -/
def positionFromIndex (data : Buf) (i : Nat) : Nat × Nat :=
  let i := min i data.size
  (data.toList.take i).foldl
    (fun (p : Nat × Nat) ch => if ch == 10 then (p.1 + 1, 0) else (p.1, p.2 + 1)) (1, 0)

def isCont (b : UInt8) : Bool := b &&& 0xC0 == 0x80

/-- first `while` of `Error::syntax`: walk `start` left over UTF-8 continuation bytes;
    `none` = an index out of range (would panic) -/
def snipStart (json : Buf) (index : Nat) : Nat → Option Nat
  | 0 => some 0
  | start+1 =>
    if index - (start+1) ≤ 16 then
      match json[start+1]? with
      | none => none
      | some b => if isCont b then snipStart json index start else some (start+1)
    else some (start+1)

/-- second `while` of `Error::syntax` (fuel = `len - end`) -/
def snipEnd (json : Buf) (index : Nat) (fuel : Nat) (en : Nat) : Option Nat :=
  match fuel with
  | 0 => some en
  | fuel+1 =>
    if en < json.size && en - index ≤ 16 then
      if en = 0 then none else
      match json[en-1]? with
      | none => none
      | some b => if isCont b then snipEnd json index fuel (en+1) else some en
    else some en

/-- `Error::syntax`'s fragment window `(start, end, left, right)`; `none` = would panic
    (index out of range, `start > end` in the slice, or `usize` underflow) -/
def snippet (json : Buf) (index : Nat) : Option (Nat × Nat × Nat × Nat) :=
  let start0 := index - 8
  let end0 := if index + 8 > json.size then json.size else index + 8
  match snipStart json index start0, snipEnd json index (json.size - end0) end0 with
  | some s, some e =>
    if s ≤ e && e ≤ json.size && s ≤ index && index ≤ e then
      some (s, e, index - s, if e - index > 1 then e - (index + 1) else 0)
    else none
  | _, _ => none

/-! ### latch of `StreamDeserializer::next` and of the lazy iterators -/

/-- one poll: `ending` flag, and what the underlying step would produce
    (`none` = end of container, `some true` = an item, `some false` = an error) -/
def pollLatch (ending : Bool) (step : Option Bool) : Bool × Option Bool :=
  if ending then (true, none)
  else match step with
    | none => (true, none)            -- iterators set `ending` at the end
    | some true => (false, some true)
    | some false => (true, some false)

/-- run a sequence of polls -/
def polls (ending : Bool) : List (Option Bool) → List (Option Bool)
  | [] => []
  | s :: rest => let (e, o) := pollLatch ending s; o :: polls e rest

end Impl

namespace Spec

/-- line (1-based) and column of byte offset `off`: line = 1 + number of `\n` before `off`,
    column = number of bytes since the last `\n` (or since the start) -/
def position (buf : Buf) (off : Nat) : Nat × Nat :=
  let pre := buf.toList.take off
  (1 + pre.count 10, (pre.reverse.takeWhile (· != 10)).length)

end Spec
end Sonic
