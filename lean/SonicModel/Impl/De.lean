/-
  Layer 1 — the typed deserializer of src/serde/de.rs (`impl de::Deserializer for &mut Deserializer<R>`,
  `SeqAccess`, `MapAccess`, `MapKey`, `VariantAccess`, `UnitVariantAccess`) driven by the visitors of serde's own
  impls and of `#[derive(Deserialize)]`, for the type family `Spec.Ty`.  It works on the TEXT, as the code does:
  there is no tree; every function takes the reader index and returns the value and the new index.

      deserialize_bool / _unit / _str / _option / _seq / _map / _struct / _enum / _bytes / _newtype_struct
      deserialize_number (all widths up to 64 bits, f64), deserialize_i128 / _u128 + scan_integer128
      SeqAccess::next_element_seed  (the `first` flag, `]` peeked and left for end_seq)
      MapAccess::next_key_seed / next_value_seed, end_map, MapKey::{deserialize_any, numeric keys, bool, enum}
      VariantAccess / UnitVariantAccess

  What serde's side does with what it is handed is part of the model (which `deserialize_*` a type asks for,
  which `visit_*` it accepts): Vec reads until `None`, tuples / arrays / tuple structs read exactly their
  arity, derived structs read by position from a sequence and by name from a map (repeated known field = error,
  unknown field = IgnoredAny unless `deny_unknown_fields`, missing field = error unless Option / default),
  BTreeMap inserts in order (last wins), primitive integer visitors range-check `visit_u64` / `visit_i64` and
  reject `visit_f64`.

  Errors are collapsed to `err` (C04 compares accept/reject and values, never error text or position).
  Not modelled: the recursion budget (`DepthGuard`, see Impl/Depth.lean — a documented difference of C04), the
  float back end (`floatOf` stands for it: correctly rounded value of the literal, C07's assumption), invalid
  UTF-8 handling (the input of `from_str` is valid UTF-8).
-/
import SonicModel.Impl.Num
import SonicModel.Impl.Str
import SonicModel.Impl.Skip
import SonicModel.Spec.Typed
namespace Sonic
namespace De
open Gen Spec Impl

inductive R (α : Type) where
  | ok (v : α) (e : Nat)
  | err
  | fuel
  deriving Repr, Inhabited

def R.map {α β} (g : α → β) : R α → R β
  | .ok v e => .ok (g v) e
  | .err => .err
  | .fuel => .fuel

/-- `parse_literal(rest)` with the reader at `j`, result `v` -/
def litR (buf : Buf) (j : Nat) (rest : List UInt8) (v : Val) : R Val :=
  match parseLiteral buf j rest with
  | .ok e => .ok v e
  | _ => .err

/-- `Parser::parse_number(first)`: the reader stands at `j`, just after the first byte `c`; gives the digit
    machine's classification, the start of the token and the index after it -/
def numTok (buf : Buf) (c : UInt8) (j : Nat) : PNum × Nat × Nat :=
  let neg := c == 45
  let now := if neg then j else j - 1
  let r := parseNumber buf Gen.expAccBound now neg
  (r.1, j - 1, r.2)

/-- serde's primitive integer visitors: `visit_u64` / `visit_i64` with a range check, `visit_f64` is an
    invalid type -/
def intOf (bits : Nat) (signed : Bool) : PNum → Option Int
  | .unsigned v => if intInRange bits signed (v : Int) then some (v : Int) else none
  | .signed v => if intInRange bits signed v then some v else none
  | _ => none

/-- the f64 visitor takes all three (`as f64` of an integer is its correctly rounded value); for a float
    request the back end's answer is not modelled: the correctly rounded value of the literal stands for it,
    `none` = not finite (`FloatMustBeFinite`) -/
def floatOf (buf : Buf) (s e : Nat) : PNum → Option Nat
  | .unsigned v => roundF64 v 0
  | .signed v => (roundF64 v.natAbs 0).map (· + 2 ^ 63)
  | .invalid => none
  | _ => f64Bits (decOf buf s e)

/-- `deserialize_number` for an integer target of at most 64 bits -/
def deInt (bits : Nat) (signed : Bool) (buf : Buf) (i : Nat) : R Val :=
  match skipSpace buf i with
  | none => .err
  | some (c, j) =>
    if c == 45 || isDigit c then
      let t := numTok buf c j
      match t.1 with
      | .invalid => .err
      | .toFloat _ _ _ _ => .err            -- (finite or not: an integer visitor rejects `visit_f64`)
      | p => match intOf bits signed p with
        | some n => .ok (.int n) t.2.2
        | none => .err
    else .err

/-- `deserialize_number` for f64 -/
def deF64 (buf : Buf) (i : Nat) : R Val :=
  match skipSpace buf i with
  | none => .err
  | some (c, j) =>
    if c == 45 || isDigit c then
      let t := numTok buf c j
      match floatOf buf t.2.1 t.2.2 t.1 with
      | some b => .ok (.f64 b) t.2.2
      | none => .err
    else .err

/-- `scan_integer128`: reader at `i`; the digits read and the index after them -/
def scan128 (buf : Buf) (i : Nat) : Option (Nat × Nat) :=
  match buf[i]? with
  | some c =>
    if c == 48 then (if isDigitAt buf (i+1) then none else some (0, i+1))
    else if isDigit c then
      let e := skipDigits buf i
      some (digitsVal buf i e 0, e)
    else none
  | none => none

/-- `deserialize_i128` / `deserialize_u128` -/
def deInt128 (signed : Bool) (buf : Buf) (i : Nat) : R Val :=
  let p := skipWs buf i
  match buf[p]? with
  | none => .err
  | some c =>
    if signed then
      let neg := c == 45
      match scan128 buf (if neg then p + 1 else p) with
      | none => .err
      | some (n, e) =>
        let v : Int := if neg then -(n : Int) else (n : Int)
        if intInRange 128 true v then .ok (.int v) e else .err
    else
      if c == 45 then .err
      else match scan128 buf p with
        | none => .err
        | some (n, e) => if intInRange 128 false (n : Int) then .ok (.int (n : Int)) e else .err

/-- `deserialize_str` (also `_string`, `_char`, `_identifier`): the decoded bytes, the index after the closing
    quote and whether the literal had escapes (`Reference::Copied`) -/
def deStrRaw (buf : Buf) (i : Nat) : R (List UInt8 × Bool) :=
  match skipSpace buf i with
  | none => .err
  | some (c, j) =>
    if c == 34 then
      match decodeFrom false buf j with
      | .ok bs e esc => .ok (bs, esc) e
      | .err _ _ => .err
    else .err

def fieldIndex (name : List UInt8) : List Field → Nat → Option Nat
  | [], _ => none
  | .mk n _ _ :: rest, k => if n = name then some k else fieldIndex name rest (k+1)

/-- the type of the field with index `k` -/
def fieldTy (fields : List Field) (k : Nat) : Ty :=
  match fields[k]? with
  | some (.mk _ ty _) => ty
  | none => .unit

/-- what a derived struct does with a field that never came -/
def missing (fl : Field) : Option Val :=
  match fl with
  | .mk _ ty dflt => if dflt then some (defaultVal ty) else match ty with | .opt _ => some .none | _ => none

/-- the end of a derived `visit_map`: every slot filled, or filled in by `missing` -/
def finish : List Field → List (Option Val) → Option (List (List UInt8 × Val))
  | [], _ => some []
  | fl :: rest, slots =>
    let v := match slots.head? with
      | some (some v) => some v
      | _ => missing fl
    match v, finish rest slots.tail with
    | some v, some r => some ((match fl with | .mk n _ _ => n, v) :: r)
    | _, _ => none

/-- `MapAccess::next_key_seed` up to the key itself: `none` at the closing brace (which is left for
    `end_map`), otherwise the index just after the opening quote of the key -/
def nextKey (buf : Buf) (i : Nat) (first : Bool) : R (Option Nat) :=
  let p := skipWs buf i
  match buf[p]? with
  | none => .err
  | some c =>
    if c == 125 then .ok none p
    else if c == 44 && !first then
      match skipSpace buf (p+1) with
      | some (c2, j2) => if c2 == 34 then .ok (some j2) j2 else .err
      | none => .err
    else if first then (if c == 34 then .ok (some (p+1)) (p+1) else .err)
    else .err

/-- `end_map` -/
def endMap (buf : Buf) (i : Nat) (v : Val) : R Val :=
  match skipSpace buf i with
  | some (c, j) => if c == 125 then .ok v j else .err
  | none => .err

/-- `end_seq` (`parse_array_end`) -/
def endSeq (buf : Buf) (i : Nat) (v : Val) : R Val :=
  match skipSpace buf i with
  | some (c, j) => if c == 93 then .ok v j else .err
  | none => .err

/-- a map key through `MapKey`, reader just after the opening quote: the key and the index after the
    closing quote -/
def deKey (k : KeyTy) (buf : Buf) (q : Nat) : R KeyVal :=
  match k with
  | .str =>
    match decodeFrom false buf q with
    | .ok bs e _ => .ok (.str bs) e
    | .err _ _ => .err
  | .int bits signed =>
    -- `deserialize_numeric_key!`: a digit or `-` right after the quote, the number, the closing quote
    match buf[q]? with
    | some c =>
      if c == 45 || isDigit c then
        let r : R Val := if bits ≤ 64 then deInt bits signed buf q else deInt128 signed buf q
        match r with
        | .ok (.int n) e => if buf[e]? = some 34 then .ok (.int n) (e+1) else .err
        | .fuel => .fuel
        | _ => .err
      else .err
    | none => .err
  | .bool =>
    match buf[q]? with
    | some c =>
      let r : R Val :=
        if c == 116 then litR buf (q+1) [114, 117, 101] (.bool true)
        else if c == 102 then litR buf (q+1) [97, 108, 115, 101] (.bool false)
        else .err
      match r with
      | .ok (.bool b) e => if buf[e]? = some 34 then .ok (.bool b) (e+1) else .err
      | _ => .err
    | none => .err
  | .unitEnum names =>
    -- `MapKey::deserialize_enum`: back to the quote, `deserialize_enum`, the identifier as a string
    match decodeFrom false buf q with
    | .ok bs e _ => if names.contains bs then .ok (.str bs) e else .err
    | .err _ _ => .err

mutual
/-- `T::deserialize(&mut Deserializer)` for the type `ty`, reader at `i` -/
def de : Nat → Ty → Buf → Nat → R Val
  | 0, _, _, _ => .fuel
  | f+1, ty, buf, i =>
    match ty with
    | .bool =>
      (match skipSpace buf i with
       | none => .err
       | some (c, j) =>
         if c == 116 then litR buf j [114, 117, 101] (.bool true)
         else if c == 102 then litR buf j [97, 108, 115, 101] (.bool false)
         else .err)
    | .int bits signed => if bits ≤ 64 then deInt bits signed buf i else deInt128 signed buf i
    | .f64 => deF64 buf i
    | .char =>
      (match deStrRaw buf i with
       | .ok (bs, _) e => if charCount bs = 1 then .ok (.str bs) e else .err
       | .err => .err
       | .fuel => .fuel)
    | .str =>
      (match deStrRaw buf i with
       | .ok (bs, _) e => .ok (.str bs) e
       | .err => .err
       | .fuel => .fuel)
    | .strRef =>
      (match deStrRaw buf i with
       | .ok (bs, esc) e => if esc then .err else .ok (.str bs) e     -- `visit_str` on a `&str` visitor
       | .err => .err
       | .fuel => .fuel)
    | .unit =>
      (match skipSpace buf i with
       | none => .err
       | some (c, j) => if c == 110 then litR buf j [117, 108, 108] .unit else .err)
    | .opt t =>
      let p := skipWs buf i
      if buf[p]? = some 110 then litR buf (p+1) [117, 108, 108] .none
      else (de f t buf p).map .some
    | .newtype t => de f t buf i
    | .seq t =>
      (match skipSpace buf i with
       | none => .err
       | some (c, j) =>
         if c == 91 then
           match seqLoop f t buf j true [] with
           | .ok vs e => endSeq buf e (.seq vs)
           | .err => .err
           | .fuel => .fuel
         else .err)
    | .tuple ts =>
      (match skipSpace buf i with
       | none => .err
       | some (c, j) =>
         if c == 91 then
           match tupleLoop f ts buf j true [] with
           | .ok vs e => endSeq buf e (.seq vs)
           | .err => .err
           | .fuel => .fuel
         else .err)
    | .map k v =>
      (match skipSpace buf i with
       | none => .err
       | some (c, j) =>
         if c == 123 then
           match mapLoop f k v buf j true [] with
           | .ok kvs e => endMap buf e (.map kvs)
           | .err => .err
           | .fuel => .fuel
         else .err)
    | .struct fields deny =>
      (match skipSpace buf i with
       | none => .err
       | some (c, j) =>
         if c == 91 then
           match structSeq f fields buf j true [] with
           | .ok vs e => endSeq buf e (.struct vs)
           | .err => .err
           | .fuel => .fuel
         else if c == 123 then
           match structLoop (f - fields.length) fields deny buf j true (fields.map fun _ => none) with
           | .ok slots e =>
             (match finish fields slots with
              | some vs => endMap buf e (.struct vs)
              | none => .err)
           | .err => .err
           | .fuel => .fuel
         else .err)
    | .enum vs =>
      let p := skipWs buf i
      (match buf[p]? with
       | none => .err
       | some c =>
         if c == 123 then
           -- `VariantAccess::variant_seed`: the variant name through `deserialize_str`, then the colon
           match deStrRaw buf (p+1) with
           | .ok (name, _) e1 =>
             (match parseObjectClo buf e1 with
              | .ok v =>
                let payload : R Val :=
                  match vs.find? (fun x => x.name == name) with
                  | some (.unit n) =>
                    (match de f .unit buf v with
                     | .ok _ e => .ok (.variant n none) e
                     | .err => .err
                     | .fuel => .fuel)
                  | some (.newtype n t) => (de f t buf v).map fun x => .variant n (some x)
                  | some (.tuple n ts) => (de f (.tuple ts) buf v).map fun x => .variant n (some x)
                  | some (.struct n fields) => (de f (.struct fields false) buf v).map fun x => .variant n (some x)
                  | none => .err
                (match payload with
                 | .ok x e =>
                   (match skipSpace buf e with
                    | some (c2, j2) => if c2 == 125 then .ok x j2 else .err
                    | none => .err)
                 | r => r)
              | _ => .err)
           | .err => .err
           | .fuel => .fuel
         else if c == 34 then
           -- `UnitVariantAccess`
           match deStrRaw buf p with
           | .ok (name, _) e =>
             (match vs.find? (fun x => x.name == name) with
              | some (.unit n) => .ok (.variant n none) e
              | _ => .err)
           | .err => .err
           | .fuel => .fuel
         else .err)
    | .bytes =>
      (match skipSpace buf i with
       | none => .err
       | some (c, j) =>
         if c == 34 then
           match decodeFrom false buf j with
           | .ok bs e _ => .ok (.bytes bs) e
           | .err _ _ => .err
         else if c == 91 then
           match seqLoop f (.int 8 false) buf j true [] with
           | .ok vs e => endSeq buf e (.bytes (vs.map fun v => match v with | .int n => UInt8.ofNat n.toNat | _ => 0))
           | .err => .err
           | .fuel => .fuel
         else .err)
/-- `SeqAccess::next_element_seed` for an element of type `t`: `none` at the closing bracket -/
def nextElem : Nat → Ty → Buf → Nat → Bool → R (Option Val)
  | 0, _, _, _, _ => .fuel
  | f+1, t, buf, i, first =>
    let p := skipWs buf i
    match buf[p]? with
    | none => .err
    | some c =>
      if c == 93 then .ok none p
      else if c == 44 && !first then (de f t buf (p+1)).map some
      else if first then (de f t buf p).map some
      else .err
/-- `Vec<T>`: `while let Some(x) = seq.next_element()?` -/
def seqLoop : Nat → Ty → Buf → Nat → Bool → List Val → R (List Val)
  | 0, _, _, _, _, _ => .fuel
  | f+1, t, buf, i, first, acc =>
    match nextElem f t buf i first with
    | .ok none e => .ok acc e
    | .ok (some v) e => seqLoop f t buf e false (acc ++ [v])
    | .err => .err
    | .fuel => .fuel
/-- tuples, tuple structs, fixed-size arrays: exactly one element per component -/
def tupleLoop : Nat → List Ty → Buf → Nat → Bool → List Val → R (List Val)
  | 0, _, _, _, _, _ => .fuel
  | _+1, [], _, i, _, acc => .ok acc i
  | f+1, t :: ts, buf, i, first, acc =>
    match nextElem f t buf i first with
    | .ok none _ => .err                      -- `invalid_length`
    | .ok (some v) e => tupleLoop f ts buf e false (acc ++ [v])
    | .err => .err
    | .fuel => .fuel
/-- a derived struct read from a sequence: by position; a missing trailing field only with a default -/
def structSeq : Nat → List Field → Buf → Nat → Bool → List (List UInt8 × Val) → R (List (List UInt8 × Val))
  | 0, _, _, _, _, _ => .fuel
  | _+1, [], _, i, _, acc => .ok acc i
  | f+1, .mk name ty dflt :: rest, buf, i, first, acc =>
    match nextElem f ty buf i first with
    | .ok none e => if dflt then structSeq f rest buf e first (acc ++ [(name, defaultVal ty)]) else .err
    | .ok (some v) e => structSeq f rest buf e false (acc ++ [(name, v)])
    | .err => .err
    | .fuel => .fuel
/-- `BTreeMap<K, V>`: `while let Some((k, v)) = map.next_entry()?` -/
def mapLoop : Nat → KeyTy → Ty → Buf → Nat → Bool → List (KeyVal × Val) → R (List (KeyVal × Val))
  | 0, _, _, _, _, _, _ => .fuel
  | f+1, k, v, buf, i, first, acc =>
    match nextKey buf i first with
    | .ok none e => .ok acc e
    | .ok (some q) _ =>
      (match deKey k buf q with
       | .ok kv e1 =>
         (match parseObjectClo buf e1 with
          | .ok c =>
            (match de f v buf c with
             | .ok x e => mapLoop f k v buf e false (mapInsert kv x acc)
             | .err => .err
             | .fuel => .fuel)
          | _ => .err)
       | .err => .err
       | .fuel => .fuel)
    | .err => .err
    | .fuel => .fuel
/-- a derived struct read from a map: `while let Some(key) = map.next_key::<__Field>()?` -/
def structLoop : Nat → List Field → Bool → Buf → Nat → Bool → List (Option Val) → R (List (Option Val))
  | 0, _, _, _, _, _, _ => .fuel
  | f+1, fields, deny, buf, i, first, slots =>
    match nextKey buf i first with
    | .ok none e => .ok slots e
    | .ok (some q) _ =>
      (match decodeFrom false buf q with
       | .ok name e1 _ =>
         (match fieldIndex name fields 0 with
          | some k =>
            if (slots.getD k none).isSome then .err                 -- duplicate field
            else
              (match parseObjectClo buf e1 with
               | .ok c =>
                 (match de f (fieldTy fields k) buf c with
                  | .ok x e => structLoop f fields deny buf e false (slots.set k (some x))
                  | .err => .err
                  | .fuel => .fuel)
               | _ => .err)
          | none =>
            if deny then .err                                        -- unknown field
            else
              (match parseObjectClo buf e1 with
               | .ok c =>
                 (match skipOne buf.size (Impl.fuelFor buf) buf c with    -- IgnoredAny
                  | .ok e => structLoop f fields deny buf e false slots
                  | _ => .err)
               | _ => .err))
       | .err _ _ => .err)
    | .err => .err
    | .fuel => .fuel
end

/-- `from_str::<T>`: the value, then `parse_trailing` (nothing but whitespace) -/
def deDoc (ty : Ty) (buf : Buf) : R Val :=
  match de (4 * buf.size + 64) ty buf 0 with
  | .ok v e => if skipWs buf e = buf.size then .ok v e else .err
  | r => r

end De
end Sonic
