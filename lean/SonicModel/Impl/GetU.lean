/-
  Layer 2 — the unchecked path walkers of src/parser.rs (`get_from_object`, `get_from_array`,
  `get_from_with_iter_unchecked`) behind `get_unchecked`, `LazyValue::get` / `pointer`: they do not
  validate what they pass over — values are skipped with the bit-parallel container skipper
  (`Impl/Block.lean`), the block string skipper (`Impl/StrSkip.lean`), or not at all (numbers and
  literals), and the next member / element is found by searching for the next `"` / `}` resp.
  `,` / `]` byte, 32 bytes at a time (`get_next_token`).  The value found is skipped with the
  checked `skip_one`.
-/
import SonicModel.Impl.Get
import SonicModel.Impl.Block
import SonicModel.Impl.StrSkip
namespace Sonic
namespace GetU
open Gen Spec Impl

/-- the mask `vor.bitmask()` of `get_next_token`: lanes equal to one of the tokens -/
def tokMask (toks : List UInt8) (bl : List UInt8) : BitVec 32 :=
  toks.foldl (fun m t => m ||| StrSkip.toMask (· == t) bl) 0#32

/-- the scalar loop of `get_next_token` over the last bytes (fewer than 32): token found and reader position -/
def tailTok (toks : List UInt8) (adv : Nat) : List UInt8 → Nat → Option (UInt8 × Nat)
  | [], _ => none
  | c :: rest, pos => if toks.contains c then some (c, pos + adv) else tailTok toks adv rest (pos + 1)

/-- `get_next_token(tokens, advance)` on the bytes from the reader position `pos` on -/
def nextTokenBlk (toks : List UInt8) (adv : Nat) : Nat → List UInt8 → Nat → Option (UInt8 × Nat)
  | 0, _, _ => none
  | fuel+1, data, pos =>
    if data.length ≥ 32 then
      let m := tokMask toks (data.take 32)
      if m ≠ 0#32 then some ((data.take 32).getD (StrSkip.tz m) 0, pos + StrSkip.tz m + adv)
      else nextTokenBlk toks adv fuel (data.drop 32) (pos + 32)
    else tailTok toks adv data pos

def nextTok (buf : Buf) (toks : List UInt8) (adv : Nat) (i : Nat) : Option (UInt8 × Nat) :=
  nextTokenBlk toks adv ((buf.toList.drop i).length / 32 + 1) (buf.toList.drop i) i

/-- `skip_container(left, right)`, reader just after the opening bracket at `j-1`: reader position after it -/
def skipContainerAt (buf : Buf) (left right : UInt8) (j : Nat) : Option Nat :=
  (Block.skipContainer ((buf.toList.drop j).length / 64 + 1) (buf.toList.drop j) Block.St.init left right 0).map (· + j)

/-- `skip_string_unchecked`, reader just after the opening quote -/
def skipStringAt (buf : Buf) (j : Nat) : Option Nat :=
  (StrSkip.skipString ((buf.toList.drop j).length / 32 + 1) (buf.toList.drop j) 0#32 0 false).map (·.1 + j)

/-- the `match self.skip_space() { '{' => skip_container, '[' => skip_container, '"' => skip_string_unchecked, _ => {} }`
    of the member loop (`close = none`) and of the element loop (`close = some 93`: `]` here is "empty array").
    `inl p` = reader position afterwards -/
def skipValueU (buf : Buf) (v : Nat) : Option (UInt8 × Option Nat) :=
  match skipSpace buf v with
  | none => none
  | some (c, j) =>
    if c == 123 then some (c, skipContainerAt buf 123 125 j)
    else if c == 91 then some (c, skipContainerAt buf 91 93 j)
    else if c == 34 then some (c, skipStringAt buf j)
    else some (c, some j)

/-- the loop of `get_from_object`: reader just after the opening quote of a member name -/
def getObjLoopU (buf : Buf) (k : List UInt8) (i : Nat) : IRes :=
  match decodeFrom false buf i with            -- parse_string_raw
  | .err c p => .err c p
  | .ok name e _ =>
    match parseObjectClo buf e with
    | .ok v =>
      if name = k then .ok v
      else match skipValueU buf v with
        | none => .err .EofWhileParsing buf.size
        | some (_, none) => .err .EofWhileParsing buf.size
        | some (_, some p) =>
          match nextTok buf [34, 125] 1 p with
          | none => .err .EofWhileParsing buf.size
          | some (t, q) =>
            if t == 34 then (if _hlt : i < q ∧ i < buf.size then getObjLoopU buf k q else .fuel)
            else .err .GetUnknownKeyInObject q
    | r => r
termination_by buf.size - i
decreasing_by omega

/-- `get_from_object(key)` -/
def getFromObjectU (buf : Buf) (i : Nat) (k : List UInt8) : IRes :=
  match skipSpace buf i with
  | none => .err .EofWhileParsing (eofIdx buf i)
  | some (c, j) =>
    if c == 123 then
      match nextTok buf [34, 125] 1 j with
      | none => .err .EofWhileParsing buf.size
      | some (t, q) => if t == 34 then getObjLoopU buf k q else .err .GetInEmptyObject q
    else .err .Message j

/-- the `while count > 0` loop of `get_from_array` -/
def getArrLoopU : Nat → Buf → Nat → IRes
  | 0, _, i => .ok i
  | n+1, buf, i =>
    match skipValueU buf i with
    | none => .err .EofWhileParsing buf.size
    | some (_, none) => .err .EofWhileParsing buf.size
    | some (c, some p) =>
      if c == 93 then .err .GetInEmptyArray p
      else match nextTok buf [93, 44] 1 p with
        | none => .err .EofWhileParsing buf.size
        | some (t, q) => if t == 44 then getArrLoopU n buf q else .err .GetIndexOutOfArray q

/-- `get_from_array(index)` -/
def getFromArrayU (buf : Buf) (i : Nat) (n : Nat) : IRes :=
  match skipSpace buf i with
  | none => .err .EofWhileParsing (eofIdx buf i)
  | some (c, j) => if c == 91 then getArrLoopU n buf j else .err .Message j

/-- `get_from_with_iter_unchecked(path)`: the unchecked walkers, then the checked `skip_one` on the value found -/
def getUnchecked (buf : Buf) (i : Nat) : List Step → GRes
  | [] =>
    match skipOne buf.size (Impl.fuelFor buf) buf i with
    | .ok e => .found (skipWs buf i) e
    | .err c p => .err c p
    | .fuel => .fuel
  | .key k :: rest =>
    match getFromObjectU buf i k with
    | .ok v => getUnchecked buf v rest
    | .err c p => .err c p
    | .fuel => .fuel
  | .idx n :: rest =>
    match getFromArrayU buf i n with
    | .ok v => getUnchecked buf v rest
    | .err c p => .err c p
    | .fuel => .fuel

end GetU
end Sonic
