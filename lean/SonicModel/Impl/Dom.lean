/-
  Layer 1 — the arena DOM builder of src/value/node.rs: `Meta::pack_dom_node` / the unpacking
  accessors over the regenerated `Meta` constants, and `DocumentVisitor`'s node stack
  (`visit_container_start` / `visit_container_end` / scalars) as a state machine over the visitor
  event stream of src/parser.rs.
-/
import SonicModel.Basic
import SonicModel.Gen.Consts
import SonicModel.Spec.Tree
namespace Sonic
namespace Impl
open Gen Spec

/-! ### `Meta` packing (64-bit word: kind in bits 0..2, idx in bits 3..31, len in bits 32..63) -/

def packDomNode (kind idx len : Nat) : Nat :=
  (kind ||| (idx <<< meta_KIND_BITS) ||| (len <<< meta_LEN_OFFSET)) % 2^64

def unpackKind (val : Nat) : Nat := val &&& meta_KIND_MASK
def unpackIdx (val : Nat) : Nat := (val &&& meta_IDX_MASK) >>> meta_KIND_BITS
def unpackLen (val : Nat) : Nat := val >>> meta_LEN_OFFSET

/-! ### visitor events and the node stack -/

inductive Ev where
  | scalar (j : Json)            -- null / bool / number / string (incl. object keys)
  | start (isObj : Bool)         -- visit_array_start / visit_object_start
  | fin (isObj : Bool) (len : Nat)   -- visit_array_end(len) / visit_object_end(len)
  deriving Repr, Inhabited

/-- a node in the thread-local node buffer -/
inductive Node where
  | leaf (j : Json)
  | opened (isObj : Bool) (oldParent : Nat)          -- container header waiting for its end
  | closed (isObj : Bool) (children : List Node) (idx : Nat) (len : Nat)   -- children copied to the arena
  deriving Repr, Inhabited

structure Vis where
  nodes : List Node
  parent : Nat
  deriving Repr, Inhabited

/-- one visitor call (`none` = the Rust code would index out of range) -/
def Vis.step (v : Vis) : Ev → Option Vis
  | .scalar j => some { v with nodes := v.nodes ++ [.leaf j] }
  | .start o => some { nodes := v.nodes ++ [.opened o v.parent], parent := v.nodes.length }
  | .fin o len =>
    match v.nodes[v.parent]? with
    | some (.opened o' old) =>
      if o' != o then none
      else
        let children := v.nodes.drop (v.parent + 1)
        -- `len == 0`: EMPTY_ARR / EMPTY_OBJ static node; otherwise children are copied behind a
        -- header and the container records `idx = parent - old` and `len`
        some { nodes := v.nodes.take v.parent ++ [.closed o (if len == 0 then [] else children) (v.parent - old) len],
               parent := old }
    | _ => none

def Vis.run (v : Vis) : List Ev → Option Vis
  | [] => some v
  | e :: es => (v.step e).bind fun v' => v'.run es

/-- the event stream `parse_value` produces for a tree (`parse_array` / `parse_object` count the
    elements / members; object keys are visited as strings) -/
def evOf : Json → List Ev
  | .arr xs => [.start false] ++ evList xs ++ [.fin false xs.length]
  | .obj ms => [.start true] ++ evMembers ms ++ [.fin true ms.length]
  | j => [.scalar j]
where
  evList : List Json → List Ev
    | [] => []
    | x :: xs => evOf x ++ evList xs
  evMembers : List (List UInt8 × Json) → List Ev
    | [] => []
    | (k, x) :: ms => [.scalar (.str k)] ++ evOf x ++ evMembers ms

/-- the node a tree becomes (what the read API then walks) -/
def nodeOf (depthIdx : Nat) : Json → Node
  | .arr xs => .closed false (nodesOf xs) depthIdx xs.length
  | .obj ms => .closed true (nodesOfMembers ms) depthIdx ms.length
  | j => .leaf j
where
  nodesOf : List Json → List Node
    | [] => []
    | x :: xs => nodeOf 0 x :: nodesOf xs
  nodesOfMembers : List (List UInt8 × Json) → List Node
    | [] => []
    | (k, x) :: ms => .leaf (.str k) :: nodeOf 0 x :: nodesOfMembers ms

end Impl
end Sonic
