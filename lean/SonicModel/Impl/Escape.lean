/-
  Layer 2 — `format_string` / `escape_unchecked` of src/util/string.rs as a block algorithm:
  `LANES`-byte main loop with a speculative `LANES`-byte store, `escape_unchecked` copying
  8-byte `QUOTE_TAB` rows, the `nb < LANES` tail loop with `clear_high_bits`.  The model threads
  the destination offset `d` and the high-water mark `hw` of every store (so that the size of the
  reserved window, `len*6 + 32 + 3`, can be proved sufficient), and produces the bytes that end
  up in `dst[0..d)`.
-/
import SonicModel.Basic
import SonicModel.Gen.Tables
import SonicModel.Gen.Consts
namespace Sonic
namespace Impl
open Gen

def quoteLen (b : UInt8) : Nat := (quoteTabLen[b.toNat]?.getD 0).toNat
/-- the first `quoteLen b` bytes of row `b` of `QUOTE_TAB` -/
def quoteRow (b : UInt8) : List UInt8 := ((quoteTabBytes.toList.drop (8 * b.toNat)).take 8).take (quoteLen b)
def needEsc (b : UInt8) : Bool := needEscaped[b.toNat]?.getD 0 != 0

/-- `escaped_mask` of a block: index of the first byte `≤ 0x1f`, `"` or `\` -/
def firstEscaped (blk : List UInt8) : Option Nat :=
  let i := blk.findIdx (fun b => b ≤ 0x1f || b == 92 || b == 34)
  if i < blk.length then some i else none

structure FmtSt where
  out : List UInt8      -- committed output (reverse not used: appended)
  hw : Nat              -- one past the largest destination offset written so far
  deriving Repr

/-- `escape_unchecked`: escapes the run of need-escape bytes at the head of `s` (at least one);
    every step stores a whole 8-byte row at the current offset -/
def escapeRun (s : List UInt8) (d : Nat) (st : FmtSt) (firstStep : Bool) : List UInt8 × Nat × FmtSt :=
  match s with
  | [] => ([], d, st)
  | b :: rest =>
    if firstStep || needEsc b then
      let st' := { out := st.out ++ quoteRow b, hw := max st.hw (d + 8) }
      escapeRun rest (d + quoteLen b) st' false
    else (s, d, st)

/-- the two loops of `format_string` on the remaining source `s` (`lanes` = `LANES`);
    `fuel` bounds the number of iterations (`s.length + 1` suffices) -/
def fmtLoop (lanes : Nat) : Nat → List UInt8 → Nat → FmtSt → Nat × FmtSt
  | 0, _, d, st => (d, st)
  | fuel+1, s, d, st =>
    if s.isEmpty then (d, st)
    else
      -- `v.write_to_slice_unaligned_unchecked(dst[d .. d+LANES))` : speculative store
      let st := { st with hw := max st.hw (d + lanes) }
      let blk := s.take lanes          -- main loop: a full block; tail loop: `nb` bytes (clear_high_bits)
      match firstEscaped blk with
      | none => fmtLoop lanes fuel (s.drop blk.length) (d + blk.length) { st with out := st.out ++ blk }
      | some cn =>
        let st := { st with out := st.out ++ s.take cn }
        let (s', d', st') := escapeRun (s.drop cn) (d + cn) st true
        fmtLoop lanes fuel s' d' st'

/-- `format_string(value, dst, need_quote)`: returns (bytes written, count, high-water mark) -/
def formatString (lanes : Nat) (s : List UInt8) (needQuote : Bool) : List UInt8 × Nat × Nat :=
  let st0 : FmtSt := { out := if needQuote then [34] else [], hw := if needQuote then 1 else 0 }
  let d0 := if needQuote then 1 else 0
  let (d, st) := fmtLoop lanes (s.length + 1) s d0 st0
  if needQuote then (st.out ++ [34], d + 1, max st.hw (d + 1)) else (st.out, d, st.hw)

end Impl
end Sonic
