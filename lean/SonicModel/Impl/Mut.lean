/-
  The mutable DOM (`src/value/node.rs`: `as_mut` / `to_mut`, `get_index(_mut)`, `get_key(_mut)`;
  `src/value/array.rs`, `src/value/object.rs`, `src/index.rs`) at the level of representations,
  and the plain array / map reference model it must refine.

  `DV` distinguishes what the code distinguishes: containers that are still nodes of a parsed arena
  (immutable slices; objects may hold duplicate keys; also the static empty containers) and owned
  containers (`Vec<Value>`, `AHashMap<FastStr, Value>`).  Every `&mut` access to a container first
  promotes it, one level at a time (`Value::as_mut`).  `J` is the reference: vectors and
  string-keyed maps (association lists with unique keys; iteration order is not part of the model).
  Because Rust values are owned and the owned containers are copy-on-write (`Arc::make_mut`),
  the model is one of plain values: isolation between values is by construction here and is checked
  against the real code by the correspondence harness (all live values are dumped after every step).
-/
import SonicModel.Basic
namespace Sonic
namespace Mut

abbrev Key := List UInt8

/-- reference model -/
inductive J where
  | null
  | bool (b : Bool)
  | num (n : Int)
  | str (s : Key)
  | arr (xs : List J)
  | obj (ms : List (Key × J))       -- unique keys
  deriving Repr, Inhabited

/-- representation -/
inductive DV where
  | null
  | bool (b : Bool)
  | num (n : Int)
  | str (s : Key)
  | arrNode (xs : List DV)          -- array node of a parsed arena, or the static empty array
  | objNode (ms : List (Key × DV))  -- object node of a parsed arena (duplicate keys allowed), or the static empty object
  | arrMut (xs : List DV)           -- owned Vec
  | objMut (ms : List (Key × DV))   -- owned map (unique keys)
  deriving Repr, Inhabited

/-- keep the first member of every key -/
def dedupFirst {α} : List (Key × α) → List (Key × α)
  | [] => []
  | (k, v) :: rest => (k, v) :: (dedupFirst rest).filter (fun p => p.1 ≠ k)

mutual
def abs : DV → J
  | .null => .null
  | .bool b => .bool b
  | .num n => .num n
  | .str s => .str s
  | .arrNode xs => .arr (absL xs)
  | .arrMut xs => .arr (absL xs)
  | .objNode ms => .obj (dedupFirst (absM ms))
  | .objMut ms => .obj (absM ms)
def absL : List DV → List J
  | [] => []
  | x :: r => abs x :: absL r
def absM : List (Key × DV) → List (Key × J)
  | [] => []
  | (k, x) :: r => (k, abs x) :: absM r
end

/-- `Value::as_mut` on a container: promote one level (`to_mut`: `From<&[Value]>`, `From<&[Pair]>` as
    repaired: the first member of a duplicated key is kept, the one `get` returns) -/
def promote : DV → DV
  | .arrNode xs => .arrMut xs
  | .objNode ms => .objMut (dedupFirst ms)
  | v => v

def isArr : DV → Bool
  | .arrNode _ => true
  | .arrMut _ => true
  | _ => false
def isObj : DV → Bool
  | .objNode _ => true
  | .objMut _ => true
  | _ => false

/-- members of a container, as `get` sees them -/
def lookup {α} (k : Key) : List (Key × α) → Option α
  | [] => none
  | (k', v) :: r => if k' = k then some v else lookup k r

inductive Idx where
  | key (k : Key)
  | idx (n : Nat)
  deriving Repr, Inhabited, DecidableEq

/-- `Value::get(index)` (`value_index_into`): first match in a parsed object -/
def DV.get (v : DV) : Idx → Option DV
  | .idx n => match v with
    | .arrNode xs => xs[n]?
    | .arrMut xs => xs[n]?
    | _ => none
  | .key k => match v with
    | .objNode ms => lookup k ms
    | .objMut ms => lookup k ms
    | _ => none

def J.get (v : J) : Idx → Option J
  | .idx n => match v with
    | .arr xs => xs[n]?
    | _ => none
  | .key k => match v with
    | .obj ms => lookup k ms
    | _ => none

/-- `pointer(path)` -/
def DV.pointer (v : DV) : List Idx → Option DV
  | [] => some v
  | i :: rest => match v.get i with
    | some c => c.pointer rest
    | none => none

def J.pointer (v : J) : List Idx → Option J
  | [] => some v
  | i :: rest => match v.get i with
    | some c => c.pointer rest
    | none => none

/-- replace the value of key `k` (which is present) -/
def setKey {α} (k : Key) (x : α) : List (Key × α) → List (Key × α)
  | [] => []
  | (k', v) :: r => if k' = k then (k', x) :: r else (k', v) :: setKey k x r

/-- map insert: replace in place or append -/
def insertKey {α} (k : Key) (x : α) (ms : List (Key × α)) : List (Key × α) :=
  match lookup k ms with
  | some _ => setKey k x ms
  | none => ms ++ [(k, x)]

def removeKey {α} (k : Key) (ms : List (Key × α)) : List (Key × α) := ms.filter (fun p => p.1 ≠ k)

/-- what an operation reports -/
inductive Out (α : Type) where
  | done                      -- nothing returned
  | val (v : α)               -- a value handed to the caller
  | none                      -- `None`
  | missing                   -- `pointer_mut` found nothing
  | panic                     -- the call panicked (the reference rejects the operation)
  deriving Repr, Inhabited

/-- `pointer_mut(path)` followed by `f` on the target: every step is `get_mut`, which promotes the
    container it goes through (also when the member is then not found) -/
def DV.updPath (f : DV → DV × Out DV) : List Idx → DV → DV × Out DV
  | [], v => f v
  | .idx n :: rest, v =>
    match promote v with
    | .arrMut xs =>
      (match xs[n]? with
       | some c => (.arrMut (xs.set n (DV.updPath f rest c).1), (DV.updPath f rest c).2)
       | none => (.arrMut xs, .missing))
    | _ => (v, .missing)
  | .key k :: rest, v =>
    match promote v with
    | .objMut ms =>
      (match lookup k ms with
       | some c => (.objMut (setKey k (DV.updPath f rest c).1 ms), (DV.updPath f rest c).2)
       | none => (.objMut ms, .missing))
    | _ => (v, .missing)

def J.updPath (f : J → J × Out J) : List Idx → J → J × Out J
  | [], v => f v
  | .idx n :: rest, v =>
    match v with
    | .arr xs =>
      (match xs[n]? with
       | some c => (.arr (xs.set n (J.updPath f rest c).1), (J.updPath f rest c).2)
       | none => (.arr xs, .missing))
    | _ => (v, .missing)
  | .key k :: rest, v =>
    match v with
    | .obj ms =>
      (match lookup k ms with
       | some c => (.obj (setKey k (J.updPath f rest c).1 ms), (J.updPath f rest c).2)
       | none => (.obj ms, .missing))
    | _ => (v, .missing)

/-- operations on the target of a path -/
inductive MOp (α : Type) where
  | push (x : α)
  | pop
  | insertAt (n : Nat) (x : α)        -- `Array::insert`
  | removeAt (n : Nat)                -- `Array::remove`
  | swapRemove (n : Nat)
  | truncate (n : Nat)
  | clear
  | objInsert (k : Key) (x : α)       -- `Object::insert`
  | objRemove (k : Key)
  | take                              -- `Value::take`
  | assign (x : α)                    -- `*v = x`
  | setKey (k : Key) (x : α)          -- `v[k] = x` (`index_or_insert`)
  | setIdx (n : Nat) (x : α)          -- `v[n] = x`
  | orInsert (k : Key) (x : α)        -- `entry(k).or_insert(x)`; reports the member afterwards
  deriving Repr, Inhabited

/-- the operation on an owned array -/
def arrOp {α} (xs : List α) : MOp α → Option (List α × Out α)
  | .push x => some (xs ++ [x], .done)
  | .pop => some (xs.dropLast, match xs.getLast? with | some v => .val v | none => .none)
  | .insertAt n x => if n ≤ xs.length then some (xs.take n ++ x :: xs.drop n, .done) else some (xs, .panic)
  | .removeAt n => if n < xs.length then some (xs.eraseIdx n, .done) else some (xs, .panic)
  | .swapRemove n =>
    match xs[n]?, xs.getLast? with
    | some v, some l => some ((xs.set n l).dropLast, .val v)
    | _, _ => some (xs, .panic)
  | .truncate n => some (xs.take n, .done)
  | .clear => some ([], .done)
  | .setIdx n x => if n < xs.length then some (xs.set n x, .done) else some (xs, .panic)
  | _ => none

/-- the operation on an owned map -/
def objOp {α} (null : α) (ms : List (Key × α)) : MOp α → Option (List (Key × α) × Out α)
  | .clear => some ([], .done)
  | .objInsert k x => some (insertKey k x ms, match lookup k ms with | some v => .val v | none => .none)
  | .objRemove k => some (removeKey k ms, match lookup k ms with | some v => .val v | none => .none)
  | .setKey k x => some (insertKey k x ms, .done)
  | .orInsert k x => (match lookup k ms with
      | some v => some (ms, .val v)
      | none => some (ms ++ [(k, x)], .val x))
  | _ => Option.none

/-- the operation on the target value (representation level) -/
def DV.apply (op : MOp DV) (v : DV) : DV × Out DV :=
  match op with
  | .take => (.null, .val v)
  | .assign x => (x, .done)
  | op =>
    match promote v with
    | .arrMut xs =>
      (match arrOp xs op with
       | some (xs', o) => (.arrMut xs', o)         -- (`as_array_mut` has promoted the array even when the call then panics)
       | none => (v, .panic))                      -- wrong kind: rejected before any access
    | .objMut ms =>
      (match objOp DV.null ms op with
       | some (ms', o) => (.objMut ms', o)
       | none => (v, .panic))
    | w =>
      -- not a container
      (match op, w with
       | .setKey k x, .null => (.objMut [(k, x)], .done)      -- null becomes an object
       | _, _ => (v, .panic))

def J.apply (op : MOp J) (v : J) : J × Out J :=
  match op with
  | .take => (.null, .val v)
  | .assign x => (x, .done)
  | op =>
    match v with
    | .arr xs =>
      (match arrOp xs op with
       | some (xs', o) => (.arr xs', o)
       | none => (v, .panic))
    | .obj ms =>
      (match objOp J.null ms op with
       | some (ms', o) => (.obj ms', o)
       | none => (v, .panic))
    | w =>
      (match op, w with
       | .setKey k x, .null => (.obj [(k, x)], .done)
       | _, _ => (v, .panic))

end Mut
end Sonic
