/-
  The mutable DOM (`src/value/node.rs`: `as_mut` / `to_mut`, `get_index(_mut)`, `get_key(_mut)`;
  `src/value/array.rs`, `src/value/object.rs`, `src/index.rs`) at the level of representations,
  and the plain array / map reference model it must refine.

  `DV` distinguishes what the code distinguishes: containers that are still nodes of a parsed arena
  (immutable slices; objects may hold duplicate keys; also the static empty containers) and owned
  containers (`Vec<Value>`, `AHashMap<FastStr, Value>`).  Every `&mut` access to a container first
  promotes it, one level at a time (`Value::as_mut`).  `J` is the reference: vectors and
  string-keyed maps (association lists with unique keys; iteration order is not part of the model).
  Because Rust values are owned and the owned containers are copy-on-write (`Arc::make_mut`),
  the model is one of plain values: isolation between values is by construction here and is checked
  against the real code by the correspondence harness (all live values are dumped after every step).
-/
import SonicModel.Basic
namespace Sonic
namespace Mut

abbrev Key := List UInt8

/-- reference model -/
inductive J where
  | null
  | bool (b : Bool)
  | num (n : Int)
  | str (s : Key)
  | arr (xs : List J)
  | obj (ms : List (Key × J))       -- unique keys
  deriving Repr, Inhabited

/-- representation -/
inductive DV where
  | null
  | bool (b : Bool)
  | num (n : Int)
  | str (s : Key)
  | arrNode (xs : List DV)          -- array node of a parsed arena, or the static empty array
  | objNode (ms : List (Key × DV))  -- object node of a parsed arena (duplicate keys allowed), or the static empty object
  | arrMut (xs : List DV)           -- owned Vec
  | objMut (ms : List (Key × DV))   -- owned map (unique keys)
  deriving Repr, Inhabited

/-- keep the first member of every key -/
def dedupFirst {α} : List (Key × α) → List (Key × α)
  | [] => []
  | (k, v) :: rest => (k, v) :: (dedupFirst rest).filter (fun p => p.1 ≠ k)

mutual
def abs : DV → J
  | .null => .null
  | .bool b => .bool b
  | .num n => .num n
  | .str s => .str s
  | .arrNode xs => .arr (absL xs)
  | .arrMut xs => .arr (absL xs)
  | .objNode ms => .obj (dedupFirst (absM ms))
  | .objMut ms => .obj (absM ms)
def absL : List DV → List J
  | [] => []
  | x :: r => abs x :: absL r
def absM : List (Key × DV) → List (Key × J)
  | [] => []
  | (k, x) :: r => (k, abs x) :: absM r
end

/-- `Value::as_mut` on a container: promote one level (`to_mut`: `From<&[Value]>`, `From<&[Pair]>` as
    repaired: the first member of a duplicated key is kept, the one `get` returns) -/
def promote : DV → DV
  | .arrNode xs => .arrMut xs
  | .objNode ms => .objMut (dedupFirst ms)
  | v => v

def isArr : DV → Bool
  | .arrNode _ => true
  | .arrMut _ => true
  | _ => false
def isObj : DV → Bool
  | .objNode _ => true
  | .objMut _ => true
  | _ => false

/-- members of a container, as `get` sees them -/
def lookup {α} (k : Key) : List (Key × α) → Option α
  | [] => none
  | (k', v) :: r => if k' = k then some v else lookup k r

inductive Idx where
  | key (k : Key)
  | idx (n : Nat)
  deriving Repr, Inhabited, DecidableEq

/-- `Value::get(index)` (`value_index_into`): first match in a parsed object -/
def DV.get (v : DV) : Idx → Option DV
  | .idx n => match v with
    | .arrNode xs => xs[n]?
    | .arrMut xs => xs[n]?
    | _ => none
  | .key k => match v with
    | .objNode ms => lookup k ms
    | .objMut ms => lookup k ms
    | _ => none

def J.get (v : J) : Idx → Option J
  | .idx n => match v with
    | .arr xs => xs[n]?
    | _ => none
  | .key k => match v with
    | .obj ms => lookup k ms
    | _ => none

/-- `pointer(path)` -/
def DV.pointer (v : DV) : List Idx → Option DV
  | [] => some v
  | i :: rest => match v.get i with
    | some c => c.pointer rest
    | none => none

def J.pointer (v : J) : List Idx → Option J
  | [] => some v
  | i :: rest => match v.get i with
    | some c => c.pointer rest
    | none => none

/-- replace the value of key `k` (which is present) -/
def setKey {α} (k : Key) (x : α) : List (Key × α) → List (Key × α)
  | [] => []
  | (k', v) :: r => if k' = k then (k', x) :: r else (k', v) :: setKey k x r

/-- map insert: replace in place or append -/
def insertKey {α} (k : Key) (x : α) (ms : List (Key × α)) : List (Key × α) :=
  match lookup k ms with
  | some _ => setKey k x ms
  | none => ms ++ [(k, x)]

def removeKey {α} (k : Key) (ms : List (Key × α)) : List (Key × α) := ms.filter (fun p => p.1 ≠ k)

/-- what an operation reports -/
inductive Out (α : Type) where
  | done                      -- nothing returned
  | val (v : α)               -- a value handed to the caller
  | vals (vs : List α)        -- several values handed to the caller (`split_off`, `drain`)
  | none                      -- `None`
  | missing                   -- `pointer_mut` found nothing
  | panic                     -- the call panicked (the reference rejects the operation)
  deriving Repr, Inhabited

/-- `pointer_mut(path)` followed by `f` on the target: every step is `get_mut`, which promotes the
    container it goes through (also when the member is then not found) -/
def DV.updPath (f : DV → DV × Out DV) : List Idx → DV → DV × Out DV
  | [], v => f v
  | .idx n :: rest, v =>
    match promote v with
    | .arrMut xs =>
      (match xs[n]? with
       | some c => (.arrMut (xs.set n (DV.updPath f rest c).1), (DV.updPath f rest c).2)
       | none => (.arrMut xs, .missing))
    | _ => (v, .missing)
  | .key k :: rest, v =>
    match promote v with
    | .objMut ms =>
      (match lookup k ms with
       | some c => (.objMut (setKey k (DV.updPath f rest c).1 ms), (DV.updPath f rest c).2)
       | none => (.objMut ms, .missing))
    | _ => (v, .missing)

def J.updPath (f : J → J × Out J) : List Idx → J → J × Out J
  | [], v => f v
  | .idx n :: rest, v =>
    match v with
    | .arr xs =>
      (match xs[n]? with
       | some c => (.arr (xs.set n (J.updPath f rest c).1), (J.updPath f rest c).2)
       | none => (.arr xs, .missing))
    | _ => (v, .missing)
  | .key k :: rest, v =>
    match v with
    | .obj ms =>
      (match lookup k ms with
       | some c => (.obj (setKey k (J.updPath f rest c).1 ms), (J.updPath f rest c).2)
       | none => (.obj ms, .missing))
    | _ => (v, .missing)

/-- operations on the target of a path -/
inductive MOp (α : Type) where
  | push (x : α)
  | pop
  | insertAt (n : Nat) (x : α)        -- `Array::insert`
  | removeAt (n : Nat)                -- `Array::remove`
  | swapRemove (n : Nat)
  | truncate (n : Nat)
  | clear
  | objInsert (k : Key) (x : α)       -- `Object::insert`
  | objRemove (k : Key)
  | take                              -- `Value::take`
  | assign (x : α)                    -- `*v = x`
  | setKey (k : Key) (x : α)          -- `v[k] = x` (`index_or_insert`)
  | setIdx (n : Nat) (x : α)          -- `v[n] = x`
  | orInsert (k : Key) (x : α)        -- `entry(k).or_insert(x)`; reports the member afterwards
  | splitOff (n : Nat)                -- `Array::split_off`
  | drain (a b : Nat)                 -- `Array::drain(a..b)`, collected
  | extendWithin (a b : Nat)          -- `Array::extend_from_within(a..b)`
  | resize (n : Nat) (x : α)          -- `Array::resize`
  | retainNonNull                     -- `Array::retain(|v| !v.is_null())` / `Object::retain(|_, v| !v.is_null())`
  | append (x : α)                    -- `Array::append(&mut other)` / `Object::append(&mut other)`, `other` being `x`
  deriving Repr, Inhabited

/-- the operation on an owned array -/
def arrOp {α} (isNull : α → Bool) (el : α → Option (List α)) (xs : List α) : MOp α → Option (List α × Out α)
  | .push x => some (xs ++ [x], .done)
  | .pop => some (xs.dropLast, match xs.getLast? with | some v => .val v | none => .none)
  | .insertAt n x => if n ≤ xs.length then some (xs.take n ++ x :: xs.drop n, .done) else some (xs, .panic)
  | .removeAt n => if n < xs.length then some (xs.eraseIdx n, .done) else some (xs, .panic)
  | .swapRemove n =>
    match xs[n]?, xs.getLast? with
    | some v, some l => some ((xs.set n l).dropLast, .val v)
    | _, _ => some (xs, .panic)
  | .truncate n => some (xs.take n, .done)
  | .clear => some ([], .done)
  | .setIdx n x => if n < xs.length then some (xs.set n x, .done) else some (xs, .panic)
  | .splitOff n => if n ≤ xs.length then some (xs.take n, .vals (xs.drop n)) else some (xs, .panic)
  | .drain a b => if a ≤ b ∧ b ≤ xs.length then some (xs.take a ++ xs.drop b, .vals ((xs.drop a).take (b - a))) else some (xs, .panic)
  | .extendWithin a b => if a ≤ b ∧ b ≤ xs.length then some (xs ++ (xs.drop a).take (b - a), .done) else some (xs, .panic)
  | .resize n x => if xs.length < n then some (xs ++ List.replicate (n - xs.length) x, .done) else some (xs.take n, .done)
  | .retainNonNull => some (xs.filter (fun v => !isNull v), .done)
  | .append x => (match el x with
      | some ys => some (xs ++ ys, .done)
      | none => some (xs, .panic))               -- (the other value is not an array: no such call)
  | _ => none

/-- the operation on an owned map -/
def objOp {α} (isNull : α → Bool) (mem : α → Option (List (Key × α))) (null : α) (ms : List (Key × α)) : MOp α → Option (List (Key × α) × Out α)
  | .clear => some ([], .done)
  | .objInsert k x => some (insertKey k x ms, match lookup k ms with | some v => .val v | none => .none)
  | .objRemove k => some (removeKey k ms, match lookup k ms with | some v => .val v | none => .none)
  | .setKey k x => some (insertKey k x ms, .done)
  | .orInsert k x => (match lookup k ms with
      | some v => some (ms, .val v)
      | none => some (ms ++ [(k, x)], .val x))
  | .retainNonNull => some (ms.filter (fun p => !isNull p.2), .done)
  | .append x => (match mem x with
      | some ys => some (ys.foldl (fun acc p => insertKey p.1 p.2 acc) ms, .done)   -- `extend(other.drain())`: the other's value wins
      | none => some (ms, .panic))
  | _ => Option.none

/-- `v[k] = x` on a value that is not a container: `null` becomes an object, anything else panics -/
def scalarOp {α} (mkObj : List (Key × α) → α) (isNull : Bool) (v : α) : MOp α → α × Out α
  | .setKey k x => if isNull then (mkObj [(k, x)], .done) else (v, .panic)
  | _ => (v, .panic)

def DV.isNull : DV → Bool
  | .null => true
  | _ => false
def J.isNull : J → Bool
  | .null => true
  | _ => false

/-- the elements / members another container hands over to `append` (it is promoted first) -/
def DV.elems (x : DV) : Option (List DV) := match promote x with | .arrMut xs => some xs | _ => none
def DV.members (x : DV) : Option (List (Key × DV)) := match promote x with | .objMut ms => some ms | _ => none
def J.elems : J → Option (List J) | .arr xs => some xs | _ => none
def J.members : J → Option (List (Key × J)) | .obj ms => some ms | _ => none

/-- a container operation on the target value (representation level): the container is promoted
    first (`as_array_mut` / `as_object_mut` / `as_mut`) -/
def DV.applyC (op : MOp DV) (v : DV) : DV × Out DV :=
  match promote v with
  | .arrMut xs =>
    (match arrOp DV.isNull DV.elems xs op with
     | some r => (.arrMut r.1, r.2)              -- (the array has been promoted even when the call then panics)
     | none => (v, .panic))                      -- wrong kind: rejected before any access
  | .objMut ms =>
    (match objOp DV.isNull DV.members DV.null ms op with
     | some r => (.objMut r.1, r.2)
     | none => (v, .panic))
  | _ => scalarOp DV.objMut v.isNull v op

def J.applyC (op : MOp J) (v : J) : J × Out J :=
  match v with
  | .arr xs =>
    (match arrOp J.isNull J.elems xs op with
     | some r => (.arr r.1, r.2)
     | none => (v, .panic))
  | .obj ms =>
    (match objOp J.isNull J.members J.null ms op with
     | some r => (.obj r.1, r.2)
     | none => (v, .panic))
  | _ => scalarOp J.obj v.isNull v op

/-- the operation on the target value -/
def DV.apply (op : MOp DV) (v : DV) : DV × Out DV :=
  match op with
  | .take => (.null, .val v)
  | .assign x => (x, .done)
  | op => DV.applyC op v

def J.apply (op : MOp J) (v : J) : J × Out J :=
  match op with
  | .take => (.null, .val v)
  | .assign x => (x, .done)
  | op => J.applyC op v

/-! ### histories over several values -/

/-- a value argument of an operation: a fresh value, or a clone of a part of a live value -/
inductive Arg where
  | lit (v : DV)
  | part (j : Nat) (path : List Idx)
  deriving Repr, Inhabited

def MOp.mapM {α β} (f : α → Option β) : MOp α → Option (MOp β)
  | .push x => (f x).map .push
  | .pop => some .pop
  | .insertAt n x => (f x).map (.insertAt n)
  | .removeAt n => some (.removeAt n)
  | .swapRemove n => some (.swapRemove n)
  | .truncate n => some (.truncate n)
  | .clear => some .clear
  | .objInsert k x => (f x).map (.objInsert k)
  | .objRemove k => some (.objRemove k)
  | .take => some .take
  | .assign x => (f x).map .assign
  | .setKey k x => (f x).map (.setKey k)
  | .setIdx n x => (f x).map (.setIdx n)
  | .orInsert k x => (f x).map (.orInsert k)
  | .splitOff n => some (.splitOff n)
  | .drain a b => some (.drain a b)
  | .extendWithin a b => some (.extendWithin a b)
  | .resize n x => (f x).map (.resize n)
  | .retainNonNull => some .retainNonNull
  | .append x => (f x).map .append

inductive HOp where
  | new (v : DV)                                        -- a parsed / built value enters
  | clone (i : Nat)
  | drop (i : Nat)
  | read (i : Nat) (path : List Idx)                    -- `pointer(path)`
  | mutate (i : Nat) (path : List Idx) (op : MOp Arg)   -- `pointer_mut(path)` then the operation
  deriving Repr, Inhabited

def DV.resolve (slots : List DV) : Arg → Option DV
  | .lit v => some v
  | .part j path => match slots[j]? with
    | some v => v.pointer path
    | none => none

def J.resolve (slots : List J) : Arg → Option J
  | .lit v => some (abs v)
  | .part j path => match slots[j]? with
    | some v => v.pointer path
    | none => none

/-- one step of a history on the representations of all live values; `none` = not applicable -/
def DV.hstep (slots : List DV) : HOp → Option (List DV × Out DV)
  | .new v => some (slots ++ [v], .done)
  | .clone i => match slots[i]? with
    | some v => some (slots ++ [v], .done)
    | none => none
  | .drop i => if i < slots.length then some (slots.eraseIdx i, .done) else none
  | .read i path => match slots[i]? with
    | some v => some (slots, match v.pointer path with | some c => .val c | none => .none)
    | none => none
  | .mutate i path op => match slots[i]?, op.mapM (DV.resolve slots) with
    | some v, some op' => some (slots.set i (DV.updPath (DV.apply op') path v).1, (DV.updPath (DV.apply op') path v).2)
    | _, _ => none

/-- the same step on the reference model -/
def J.hstep (slots : List J) : HOp → Option (List J × Out J)
  | .new v => some (slots ++ [abs v], .done)
  | .clone i => match slots[i]? with
    | some v => some (slots ++ [v], .done)
    | none => none
  | .drop i => if i < slots.length then some (slots.eraseIdx i, .done) else none
  | .read i path => match slots[i]? with
    | some v => some (slots, match v.pointer path with | some c => .val c | none => .none)
    | none => none
  | .mutate i path op => match slots[i]?, op.mapM (J.resolve slots) with
    | some v, some op' => some (slots.set i (J.updPath (J.apply op') path v).1, (J.updPath (J.apply op') path v).2)
    | _, _ => none

/-- a whole history: the live values at the end and what every step reported -/
def DV.hrun (slots : List DV) : List HOp → Option (List DV × List (Out DV))
  | [] => some (slots, [])
  | op :: rest => match DV.hstep slots op with
    | some (slots', o) => (DV.hrun slots' rest).map fun r => (r.1, o :: r.2)
    | none => none

def J.hrun (slots : List J) : List HOp → Option (List J × List (Out J))
  | [] => some (slots, [])
  | op :: rest => match J.hstep slots op with
    | some (slots', o) => (J.hrun slots' rest).map fun r => (r.1, o :: r.2)
    | none => none

end Mut
end Sonic
