/-
  Layer 1 — the digit machine of sonic-number/src/lib.rs (`parse_number`, `parse_number_fraction`,
  `parse_exponent`), verbatim: leading-zero cases, wrapping accumulation with the re-scan when
  more than 19 digits were read, the `exponent == 1` 20-digit rescue, the fraction reader that
  takes at most `17 - digits` more significant digits (16 after `0.d`), the truncation flag, the
  exponent scanner with its accumulation bound.  The float back end (`parse_float`: Clinger fast
  path, Eisel–Lemire, big-decimal fallback) is NOT modelled: `toFloat` carries what it is given.
-/
import SonicModel.Basic
import SonicModel.Gen.Consts
namespace Sonic
namespace Impl

inductive PNum where
  | unsigned (v : Nat)
  | signed (v : Int)
  | zero (neg : Bool)                                   -- the early `Float(±0.0)` returns
  | toFloat (neg : Bool) (sig : Nat) (e10 : Int) (trunc : Bool)
  | negIntAsFloat (sig : Nat)                            -- `Float(-(significant as f64))`
  | invalid
  deriving Repr, DecidableEq, Inhabited

def dig (buf : Buf) (i : Nat) : Nat := (buf[i]?.getD 48).toNat - 48




/-- accumulate digits from `i` while `acc < bound`; returns (acc, index after *all* digits) -/
def expDigits (buf : Buf) (bound : Nat) (i : Nat) (acc : Nat) : Nat × Nat :=
  if h : i < buf.size then
    if isDigit buf[i] then
      expDigits buf bound (i+1) (if acc < bound then (buf[i].toNat - 48) + acc * 10 else acc)
    else (acc, i)
  else (acc, i)
termination_by buf.size - i

/-- `parse_exponent`: reader just after `e`/`E` -/
def parseExponent (buf : Buf) (bound : Nat) (i : Nat) : Option (Int × Nat) :=
  if i ≥ buf.size then none
  else
    let neg := buf[i]? = some 45
    let j := if buf[i]? = some 43 || buf[i]? = some 45 then i+1 else i
    if !isDigitAt buf j then none
    else
      let (v, k) := expDigits buf bound j 0
      some (if neg then -(v : Int) else (v : Int), k)

/-- read up to `need` digits from `i` into `sig` -/
def takeDigits (buf : Buf) (need : Nat) (i : Nat) (sig : Nat) : Nat × Nat :=
  match need with
  | 0 => (sig, i)
  | need+1 => if isDigitAt buf i then takeDigits buf need (i+1) (sig * 10 + dig buf i) else (sig, i)

/-- `parse_number_fraction(need, dot_pos)`; `i` = `dot_pos` or later -/
def parseFraction (buf : Buf) (bound : Nat) (i : Nat) (sig : Nat) (exp : Int) (need : Int) (dotPos : Nat) :
    Option (Nat × Int × Bool × Nat) :=
  let (sig, i) := if need > 0 then takeDigits buf need.toNat i sig else (sig, i)
  let exp := exp - ((i : Int) - (dotPos : Int))
  let j := skipDigits buf i
  let trunc := decide (i < j)
  if buf[j]? = some 101 || buf[j]? = some 69 then
    match parseExponent buf bound (j+1) with
    | some (e, k) => some (sig, exp + e, trunc, k)
    | none => none
  else some (sig, exp, trunc, j)

/-- value of the digit run `[i, j)` computed with u64 wrapping arithmetic -/
def wrapDigits (buf : Buf) (i j : Nat) (acc : Nat) : Nat :=
  if h : i < j ∧ i < buf.size then
    wrapDigits buf (i+1) j ((acc * 10 + (buf[i].toNat - 48)) % 2^64)
  else acc
termination_by j - i

/-- `parse_number(data, index, negative)`: `i` at the first digit. Returns the classification and
    the index after the literal. -/
def parseNumber (buf : Buf) (bound : Nat) (i : Nat) (neg : Bool) : PNum × Nat :=
  if buf[i]? = some 48 then
    let i := i + 1
    match buf[i]? with
    | some 46 =>
      let i := i + 1
      let dotPos := i
      if !isDigitAt buf i then (.invalid, i)
      else
        -- skip zeros
        let rec skipZeros (k : Nat) (fuel : Nat) : Nat :=
          match fuel with
          | 0 => k
          | fuel+1 => if buf[k]? = some 48 then skipZeros (k+1) fuel else k
        let i := skipZeros i (buf.size - i)
        if buf[i]? = some 101 || buf[i]? = some 69 then
          -- 0.000e123 : only the syntax of the exponent matters
          match parseExponent buf bound (i+1) with
          | some (_, k) => (.zero neg, k)
          | none => (.invalid, i+1)
        else if !isDigitAt buf i then (.zero neg, i)
        else
          let sig := dig buf i
          let i := i + 1
          if isDigitAt buf i then
            match parseFraction buf bound i sig 0 16 dotPos with
            | some (s, e, t, k) => (.toFloat neg s e t, k)
            | none => (.invalid, i)
          else
            let exp : Int := -((i : Int) - (dotPos : Int))
            if buf[i]? = some 101 || buf[i]? = some 69 then
              match parseExponent buf bound (i+1) with
              | some (e, k) => (.toFloat neg sig (exp + e) false, k)
              | none => (.invalid, i+1)
            else (.toFloat neg sig exp false, i)
    | some 101 | some 69 =>
      match parseExponent buf bound (i+1) with
      | some (_, k) => (.zero neg, k)
      | none => (.invalid, i+1)
    | _ => (if neg then .zero true else .unsigned 0, i)
  else
    let start := i
    let j := skipDigits buf i
    let cnt := j - start
    if cnt == 0 then (.invalid, i)
    else
      -- more than 19 digits: exact value of the first 19, one power of ten per further digit
      let (sig, exp, trunc, cnt) : Nat × Int × Bool × Nat :=
        if cnt > 19 then (wrapDigits buf start (start + 19) 0, ((cnt - 19 : Nat) : Int), true, 19)
        else (wrapDigits buf start j 0, 0, false, cnt)
      if buf[j]? = some 101 || buf[j]? = some 69 then
        match parseExponent buf bound (j+1) with
        | some (e, k) => (.toFloat neg sig (exp + e) trunc, k)
        | none => (.invalid, j+1)
      else if buf[j]? = some 46 then
        if !isDigitAt buf (j+1) then (.invalid, j+1)
        else
          match parseFraction buf bound (j+1) sig exp (17 - (cnt : Int)) (j+1) with
          | some (s, e, t, k) => (.toFloat neg s e t, k)   -- `trunc = parse_number_fraction(..)`: the earlier flag is overwritten
          | none => (.invalid, j+1)
      else
        if exp == 0 then
          if neg then (if sig > 2^63 then .negIntAsFloat sig else .signed (-(sig : Int)), j)
          else (.unsigned sig, j)
        else if exp == 1 then
          let last := dig buf (j-1)
          let out := sig * 10 + last
          if out < 2^64 then (if neg then .negIntAsFloat out else .unsigned out, j)
          else (.toFloat neg sig exp true, j)
        else (.toFloat neg sig exp true, j)

end Impl
end Sonic
