/-
  Layer 2 — the unchecked lazy iterators (`to_array_iter_unchecked`, `to_object_iter_unchecked`,
  `LazyValue::into_array_iter` / `into_object_iter`): `parse_array_elem_lazy` / `parse_entry_lazy`
  with `check = false`, i.e. with `skip_one_unchecked` instead of `skip_one`: strings and containers
  by the block skippers, a number by searching for the next `]`, `}` or `,` and stepping back over
  the whitespace in front of it (`skip_number_unsafe`), literals as in the checked skip.
-/
import SonicModel.Impl.GetU
namespace Sonic
namespace GetU
open Gen Spec Impl

/-- `while index > 0 && is_whitespace(at(index - 1)) { backward(1) }` -/
def backWs (buf : Buf) : Nat → Nat
  | 0 => 0
  | p+1 => if isWs (buf[p]?.getD 0) then backWs buf p else p+1

/-- `skip_number_unsafe`, reader just after the first byte of the number -/
def skipNumberUnsafe (buf : Buf) (j : Nat) : Nat :=
  match nextTok buf [93, 125, 44] 0 j with
  | some (_, q) => backWs buf q
  | none => backWs buf buf.size

/-- `skip_one_unchecked` (reader at `i`, leading whitespace not yet skipped): end of the value -/
def skipOneU (buf : Buf) (i : Nat) : IRes :=
  match skipSpace buf i with
  | none => .err .EofWhileParsing (eofIdx buf i)
  | some (c, j) =>
    if c == 45 || isDigit c then .ok (skipNumberUnsafe buf j)
    else if c == 34 then (match skipStringAt buf j with | some e => .ok e | none => .err .EofWhileParsing buf.size)
    else if c == 123 then (match skipContainerAt buf 123 125 j with | some e => .ok e | none => .err .EofWhileParsing buf.size)
    else if c == 91 then (match skipContainerAt buf 91 93 j with | some e => .ok e | none => .err .EofWhileParsing buf.size)
    else if c == 116 then parseLiteral buf j [114, 117, 101]
    else if c == 102 then parseLiteral buf j [97, 108, 115, 101]
    else if c == 110 then parseLiteral buf j [117, 108, 108]
    else .err .InvalidJsonValue j

/-- one step of the unchecked array iterator (`arrayElemLazy` with `skip_one_unchecked`) -/
def arrayElemLazyU (buf : Buf) (i : Nat) (first : Bool) : Except (Code × Nat) (Option (Nat × Nat × Nat)) :=
  let start : Except (Code × Nat) Nat :=
    if first then
      match skipSpace buf i with
      | some (c, j) => if c == 91 then .ok j else .error (.ExpectedArrayStart, j)
      | none => .error (.ExpectedArrayStart, eofIdx buf i)
    else .ok i
  match start with
  | .error e => .error e
  | .ok i =>
    match skipSpace buf i with           -- skip_space_peek
    | none => .error (.ExpectedArrayCommaOrEnd, eofIdx buf i)
    | some (c, j) =>
      let go (from_ : Nat) : Except (Code × Nat) (Option (Nat × Nat × Nat)) :=
        match skipOneU buf from_ with
        | .ok e => .ok (some (skipWs buf from_, e, e))
        | .err c p => .error (c, p)
        | .fuel => .error (.Message, 0)
      if c == 93 then .ok none
      else if c == 44 && !first then go j
      else if first then go (j - 1)
      else .error (.ExpectedArrayCommaOrEnd, j - 1)

/-- one step of the unchecked object iterator -/
def entryLazyU (buf : Buf) (i : Nat) (first : Bool) :
    Except (Code × Nat) (Option (List UInt8 × Nat × Nat × Nat)) :=
  let start : Except (Code × Nat) Nat :=
    if first then
      match skipSpace buf i with
      | some (c, j) => if c == 123 then .ok j else .error (.ExpectedObjectStart, j)
      | none => .error (.ExpectedObjectStart, eofIdx buf i)
    else .ok i
  match start with
  | .error e => .error e
  | .ok i =>
    let afterQuote : Except (Code × Nat) (Option Nat) :=
      match skipSpace buf i with
      | none => .error (.ExpectedObjectCommaOrEnd, eofIdx buf i)
      | some (c, j) =>
        if c == 125 then .ok none
        else if c == 34 && first then .ok (some j)
        else if c == 44 && !first then
          match skipSpace buf j with
          | some (c2, j2) => if c2 == 34 then .ok (some j2) else .error (.ExpectObjectKeyOrEnd, j2)
          | none => .error (.ExpectObjectKeyOrEnd, eofIdx buf j)
        else .error (.ExpectedObjectCommaOrEnd, j)
    match afterQuote with
    | .error e => .error e
    | .ok none => .ok none
    | .ok (some q) =>
      match decodeFrom false buf q with
      | .err c p => .error (c, p)
      | .ok name e _ =>
        match parseObjectClo buf e with
        | .ok v =>
          match skipOneU buf v with
          | .ok e2 => .ok (some (name, skipWs buf v, e2, e2))
          | .err c p => .error (c, p)
          | .fuel => .error (.Message, 0)
        | .err c p => .error (c, p)
        | .fuel => .error (.Message, 0)

/-- draining the unchecked array iterator -/
def drainArrU (buf : Buf) (i : Nat) (first : Bool) : List (Nat × Nat) × Bool :=
  match arrayElemLazyU buf i first with
  | .error _ => ([], false)
  | .ok none => ([], true)
  | .ok (some (s, e, nx)) =>
    if _h : i < nx ∧ i < buf.size then
      ((s, e) :: (drainArrU buf nx false).1, (drainArrU buf nx false).2)
    else ([(s, e)], false)
termination_by buf.size - i
decreasing_by all_goals omega

/-- draining the unchecked object iterator -/
def drainObjU (buf : Buf) (i : Nat) (first : Bool) : List (List UInt8 × Nat × Nat) × Bool :=
  match entryLazyU buf i first with
  | .error _ => ([], false)
  | .ok none => ([], true)
  | .ok (some (k, s, e, nx)) =>
    if _h : i < nx ∧ i < buf.size then
      ((k, s, e) :: (drainObjU buf nx false).1, (drainObjU buf nx false).2)
    else ([(k, s, e)], false)
termination_by buf.size - i
decreasing_by all_goals omega

end GetU
end Sonic
