/-
  Layer 2 — what each vector primitive computes, lane by lane (`sonic-simd`, `src/util/arch`).
  A vector is the list of its lanes (lane 0 first); a bit mask has bit `i` for lane `i`.
-/
import SonicModel.Basic
namespace Sonic
namespace Simd

/-- `Mask::bitmask` of the lane-wise predicate -/
def maskOf (p : UInt8 → Bool) : List UInt8 → Nat
  | [] => 0
  | b :: rest => (if p b then 1 else 0) + 2 * maskOf p rest

def toI8 (b : UInt8) : Int := if b.toNat < 128 then b.toNat else (b.toNat : Int) - 256

/-- `u8xN::eq(splat c)`, `u8xN::le(splat c)`, `i8xN::le / gt (splat c)` as bit masks -/
def eqMask (v : List UInt8) (c : UInt8) : Nat := maskOf (fun b => b == c) v
def leMaskU (v : List UInt8) (c : UInt8) : Nat := maskOf (fun b => decide (b ≤ c)) v
def leMaskI (v : List UInt8) (c : UInt8) : Nat := maskOf (fun b => decide (toI8 b ≤ toI8 c)) v
def gtMaskI (v : List UInt8) (c : UInt8) : Nat := maskOf (fun b => decide (toI8 b > toI8 c)) v

/-- `prefix_xor` as the portable backend computes it (six shift-xor steps) -/
def pxor (x : BitVec 64) : BitVec 64 :=
  let x := x ^^^ (x <<< 1)
  let x := x ^^^ (x <<< 2)
  let x := x ^^^ (x <<< 4)
  let x := x ^^^ (x <<< 8)
  let x := x ^^^ (x <<< 16)
  x ^^^ (x <<< 32)

/-- what it must compute: bit `i` is the parity of the bits `0..=i` -/
def cumXor (x : BitVec 64) : Nat → Bool
  | 0 => x.getLsbD 0
  | i+1 => xor (x.getLsbD (i+1)) (cumXor x i)

/-- the whitespace test of the AVX2 backend: `_mm256_shuffle_epi8(table, input)` compared with the input -/
def wsTable : Array UInt8 := #[32, 100, 100, 100, 17, 100, 113, 2, 100, 9, 10, 112, 100, 13, 100, 100]
def shuffle (b : UInt8) : UInt8 := if b.toNat ≥ 128 then 0 else wsTable[b.toNat % 16]!
def isWsShuffle (b : UInt8) : Bool := shuffle b == b
/-- the portable backend: `matches!(b, b'\t' | b'\n' | b'\r' | b' ')` -/
def isWsScalar (b : UInt8) : Bool := b == 9 || b == 10 || b == 13 || b == 32

/-- `get_nonspace_bits` of a 64-byte block -/
def nonspaceBits (v : List UInt8) : Nat := maskOf (fun b => !isWsScalar b) v

/-! ### the 16-byte digit-run parser (`sonic-number/src/arch`): SSE lanes against the scalar loop -/

def pairUp {α β : Type} (f : α → α → β) : List α → List β
  | a :: b :: r => f a b :: pairUp f r
  | _ => []

/-- saturation / wrap-around / re-reading of a lane, as the instruction set manual states them -/
def satS16 (x : Int) : Int := if x > 32767 then 32767 else if x < -32768 then -32768 else x
def satU16 (x : Int) : Int := if x > 65535 then 65535 else if x < 0 then 0 else x
def wrapS32 (x : Int) : Int := let y := x % 4294967296; if y ≥ 2147483648 then y - 4294967296 else y
def asS16 (x : Int) : Int := if x ≥ 32768 then x - 65536 else x
def asU16 (x : Int) : Int := if x < 0 then x + 65536 else x
/-- `x as u64` of an `i32` (sign extension), and arithmetic in `u64` -/
def toU64 (x : Int) : Nat := (x % 18446744073709551616).toNat

/-- `_mm_maddubs_epi16(a, b)`: unsigned bytes of `a` times signed bytes of `b`, adjacent pairs added with signed saturation -/
def maddubs (a : List UInt8) (b : List Int) : List Int :=
  pairUp (fun x y => satS16 (x + y)) (List.zipWith (fun x y => (x.toNat : Int) * y) a b)
/-- `_mm_madd_epi16(a, b)`: signed 16-bit lanes multiplied, adjacent pairs added in 32 bits -/
def madd16 (a b : List Int) : List Int :=
  pairUp (fun x y => wrapS32 (x + y)) (List.zipWith (fun x y => x * y) a b)
/-- `_mm_slli_si128(v, k)`: the bytes move `k` lanes up, zeros come in below -/
def slli (v : List UInt8) (k : Nat) : List UInt8 := (List.replicate k 0 ++ v).take 16

def delta1 : List Int := [10, 1, 10, 1, 10, 1, 10, 1, 10, 1, 10, 1, 10, 1, 10, 1]
def delta2 : List Int := [100, 1, 100, 1, 100, 1, 100, 1]
def delta4 : List Int := [10000, 1, 10000, 1, 0, 0, 0, 0]
def packadd1 (v : List UInt8) : List Int := maddubs v delta1
def packadd2 (w : List Int) : List Int := madd16 w delta2
/-- `_mm_packus_epi32(v, v)` then `madd` -/
def packadd4 (x : List Int) : List Int := madd16 ((x ++ x).map fun l => asS16 (satU16 l)) delta4

/-- `trailing_zeros` of a non-zero 32-bit word -/
def tzF : Nat → Nat → Nat
  | 0, _ => 0
  | fuel+1, m => if m % 2 = 1 then 0 else 1 + tzF fuel (m / 2)

/-- lanes after `_mm_sub_epi8(data, '0')` -/
def subZero (c : List UInt8) : List UInt8 := c.map (· - 48)
/-- `movemask(cmpgt(0, d) | cmpgt(d, 9))` (signed comparisons) -/
def endMask (d : List UInt8) : Nat := maskOf (fun b => decide (toI8 0 > toI8 b) || decide (toI8 b > toI8 9)) d
def countOf (d : List UInt8) (need : Nat) : Nat :=
  let m := endMask d
  if m ≠ 0 then (let t := tzF 32 m; if t < need then t else need) else need

def lane8 (v : List UInt8) (i : Nat) : Int := ((v.getD i 0).toNat : Int)
def lane (v : List Int) (i : Nat) : Int := v.getD i 0

/-- the arms of the `match count` of the SSE version, on the shifted lanes -/
def sum3_4 (v : List UInt8) : Nat :=
  let w := packadd1 v
  toU64 (wrapS32 (wrapS32 (asU16 (lane w 6) * 100) + asU16 (lane w 7)))
def sum5_8 (v : List UInt8) : Nat :=
  let x := packadd2 (packadd1 v)
  (toU64 (lane x 2) * 10000 + toU64 (lane x 3)) % 18446744073709551616
def sum9_16 (v : List UInt8) : Nat :=
  let y := packadd4 (packadd2 (packadd1 v))
  (toU64 (lane y 0) * 100000000 + toU64 (lane y 1)) % 18446744073709551616

/-- the `match count`; `none` is `unreachable!()` -/
def sumOf (d : List UInt8) (count : Nat) : Option Nat :=
  if count = 0 ∨ count > 16 then none
  else if count = 1 then some (toU64 (lane8 d 0))
  else if count = 2 then some (toU64 (wrapS32 (wrapS32 (lane8 d 0 * 10) + lane8 d 1)))
  else if count ≤ 4 then some (sum3_4 (slli d (16 - count)))
  else if count ≤ 8 then some (sum5_8 (slli d (16 - count)))
  else some (sum9_16 (if count = 16 then d else slli d (16 - count)))

/-- `simd_str2int` of the x86_64 backend on the 16 bytes it loads -/
def str2intSimd (c : List UInt8) (need : Nat) : Option (Nat × Nat) :=
  let d := subZero c
  let count := countOf d need
  (sumOf d count).map fun s => (s, count)

/-- `simd_str2int` of the fallback backend: the scalar loop (sum in `u64`) -/
def str2intLoop : List UInt8 → Nat → Nat → Nat → Nat × Nat
  | [], _, sum, i => (sum, i)
  | _, 0, sum, i => (sum, i)
  | b :: rest, need+1, sum, i =>
    if 48 ≤ b ∧ b ≤ 57 then str2intLoop rest need (((b - 48).toNat + sum * 10) % 18446744073709551616) (i + 1)
    else (sum, i)
def str2intScalar (c : List UInt8) (need : Nat) : Nat × Nat := str2intLoop c need 0 0

end Simd
end Sonic
