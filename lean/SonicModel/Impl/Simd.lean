/-
  Layer 2 — what each vector primitive computes, lane by lane (`sonic-simd`, `src/util/arch`).
  A vector is the list of its lanes (lane 0 first); a bit mask has bit `i` for lane `i`.
-/
import SonicModel.Basic
namespace Sonic
namespace Simd

/-- `Mask::bitmask` of the lane-wise predicate -/
def maskOf (p : UInt8 → Bool) : List UInt8 → Nat
  | [] => 0
  | b :: rest => (if p b then 1 else 0) + 2 * maskOf p rest

def toI8 (b : UInt8) : Int := if b.toNat < 128 then b.toNat else (b.toNat : Int) - 256

/-- `u8xN::eq(splat c)`, `u8xN::le(splat c)`, `i8xN::le / gt (splat c)` as bit masks -/
def eqMask (v : List UInt8) (c : UInt8) : Nat := maskOf (fun b => b == c) v
def leMaskU (v : List UInt8) (c : UInt8) : Nat := maskOf (fun b => decide (b ≤ c)) v
def leMaskI (v : List UInt8) (c : UInt8) : Nat := maskOf (fun b => decide (toI8 b ≤ toI8 c)) v
def gtMaskI (v : List UInt8) (c : UInt8) : Nat := maskOf (fun b => decide (toI8 b > toI8 c)) v

/-- `prefix_xor` as the portable backend computes it (six shift-xor steps) -/
def pxor (x : BitVec 64) : BitVec 64 :=
  let x := x ^^^ (x <<< 1)
  let x := x ^^^ (x <<< 2)
  let x := x ^^^ (x <<< 4)
  let x := x ^^^ (x <<< 8)
  let x := x ^^^ (x <<< 16)
  x ^^^ (x <<< 32)

/-- what it must compute: bit `i` is the parity of the bits `0..=i` -/
def cumXor (x : BitVec 64) : Nat → Bool
  | 0 => x.getLsbD 0
  | i+1 => xor (x.getLsbD (i+1)) (cumXor x i)

/-- the whitespace test of the AVX2 backend: `_mm256_shuffle_epi8(table, input)` compared with the input -/
def wsTable : Array UInt8 := #[32, 100, 100, 100, 17, 100, 113, 2, 100, 9, 10, 112, 100, 13, 100, 100]
def shuffle (b : UInt8) : UInt8 := if b.toNat ≥ 128 then 0 else wsTable[b.toNat % 16]!
def isWsShuffle (b : UInt8) : Bool := shuffle b == b
/-- the portable backend: `matches!(b, b'\t' | b'\n' | b'\r' | b' ')` -/
def isWsScalar (b : UInt8) : Bool := b == 9 || b == 10 || b == 13 || b == 32

/-- `get_nonspace_bits` of a 64-byte block -/
def nonspaceBits (v : List UInt8) : Nat := maskOf (fun b => !isWsScalar b) v

end Simd
end Sonic
