/-
  Layer 1 — scalar model of the *validate-and-skip* path of src/parser.rs, one Lean
  function per Rust function, same branch order, same error codes, same reader index at
  every `perr!`.

    skip_space            -> skipSpace         (pure view; the cached-bitmap version is Layer 2)
    skip_single_digit     -> skipSingleDigit
    skip_exponent         -> skipExponent
    do_skip_number        -> doSkipNumber      (the 32-lane loop is "skip digits", see Layer 2)
    skip_escaped_chars    -> skipEscapedChars
    skip_string           -> skipString
    parse_literal         -> parseLiteral
    parse_object_clo      -> parseObjectClo
    skip_one / skip_array / skip_object -> skipOne / skipArray / skipArrayLoop / skipObject / skipObjectLoop
    parse_trailing        -> parseTrailing
    Parser::error         -> finalError

  `buf` is the physical buffer the reader may touch and `len` the logical length of the
  JSON (`len = buf.size` for `Read`; `len = buf.size - 64` for `PaddedSliceRead`).  A read
  past `buf.size` shows up as `none` from `buf[i]?`; for the padded reader that would be an
  out-of-bounds access of the real code (see Thm/C01).
-/
import SonicModel.Basic
import SonicModel.Gen.Tables
namespace Sonic
namespace Impl
open Gen

/-- `skip_space`: first non-whitespace byte at or after `i` and the index just after it. -/
def skipSpace (buf : Buf) (i : Nat) : Option (UInt8 × Nat) :=
  let j := skipWs buf i
  if h : j < buf.size then some (buf[j], j+1) else none

/-- reader index after a `skip_space` that returned `None` -/
def eofIdx (buf : Buf) (i : Nat) : Nat := skipWs buf i

def escTab (c : UInt8) : UInt8 := escapedTab[c.toNat]?.getD 0

/-- `skip_single_digit` with the reader at `i` -/
def skipSingleDigit (buf : Buf) (i : Nat) : IRes :=
  match buf[i]? with
  | none => .err .EofWhileParsing i
  | some c => if isDigit c then .ok (i+1) else .err .InvalidNumber (i+1)

/-- `skip_exponent` with the reader just after `e`/`E` -/
def skipExponent (buf : Buf) (i : Nat) : IRes :=
  let j := if buf[i]? = some 45 || buf[i]? = some 43 then i+1 else i
  match skipSingleDigit buf j with
  | .ok k => .ok (skipDigits buf k)
  | r => r

def isExpChar (o : Option UInt8) : Bool := o = some 101 || o = some 69

/-- the part of `do_skip_number` after the "fast path for the single digit": skip the digit
    run (32 lanes at a time, then bytewise), then at most one fraction if none was seen, then
    an optional exponent -/
def numTail (buf : Buf) (i : Nat) (isFloat : Bool) : IRes :=
  let j := skipDigits buf i
  if buf[j]? = some 46 && !isFloat then
    match skipSingleDigit buf (j+1) with
    | .ok k =>
      let m := skipDigits buf k
      if isExpChar buf[m]? then skipExponent buf (m+1) else .ok m
    | r => r
  else if isExpChar buf[j]? then skipExponent buf (j+1)
  else .ok j

/-- `do_skip_number` after the optional sign: `first` is the first digit, the reader is at
    `i` just after it ("check the leading zeros" + "fast path for the single digit") -/
def numAfterFirst (buf : Buf) (first : UInt8) (i : Nat) : IRes :=
  if first == 48 && isDigitAt buf i then .err .InvalidNumber i
  else
    match buf[i]? with
    | some c =>
      if isDigit c then numTail buf (i+1) false
      else if c == 46 then
        match skipSingleDigit buf (i+1) with
        | .ok k => numTail buf k true
        | r => r
      else if c == 101 || c == 69 then skipExponent buf (i+1)
      else .ok i
    | none => .ok i

/-- `do_skip_number(first)` with the reader at `i`, just after the byte `first` -/
def doSkipNumber (buf : Buf) (first : UInt8) (i : Nat) : IRes :=
  if first == 45 then
    match skipSingleDigit buf i with
    | .ok k => numAfterFirst buf (buf[i]?.getD 0) k
    | r => r
  else numAfterFirst buf first i

/-- value of four hex digits at `i` are all hex digits (what the repaired
    `skip_escaped_chars` checks) -/
def hex4ok (buf : Buf) (i : Nat) : Bool :=
  match buf[i]?, buf[i+1]?, buf[i+2]?, buf[i+3]? with
  | some a, some b, some c, some d => isHex a && isHex b && isHex c && isHex d
  | _, _, _, _ => false

/-- `skip_escaped_chars` with the reader at `i`, just after a backslash -/
def skipEscapedChars (buf : Buf) (len : Nat) (i : Nat) : IRes :=
  match buf[i]? with
  | none => .err .EofWhileParsing i
  | some c =>
    if c == 117 then
      if len - i < 6 then .err .EofWhileParsing i
      else if hex4ok buf (i+1) then .ok (i+5)
      else .err .InvalidUnicodeCodePoint (i+5)
    else if escTab c == 0 then .err .InvalidEscape (i+1)
    else .ok (i+1)

/-- `skip_string` with the reader at `i`, just after the opening quote -/
def skipString (buf : Buf) (len : Nat) (i : Nat) : IRes :=
  if h : i < buf.size then
    let c := buf[i]
    if c == 92 then
      match skipEscapedChars buf len (i+1) with
      | .ok j => if i < j then skipString buf len j else .fuel
      | r => r
    else if c == 34 then .ok (i+1)
    else if c ≤ 0x1f then .err .ControlCharacterWhileParsingString (i+1)
    else skipString buf len (i+1)
  else .err .EofWhileParsing i
termination_by buf.size - i

/-- `parse_literal(rest)` with the reader at `i` -/
def parseLiteral (buf : Buf) (i : Nat) (rest : List UInt8) : IRes :=
  if i + rest.length ≤ buf.size then
    (if (litAt buf i rest).isSome then .ok (i + rest.length) else .err .InvalidLiteral (i + rest.length))
  else .err .EofWhileParsing i

/-- `parse_object_clo` -/
def parseObjectClo (buf : Buf) (i : Nat) : IRes :=
  match buf[i]? with
  | none => .err .EofWhileParsing i
  | some ch =>
    if ch == 58 then .ok (i+1)
    else match skipSpace buf i with
      | some (c, j) => if c == 58 then .ok j else .err .ExpectedColon j
      | none => .err .EofWhileParsing (eofIdx buf i)

mutual
/-- `skip_one` (reader at `i`, leading whitespace not yet skipped) -/
def skipOne (len : Nat) : Nat → Buf → Nat → IRes
  | 0, _, _ => .fuel
  | f+1, buf, i =>
    match skipSpace buf i with
    | none => .err .EofWhileParsing (eofIdx buf i)
    | some (c, j) =>
      if c == 45 || isDigit c then doSkipNumber buf c j
      else if c == 34 then skipString buf len j
      else if c == 123 then skipObject len f buf j
      else if c == 91 then skipArray len f buf j
      else if c == 116 then parseLiteral buf j [114, 117, 101]
      else if c == 102 then parseLiteral buf j [97, 108, 115, 101]
      else if c == 110 then parseLiteral buf j [117, 108, 108]
      else .err .InvalidJsonValue j
/-- `skip_array` (reader just after `[`) -/
def skipArray (len : Nat) : Nat → Buf → Nat → IRes
  | 0, _, _ => .fuel
  | f+1, buf, i =>
    match skipSpace buf i with
    | none => .err .EofWhileParsing (eofIdx buf i)
    | some (c, j) => if c == 93 then .ok j else skipArrayLoop len f buf (j-1)
/-- the `loop` of `skip_array` -/
def skipArrayLoop (len : Nat) : Nat → Buf → Nat → IRes
  | 0, _, _ => .fuel
  | f+1, buf, i =>
    match skipOne len f buf i with
    | .ok e =>
      match skipSpace buf e with
      | none => .err .EofWhileParsing (eofIdx buf e)
      | some (c, j) =>
        if c == 93 then .ok j
        else if c == 44 then skipArrayLoop len f buf j
        else .err .ExpectedArrayCommaOrEnd j
    | r => r
/-- `skip_object` (reader just after `{`) -/
def skipObject (len : Nat) : Nat → Buf → Nat → IRes
  | 0, _, _ => .fuel
  | f+1, buf, i =>
    match skipSpace buf i with
    | none => .err .EofWhileParsing (eofIdx buf i)
    | some (c, j) =>
      if c == 125 then .ok j
      else if c == 34 then skipObjectLoop len f buf j
      else .err .ExpectObjectKeyOrEnd j
/-- the `loop` of `skip_object` (reader just after the opening quote of a key) -/
def skipObjectLoop (len : Nat) : Nat → Buf → Nat → IRes
  | 0, _, _ => .fuel
  | f+1, buf, i =>
    match skipString buf len i with
    | .ok k =>
      match parseObjectClo buf k with
      | .ok v =>
        match skipOne len f buf v with
        | .ok e =>
          match skipSpace buf e with
          | none => .err .EofWhileParsing (eofIdx buf e)
          | some (c, j) =>
            if c == 125 then .ok j
            else if c == 44 then
              match skipSpace buf j with
              | some (c2, j2) =>
                if c2 == 34 then skipObjectLoop len f buf j2 else .err .ExpectObjectKeyOrEnd j2
              | none => .err .ExpectObjectKeyOrEnd (eofIdx buf j)
            else .err .ExpectedObjectCommaOrEnd j
        | r => r
      | r => r
    | r => r
end

/-- fuel that always suffices for `skipOne` on `buf` (proved in Lemmas/Fuel) -/
def fuelFor (buf : Buf) : Nat := 3 * buf.size + 6

/-- `parse_trailing` for the checked reader, reader at `i` -/
def parseTrailing (buf : Buf) (len : Nat) (i : Nat) : IRes :=
  if i > len then .err .EofWhileParsing i
  else if len - i = 0 then .ok i
  else match skipSpace buf i with
    | some (_, j) => if j > len then .ok j else .err .TrailingCharacters j
    | none => .ok (eofIdx buf i)

/-- `Parser::error` + `Error::syntax`: final (code, offset) for an error raised with the
    reader at `idx`; `inv` = `next_invalid_utf8` (`none` = `usize::MAX`) -/
def finalError (len : Nat) (inv : Option Nat) (code : Code) (idx : Nat) : Code × Nat :=
  match inv with
  | some p => (.InvalidUTF8, p)
  | none =>
    let index := idx - 1
    if index > len then (.EofWhileParsing, len) else (code, index)

end Impl
end Sonic
