/-
  C10 — lazy `get` returns exactly what a full parse followed by lookup finds.
-/
import SonicModel.Lemmas.GetRefine
import SonicModel.Lemmas.SpecBound
namespace Sonic.Thm.C10
open Sonic Gen Impl Spec

/-- **checked `get` == specification lookup** (walker level): for every buffer, every start index
    and every path of keys and indices, the checked walker (`get_from_object_checked`,
    `get_from_array_checked`, then `skip_one`) finds a value exactly when the path resolves in
    the text, returns exactly the source span of that value, and reports "not found" exactly
    when the traversed text is well-formed but the key / index is absent. First member wins. -/
theorem get_eq_lookup (buf : Buf) (path : List Step) (i : Nat) :
    (getChecked buf.size buf i path).coarse = (look buf (skipWs buf i) path).coarse :=
  getChecked_coarse buf path i

/-- spelled out for success: the span returned is the span the specification finds -/
theorem get_found_iff (buf : Buf) (path : List Step) (s e : Nat) :
    getChecked buf.size buf 0 path = .found s e ↔ lookup buf path = .found s e := by
  have h := getChecked_coarse buf path 0
  unfold lookup
  constructor
  · intro hg
    rw [hg] at h
    cases hl : look buf (skipWs buf 0) path <;> simp_all [GRes.coarse, Look.coarse]
  · intro hl
    rw [hl] at h
    cases hg : getChecked buf.size buf 0 path with
    | found s' e' => simp_all [GRes.coarse, Look.coarse]
    | err c p => simp [hg, GRes.coarse, Look.coarse] at h; split at h <;> simp at h
    | fuel => simp [hg, GRes.coarse, Look.coarse] at h

/-- the value found is a well-formed JSON value without surrounding whitespace, inside the input -/
theorem look_found_wf (buf : Buf) : ∀ (path : List Step) (i s e : Nat), look buf i path = .found s e →
    value false (Spec.fuelFor buf) buf s = .ok e ∧ s < e ∧ e ≤ buf.size := by
  intro path
  induction path with
  | nil =>
    intro i s e h
    unfold look valueSpan at h
    cases hv : value false (Spec.fuelFor buf) buf i with
    | ok e' =>
      simp [hv] at h
      obtain ⟨rfl, rfl⟩ := h
      exact ⟨hv, ((Spec.progress false buf _ _ _).1 hv).1, (Spec.bound false buf _ _ _).1 hv⟩
    | err => simp [hv] at h
    | fuel => simp [hv] at h
  | cons st rest ih =>
    intro i s e h
    cases st with
    | key k =>
      unfold look at h
      split at h
      · simp only at h
        split at h
        · simp at h
        · split at h
          · exact ih _ s e h
          · simp at h
          · simp at h
      · split at h <;> simp at h
    | idx n =>
      unfold look at h
      split at h
      · simp only at h
        split at h
        · simp at h
        · split at h
          · exact ih _ s e h
          · simp at h
          · simp at h
      · split at h <;> simp at h

/-! non-vacuity -/
/-- `{"a":[1,{"b":"x"}]}` -/
def ex1 : Buf := #[123, 34, 97, 34, 58, 91, 49, 44, 123, 34, 98, 34, 58, 34, 120, 34, 125, 93, 125]
example : lookup ex1 [.key [97], .idx 1, .key [98]] = .found 13 16 := by decide +kernel
example : getChecked ex1.size ex1 0 [.key [97], .idx 1, .key [98]] = .found 13 16 := by decide +kernel
example : lookup ex1 [.key [99]] = .missing := by decide +kernel

end Sonic.Thm.C10
