import SonicModel.Impl.Get
namespace Sonic.Thm.C10
end Sonic.Thm.C10
