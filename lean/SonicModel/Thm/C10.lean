/-
  C10 — lazy `get` returns exactly what a full parse followed by lookup finds.
-/
import SonicModel.Lemmas.GetRefine
import SonicModel.Lemmas.SpecBound
import SonicModel.Lemmas.BlockProof
import SonicModel.Lemmas.ScanGrammar
import SonicModel.Lemmas.StrSkipGrammar
import SonicModel.Lemmas.GetURefine
import SonicModel.Lemmas.LookWF
namespace Sonic.Thm.C10
open Sonic Gen Impl Spec

/-- **checked `get` == specification lookup** (walker level): for every buffer, every start index
    and every path of keys and indices, the checked walker (`get_from_object_checked`,
    `get_from_array_checked`, then `skip_one`) finds a value exactly when the path resolves in
    the text, returns exactly the source span of that value, and reports "not found" exactly
    when the traversed text is well-formed but the key / index is absent. First member wins. -/
theorem get_eq_lookup (buf : Buf) (path : List Step) (i : Nat) :
    (getChecked buf.size buf i path).coarse = (look buf (skipWs buf i) path).coarse :=
  getChecked_coarse buf path i

/-- spelled out for success: the span returned is the span the specification finds -/
theorem get_found_iff (buf : Buf) (path : List Step) (s e : Nat) :
    getChecked buf.size buf 0 path = .found s e ↔ lookup buf path = .found s e := by
  have h := getChecked_coarse buf path 0
  unfold lookup
  constructor
  · intro hg
    rw [hg] at h
    cases hl : look buf (skipWs buf 0) path <;> simp_all [GRes.coarse, Look.coarse]
  · intro hl
    rw [hl] at h
    cases hg : getChecked buf.size buf 0 path with
    | found s' e' => simp_all [GRes.coarse, Look.coarse]
    | err c p => simp [hg, GRes.coarse, Look.coarse] at h; split at h <;> simp at h
    | fuel => simp [hg, GRes.coarse, Look.coarse] at h

/-- the value found is a well-formed JSON value without surrounding whitespace, inside the input -/
theorem look_found_wf (buf : Buf) : ∀ (path : List Step) (i s e : Nat), look buf i path = .found s e →
    value false (Spec.fuelFor buf) buf s = .ok e ∧ s < e ∧ e ≤ buf.size := by
  intro path
  induction path with
  | nil =>
    intro i s e h
    unfold look valueSpan at h
    cases hv : value false (Spec.fuelFor buf) buf i with
    | ok e' =>
      simp [hv] at h
      obtain ⟨rfl, rfl⟩ := h
      exact ⟨hv, ((Spec.progress false buf _ _ _).1 hv).1, (Spec.bound false buf _ _ _).1 hv⟩
    | err => simp [hv] at h
    | fuel => simp [hv] at h
  | cons st rest ih =>
    intro i s e h
    cases st with
    | key k =>
      unfold look at h
      split at h
      · simp only at h
        split at h
        · simp at h
        · split at h
          · exact ih _ s e h
          · simp at h
          · simp at h
      · split at h <;> simp at h
    | idx n =>
      unfold look at h
      split at h
      · simp only at h
        split at h
        · simp at h
        · split at h
          · exact ih _ s e h
          · simp at h
          · simp at h
      · split at h <;> simp at h

/-! non-vacuity -/
/-- `{"a":[1,{"b":"x"}]}` -/
def ex1 : Buf := #[123, 34, 97, 34, 58, 91, 49, 44, 123, 34, 98, 34, 58, 34, 120, 34, 125, 93, 125]
example : lookup ex1 [.key [97], .idx 1, .key [98]] = .found 13 16 := by decide +kernel
example : getChecked ex1.size ex1 0 [.key [97], .idx 1, .key [98]] = .found 13 16 := by decide +kernel
example : lookup ex1 [.key [99]] = .missing := by decide +kernel


/-! ### the unchecked lookups skip containers with a bit-parallel scanner -/

/-- **`skip_container` (the bit-parallel scanner behind `get_unchecked`, `get_many_unchecked` and the
    unchecked iterators) is the scalar scan**: for every text after an opening bracket — well-formed or
    not — the block algorithm (64 bytes at a time: escape mask by carry-propagating addition, in-string
    mask by prefix xor, brackets matched by popcount over the closing-bracket bits, carries between
    blocks, zero-padded last block) consumes exactly the number of bytes that walking the text byte by
    byte with "backslash escapes the next byte, an unescaped quote toggles the string state, brackets
    count outside strings" consumes, and reports end-of-input exactly when that does -/
theorem unchecked_container_skip_is_scalar_scan (left right : UInt8) (hne : left ≠ right) (hr : right ≠ 0)
    (data : List UInt8) :
    Block.skipContainer (data.length / 64 + 1) data Block.St.init left right 0 =
      Spec.skipContainerScalar left right data :=
  Block.skipContainer_eq_scalar left right hne hr data

/-- one block, with any incoming carries -/
theorem unchecked_container_block (bl : List UInt8) (hl : bl.length = 64) (st : Block.St) (hg : Block.Good st)
    (left right : UInt8) (hne : left ≠ right) :
    (Block.containerBlock bl st left right).1 = (Spec.scan left right bl (Block.dec st)).1 :=
  (Block.containerBlock_spec bl hl st hg left right hne).1

/-- **on well-formed input the unchecked skipper is right**: if a container of the RFC 8259 grammar starts at `i`
    (`{` or `[`) and ends at `e`, then `skip_container`, started just after the opening bracket on the rest of the
    buffer — whatever follows the container — consumes exactly the bytes up to and including the matching closing
    bracket (nested containers of both kinds, strings with brackets, escaped quotes and backslash runs, any whitespace) -/
theorem unchecked_skip_finds_the_matching_bracket (left right : UInt8) (hk : Spec.Kind left right) (buf : Buf)
    (f i e : Nat) (hopen : buf[i]? = some left) (h : Spec.value false f buf i = .ok e) :
    Block.skipContainer ((buf.toList.drop (i + 1)).length / 64 + 1) (buf.toList.drop (i + 1)) Block.St.init left right 0 =
      some (e - (i + 1)) := by
  have hne : left ≠ right := by rcases hk with ⟨rfl, rfl⟩ | ⟨rfl, rfl⟩ <;> decide
  have hr : right ≠ 0 := by rcases hk with ⟨_, rfl⟩ | ⟨_, rfl⟩ <;> decide
  rw [Block.skipContainer_eq_scalar left right hne hr]
  unfold Spec.skipContainerScalar
  rw [← Spec.scanB_list left right buf (buf.size - (i + 1)) (i + 1) Spec.ScanSt.init rfl]
  have hbe := ((Spec.bound false buf f i e).1) h
  exact Spec.container_scan left right hk buf f i e hopen h buf.size hbe

/-- non-vacuity: `"a}\"{" : [ { } ] } tail` after `{` — the brace inside the string and the escaped quote do not count -/
example : Spec.skipContainerScalar 123 125 [34, 97, 125, 92, 34, 123, 34, 58, 91, 123, 125, 93, 125, 32, 125] = some 13 := by
  decide

/-! ### the unchecked lookups skip strings 32 bytes at a time -/

/-- **`skip_string_unchecked` (strings skipped by `get_unchecked`, `get_many_unchecked`, the unchecked iterators and
    the children of owned lazy values) is the scalar string scan**: for every text after an opening quote — well-formed
    or not — the block algorithm (32 bytes at a time; the escape mask is computed only when a backslash stands before
    the first quote of the block or the previous block ended in an unescaped backslash; then a byte loop over the last
    fewer than 32 bytes) consumes exactly the bytes up to and including the first quote that is not escaped, reports
    end-of-input exactly when there is none, and reports "has escapes" exactly when the consumed text contains a backslash -/
theorem unchecked_string_skip_is_scalar_scan (data : List UInt8) :
    StrSkip.skipString (data.length / 32 + 1) data 0#32 0 false = Spec.skipStringScalar data :=
  StrSkip.skipString_eq_scalar data

/-- **on a well-formed string the unchecked skipper is right**: if a string of the RFC 8259 grammar starts at `i`
    (opening quote) and ends at `e`, then `skip_string_unchecked`, started just after the opening quote on the rest of
    the buffer — whatever follows — consumes exactly the bytes up to and including the closing quote, and its status says
    whether the literal contains a backslash (i.e. whether its content has to be unescaped) -/
theorem unchecked_string_skip_finds_the_closing_quote (buf : Buf) (f i e : Nat) (hopen : buf[i]? = some 34)
    (h : Spec.value false f buf i = .ok e) :
    StrSkip.skipString ((buf.toList.drop (i + 1)).length / 32 + 1) (buf.toList.drop (i + 1)) 0#32 0 false =
      some (e - (i + 1), ((buf.toList.drop (i + 1)).take (e - (i + 1))).any (· == 92)) := by
  rw [StrSkip.skipString_eq_scalar]
  cases f with
  | zero => simp [Spec.value] at h
  | succ f =>
    have hs : Spec.stringG buf (i + 1) = some e := by
      simp only [Spec.value, hopen] at h
      have h1 : ((34 : UInt8) == 45 || isDigit 34) = false := by decide
      simp only [h1, Bool.false_eq_true, if_false, beq_self_eq_true, if_true, Spec.string] at h
      cases hg : Spec.stringG buf (i + 1) with
      | none => rw [hg] at h; simp [Res.ofOpt] at h
      | some e' => rw [hg] at h; simp [Res.ofOpt] at h; rw [h]
    unfold Spec.skipStringScalar
    rw [StrSkip.stringG_strScan buf _ (i + 1) e rfl hs]
    rfl

/-- non-vacuity: `a\"b\\" tail` after the opening quote: 7 bytes, has escapes; `ab"`: 3 bytes, none; unterminated: none -/
example : Spec.skipStringScalar [97, 92, 34, 98, 92, 92, 34, 32, 34] = some (7, true) := by decide
example : Spec.skipStringScalar [97, 98, 34, 92] = some (3, false) := by decide
example : Spec.skipStringScalar [97, 92, 34] = none := by decide

/-! ### the unchecked lookups (`get_unchecked`, `LazyValue::get` / `pointer`) -/

/-- **`get_next_token` (32 bytes at a time, then byte by byte) is the scalar search** for the first byte that is one of
    the tokens, for every text, token set and `advance` -/
theorem next_token_is_scalar_search (toks : List UInt8) (adv : Nat) (data : List UInt8) (pos : Nat) :
    GetU.nextTokenBlk toks adv (data.length / 32 + 1) data pos = GetU.tailTok toks adv data pos :=
  GetU.nextTokenBlk_eq_tail toks adv _ data pos (by omega)

/-- **unchecked `get` == specification lookup**: the model of `get_from_with_iter_unchecked` — members and elements passed
    over with the bit-parallel container skipper, the block string skipper or (numbers, literals) not at all, the next member /
    element found by `get_next_token`, keys decoded and compared like the checked walker, the value found skipped with the
    checked `skip_one` — returns, for every buffer, start index and path, exactly the span the specification finds, and fails
    when the path does not resolve (absent key / index, step of the wrong kind, empty container), **whenever everything the
    lookup has to pass over is well-formed** (`look` is not `malformed`; nothing is assumed about the bytes after the value) -/
theorem unchecked_get_eq_lookup (buf : Buf) (path : List Step) (i : Nat) :
    match look buf (skipWs buf i) path with
    | .found s e => GetU.getUnchecked buf i path = .found s e
    | .missing => ∃ c p, GetU.getUnchecked buf i path = .err c p
    | .wrongKind => ∃ c p, GetU.getUnchecked buf i path = .err c p
    | .malformed => True :=
  GetU.getUnchecked_spec buf path i

/-- **the unchecked variant gives the same answer as the checked one**: whatever the checked `get` finds, the unchecked `get`
    finds — the same span —, and where the checked `get` reports "not found" the unchecked one fails too -/
theorem unchecked_get_agrees_with_checked (buf : Buf) (path : List Step) (i : Nat) :
    (∀ s e, getChecked buf.size buf i path = .found s e → GetU.getUnchecked buf i path = .found s e) ∧
    (∀ c p, getChecked buf.size buf i path = .err c p → c.category = .NotFound → ∃ c' p', GetU.getUnchecked buf i path = .err c' p') := by
  have hc := getChecked_coarse buf path i
  have hu := GetU.getUnchecked_spec buf path i
  constructor
  · intro s e hg
    rw [hg] at hc
    cases hl : look buf (skipWs buf i) path with
    | found s' e' =>
      rw [hl] at hc hu
      simp only [GRes.coarse, Look.coarse, Coarse.found.injEq] at hc
      rw [hc.1, hc.2]; exact hu
    | missing => rw [hl] at hc; simp [GRes.coarse, Look.coarse] at hc
    | wrongKind => rw [hl] at hc; simp [GRes.coarse, Look.coarse] at hc
    | malformed => rw [hl] at hc; simp [GRes.coarse, Look.coarse] at hc
  · intro c p hg hcat
    rw [hg] at hc
    cases hl : look buf (skipWs buf i) path with
    | found s' e' => rw [hl] at hc; simp [GRes.coarse, Look.coarse, hcat] at hc
    | missing => rw [hl] at hu; exact hu
    | wrongKind => rw [hl] at hc; simp [GRes.coarse, Look.coarse, hcat] at hc
    | malformed => rw [hl] at hc; simp [GRes.coarse, Look.coarse, hcat] at hc

/-- what the strict grammar (the DOM's) accepts the lazy grammar accepts too, with the same extent -/
theorem strict_value_is_lazy_value (buf : Buf) (f i e : Nat) (h : Spec.value true f buf i = .ok e) :
    Spec.value false f buf i = .ok e :=
  Spec.value_strict_lazy buf f i e h

/-- in a strictly well-formed value a lookup finds a value or the path does not resolve: it never runs into malformed text -/
theorem lookup_in_wellformed_value (buf : Buf) (path : List Step) (f w E : Nat) (h : Spec.value true f buf w = .ok E) :
    look buf w path ≠ .malformed :=
  Spec.look_wellformed buf path f w E h

/-- **on every well-formed document (the grammar the DOM accepts: RFC 8259 with every string decodable) the unchecked `get`
    succeeds if and only if the path resolves, and then returns exactly the span of the value the specification finds** —
    for every path, whatever follows the document -/
theorem unchecked_get_on_wellformed_documents (buf : Buf) (path : List Step) (i f E : Nat)
    (hwf : Spec.value true f buf (skipWs buf i) = .ok E) (s e : Nat) :
    GetU.getUnchecked buf i path = .found s e ↔ look buf (skipWs buf i) path = .found s e := by
  have hu := GetU.getUnchecked_spec buf path i
  have hnm := Spec.look_wellformed buf path f _ E hwf
  cases hl : look buf (skipWs buf i) path with
  | found s' e' =>
    rw [hl] at hu
    rw [hu]
    constructor
    · intro h; injection h with h1 h2; rw [h1, h2]
    · intro h; injection h with h1 h2; rw [h1, h2]
  | missing =>
    rw [hl] at hu
    obtain ⟨c, p, hu⟩ := hu
    rw [hu]; simp
  | wrongKind =>
    rw [hl] at hu
    obtain ⟨c, p, hu⟩ := hu
    rw [hu]; simp
  | malformed => exact absurd hl hnm

/-- … and the same for the checked `get` (from `get_found_iff`'s walker-level form), so that the two variants agree on every
    well-formed document -/
theorem checked_and_unchecked_get_agree_on_wellformed_documents (buf : Buf) (path : List Step) (i f E : Nat)
    (hwf : Spec.value true f buf (skipWs buf i) = .ok E) (s e : Nat) :
    GetU.getUnchecked buf i path = .found s e ↔ getChecked buf.size buf i path = .found s e := by
  rw [unchecked_get_on_wellformed_documents buf path i f E hwf s e]
  have h := getChecked_coarse buf path i
  constructor
  · intro hl
    rw [hl] at h
    cases hg : getChecked buf.size buf i path with
    | found s' e' => simp_all [GRes.coarse, Look.coarse]
    | err c p => simp [hg, GRes.coarse, Look.coarse] at h; split at h <;> simp at h
    | fuel => simp [hg, GRes.coarse, Look.coarse] at h
  · intro hg
    rw [hg] at h
    cases hl : look buf (skipWs buf i) path <;> simp_all [GRes.coarse, Look.coarse]

/-- non-vacuity: the example document, with a string full of brackets and an escaped quote to pass over -/
def ex2 : Buf := #[123, 34, 115, 34, 58, 34, 125, 92, 34, 93, 34, 44, 34, 97, 34, 58, 91, 49, 44, 123, 34, 98, 34, 58, 34, 120, 34, 125, 93, 125]
example : lookup ex2 [.key [97], .idx 1, .key [98]] = .found 24 27 := by decide +kernel
example : Spec.value true (Spec.fuelFor ex2) ex2 0 = .ok 30 := by decide +kernel

end Sonic.Thm.C10
