/-
  C19 — converting through the DOM commutes with converting through text.

  On serde's data model (`Spec.Val`, the values of the type family of C04):
    * `text_route_is_dom_route`: writing a value as text equals converting it to a DOM tree and
      writing that tree (`to_string(x) = to_string(to_value(x))`) — for every value;
    * DOM equality (`impl PartialEq for Value`, `Object::eq` as repaired) is reflexive and symmetric
      for all DOM values, objects with duplicated keys included; before the repair it was not
      symmetric (`one_directional_object_eq_is_not_symmetric`).
  The remaining half of the property — that the text parses back to that tree — is C06's round trip
  (proved there for strings; containers are compared on every case).
-/
import SonicModel.Lemmas.DomValProof
import SonicModel.Lemmas.DomPerm
namespace Sonic.Thm.C19
open Sonic Spec

theorem text_route_is_dom_route (v : Val) : v.render = v.toJ.render := render_toJ v

theorem equality_reflexive (a : DJ) : a.eq a = true := DJ.eq_refl a
theorem equality_symmetric (a b : DJ) : a.eq b = b.eq a := DJ.eq_symm a b

/-- equality is insensitive to the member order: objects holding the same members in any order
    (no duplicated key) are equal -/
theorem equality_ignores_member_order (ms ns : List (List UInt8 × DJ)) (hp : ms.Perm ns)
    (hn : (ms.map Prod.fst).Nodup) : (DJ.obj ms).eq (DJ.obj ns) = true := obj_eq_of_perm ms ns hp hn

/-- the comparison as originally written (keys of the left object only) on a duplicated key -/
def oneWay (ms ns : List (List UInt8 × DJ)) : Bool := ms.length == ns.length && eqvKeys 3 ms ns ms

theorem one_directional_object_eq_is_not_symmetric :
    oneWay [([97], .int 1), ([97], .int 2)] [([97], .int 1), ([98], .int 9)] = true ∧
    oneWay [([97], .int 1), ([98], .int 9)] [([97], .int 1), ([97], .int 2)] = false := by
  constructor <;> simp [oneWay, eqvKeys, getFirst, eqv]

/-! non-vacuity -/
example : (Val.struct [([97], .some (.int 5)), ([98], .map [(.int (-3), .bool true)])]).render =
    (Val.struct [([97], .some (.int 5)), ([98], .map [(.int (-3), .bool true)])]).toJ.render :=
  text_route_is_dom_route _
example : (DJ.obj [([97], .int 1), ([98], .arr [.null])]).eq (DJ.obj [([98], .arr [.null]), ([97], .int 1)]) = true := by
  simp [DJ.eq, DJ.depth, DJ.depthM, DJ.depthL, eqv, eqvKeys, eqvL, getFirst, keysIn]

end Sonic.Thm.C19
