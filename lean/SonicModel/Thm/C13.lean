/-
  C13 — lazy values are faithful views of their source text.

  A lazy value is a span of the text; everything it reports is a function of that span (Impl/Lazy.lean).
  The parts of "the same as the DOM of its raw text" proved in Lean:
    * its type tag, read off the first byte, is the constructor of the specification's tree (`kind_matches_tree`);
    * its decoded string is the specification's decoding (C09: `Thm.C09`), the spans of its members
      are the specification's member spans (C10 / C12: `Thm.C10`, `Thm.C12`);
    * an owned lazy container parsed one level serializes its untouched members verbatim
      (`untouched_members_verbatim`).
  Locality is proved for compact texts (`view_in_context_is_view_alone`); for texts with whitespace
  inside the value the check compares every lazy view with the specification's tree of the text itself.
-/
import SonicModel.Impl.Lazy
import SonicModel.Thm.C09
import SonicModel.Thm.C12
import SonicModel.Lemmas.TreeRoundTrip
namespace Sonic.Thm.C13
open Sonic Spec Lazy

/-- the type a lazy value reports (first byte of its text) is the kind of the value the text denotes -/
theorem kind_matches_tree (lossy : Bool) (f : Nat) (buf : Buf) (i : Nat) (j : Json) (e : Nat)
    (h : tree lossy f buf i = some (j, e)) : (buf[i]?).bind kindOfByte = some (kindOfJson j) := by
  cases f with
  | zero => simp [tree] at h
  | succ f =>
    unfold tree at h
    cases hb : buf[i]? with
    | none => rw [hb] at h; simp at h
    | some c =>
      rw [hb] at h
      simp only [Option.bind_some, kindOfByte]
      simp only at h
      split at h
      · rename_i hc
        simp only [Option.map_eq_some_iff] at h
        obtain ⟨_, _, hj⟩ := h
        simp only [Prod.mk.injEq] at hj
        rw [← hj.1]
        simp [hc, kindOfJson]
      · rename_i hn
        have hn' : ¬ ((c == 45 || isDigit c) = true) := hn
        split at h
        · rename_i hc
          simp only [Option.map_eq_some_iff] at h
          obtain ⟨_, _, hj⟩ := h
          simp only [Prod.mk.injEq] at hj
          rw [← hj.1]
          simp [hn', hc, kindOfJson]
        · rename_i hs
          split at h
          · rename_i hc
            have hj : kindOfJson j = .object := by
              split at h
              · simp at h; rw [← h.1]; rfl
              · simp only [Option.map_eq_some_iff] at h
                obtain ⟨_, _, hj⟩ := h
                simp only [Prod.mk.injEq] at hj
                rw [← hj.1]; rfl
            simp [hn', hs, hc, hj]
          · rename_i ho
            split at h
            · rename_i hc
              have hj : kindOfJson j = .array := by
                split at h
                · simp at h; rw [← h.1]; rfl
                · simp only [Option.map_eq_some_iff] at h
                  obtain ⟨_, _, hj⟩ := h
                  simp only [Prod.mk.injEq] at hj
                  rw [← hj.1]; rfl
              simp [hn', hs, ho, hc, hj]
            · rename_i ha
              split at h
              · rename_i hc
                simp only [Option.map_eq_some_iff] at h
                obtain ⟨_, _, hj⟩ := h
                simp only [Prod.mk.injEq] at hj
                rw [← hj.1]
                simp [hn', hs, ho, ha, hc, kindOfJson]
              · rename_i ht
                split at h
                · rename_i hc
                  simp only [Option.map_eq_some_iff] at h
                  obtain ⟨_, _, hj⟩ := h
                  simp only [Prod.mk.injEq] at hj
                  rw [← hj.1]
                  simp [hn', hs, ho, ha, ht, hc, kindOfJson]
                · rename_i hf
                  split at h
                  · rename_i hc
                    simp only [Option.map_eq_some_iff] at h
                    obtain ⟨_, _, hj⟩ := h
                    simp only [Prod.mk.injEq] at hj
                    rw [← hj.1]
                    simp [hn', hs, ho, ha, ht, hf, hc, kindOfJson]
                  · simp at h

/-- a serialized owned lazy array whose first member was replaced and to which a member was appended:
    every untouched member is written verbatim, in place -/
theorem untouched_members_verbatim (x : OL) (xs : List OL) (v w : OL) :
    ser (.arr ((v :: xs) ++ [w])) = [91] ++ joinComma (ser v :: (serL xs ++ [ser w])) ++ [93] := by
  have hL : ∀ (l : List OL) (y : OL), serL (l ++ [y]) = serL l ++ [ser y] := by
    intro l y
    induction l with
    | nil => simp [serL]
    | cons a l ih => simp [serL, ih]
  simp [ser, serL, hL]

/-- one-level parse of a raw array text: the members are exactly the specification's member spans -/
theorem load1_array (text : List UInt8) (items : List (Nat × Nat)) (h0 : text.toArray[0]? = some 91)
    (hi : arrayItems text.toArray 0 = (items, true)) :
    load1 text = some (.arr (items.map fun (s, e) => .raw (text.toArray.extract s e).toList)) := by
  simp [load1, h0, hi]

/-- **a value read in context and the same text read alone denote the same tree** (for compact
    texts): inside any surrounding text the specification reads the rendering of `t` as `t` placed
    at that offset, and alone as `t` placed at offset 0 — the lazy view of a member and the DOM of
    its raw text are the same tree up to the position of number spans -/
theorem view_in_context_is_view_alone (t : RJ) (h : t.WF) (pre suf : List UInt8) (f : Nat)
    (hd : isDelim suf.head?) (hf : t.need ≤ f) :
    tree false f (pre ++ t.render ++ suf).toArray pre.length = some (t.jsonAt pre.length, pre.length + t.render.length) ∧
    docTree false t.render.toArray = some (t.jsonAt 0) := by
  refine ⟨?_, doc_roundtrip t h⟩
  apply reads_back t h (pre ++ t.render ++ suf) pre.length f ⟨pre, suf, rfl, rfl⟩ _ hf
  have e : (pre ++ t.render ++ suf).toArray[pre.length + t.render.length]? = suf.head? := by
    simp only [List.getElem?_toArray]
    rw [List.getElem?_append_right (by simp), List.head?_eq_getElem?]
    simp
  rw [e]; exact hd

/-! non-vacuity -/
example : (load1 [91, 49, 44, 32, 116, 114, 117, 101, 93]).map ser = some [91, 49, 44, 116, 114, 117, 101, 93] := by decide +kernel
example : asBool [116, 114, 117, 101] = some true := by decide

end Sonic.Thm.C13
