/-
  C02 — validating entry points accept exactly the well-formed JSON texts.
  Property theorems only; helper lemmas live in `SonicModel/Lemmas`.
-/
import SonicModel.Lemmas.SkipMain
import SonicModel.Lemmas.EntryIff
import SonicModel.Impl.Entry
import SonicModel.Lemmas.StrictLazy
import SonicModel.Lemmas.DomParseProof
import SonicModel.Lemmas.NumSkipProof
import SonicModel.Lemmas.StrBlockProof
import SonicModel.Lemmas.SpaceProof
import SonicModel.Lemmas.DomSound
import SonicModel.Lemmas.DomPad
namespace Sonic.Thm.C02
open Sonic Gen

/-- **Validate-and-skip path (LazyValue / OwnedLazyValue / IgnoredAny), every byte string,
    every offset.**  Whatever `skip_one` answers (accept with end offset `e`, or reject), the
    RFC 8259 grammar recogniser gives the same answer at the first non-blank byte — for every
    buffer, every start index and every fuel at which the model terminates. -/
theorem skipOne_eq_spec (buf : Buf) (f i : Nat)
    (hne : Impl.skipOne buf.size f buf i ≠ .fuel) :
    ∃ g, Spec.value false g buf (skipWs buf i) = (Impl.skipOne buf.size f buf i).erase :=
  (skip_refine buf f i).1 hne

/-- **Whole inputs, as an equivalence.**  The model of `from_slice::<LazyValue>` (the same
    composition serves `IgnoredAny` and the strict `OwnedLazyValue`: `skip_one`, `parse_trailing`,
    `check_utf8_final`) accepts a byte string iff it is valid UTF-8 and one RFC 8259 value
    surrounded by nothing but whitespace. -/
theorem lazy_accept_iff (buf : Buf) :
    (∃ s e, Impl.lazyFrom true buf = .accept s e) ↔
      (Spec.utf8Valid buf = true ∧ (Spec.document false buf).isSome = true) :=
  lazyFrom_accept_iff buf

/-- at the canonical fuel `3·len + 6` the recogniser model never runs out of fuel and equals the
    specification at its canonical fuel: an equation, no side condition -/
theorem skipOne_canonical (buf : Buf) (i : Nat) :
    (Impl.skipOne buf.size (Impl.fuelFor buf) buf i).erase =
      Spec.value false (Spec.fuelFor buf) buf (skipWs buf i) :=
  skipOne_eq_value buf i

/-- accept side, spelled out: an accepted input is grammatical up to the returned offset -/
theorem skipOne_sound (buf : Buf) (f i e : Nat)
    (h : Impl.skipOne buf.size f buf i = .ok e) :
    ∃ g, Spec.value false g buf (skipWs buf i) = .ok e := by
  have := skipOne_eq_spec buf f i (by simp [h])
  simpa [h] using this

/-- reject side, spelled out: a rejected input is ungrammatical (no fuel makes the spec accept) -/
theorem skipOne_complete (buf : Buf) (f i : Nat) (c : Code) (p : Nat)
    (h : Impl.skipOne buf.size f buf i = .err c p) :
    ∀ g e, Spec.value false g buf (skipWs buf i) ≠ .ok e := by
  intro g e hg
  obtain ⟨g', hg'⟩ := skipOne_eq_spec buf f i (by simp [h])
  simp [h] at hg'
  have h1 := Spec.value_mono (Nat.le_max_left g g') buf _ _ hg (by simp)
  have h2 := Spec.value_mono (Nat.le_max_right g g') buf _ _ hg' (by simp)
  rw [h1] at h2
  simp at h2

/-- the string scanner of the skip path is exactly the grammar's string rule (this is the
    statement the unrepaired `skip_escaped_chars` violated: `"\uZZZZ"`) -/
theorem skipString_eq_spec (buf : Buf) (i : Nat) :
    (Impl.skipString buf buf.size i).erase = Res.ofOpt (Spec.stringG buf i) :=
  skipString_refines buf i

/-- the number scanner of the skip path is exactly the grammar's number rule -/
theorem skipNumber_eq_spec (buf : Buf) (p : Nat) (hp : p < buf.size)
    (hc : buf[p] = 45 ∨ isDigit buf[p] = true) :
    (Impl.doSkipNumber buf buf[p] (p+1)).erase = Res.ofOpt (Spec.number buf p) :=
  doSkipNumber_refines buf p hp hc

/-- **the two accept sets of the property are nested**: every text the fully-decoding grammar accepts (RFC 8259, every `\\u`
    escape a scalar value, every number finite) the validate-and-skip grammar accepts, as the same document -/
theorem decoding_accept_implies_skipping_accept (buf : Buf) (s e : Nat) (h : Spec.document true buf = some (s, e)) :
    Spec.document false buf = some (s, e) := by
  unfold Spec.document at h ⊢
  simp only at h ⊢
  cases hv : Spec.value true (Spec.fuelFor buf) buf (skipWs buf 0) with
  | ok e1 =>
    simp only [hv] at h
    simp only [Spec.value_strict_lazy buf _ _ e1 hv]
    exact h
  | err => simp [hv] at h
  | fuel => simp [hv] at h

/-- **decoding path, completeness**: every text of the fully-decoding grammar is accepted by the model of the DOM parser
    (`parse_value` / `parse_array` / `parse_object` with the digit machine and the string decoder) -/
theorem decoding_parser_accepts_wellformed (buf : Buf) (s e : Nat) (h : Spec.document true buf = some (s, e)) :
    (DomP.document buf).isSome := by
  obtain ⟨t, _, ht⟩ := DomP.document_of_strict buf s e h
  rw [ht]; rfl

/-- **decoding path, soundness** (fourth session): whatever the model of the DOM parser accepts is a strictly well-formed
    document — RFC 8259 grammar, every escape decodable, every number finite (`Lemmas/DomSound.lean`: the digit machine
    consumes only number tokens, what it answers without the float back end is finite (`Lemmas/NumFinite.lean`), the string
    decoder accepts only decodable literals, the loops of `parse_array` / `parse_object` accept only `,` `]` `}` between
    values) -/
theorem decoding_parser_accepts_only_wellformed (buf : Buf) (t : Spec.Json) (h : DomP.document buf = some t) :
    ∃ s e, Spec.document true buf = some (s, e) :=
  let ⟨s, e, hs, _⟩ := DomP.strict_of_document buf t h
  ⟨s, e, hs⟩

/-- **decoding path, as an equivalence**: the model of `from_slice::<Value>` (on valid UTF-8; whether a float request is
    finite is the back end's answer, `Spec.finite`) accepts a byte string iff it is one strictly well-formed value surrounded
    by nothing but whitespace -/
theorem decoding_accept_iff (buf : Buf) : (DomP.document buf).isSome = true ↔ (Spec.document true buf).isSome = true :=
  DomP.document_accept_iff buf

/-- **the grammar does not look behind a value** (`Lemmas/GrammarPad.lean`, `StrPad.lean`): a value that the specification reads
    in `buf1 ++ suf` and that ends inside `buf1` is a value of `buf1` alone, with the same extent — numbers (maximal munch
    and the finiteness test included), strings (the low-surrogate look-ahead included), literals, arrays, objects; at both
    strengths; whatever `suf` is -/
theorem value_ending_inside_a_prefix (s : Bool) (buf1 suf : Buf) (f w e : Nat)
    (h : Spec.value s f (buf1 ++ suf) w = .ok e) (he : e ≤ buf1.size) : Spec.value s f buf1 w = .ok e :=
  (GrammarPad.value_prefix s buf1 suf f).1 w e h he

/-- **the whole-input parse as the code composes it accepts only strictly well-formed TEXT** (`Impl/DomPadded.lean`:
    `from_slice::<Value>` = the decoding parser on the padded copy `t ++ x"x ++ zeros` that `parse_with_padding` makes, a value
    that ends behind the text is an error (`n > len`), then `parse_trailing` allows only blanks up to the end of the text):
    whatever it accepts, the specification accepts — as a document of `t`, not of its padded copy -/
theorem whole_input_parse_on_the_padded_copy_accepts_only_wellformed_text (t : Buf) (tr : Spec.Json)
    (h : DomP.fromSlicePadded t = some tr) : ∃ s e, Spec.document true t = some (s, e) :=
  DomP.fromSlicePadded_sound t tr h

/-- … **and exactly those**: a value of the text stays a value when the padding follows it (its first byte `x` cannot continue a
    number: `GrammarPad.value_extend`), so with the completeness of the decoding parser every strictly well-formed text is
    accepted.  With the in-place decoder theorems of C09 (the strings are decoded in the padded buffer as the model's decoder
    decodes them) this is the property's first sentence for `from_slice::<Value>` as it runs — up to UTF-8 validity of the
    whole input (`simdutf8`, compared) and the finiteness of float requests (the float back end, compared in C07) -/
theorem whole_input_parse_on_the_padded_copy_accept_iff (t : Buf) :
    (DomP.fromSlicePadded t).isSome = true ↔ (Spec.document true t).isSome = true :=
  DomP.fromSlicePadded_accept_iff t

/-- the padding changes nothing about acceptance: the parse on the padded copy (`from_slice` on `&[u8]`) and the decoding parser on
    the bare text accept the same texts (both are the strict grammar, by the two theorems above) -/
theorem padding_does_not_change_acceptance (t : Buf) :
    (DomP.fromSlicePadded t).isSome = (DomP.document t).isSome := by
  have h1 := DomP.fromSlicePadded_accept_iff t
  have h2 := DomP.document_accept_iff t
  cases ha : (DomP.fromSlicePadded t).isSome <;> cases hb : (DomP.document t).isSome <;> simp_all

/-- the bytewise scan of `Space` is the scalar `skip_space` every other model uses -/
theorem bytewise_is_scalar_skip_space (buf : Buf) (i : Nat) :
    Impl.skipSpace buf i = (match Space.bytewise buf i with | (some c, j) => some (c, j) | (none, _) => none) := by
  unfold Impl.skipSpace
  by_cases h : skipWs buf i < buf.size
  · have hb : buf[skipWs buf i]? = some buf[skipWs buf i] := by simp [h]
    simp [h, Space.bytewise_some buf i _ hb]
  · have hb : buf[skipWs buf i]? = none := by simp; omega
    simp [h, Space.bytewise_none buf i hb]

/-- **`skip_space` with its cached whitespace bitmap is the bytewise scan** (Impl/Space.lean: two bytewise tries, the cached
    64-byte window with the lanes below the reader masked off, the block loop that sets a new window, the bytewise tail):
    from every state whose cache is right it returns the first non-blank byte at or after the reader, stops just behind it, and
    leaves a cache that is right for the byte it found -/
theorem skip_space_cache_is_bytewise_scan (buf : Buf) (st : Space.St) (h : Space.Inv buf st) :
    (Space.skipSpace buf st).1 = (Space.bytewise buf st.idx).1 ∧
    (Space.skipSpace buf st).2.idx = (Space.bytewise buf st.idx).2 ∧ Space.Inv buf (Space.skipSpace buf st).2 := by
  obtain ⟨h1, h2, _⟩ := Space.skipSpace_spec buf st h
  exact ⟨h1, h2, Space.inv_skipSpace buf st h⟩

/-- **… in every history**: whatever sequence of `skip_space`, `skip_space_peek` and reader advances led to a state, the cache
    is right there, so the next `skip_space` answers as the bytewise scan does (the buffer is not changed meanwhile: the
    in-place decoder of the whole-input DOM parse rewrites only bytes inside string literals the reader has passed) -/
theorem skip_space_cache_right_in_every_history (buf : Buf) (ops : List Space.Op) :
    Space.Inv buf (ops.foldl (Space.step buf) Space.init) ∧
    (Space.skipSpace buf (ops.foldl (Space.step buf) Space.init)).1 = (Space.bytewise buf (ops.foldl (Space.step buf) Space.init).idx).1 :=
  ⟨Space.inv_reachable buf ops, (Space.skipSpace_after_any_history buf ops).1⟩

/-- non-vacuity: 70 blanks, `x`, 70 blanks, `y`; skip, eat 3, peek, skip: the window cached at 66 is consulted again (and found exhausted) by the later calls -/
def spaceEx : Buf := (List.replicate 70 (32 : UInt8) ++ [120] ++ List.replicate 70 32 ++ [121]).toArray
example : ([Space.Op.skip, .eat 3, .peek, .skip].foldl (Space.step spaceEx) Space.init) = { idx := 142, bits := 16, start := 66 } := by
  decide +kernel

/-- **the checked `skip_string` with its 32-byte blocks is the scalar `skip_string`** (the mask of backslash, quote and control
    lanes, its first set lane, `skip_escaped_chars` after a backslash, the bytewise loop over the last bytes): it always
    terminates and gives the same end, or the same error code at the same position, for every buffer and every start -/
theorem string_block_loop_is_scalar_scan (buf : Buf) (i : Nat) :
    StrBlock.skipStringB buf buf.size (buf.size + 1) i = Impl.skipString buf buf.size i :=
  StrBlock.skipStringB_eq buf buf.size _ i (StrBlock.skipStringB_fuel buf _ i (by omega) (by omega))

/-- **the 32-lane loop of `do_skip_number` is the scalar scan** (Impl/NumSkip.lean: blocks of 32 bytes while 32 remain, the
    fraction's first digit checked inside the block, the shifted mask, the two `continue`s that carry `is_float`, the scalar
    tail): for every buffer and every start — whatever the alignment of digits, dot and exponent to the blocks — it answers
    exactly what the scalar model answers, which is the grammar's number rule (`skipNumber_eq_spec`) -/
theorem number_block_loop_is_scalar_scan (buf : Buf) (first : UInt8) (i : Nat) :
    Impl.doSkipNumberB true buf first i = Impl.doSkipNumber buf first i :=
  doSkipNumberB_eq buf first i

/-- … and the flag carried over the early `continue` is what makes it so: without it (the change three seeding sub-agents
    made independently: C02c, C14c, C04d) a second fraction is swallowed when the dot stands in lane 30 of a block -/
theorem number_block_loop_needs_the_flag :
    Impl.numLoop false flagWitness 70 0 false = .ok 34 ∧ Impl.numLoop true flagWitness 70 0 false = .ok 32 ∧
      Impl.numTail flagWitness 0 false = .ok 32 := by decide +kernel

/-! non-vacuity: concrete inputs on which the hypotheses hold and both sides are non-trivial
    (byte arrays written out because string literals do not reduce in the kernel) -/
/-- `[1, {"a\u0041":-2.5e3}] ` -/
def ex1 : Buf := #[91, 49, 44, 32, 123, 34, 97, 92, 117, 48, 48, 52, 49, 34, 58, 45, 50, 46, 53, 101, 51, 125, 93, 32]
example : Impl.skipOne ex1.size 20 ex1 0 = .ok 23 := by decide +kernel
example : Spec.value false 20 ex1 0 = .ok 23 := by decide +kernel
/-- `"\uZZZZ"` : rejected by model and specification alike -/
def ex2 : Buf := #[34, 92, 117, 90, 90, 90, 90, 34]
example : (Impl.skipOne ex2.size 20 ex2 0).erase = .err := by decide +kernel
example : Spec.value false 20 ex2 0 = .err := by decide +kernel
/-- the decoding parser accepts `ex1` and rejects `[01]`, `[1.]`, `"\ud800"`, `[1 2]` -/
example : (DomP.document ex1).isSome = true := by decide +kernel
example : (DomP.document #[91, 48, 49, 93]).isSome = false := by decide +kernel
example : (DomP.document #[91, 49, 46, 93]).isSome = false := by decide +kernel
example : (DomP.document #[34, 92, 117, 100, 56, 48, 48, 34]).isSome = false := by decide +kernel
example : (DomP.document #[91, 49, 32, 50, 93]).isSome = false := by decide +kernel
/-- on the padded copy: `ex1` is accepted, `"abc` (closed only by the sentinel quote) and `[1` are not -/
example : (DomP.fromSlicePadded ex1).isSome = true := by decide +kernel
example : (DomP.fromSlicePadded #[34, 97, 98, 99]).isSome = false := by decide +kernel
example : (DomP.fromSlicePadded #[91, 49]).isSome = false := by decide +kernel

end Sonic.Thm.C02
