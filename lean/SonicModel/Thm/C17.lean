/-
  C17 — results do not depend on the SIMD backend compiled in.

  The lane-wise meaning of the vector primitives (Impl/Simd.lean) and the equivalence of the two
  implementations of the block primitives that differ between the backends:
    * `mask_bit`: bit `i` of a `bitmask` is the lane predicate of lane `i`;
    * `prefix_xor_spec`: the six shift-xor steps of the portable `prefix_xor` compute the running
      parity (what the carry-less multiplication by all-ones of the PCLMUL backend computes);
    * `whitespace_shuffle_eq_scalar`: the AVX2 table-shuffle whitespace test equals the scalar test
      for all 256 byte values.
  The backends themselves are compared by the check: every case of the streams of C02, C03, C05,
  C06, C07, C08, C09, C10, C12, C13 through two builds (target-cpu=native and baseline x86-64),
  transcripts equal line by line, and the primitives called directly in both builds against this model.
-/
import SonicModel.Impl.Simd
import Std.Tactic.BVDecide
namespace Sonic.Thm.C17
open Sonic Simd

theorem mask_bit (p : UInt8 → Bool) : ∀ (v : List UInt8) (i : Nat),
    (maskOf p v).testBit i = (match v[i]? with | some b => p b | none => false) := by
  intro v
  induction v with
  | nil => intro i; simp [maskOf]
  | cons b rest ih =>
    intro i
    cases i with
    | zero =>
      simp only [maskOf, List.getElem?_cons_zero]
      cases p b <;> simp [Nat.testBit, Nat.add_mul_mod_self_left]
    | succ i =>
      simp only [maskOf, List.getElem?_cons_succ]
      rw [← ih i]
      cases p b
      · simp [Nat.testBit_succ]
      · rw [Nat.add_comm, Nat.testBit_succ]
        have : (2 * maskOf p rest + if true = true then 1 else 0) / 2 = maskOf p rest := by
          simp; omega
        rw [this]

/-- the recurrence that characterises the running parity -/
theorem pxor_rec (x : BitVec 64) : pxor x = x ^^^ (pxor x <<< 1) := by
  unfold pxor
  bv_decide

theorem prefix_xor_spec (x : BitVec 64) : ∀ i, i < 64 → (pxor x).getLsbD i = cumXor x i := by
  intro i
  induction i with
  | zero =>
    intro _
    have h := congrArg (fun v => v.getLsbD 0) (pxor_rec x)
    simp only [BitVec.getLsbD_xor, BitVec.getLsbD_shiftLeft] at h
    simpa [cumXor] using h
  | succ i ih =>
    intro hi
    have h := congrArg (fun v => v.getLsbD (i+1)) (pxor_rec x)
    simp only [BitVec.getLsbD_xor, BitVec.getLsbD_shiftLeft] at h
    rw [h, cumXor, ← ih (by omega)]
    simp [hi]

theorem whitespace_shuffle_eq_scalar : ∀ b : UInt8, isWsShuffle b = isWsScalar b := by
  apply UInt8.forall_of_fin
  decide +kernel

/-! non-vacuity -/
example : eqMask [34, 97, 34, 92] 34 = 5 := by decide
example : (pxor 0b100100#64) = 0b011100#64 := by decide

end Sonic.Thm.C17
