/-
  C17 — results do not depend on the SIMD backend compiled in.

  The lane-wise meaning of the vector primitives (Impl/Simd.lean) and the equivalence of the two
  implementations of the block primitives that differ between the backends:
    * `mask_bit`: bit `i` of a `bitmask` is the lane predicate of lane `i`;
    * `prefix_xor_spec`: the six shift-xor steps of the portable `prefix_xor` compute the running
      parity (what the carry-less multiplication by all-ones of the PCLMUL backend computes);
    * `whitespace_shuffle_eq_scalar`: the AVX2 table-shuffle whitespace test equals the scalar test
      for all 256 byte values;
    * `digit_run_simd_eq_scalar`: the SSE digit-run parser of `sonic-number` (sub / cmpgt / movemask /
      trailing_zeros / byte shift / maddubs / madd / packus, with their saturation and wrap-around)
      returns, for every 16 bytes that start with a digit and every `need` in 1..=16, exactly the sum
      and the count of the scalar loop of the fallback backend.
  The backends themselves are compared by the check: every case of the streams of C02, C03, C05,
  C06, C07, C08, C09, C10, C12, C13 through two builds (target-cpu=native and baseline x86-64),
  transcripts equal line by line, and the primitives called directly in both builds against this model.
-/
import SonicModel.Impl.Simd
import SonicModel.Lemmas.Str2IntCases
import Std.Tactic.BVDecide
namespace Sonic.Thm.C17
open Sonic Simd

theorem mask_bit (p : UInt8 → Bool) : ∀ (v : List UInt8) (i : Nat),
    (maskOf p v).testBit i = (match v[i]? with | some b => p b | none => false) := by
  intro v
  induction v with
  | nil => intro i; simp [maskOf]
  | cons b rest ih =>
    intro i
    cases i with
    | zero =>
      simp only [maskOf, List.getElem?_cons_zero]
      cases p b <;> simp [Nat.testBit, Nat.add_mul_mod_self_left]
    | succ i =>
      simp only [maskOf, List.getElem?_cons_succ]
      rw [← ih i]
      cases p b
      · simp [Nat.testBit_succ]
      · rw [Nat.add_comm, Nat.testBit_succ]
        have : (2 * maskOf p rest + if true = true then 1 else 0) / 2 = maskOf p rest := by
          simp; omega
        rw [this]

/-- the recurrence that characterises the running parity -/
theorem pxor_rec (x : BitVec 64) : pxor x = x ^^^ (pxor x <<< 1) := by
  unfold pxor
  bv_decide

theorem prefix_xor_spec (x : BitVec 64) : ∀ i, i < 64 → (pxor x).getLsbD i = cumXor x i := by
  intro i
  induction i with
  | zero =>
    intro _
    have h := congrArg (fun v => v.getLsbD 0) (pxor_rec x)
    simp only [BitVec.getLsbD_xor, BitVec.getLsbD_shiftLeft] at h
    simpa [cumXor] using h
  | succ i ih =>
    intro hi
    have h := congrArg (fun v => v.getLsbD (i+1)) (pxor_rec x)
    simp only [BitVec.getLsbD_xor, BitVec.getLsbD_shiftLeft] at h
    rw [h, cumXor, ← ih (by omega)]
    simp [hi]

theorem whitespace_shuffle_eq_scalar : ∀ b : UInt8, isWsShuffle b = isWsScalar b := by
  apply UInt8.forall_of_fin
  decide +kernel


theorem take_takeWhile_all (p : UInt8 → Bool) : ∀ (d : List UInt8) (k : Nat), k ≤ (d.takeWhile p).length →
    ∀ x ∈ d.take k, p x = true := by
  intro d
  induction d with
  | nil => intro k _ x hx; simp at hx
  | cons b rest ih =>
    intro k hk x hx
    cases k with
    | zero => simp at hx
    | succ k =>
      cases hb : p b with
      | false => simp [hb] at hk
      | true =>
        simp only [List.takeWhile_cons, hb, ite_true, List.length_cons, Nat.add_le_add_iff_right] at hk
        simp only [List.take_succ_cons, List.mem_cons] at hx
        rcases hx with rfl | hx
        · exact hb
        · exact ih k hk x hx

/-- **the two digit-run parsers agree**: on the 16 bytes the SSE version loads — the first a digit, as its
    only caller guarantees — and for every `need` in `1..=16`, the vector version returns exactly what the
    scalar loop returns (and never reaches its `unreachable!()`) -/
theorem digit_run_simd_eq_scalar (b : UInt8) (rest : List UInt8) (need : Nat)
    (hl : (b :: rest).length = 16) (hb : 48 ≤ b ∧ b ≤ 57) (hn1 : 1 ≤ need) (hn : need ≤ 16) :
    str2intSimd (b :: rest) need = some (str2intScalar (b :: rest) need) := by
  have hdl : (subZero (b :: rest)).length = 16 := by simpa [subZero] using hl
  have hcount := count_spec (subZero (b :: rest)) need hdl hn
  have hL : 1 ≤ ((subZero (b :: rest)).takeWhile isDig).length := by
    simp [subZero, (digit_iff b).mp hb]
  have hk1 : 1 ≤ min need ((subZero (b :: rest)).takeWhile isDig).length := by omega
  have hk16 : min need ((subZero (b :: rest)).takeWhile isDig).length ≤ 16 := by omega
  have hdig := take_takeWhile_all isDig (subZero (b :: rest)) _ (Nat.min_le_right need _)
  have hsum := sumOf_spec (subZero (b :: rest)) hdl _ hk1 hk16 hdig
  unfold str2intSimd str2intScalar
  simp only [hcount, hsum, loop_spec, Option.map_some, Nat.zero_add]

/-! non-vacuity -/
example : eqMask [34, 97, 34, 92] 34 = 5 := by decide
example : str2intSimd [49, 50, 51, 52, 53, 54, 55, 56, 57, 48, 49, 50, 51, 101, 53, 54] 16 = some (1234567890123, 13) := by decide
example : str2intScalar [49, 50, 51, 52, 53, 54, 55, 56, 57, 48, 49, 50, 51, 101, 53, 54] 16 = (1234567890123, 13) := by decide
example : (pxor 0b100100#64) = 0b011100#64 := by decide

end Sonic.Thm.C17
