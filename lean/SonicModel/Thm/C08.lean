/-
  C08 — numbers are written so that they read back bit-identically.   (partial: integers below
  10^19 proved through the canonical-decimal contract of itoa; floats rest on ryu's contract and on
  the rounding back end of C07, both validated by correspondence.)
-/
import SonicModel.Lemmas.Decimal
namespace Sonic.Thm.C08
open Sonic Impl Spec

/-- the canonical decimal text of `n` denotes `n` -/
theorem decimal_denotes (n : Nat) : listVal (decimal n) 0 = n := decimal_val n

/-- **integer round trip**: for every `n < 10^19`, reading the canonical decimal text of `n`
    (what itoa is assumed to print) with `parse_number` gives back exactly `Unsigned n`, with the
    whole text consumed — so every u8/u16/u32 and every u64 below 10^19 reads back identically -/
theorem int_roundtrip_partial (n : Nat) (bound : Nat) (hn : n < 10 ^ 19) :
    parseNumber (decimal n).toArray bound 0 false = (.unsigned n, (decimal n).length) := by
  by_cases h0 : n = 0
  · subst h0
    have : decimal 0 = [48] := by rw [decimal]; simp [digitChar]
    rw [this]
    simp [parseNumber]
  · have hpos : 0 < n := Nat.pos_of_ne_zero h0
    have hlen := decimal_length n 19 (by decide) hn
    obtain ⟨b, hb, hne⟩ := decimal_head n hpos
    have hd : ∀ k, k < (decimal n).toArray.size → isDigit (decimal n).toArray[k]! = true := by
      intro k hk
      have hk' : k < (decimal n).length := by simpa using hk
      have : (decimal n).toArray[k]! = (decimal n)[k] := by simp [hk']
      rw [this]
      exact decimal_digits n _ (List.getElem_mem hk')
    have hh : (decimal n).toArray[0]! ≠ 48 := by
      cases hdn : decimal n with
      | nil => simp [hdn] at hb
      | cons x xs => simp [hdn] at hb ⊢; rw [hb]; exact hne
    have := int_exact_unsigned (decimal n).toArray bound (by simpa using hlen.1) (by simpa using hlen.2) hd hh
    rw [this]
    have hv := digitsVal_list (decimal n) (decimal n).length 0 0 (by omega) (by omega)
    simp only [List.size_toArray] at hv ⊢
    rw [hv]
    simp [decimal_val]

/-! non-vacuity / boundary instances (kernel evaluation) -/
example : decimal 18446744073709551615 = [49,56,52,52,54,55,52,52,48,55,51,55,48,57,53,53,49,54,49,53] := by decide +kernel
example : parseNumber (decimal 9999999999999999999).toArray 1000 0 false = (.unsigned 9999999999999999999, 19) := by decide +kernel
example : parseNumber (decimal 18446744073709551615).toArray 1000 0 false = (.unsigned 18446744073709551615, 20) := by decide +kernel

end Sonic.Thm.C08
