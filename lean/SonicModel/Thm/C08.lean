/-
  C08 — numbers are written so that they read back bit-identically.   (partial: integers below
  10^19 proved through the canonical-decimal contract of itoa; floats rest on ryu's contract and on
  the rounding back end of C07, both validated by correspondence.)
-/
import SonicModel.Lemmas.Decimal
import SonicModel.Thm.C07
namespace Sonic.Thm.C08
open Sonic Impl Spec

/-- the canonical decimal text of `n` denotes `n` -/
theorem decimal_denotes (n : Nat) : listVal (decimal n) 0 = n := decimal_val n

/-- **integer round trip**: for every `n < 10^19`, reading the canonical decimal text of `n`
    (what itoa is assumed to print) with `parse_number` gives back exactly `Unsigned n`, with the
    whole text consumed — so every u8/u16/u32 and every u64 below 10^19 reads back identically -/
theorem int_roundtrip_partial (n : Nat) (bound : Nat) (hn : n < 10 ^ 19) :
    parseNumber (decimal n).toArray bound 0 false = (.unsigned n, (decimal n).length) := by
  by_cases h0 : n = 0
  · subst h0
    have : decimal 0 = [48] := by rw [decimal]; simp [digitChar]
    rw [this]
    simp [parseNumber]
  · have hpos : 0 < n := Nat.pos_of_ne_zero h0
    have hlen := decimal_length n 19 (by decide) hn
    obtain ⟨b, hb, hne⟩ := decimal_head n hpos
    have hd : ∀ k, k < (decimal n).toArray.size → isDigit (decimal n).toArray[k]! = true := by
      intro k hk
      have hk' : k < (decimal n).length := by simpa using hk
      have : (decimal n).toArray[k]! = (decimal n)[k] := by simp [hk']
      rw [this]
      exact decimal_digits n _ (List.getElem_mem hk')
    have hh : (decimal n).toArray[0]! ≠ 48 := by
      cases hdn : decimal n with
      | nil => simp [hdn] at hb
      | cons x xs => simp [hdn] at hb ⊢; rw [hb]; exact hne
    have := int_exact_unsigned (decimal n).toArray bound (by simpa using hlen.1) (by simpa using hlen.2) hd hh
    rw [this]
    have hv := digitsVal_list (decimal n) (decimal n).length 0 0 (by omega) (by omega)
    simp only [List.size_toArray] at hv ⊢
    rw [hv]
    simp [decimal_val]

/-! ### every u64 and every i64, wherever the text stands (through the literal theorems of C07) -/

theorem decimal_ne_nil (n : Nat) : decimal n ≠ [] := by
  rw [decimal]; split
  · simp
  · simp

theorem decimal_leading (n : Nat) (h : (decimal n).head? = some 48) : (decimal n).length = 1 := by
  by_cases hn : n = 0
  · subst hn; rw [decimal]; simp
  · obtain ⟨b, hb, hne⟩ := decimal_head n (Nat.pos_of_ne_zero hn)
    rw [hb] at h; simp at h; exact absurd h hne

/-- the canonical decimal text of `n`, with or without a sign, is a literal of the RFC shape -/
theorem decimal_lit_wf (neg : Bool) (n : Nat) : (C07.litOf neg (decimal n)).WF :=
  C07.litOf_wf neg (decimal n) (decimal_ne_nil n) (decimal_digits n) (decimal_leading n)

theorem decimal_lit_mant (neg : Bool) (n : Nat) : (C07.litOf neg (decimal n)).mant = n := by
  simp only [Lit.mant, C07.litOf, Option.getD_none]
  have := decimal_val n
  simpa [listVal, digitsOf] using this

/-- **every u64 reads back as itself**: the canonical decimal text of any `n < 2^64` (what itoa is assumed
    to print), standing anywhere in a text before a delimiter, is read by `parse_number` as exactly
    `Unsigned n` with the whole text consumed — all twenty-digit values included -/
theorem u64_roundtrip (n : Nat) (hn : n < 2 ^ 64) (pre suf : List UInt8) (hs : isDelim suf.head?) (bound : Nat) :
    parseNumber (pre ++ decimal n ++ suf).toArray bound pre.length false =
      (.unsigned n, pre.length + (decimal n).length) := by
  have h := C07.integer_u64_exact (C07.litOf false (decimal n)) (decimal_lit_wf false n) rfl rfl rfl
    (by rw [decimal_lit_mant]; exact hn) pre suf hs bound
  rw [decimal_lit_mant] at h
  simpa [C07.litOf, Lit.render, Lit.signPart, Lit.fracPart, Lit.expPart] using h

/-- **every negative i64 reads back as itself**: `-` followed by the canonical decimal text of any
    `0 < n ≤ 2^63` is read as exactly `Signed (-n)` — `i64::MIN` included -/
theorem i64_roundtrip (n : Nat) (h0 : 0 < n) (hn : n ≤ 2 ^ 63) (pre suf : List UInt8) (hs : isDelim suf.head?) (bound : Nat) :
    parseNumber (pre ++ (45 :: decimal n) ++ suf).toArray bound (pre.length + 1) true =
      (.signed (-(n : Int)), pre.length + ((decimal n).length + 1)) := by
  have h := C07.integer_i64_exact (C07.litOf true (decimal n)) (decimal_lit_wf true n) rfl rfl rfl
    (by rw [decimal_lit_mant]; exact h0) (by rw [decimal_lit_mant]; exact hn) pre suf hs bound
  rw [decimal_lit_mant] at h
  simpa [C07.litOf, Lit.render, Lit.signPart, Lit.fracPart, Lit.expPart, Nat.add_comm] using h

/-! non-vacuity / boundary instances (kernel evaluation) -/
example : parseNumber ([91] ++ decimal 18446744073709551615 ++ [93]).toArray 7 [91].length false =
    (.unsigned 18446744073709551615, [91].length + (decimal 18446744073709551615).length) :=
  u64_roundtrip 18446744073709551615 (by decide) [91] [93] (by simp [isDelim]) 7
example : parseNumber ([91] ++ (45 :: decimal 9223372036854775808) ++ [93]).toArray 7 ([91].length + 1) true =
    (.signed (-((9223372036854775808 : Nat) : Int)), [91].length + ((decimal 9223372036854775808).length + 1)) :=
  i64_roundtrip 9223372036854775808 (by decide) (by decide) [91] [93] (by simp [isDelim]) 7
example : decimal 18446744073709551615 = [49,56,52,52,54,55,52,52,48,55,51,55,48,57,53,53,49,54,49,53] := by decide +kernel
example : parseNumber (decimal 9999999999999999999).toArray 1000 0 false = (.unsigned 9999999999999999999, 19) := by decide +kernel
example : parseNumber (decimal 18446744073709551615).toArray 1000 0 false = (.unsigned 18446744073709551615, 20) := by decide +kernel

end Sonic.Thm.C08
