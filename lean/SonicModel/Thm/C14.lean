/-
  C14 — validating lazy APIs never hand out malformed fragments.
-/
import SonicModel.Thm.C10
import SonicModel.Lemmas.GrammarPad
namespace Sonic.Thm.C14
open Sonic Gen Impl Spec

/-- **soundness of the checked `get` on arbitrary bytes**: whenever the entry point returns a
    value, (1) its span lies inside the input and is non-empty, (2) the span is exactly one
    well-formed JSON value with no surrounding whitespace, (3) the text up to the end of the value
    is valid UTF-8 (byte carriers), and (4) everything that had to be traversed was well-formed —
    the specification lookup, which validates every traversed name, separator and member, finds
    the same span.  Bytes after the value are not constrained. -/
theorem checked_get_sound (buf : Buf) (path : List Step) (s e : Nat)
    (h : getEntry true buf path = .found s e) :
    s < e ∧ e ≤ buf.size ∧ value false (Spec.fuelFor buf) buf s = .ok e ∧
      e ≤ Spec.utf8FirstInvalid buf 0 ∧ lookup buf path = .found s e := by
  unfold getEntry at h
  cases hg : getChecked buf.size buf 0 path with
  | found s' e' =>
    simp only [hg] at h
    split at h
    · simp at h
    · rename_i hu
      simp only [GRes.found.injEq] at h
      obtain ⟨rfl, rfl⟩ := h
      have hl := (C10.get_found_iff buf path s' e').mp hg
      have hw := C10.look_found_wf buf path _ s' e' hl
      refine ⟨hw.2.1, hw.2.2, hw.1, ?_, hl⟩
      simp at hu
      omega
  | err c p => simp [hg] at h
  | fuel => simp [hg] at h

/-- and conversely nothing resolvable is refused: if the path resolves in the text and the text up
    to the end of the value is valid UTF-8, the checked `get` returns that span -/
theorem checked_get_complete (buf : Buf) (path : List Step) (s e : Nat)
    (hl : lookup buf path = .found s e) (hu : e ≤ Spec.utf8FirstInvalid buf 0) :
    getEntry true buf path = .found s e := by
  have hg := (C10.get_found_iff buf path s e).mpr hl
  unfold getEntry
  simp only [hg]
  have : ¬ (Spec.utf8FirstInvalid buf 0 < e) := by omega
  simp [this]

/-! non-vacuity: `{xx"a":1}` is refused (this is the input the unrepaired walker answered `1` for) -/
def ex1 : Buf := #[123, 120, 120, 34, 97, 34, 58, 49, 125]
example : lookup ex1 [.key [97]] = .malformed := by decide +kernel
example : (getEntry true ex1 [.key [97]]).coarse = .other := by decide +kernel
/-- `{"b":2,"a":1}x` : trailing garbage is not looked at -/
def ex2 : Buf := #[123, 34, 98, 34, 58, 50, 44, 34, 97, 34, 58, 49, 125, 120]
example : getEntry true ex2 [.key [97]] = .found 11 12 := by decide +kernel

/-- **"bytes after the returned value are not required to be valid"**: whether a span is a well-formed value (at either
    strength) does not depend on what follows it — a value that the specification reads in `b ++ suf` and that ends inside `b` is
    a value of `b` alone, and of `b ++ suf'` for every continuation `suf'` whose first byte cannot extend a number token (a
    digit, `.`, `e`, `E` directly behind a number would be part of it: maximal munch, the one way in which what follows matters).
    (`Lemmas/GrammarPad.lean`: `value_prefix`, `value_extend`) -/
theorem value_does_not_depend_on_what_follows (s : Bool) (b suf suf' : Buf) (f w e : Nat)
    (h : Spec.value s f (b ++ suf) w = .ok e) (he : e ≤ b.size) (ht : GrammarPad.Term suf') :
    Spec.value s f b w = .ok e ∧ Spec.value s f (b ++ suf') w = .ok e := by
  have h1 := (GrammarPad.value_prefix s b suf f).1 w e h he
  exact ⟨h1, (GrammarPad.value_extend s b suf' ht f).1 w e h1⟩

end Sonic.Thm.C14
