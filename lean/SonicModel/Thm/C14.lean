import SonicModel.Impl.Get
namespace Sonic.Thm.C14
end Sonic.Thm.C14
