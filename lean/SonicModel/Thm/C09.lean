/-
  C09 — string literals decode exactly, at every length and alignment.
-/
import SonicModel.Lemmas.StrDecodeMain
import SonicModel.Lemmas.SkipRefine
import SonicModel.Lemmas.StrBlockProof
import SonicModel.Lemmas.StrInplaceProof
import SonicModel.Lemmas.ChainDoc
namespace Sonic.Thm.C09
open Sonic Gen Impl

/-- `hex_to_u32_nocheck` over the generated `DIGIT_TO_VAL32`: four hex digits give their value -/
theorem hex_table_valid (a b c d : UInt8) (ha : isHex a = true) (hb : isHex b = true)
    (hc : isHex c = true) (hd : isHex d = true) :
    hexToU32 a b c d = hexVal a * 4096 + hexVal b * 256 + hexVal c * 16 + hexVal d :=
  hexToU32_valid a b c d ha hb hc hd

/-- … and anything else gives a value with the high bits set (so it is rejected downstream) -/
theorem hex_table_invalid (a b c d : UInt8)
    (h : (isHex a && isHex b && isHex c && isHex d) = false) : 0xFFFFFFFF ≤ hexToU32 a b c d :=
  hexToU32_invalid a b c d h

/-- `codepoint_to_utf8` is UTF-8 on `[0, 0x10FFFF]` and writes nothing above -/
theorem utf8_encode (cp : Nat) :
    codepointToUtf8 cp = if cp ≤ 0x10FFFF then Spec.utf8 cp else [] :=
  codepointToUtf8_spec cp

/-- **decoder == specification**: for every buffer and every start index, in strict and in lossy
    mode, the copying decoder (`parse_string_raw` + `parse_string_escaped` + `parse_escaped_char`
    + `parse_escaped_utf8`) accepts exactly the literals `Spec.stringS` accepts and produces the
    same bytes and the same end offset; in particular every malformed literal (raw control,
    bad escape, bad hex, unpaired surrogate in strict mode, missing quote) is rejected. -/
theorem decode_correct (lossy : Bool) (buf : Buf) (i : Nat) :
    (decodeFrom lossy buf i).view = Spec.stringS lossy buf i :=
  Sonic.decode_correct lossy buf i

/-- the skip-only scanner accepts exactly the grammar-level literals -/
theorem skip_only_correct (buf : Buf) (i : Nat) :
    (skipString buf buf.size i).erase = Res.ofOpt (Spec.stringG buf i) :=
  skipString_refines buf i

/-- **… at every length and alignment**: the copying decoder WITH ITS 32-BYTE BLOCKS (`Impl/StrBlock.lean`: `parse_string_raw`
    — blocks while 32 bytes remain, `has_quote_first` / `has_unescaped` / `has_backslash` from the offsets of the first quote,
    backslash and control byte, then bytewise — and `parse_string_escaped` — `parse_escaped_char` with directly following
    escapes, blocks that copy 32 bytes or up to the first backslash, then bytewise) always terminates and, for every buffer and
    every start, accepts exactly the literals of the specification with the same bytes and the same end, in strict and in lossy
    mode: wherever the block edges fall relative to quotes, escapes and control bytes -/
theorem copying_decoder_blocks_eq_spec (lossy : Bool) (buf : Buf) (i : Nat) :
    ∃ r, StrBlock.parseStringRaw lossy buf i = some r ∧ r.view = Spec.stringS lossy buf i := by
  obtain ⟨r, h1, h2⟩ := StrBlock.parseStringRaw_eq lossy buf i
  exact ⟨r, h1, by rw [h2]; exact Sonic.decode_correct lossy buf i⟩

/-- a literal the decoder accepts ends in a quote and holds no raw control byte -/
theorem decoded_literal_has_no_control_byte (lossy : Bool) (buf : Buf) (i : Nat) (bs : List UInt8) (e : Nat)
    (h : (decodeFrom lossy buf i).view = some (bs, e)) :
    i < e ∧ buf[e - 1]? = some 34 ∧ ∀ k, i ≤ k → k + 1 < e → ∃ c, buf[k]? = some c ∧ StrBlock.isCtl c = false :=
  StrBlock.view_shape lossy buf _ i bs e (Nat.le_refl _) h

/-- the order of the block's tests matters: with the control-byte test behind the quote / backslash tests (the change of
    seed C09d) a raw TAB that stands before a backslash in a later block is copied into the string.  `\"`, TAB, `b`, `\n`,
    thirty `c`, the closing quote, padding -/
def orderWitness : Buf := ([92, 34, 9, 98, 92, 110] ++ List.replicate 30 (99 : UInt8) ++ [34] ++ List.replicate 40 (32 : UInt8)).toArray
theorem block_order_matters :
    ((StrBlock.rawLoop true false orderWitness 300 0 0).map DecRes.view = some none) ∧
    ((StrBlock.rawLoop false false orderWitness 300 0 0).map (fun r => (r.view.map (·.2))) = some (some 37)) := by
  decide +kernel

/-! non-vacuity -/
/-- `"a\né😀"` followed by garbage -/
def ex1 : Buf := #[34, 97, 92, 110, 92, 117, 48, 48, 101, 57, 92, 117, 68, 56, 51, 68, 92, 117, 68, 69, 48, 48, 34, 120]
example : Spec.stringS false ex1 1 = some ([97, 10, 0xC3, 0xA9, 0xF0, 0x9F, 0x98, 0x80], 23) := by decide +kernel
example : (decodeFrom false ex1 1).view = some ([97, 10, 0xC3, 0xA9, 0xF0, 0x9F, 0x98, 0x80], 23) := by decide +kernel
/-- `"\uD800abcdefgh"` : strict rejects, lossy gives U+FFFD then `abcdefgh` (nothing dropped) -/
def ex2 : Buf := #[34, 92, 117, 68, 56, 48, 48, 97, 98, 99, 100, 101, 102, 103, 104, 34]
example : Spec.stringS false ex2 1 = none := by decide +kernel
example : Spec.stringS true ex2 1 = some ([0xEF, 0xBF, 0xBD, 97, 98, 99, 100, 101, 102, 103, 104], 16) := by decide +kernel

/-- **the in-place decoder on the padded copy of a text** (fourth session; `parse_string_inplace` /
    `handle_unicode_codepoint_mut` of src/util/string.rs and src/util/unicode.rs — the decoder behind `from_str::<Value>` —
    modelled with its 32-byte blocks, its unchecked loads and its stores into the buffer it is reading, `Impl/StrInplace.lean`):
    for every text `t`, every start `i` inside it, strict and lossy, on the copy `t ++ x"x ++ 61 zero bytes` that
    `parse_with_padding` makes, the decoder terminates, performs **no load and no store outside the buffer**, and answers as
    the specification reads that buffer: on success the bytes it has written at `i ..` are exactly the decoded text, the
    reader stands just behind the closing quote, the buffer has kept its size, and every byte in front of the literal and
    from the reader on is unchanged (the rest of the document is parsed from the same buffer afterwards); it reports an
    error exactly when the specification rejects the literal.  (`Lemmas/StrInplace{Base,Proof}.lean`: the writer never
    overtakes the reader — an escape consumes at least two bytes and produces at most four out of at least six — and the
    sentinel quote stops every scan before the block loads could leave the padding.) -/
theorem inplace_decoder_on_padded_text (lossy : Bool) (t : Buf) (i : Nat) (hi : i ≤ t.size) :
    match StrIn.run lossy (StrIn.pad t) i with
    | .ok mem cnt e =>
      ∃ bs, Spec.stringS lossy (StrIn.pad t) i = some (bs, e) ∧ StrBlock.bytes mem i (i + cnt) = bs ∧
        mem.size = (StrIn.pad t).size ∧ (∀ k, k < i → mem[k]? = (StrIn.pad t)[k]?) ∧ (∀ k, e ≤ k → mem[k]? = (StrIn.pad t)[k]?) ∧
        i + cnt < e
    | .err _ => Spec.stringS lossy (StrIn.pad t) i = none
    | .fault => False
    | .fuel => False :=
  StrIn.Post_unpack (StrIn.pad t) (StrIn.pad t) i _ _ (StrIn.run_spec lossy t i hi)

/-- **… in terms of the text itself** (`Lemmas/StrPad.lean`: a literal that is closed inside the text is read the same with and
    without the bytes behind the text — the look-ahead for a low surrogate never decides differently, because a literal that
    continues with `\\u` brings its four hex digits along): when the decoder ends inside the text it has decoded exactly what
    the specification reads at `i` in `t`; when it ends behind the text (only the sentinel quote of the padding closed the
    literal) or reports an error, the specification finds no literal at `i` in `t` — the first is what the callers' test
    `n > len` turns into an error -/
theorem inplace_decoder_reads_the_text (lossy : Bool) (t : Buf) (i : Nat) (hi : i ≤ t.size) :
    match StrIn.run lossy (StrIn.pad t) i with
    | .ok mem cnt e =>
      (e ≤ t.size → Spec.stringS lossy t i = some (StrBlock.bytes mem i (i + cnt), e)) ∧
      (t.size < e → Spec.stringS lossy t i = none)
    | .err _ => Spec.stringS lossy t i = none
    | .fault => False
    | .fuel => False := by
  have h := inplace_decoder_on_padded_text lossy t i hi
  obtain ⟨p1, p2, p3⟩ := StrIn.stringS_pad lossy t i
  generalize StrIn.run lossy (StrIn.pad t) i = r at h ⊢
  cases r with
  | ok mem cnt e =>
    obtain ⟨bs, h1, h2, _⟩ := h
    exact ⟨fun he => by rw [h2]; exact p1 bs e h1 he, fun he => p2 bs e h1 he⟩
  | err c => exact p3 h
  | fault => exact h
  | fuel => exact h

/-- **the decoding of a literal does not depend on what follows it** (the property's words): a literal that the specification
    reads in `b ++ suf` and that ends inside `b` is read the same — same decoded text, same end — in `b ++ suf'` for every
    other continuation `suf'`, and in `b` alone (`Lemmas/StrPad.lean`: `stringS_prefix` / `stringS_extend`; the low-surrogate
    look-ahead of a lossy decoder included) -/
theorem literal_does_not_depend_on_what_follows (lossy : Bool) (b suf suf' : Buf) (i : Nat) (r : List UInt8 × Nat)
    (h : Spec.stringS lossy (b ++ suf) i = some r) (hr : r.2 ≤ b.size) :
    Spec.stringS lossy b i = some r ∧ Spec.stringS lossy (b ++ suf') i = some r := by
  have h1 := StrPad.stringS_prefix lossy b suf _ i r rfl h hr
  exact ⟨h1, StrPad.stringS_extend lossy b suf' _ i r rfl h1⟩

/-- **… and after any earlier decodings in the same buffer** (the whole-input DOM parse decodes every string and member name
    of the document in place, one after the other, in ONE buffer): let `mem0` be any buffer of the size of the padded copy
    that still equals it from `i` on — which is what every earlier run leaves behind, by the last clause of this very
    statement, because the parser only moves forward.  Then the decoder started at `i` on `mem0` terminates without any access
    outside the buffer and decodes what the specification reads at `i` in the ORIGINAL padded text; it changes nothing in front
    of the literal (earlier results stay intact) and leaves the original text from its final position on (later tokens are
    read as they were written).  By induction over the literals of a document, in-place decoding is decoding of the
    original text. -/
theorem inplace_decoder_after_earlier_literals (lossy : Bool) (t mem0 : Buf) (i : Nat) (hi : i ≤ t.size)
    (h0 : mem0.size = (StrIn.pad t).size) (hag : ∀ k, i ≤ k → mem0[k]? = (StrIn.pad t)[k]?) :
    match StrIn.run lossy mem0 i with
    | .ok mem cnt e =>
      ∃ bs, Spec.stringS lossy (StrIn.pad t) i = some (bs, e) ∧ StrBlock.bytes mem i (i + cnt) = bs ∧
        mem.size = (StrIn.pad t).size ∧ (∀ k, k < i → mem[k]? = mem0[k]?) ∧ (∀ k, e ≤ k → mem[k]? = (StrIn.pad t)[k]?) ∧
        i + cnt < e
    | .err _ => Spec.stringS lossy (StrIn.pad t) i = none
    | .fault => False
    | .fuel => False :=
  StrIn.Post_unpack (StrIn.pad t) mem0 i _ _ (StrIn.run_spec_mem lossy t mem0 i hi h0 hag)

/-- **all string literals of a document, decoded in place in one buffer** (`StrIn.runMany`: run after run on what the runs
    before have left, as `parse_value` / `parse_array` / `parse_object` do with every string and member name): for every chain
    of decodable literals of the padded text (`StrIn.Chain`: each starts inside the text at or behind the end of the one
    before), every run reports the decoded length and the end the specification gives for that literal in the ORIGINAL text,
    none faults, and at the end EVERY literal's decoding stands at its place in the final buffer — the `&str`s the DOM's
    nodes point to are the decoded texts, whatever was decoded after them -/
theorem inplace_decoding_of_all_literals (lossy : Bool) (t : Buf) (is : List Nat) (ds : List (List UInt8 × Nat))
    (h : StrIn.Chain lossy t 0 is ds) :
    ∃ memF, StrIn.runMany lossy (StrIn.pad t) is = some (memF, ds.map (fun d => (d.1.length, d.2))) ∧
      memF.size = (StrIn.pad t).size ∧
      ∀ n (hn : n < is.length) (hd : n < ds.length), StrBlock.bytes memF is[n] (is[n] + ds[n].1.length) = ds[n].1 := by
  obtain ⟨memF, h1, h2, _, h4⟩ := StrIn.runMany_spec lossy t is ds 0 (StrIn.pad t) h rfl (fun _ _ => rfl)
  exact ⟨memF, h1, h2, h4⟩

/-- **… which is what happens to every document** (`Lemmas/ChainDoc.lean`): whenever the specification reads a tree `j` at `w` in
    a text `t`, the string literals of that value — member names and string values, in document order — form such a chain, and
    their decodings are exactly the strings of `j` (`ChainDoc.strsOf`).  So decoding them all in place, one after the other in
    the padded buffer, succeeds without a fault and leaves in the final buffer, at the literals' places, exactly the strings
    of the tree the text denotes -/
theorem inplace_decoding_of_a_document (lossy : Bool) (t : Buf) (f w : Nat) (j : Spec.Json) (e : Nat)
    (h : Spec.tree lossy f t w = some (j, e)) :
    ∃ (is : List Nat) (ds : List (List UInt8 × Nat)) (memF : Buf),
      StrIn.runMany lossy (StrIn.pad t) is = some (memF, ds.map (fun d => (d.1.length, d.2))) ∧
      ds.map (·.1) = ChainDoc.strsOf j ∧ is.length = ds.length ∧
      ∀ n (hn : n < is.length) (hd : n < ds.length), StrBlock.bytes memF is[n] (is[n] + ds[n].1.length) = ds[n].1 := by
  obtain ⟨is, ds, hc, hs, _⟩ := (ChainDoc.tree_chain lossy t f).1 w j e h
  have hc0 := ChainDoc.chain_weaken lossy t w 0 is ds hc (Nat.zero_le _)
  obtain ⟨memF, h1, _, h3⟩ := inplace_decoding_of_all_literals lossy t is ds hc0
  exact ⟨is, ds, memF, h1, hs, ChainDoc.chain_length lossy t is ds 0 hc0, h3⟩

/-- non-vacuity: `["a\nb","\u00e9","x"]`: three literals, the first two with escapes -/
def ex3 : Buf := #[91, 34, 97, 92, 110, 98, 34, 44, 34, 92, 117, 48, 48, 101, 57, 34, 44, 34, 120, 34, 93]
example : (StrIn.runMany false (StrIn.pad ex3) [2, 9, 18]).map (fun r => (r.2, StrBlock.bytes r.1 2 5, StrBlock.bytes r.1 9 11, StrBlock.bytes r.1 18 19)) =
    some ([(3, 7), (2, 16), (1, 20)], [97, 10, 98], [0xC3, 0xA9], [120]) := by decide +kernel

/-- … and the padding is what keeps it inside: on the bare text `"abc` (no closing quote, nothing behind it) the first
    block load already leaves the buffer -/
theorem inplace_decoder_needs_the_padding :
    (match StrIn.run false #[34, 97, 98, 99] 1 with | .fault => true | _ => false) = true := by decide +kernel

/-- non-vacuity: `"a\n\u00e9\uD83D\uDE00"` (`ex1`) through the in-place decoder on its padded copy -/
example : (match StrIn.run false (StrIn.pad ex1) 1 with
    | .ok mem cnt e => (StrBlock.bytes mem 1 (1 + cnt), e)
    | _ => ([], 0)) = ([97, 10, 0xC3, 0xA9, 0xF0, 0x9F, 0x98, 0x80], 23) := by decide +kernel

end Sonic.Thm.C09
