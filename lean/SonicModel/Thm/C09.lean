/-
  C09 — string literals decode exactly, at every length and alignment.
-/
import SonicModel.Lemmas.StrDecodeMain
import SonicModel.Lemmas.SkipRefine
namespace Sonic.Thm.C09
open Sonic Gen Impl

/-- `hex_to_u32_nocheck` over the generated `DIGIT_TO_VAL32`: four hex digits give their value -/
theorem hex_table_valid (a b c d : UInt8) (ha : isHex a = true) (hb : isHex b = true)
    (hc : isHex c = true) (hd : isHex d = true) :
    hexToU32 a b c d = hexVal a * 4096 + hexVal b * 256 + hexVal c * 16 + hexVal d :=
  hexToU32_valid a b c d ha hb hc hd

/-- … and anything else gives a value with the high bits set (so it is rejected downstream) -/
theorem hex_table_invalid (a b c d : UInt8)
    (h : (isHex a && isHex b && isHex c && isHex d) = false) : 0xFFFFFFFF ≤ hexToU32 a b c d :=
  hexToU32_invalid a b c d h

/-- `codepoint_to_utf8` is UTF-8 on `[0, 0x10FFFF]` and writes nothing above -/
theorem utf8_encode (cp : Nat) :
    codepointToUtf8 cp = if cp ≤ 0x10FFFF then Spec.utf8 cp else [] :=
  codepointToUtf8_spec cp

/-- **decoder == specification**: for every buffer and every start index, in strict and in lossy
    mode, the copying decoder (`parse_string_raw` + `parse_string_escaped` + `parse_escaped_char`
    + `parse_escaped_utf8`) accepts exactly the literals `Spec.stringS` accepts and produces the
    same bytes and the same end offset; in particular every malformed literal (raw control,
    bad escape, bad hex, unpaired surrogate in strict mode, missing quote) is rejected. -/
theorem decode_correct (lossy : Bool) (buf : Buf) (i : Nat) :
    (decodeFrom lossy buf i).view = Spec.stringS lossy buf i :=
  Sonic.decode_correct lossy buf i

/-- the skip-only scanner accepts exactly the grammar-level literals -/
theorem skip_only_correct (buf : Buf) (i : Nat) :
    (skipString buf buf.size i).erase = Res.ofOpt (Spec.stringG buf i) :=
  skipString_refines buf i

/-! non-vacuity -/
/-- `"a\né😀"` followed by garbage -/
def ex1 : Buf := #[34, 97, 92, 110, 92, 117, 48, 48, 101, 57, 92, 117, 68, 56, 51, 68, 92, 117, 68, 69, 48, 48, 34, 120]
example : Spec.stringS false ex1 1 = some ([97, 10, 0xC3, 0xA9, 0xF0, 0x9F, 0x98, 0x80], 23) := by decide +kernel
example : (decodeFrom false ex1 1).view = some ([97, 10, 0xC3, 0xA9, 0xF0, 0x9F, 0x98, 0x80], 23) := by decide +kernel
/-- `"\uD800abcdefgh"` : strict rejects, lossy gives U+FFFD then `abcdefgh` (nothing dropped) -/
def ex2 : Buf := #[34, 92, 117, 68, 56, 48, 48, 97, 98, 99, 100, 101, 102, 103, 104, 34]
example : Spec.stringS false ex2 1 = none := by decide +kernel
example : Spec.stringS true ex2 1 = some ([0xEF, 0xBF, 0xBD, 97, 98, 99, 100, 101, 102, 103, 104], 16) := by decide +kernel

end Sonic.Thm.C09
