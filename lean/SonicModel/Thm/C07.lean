/-
  C07 — numbers are parsed exactly.   (partial: the integer side of the digit machine is proved for
  EVERY integer literal of the RFC shape — any number of digits, any surrounding text: exact `Unsigned`
  within u64, exact `Signed` within i64, everything else handed to the float back end with a significand
  that is exact or brackets the value from below and is marked truncated; the decimal→binary rounding
  back end is an assumption validated by correspondence against the exact specification `Spec.roundF64`.)
-/
import SonicModel.Lemmas.NumProof
import SonicModel.Lemmas.NumLit
namespace Sonic.Thm.C07
open Sonic Impl Spec

/-- the wrapping 64-bit accumulation of `parse_number` is the exact value whenever the exact value
    fits in 64 bits (every digit run, every start) -/
theorem accumulation_exact (buf : Buf) (i j acc : Nat) (h : digitsVal buf i j acc < 2^64) :
    wrapDigits buf i j acc = digitsVal buf i j acc :=
  wrapDigits_eq buf i j acc h

/-- **plain unsigned integers of up to 19 digits are returned exactly, classified `Unsigned`, with
    the whole literal consumed** — for every such literal and every exponent-accumulation bound -/
theorem int_exact_unsigned_partial (buf : Buf) (bound : Nat) (h1 : 1 ≤ buf.size) (h19 : buf.size ≤ 19)
    (hd : ∀ k, k < buf.size → isDigit buf[k]! = true) (h0 : buf[0]! ≠ 48) :
    parseNumber buf bound 0 false = (.unsigned (digitsVal buf 0 buf.size 0), buf.size) :=
  Sonic.int_exact_unsigned buf bound h1 h19 hd h0

/-- a run of `n` digits is below `10^n` (so 19 digits are below 2^64) -/
theorem digits_bound (buf : Buf) (n : Nat)
    (hd : ∀ k, k < n → k < buf.size ∧ isDigit buf[k]! = true) : digitsVal buf 0 n 0 < 10 ^ n := by
  have := digitsVal_lt buf n 0 0 (by intro k _ hk; exact hd k (by omega))
  simpa using this

/-! ### integer literals of ANY length, wherever they stand in a text (`Lit`: the RFC 8259 shape) -/

theorem pow19_lt : (10:Nat) ^ 19 < 2 ^ 64 := by decide
theorem pow63_lt : (2:Nat) ^ 63 < 10 ^ 19 := by decide
theorem pow64_lt : (2:Nat) ^ 64 < 10 ^ 20 := by decide

/-- digits without a leading zero: at least `10^(n-1)` -/
theorem int_lower (l : Lit) (hw : l.WF) (hnz : l.int ≠ [48]) : 10 ^ (l.int.length - 1) ≤ digitsOf l.int 0 := by
  obtain ⟨hne, hI, hzero, _, _⟩ := hw
  cases hint : l.int with
  | nil => exact absurd hint hne
  | cons c I' =>
    have hc : isDigit c = true := hI c (by simp [hint])
    have h48 : c ≠ 48 := by
      intro h
      have : l.int.length = 1 := hzero (by simp [hint, h])
      rw [hint] at this
      have : I' = [] := by simpa using this
      apply hnz; rw [hint, h, this]
    simpa using digitsOf_ge c I' hc h48

/-- **every integer literal within u64 is returned as that exact integer, classified `Unsigned`, with the
    whole literal consumed** — any number of digits (the 20-digit rescue included), any surrounding text -/
theorem integer_u64_exact (l : Lit) (hw : l.WF) (hf : l.frac = none) (he : l.exp = none) (hpos : l.neg = false)
    (hfit : l.mant < 2 ^ 64) (pre suf : List UInt8) (hs : isDelim suf.head?) (bound : Nat) :
    parseNumber (pre ++ l.render ++ suf).toArray bound (pre.length + l.signPart.length) l.neg =
      (.unsigned l.mant, pre.length + l.render.length) := by
  rw [int_literal l hw hf he pre suf (endsInt_of_delim suf hs) bound, int_mant l hf]
  rw [int_mant l hf] at hfit
  by_cases hz : l.int = [48]
  · simp [hz, hpos, digitsOf]
  · have hlow := int_lower l hw hz
    simp only [hz, if_false, hpos, intResult]
    by_cases h19 : l.int.length ≤ 19
    · simp [h19]
    · by_cases h20 : l.int.length = 20
      · simp [h19, h20, hfit]
      · exfalso
        have : 20 ≤ l.int.length - 1 := by omega
        have := Nat.pow_le_pow_right (show 0 < 10 by decide) this
        have := pow64_lt
        omega

/-- **every negative integer literal within i64 is returned as that exact integer, classified `Signed`** -/
theorem integer_i64_exact (l : Lit) (hw : l.WF) (hf : l.frac = none) (he : l.exp = none) (hneg : l.neg = true)
    (hnz : 0 < l.mant) (hfit : l.mant ≤ 2 ^ 63) (pre suf : List UInt8) (hs : isDelim suf.head?) (bound : Nat) :
    parseNumber (pre ++ l.render ++ suf).toArray bound (pre.length + l.signPart.length) l.neg =
      (.signed (-(l.mant : Int)), pre.length + l.render.length) := by
  rw [int_literal l hw hf he pre suf (endsInt_of_delim suf hs) bound, int_mant l hf]
  rw [int_mant l hf] at hfit hnz
  have hz : l.int ≠ [48] := by
    intro h; rw [h] at hnz; simp [digitsOf] at hnz
  have hlow := int_lower l hw hz
  simp only [hz, if_false, hneg, intResult]
  by_cases h19 : l.int.length ≤ 19
  · have : ¬ (digitsOf l.int 0 > 2 ^ 63) := by omega
    simp [h19, this]
  · exfalso
    have : 19 ≤ l.int.length - 1 := by omega
    have := Nat.pow_le_pow_right (show 0 < 10 by decide) this
    have := pow63_lt
    omega

/-- the float request `sig · 10^k` brackets the exact value `m` from below -/
def Brackets (sig : Nat) (k : Nat) (m : Nat) : Prop := sig * 10 ^ k ≤ m ∧ m < (sig + 1) * 10 ^ k

/-- **every other integer literal goes to the float back end with its sign and a significand that is
    exact or brackets the exact value**: `-0` as negative zero, a negative integer beyond i64 that still
    fits 64 bits exactly, and longer literals as the first 19 digits times a power of ten, marked
    truncated — never as a wrapped or truncated integer -/
theorem integer_out_of_range_is_float (l : Lit) (hw : l.WF) (hf : l.frac = none) (he : l.exp = none)
    (hout : ¬ (l.neg = false ∧ l.mant < 2 ^ 64) ∧ ¬ (l.neg = true ∧ 0 < l.mant ∧ l.mant ≤ 2 ^ 63))
    (pre suf : List UInt8) (hs : isDelim suf.head?) (bound : Nat) :
    ∃ r, parseNumber (pre ++ l.render ++ suf).toArray bound (pre.length + l.signPart.length) l.neg =
        (r, pre.length + l.render.length) ∧
      ((r = .zero true ∧ l.neg = true ∧ l.mant = 0) ∨ (r = .negIntAsFloat l.mant ∧ l.neg = true) ∨
       (∃ (sig k : Nat), r = .toFloat l.neg sig (k : Int) true ∧ Brackets sig k l.mant)) := by
  rw [int_literal l hw hf he pre suf (endsInt_of_delim suf hs) bound]
  rw [int_mant l hf] at hout ⊢
  refine ⟨_, rfl, ?_⟩
  by_cases hz : l.int = [48]
  · have hm : digitsOf l.int 0 = 0 := by rw [hz]; simp [digitsOf]
    cases hn : l.neg
    · exfalso; apply hout.1; rw [hm]; exact ⟨hn, by decide⟩
    · left; simp [hz, digitsOf]
  · have hlow := int_lower l hw hz
    simp only [hz, if_false, intResult]
    by_cases h19 : l.int.length ≤ 19
    · have hv := digitsOf_lt l.int hw.2.1
      have hp := Nat.pow_le_pow_right (show 0 < 10 by decide) h19
      have := pow19_lt
      cases hn : l.neg
      · exfalso; apply hout.1; exact ⟨hn, by omega⟩
      · right; left
        have hpos : 0 < digitsOf l.int 0 := by
          have : 0 < 10 ^ (l.int.length - 1) := Nat.pow_pos (by decide)
          omega
        have hbig : digitsOf l.int 0 > 2 ^ 63 := by
          apply Classical.byContradiction; intro hc
          exact hout.2 ⟨hn, hpos, by omega⟩
        simp [h19, hbig]
    · simp only [h19, if_false]
      by_cases h20 : l.int.length = 20 ∧ digitsOf l.int 0 < 2 ^ 64
      · cases hn : l.neg
        · exfalso; exact hout.1 ⟨hn, h20.2⟩
        · right; left; simp [h20]
      · right; right
        simp only [h20, if_false]
        refine ⟨_, l.int.length - 19, rfl, ?_⟩
        -- the first 19 digits times 10^(n-19) bracket the value
        have hsplit : l.int = l.int.take 19 ++ l.int.drop 19 := (List.take_append_drop 19 _).symm
        have hdl : (l.int.drop 19).length = l.int.length - 19 := by simp
        have hval : digitsOf l.int 0 = digitsOf (l.int.take 19) 0 * 10 ^ (l.int.length - 19) + digitsOf (l.int.drop 19) 0 := by
          conv => lhs; rw [hsplit, digitsOf_append, digitsOf_acc, hdl]
        have hrest := digitsOf_lt (l.int.drop 19) (fun x hx => hw.2.1 x (List.mem_of_mem_drop hx))
        rw [hdl] at hrest
        unfold Brackets
        rw [hval, Nat.add_mul]
        constructor <;> omega

/-! non-vacuity of the three statements: 2^64-1 (twenty digits), -2^63, 2^64 and -0 -/
def litOf (neg : Bool) (ds : List UInt8) : Lit := { neg := neg, int := ds, frac := none, exp := none }
theorem litOf_wf (neg : Bool) (ds : List UInt8) (h1 : ds ≠ []) (h2 : allDigits ds) (h3 : ds.head? = some 48 → ds.length = 1) :
    (litOf neg ds).WF :=
  ⟨h1, h2, h3, (by intro f hf; cases hf), (by intro e s d hh; cases hh)⟩
def u64max : Lit := litOf false [49,56,52,52,54,55,52,52,48,55,51,55,48,57,53,53,49,54,49,53]
def i64min : Lit := litOf true [57,50,50,51,51,55,50,48,51,54,56,53,52,55,55,53,56,48,56]
def u64over : Lit := litOf false [49,56,52,52,54,55,52,52,48,55,51,55,48,57,53,53,49,54,49,54]
example : parseNumber ([91] ++ u64max.render ++ [93]).toArray 1000 1 false = (.unsigned 18446744073709551615, 21) :=
  integer_u64_exact u64max (litOf_wf _ _ (by decide) (by decide) (by decide)) rfl rfl rfl (by decide) [91] [93] (by simp [isDelim]) 1000
example : parseNumber ([91] ++ i64min.render ++ [93]).toArray 1000 2 true = (.signed (-9223372036854775808), 21) :=
  integer_i64_exact i64min (litOf_wf _ _ (by decide) (by decide) (by decide)) rfl rfl rfl (by decide) (by decide) [91] [93] (by simp [isDelim]) 1000
example : ¬ (u64over.neg = false ∧ u64over.mant < 2 ^ 64) ∧ ¬ (u64over.neg = true ∧ 0 < u64over.mant ∧ u64over.mant ≤ 2 ^ 63) := by decide

/-! concrete instances of the remaining branches of the digit machine, evaluated in the kernel
    (these are tests of the model, labelled as such): `0`, `-0`, `-0.0`, 2^64-1, 2^64, -2^63,
    `18446744073709551615` (20 digits, the `exponent == 1` rescue) -/
example : parseNumber #[48] 1000 0 false = (.unsigned 0, 1) := by decide +kernel
example : parseNumber #[45, 48] 1000 1 true = (.zero true, 2) := by decide +kernel
example : parseNumber #[45, 48, 46, 48] 1000 1 true = (.zero true, 4) := by decide +kernel
example : parseNumber #[49,56,52,52,54,55,52,52,48,55,51,55,48,57,53,53,49,54,49,53] 1000 0 false =
    (.unsigned 18446744073709551615, 20) := by decide +kernel
example : (parseNumber #[49,56,52,52,54,55,52,52,48,55,51,55,48,57,53,53,49,54,49,54] 1000 0 false).1 =
    .toFloat false 1844674407370955161 1 true := by decide +kernel
example : parseNumber #[45,57,50,50,51,51,55,50,48,51,54,56,53,52,55,55,53,56,48,56] 1000 1 true =
    (.signed (-9223372036854775808), 20) := by decide +kernel
/-- `1.5e3` : sig 15, e10 2, not truncated -/
example : (parseNumber #[49, 46, 53, 101, 51] 1000 0 false).1 = .toFloat false 15 2 false := by decide +kernel
/-- the exact rounding specification on boundary literals -/
example : roundF64 17976931348623157 292 = some 0x7fefffffffffffff := by decide +kernel
example : roundF64 17976931348623159 292 = none := by decide +kernel
example : roundF64 5 (-324) = some 1 := by decide +kernel

end Sonic.Thm.C07
