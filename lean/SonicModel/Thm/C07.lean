/-
  C07 — numbers are parsed exactly.   (partial: the integer side of the digit machine is proved;
  the decimal→binary rounding back end is an assumption validated by correspondence against the
  exact specification `Spec.roundF64`.)
-/
import SonicModel.Lemmas.NumProof
namespace Sonic.Thm.C07
open Sonic Impl Spec

/-- the wrapping 64-bit accumulation of `parse_number` is the exact value whenever the exact value
    fits in 64 bits (every digit run, every start) -/
theorem accumulation_exact (buf : Buf) (i j acc : Nat) (h : digitsVal buf i j acc < 2^64) :
    wrapDigits buf i j acc = digitsVal buf i j acc :=
  wrapDigits_eq buf i j acc h

/-- **plain unsigned integers of up to 19 digits are returned exactly, classified `Unsigned`, with
    the whole literal consumed** — for every such literal and every exponent-accumulation bound -/
theorem int_exact_unsigned_partial (buf : Buf) (bound : Nat) (h1 : 1 ≤ buf.size) (h19 : buf.size ≤ 19)
    (hd : ∀ k, k < buf.size → isDigit buf[k]! = true) (h0 : buf[0]! ≠ 48) :
    parseNumber buf bound 0 false = (.unsigned (digitsVal buf 0 buf.size 0), buf.size) :=
  Sonic.int_exact_unsigned buf bound h1 h19 hd h0

/-- a run of `n` digits is below `10^n` (so 19 digits are below 2^64) -/
theorem digits_bound (buf : Buf) (n : Nat)
    (hd : ∀ k, k < n → k < buf.size ∧ isDigit buf[k]! = true) : digitsVal buf 0 n 0 < 10 ^ n := by
  have := digitsVal_lt buf n 0 0 (by intro k _ hk; exact hd k (by omega))
  simpa using this

/-! concrete instances of the remaining branches of the digit machine, evaluated in the kernel
    (these are tests of the model, labelled as such): `0`, `-0`, `-0.0`, 2^64-1, 2^64, -2^63,
    `18446744073709551615` (20 digits, the `exponent == 1` rescue) -/
example : parseNumber #[48] 1000 0 false = (.unsigned 0, 1) := by decide +kernel
example : parseNumber #[45, 48] 1000 1 true = (.zero true, 2) := by decide +kernel
example : parseNumber #[45, 48, 46, 48] 1000 1 true = (.zero true, 4) := by decide +kernel
example : parseNumber #[49,56,52,52,54,55,52,52,48,55,51,55,48,57,53,53,49,54,49,53] 1000 0 false =
    (.unsigned 18446744073709551615, 20) := by decide +kernel
example : (parseNumber #[49,56,52,52,54,55,52,52,48,55,51,55,48,57,53,53,49,54,49,54] 1000 0 false).1 =
    .toFloat false 1844674407370955161 1 true := by decide +kernel
example : parseNumber #[45,57,50,50,51,51,55,50,48,51,54,56,53,52,55,55,53,56,48,56] 1000 1 true =
    (.signed (-9223372036854775808), 20) := by decide +kernel
/-- `1.5e3` : sig 15, e10 2, not truncated -/
example : (parseNumber #[49, 46, 53, 101, 51] 1000 0 false).1 = .toFloat false 15 2 false := by decide +kernel
/-- the exact rounding specification on boundary literals -/
example : roundF64 17976931348623157 292 = some 0x7fefffffffffffff := by decide +kernel
example : roundF64 17976931348623159 292 = none := by decide +kernel
example : roundF64 5 (-324) = some 1 := by decide +kernel

end Sonic.Thm.C07
