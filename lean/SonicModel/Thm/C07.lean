/-
  C07 — numbers are parsed exactly.   (partial: the integer side of the digit machine is proved for
  EVERY integer literal of the RFC shape — any number of digits, any surrounding text: exact `Unsigned`
  within u64, exact `Signed` within i64, everything else handed to the float back end with a significand
  that is exact or brackets the value from below and is marked truncated (`integer_u64_exact`,
  `integer_i64_exact`, `integer_out_of_range_is_float`, `integer_classification_matches_spec`); for EVERY
  literal with a fraction and/or exponent the request handed to the float back end is the literal's own
  sign and value, exact or bracketing with the truncation flag (`float_literal_contract`; exponent digits
  below the accumulation bound 10^8); the specification's reading `Spec.decOf` is the literal's value
  (`spec_reading_is_literal_value`).  NOT proved: the decimal→binary rounding back end (Clinger fast path,
  Eisel–Lemire, big-decimal fallback) — compared bit for bit with the exact `Spec.roundF64` on every case.)
-/
import SonicModel.Lemmas.NumProof
import SonicModel.Lemmas.NumLit
import SonicModel.Lemmas.NumContract
import SonicModel.Lemmas.DecOfLit
namespace Sonic.Thm.C07
open Sonic Impl Spec

/-- the wrapping 64-bit accumulation of `parse_number` is the exact value whenever the exact value
    fits in 64 bits (every digit run, every start) -/
theorem accumulation_exact (buf : Buf) (i j acc : Nat) (h : digitsVal buf i j acc < 2^64) :
    wrapDigits buf i j acc = digitsVal buf i j acc :=
  wrapDigits_eq buf i j acc h

/-- **plain unsigned integers of up to 19 digits are returned exactly, classified `Unsigned`, with
    the whole literal consumed** — for every such literal and every exponent-accumulation bound -/
theorem int_exact_unsigned_partial (buf : Buf) (bound : Nat) (h1 : 1 ≤ buf.size) (h19 : buf.size ≤ 19)
    (hd : ∀ k, k < buf.size → isDigit buf[k]! = true) (h0 : buf[0]! ≠ 48) :
    parseNumber buf bound 0 false = (.unsigned (digitsVal buf 0 buf.size 0), buf.size) :=
  Sonic.int_exact_unsigned buf bound h1 h19 hd h0

/-- a run of `n` digits is below `10^n` (so 19 digits are below 2^64) -/
theorem digits_bound (buf : Buf) (n : Nat)
    (hd : ∀ k, k < n → k < buf.size ∧ isDigit buf[k]! = true) : digitsVal buf 0 n 0 < 10 ^ n := by
  have := digitsVal_lt buf n 0 0 (by intro k _ hk; exact hd k (by omega))
  simpa using this

/-! ### integer literals of ANY length, wherever they stand in a text (`Lit`: the RFC 8259 shape) -/

theorem pow19_lt : (10:Nat) ^ 19 < 2 ^ 64 := by decide
theorem pow63_lt : (2:Nat) ^ 63 < 10 ^ 19 := by decide
theorem pow64_lt : (2:Nat) ^ 64 < 10 ^ 20 := by decide

/-- digits without a leading zero: at least `10^(n-1)` -/
theorem int_lower (l : Lit) (hw : l.WF) (hnz : l.int ≠ [48]) : 10 ^ (l.int.length - 1) ≤ digitsOf l.int 0 := by
  obtain ⟨hne, hI, hzero, _, _⟩ := hw
  cases hint : l.int with
  | nil => exact absurd hint hne
  | cons c I' =>
    have hc : isDigit c = true := hI c (by simp [hint])
    have h48 : c ≠ 48 := by
      intro h
      have : l.int.length = 1 := hzero (by simp [hint, h])
      rw [hint] at this
      have : I' = [] := by simpa using this
      apply hnz; rw [hint, h, this]
    simpa using digitsOf_ge c I' hc h48

/-- **every integer literal within u64 is returned as that exact integer, classified `Unsigned`, with the
    whole literal consumed** — any number of digits (the 20-digit rescue included), any surrounding text -/
theorem integer_u64_exact (l : Lit) (hw : l.WF) (hf : l.frac = none) (he : l.exp = none) (hpos : l.neg = false)
    (hfit : l.mant < 2 ^ 64) (pre suf : List UInt8) (hs : isDelim suf.head?) (bound : Nat) :
    parseNumber (pre ++ l.render ++ suf).toArray bound (pre.length + l.signPart.length) l.neg =
      (.unsigned l.mant, pre.length + l.render.length) := by
  rw [int_literal l hw hf he pre suf (endsInt_of_delim suf hs) bound, int_mant l hf]
  rw [int_mant l hf] at hfit
  by_cases hz : l.int = [48]
  · simp [hz, hpos, digitsOf]
  · have hlow := int_lower l hw hz
    simp only [hz, if_false, hpos, intResult]
    by_cases h19 : l.int.length ≤ 19
    · simp [h19]
    · by_cases h20 : l.int.length = 20
      · simp [h19, h20, hfit]
      · exfalso
        have : 20 ≤ l.int.length - 1 := by omega
        have := Nat.pow_le_pow_right (show 0 < 10 by decide) this
        have := pow64_lt
        omega

/-- **every negative integer literal within i64 is returned as that exact integer, classified `Signed`** -/
theorem integer_i64_exact (l : Lit) (hw : l.WF) (hf : l.frac = none) (he : l.exp = none) (hneg : l.neg = true)
    (hnz : 0 < l.mant) (hfit : l.mant ≤ 2 ^ 63) (pre suf : List UInt8) (hs : isDelim suf.head?) (bound : Nat) :
    parseNumber (pre ++ l.render ++ suf).toArray bound (pre.length + l.signPart.length) l.neg =
      (.signed (-(l.mant : Int)), pre.length + l.render.length) := by
  rw [int_literal l hw hf he pre suf (endsInt_of_delim suf hs) bound, int_mant l hf]
  rw [int_mant l hf] at hfit hnz
  have hz : l.int ≠ [48] := by
    intro h; rw [h] at hnz; simp [digitsOf] at hnz
  have hlow := int_lower l hw hz
  simp only [hz, if_false, hneg, intResult]
  by_cases h19 : l.int.length ≤ 19
  · have : ¬ (digitsOf l.int 0 > 2 ^ 63) := by omega
    simp [h19, this]
  · exfalso
    have : 19 ≤ l.int.length - 1 := by omega
    have := Nat.pow_le_pow_right (show 0 < 10 by decide) this
    have := pow63_lt
    omega

/-- the float request `sig · 10^k` brackets the exact value `m` from below -/
def Brackets (sig : Nat) (k : Nat) (m : Nat) : Prop := sig * 10 ^ k ≤ m ∧ m < (sig + 1) * 10 ^ k

/-- **every other integer literal goes to the float back end with its sign and a significand that is
    exact or brackets the exact value**: `-0` as negative zero, a negative integer beyond i64 that still
    fits 64 bits exactly, and longer literals as the first 19 digits times a power of ten, marked
    truncated — never as a wrapped or truncated integer -/
theorem integer_out_of_range_is_float (l : Lit) (hw : l.WF) (hf : l.frac = none) (he : l.exp = none)
    (hout : ¬ (l.neg = false ∧ l.mant < 2 ^ 64) ∧ ¬ (l.neg = true ∧ 0 < l.mant ∧ l.mant ≤ 2 ^ 63))
    (pre suf : List UInt8) (hs : isDelim suf.head?) (bound : Nat) :
    ∃ r, parseNumber (pre ++ l.render ++ suf).toArray bound (pre.length + l.signPart.length) l.neg =
        (r, pre.length + l.render.length) ∧
      ((r = .zero true ∧ l.neg = true ∧ l.mant = 0) ∨ (r = .negIntAsFloat l.mant ∧ l.neg = true) ∨
       (∃ (sig k : Nat), r = .toFloat l.neg sig (k : Int) true ∧ Brackets sig k l.mant)) := by
  rw [int_literal l hw hf he pre suf (endsInt_of_delim suf hs) bound]
  rw [int_mant l hf] at hout ⊢
  refine ⟨_, rfl, ?_⟩
  by_cases hz : l.int = [48]
  · have hm : digitsOf l.int 0 = 0 := by rw [hz]; simp [digitsOf]
    cases hn : l.neg
    · exfalso; apply hout.1; rw [hm]; exact ⟨hn, by decide⟩
    · left; simp [hz, digitsOf]
  · have hlow := int_lower l hw hz
    simp only [hz, if_false, intResult]
    by_cases h19 : l.int.length ≤ 19
    · have hv := digitsOf_lt l.int hw.2.1
      have hp := Nat.pow_le_pow_right (show 0 < 10 by decide) h19
      have := pow19_lt
      cases hn : l.neg
      · exfalso; apply hout.1; exact ⟨hn, by omega⟩
      · right; left
        have hpos : 0 < digitsOf l.int 0 := by
          have : 0 < 10 ^ (l.int.length - 1) := Nat.pow_pos (by decide)
          omega
        have hbig : digitsOf l.int 0 > 2 ^ 63 := by
          apply Classical.byContradiction; intro hc
          exact hout.2 ⟨hn, hpos, by omega⟩
        simp [h19, hbig]
    · simp only [h19, if_false]
      by_cases h20 : l.int.length = 20 ∧ digitsOf l.int 0 < 2 ^ 64
      · cases hn : l.neg
        · exfalso; exact hout.1 ⟨hn, h20.2⟩
        · right; left; simp [h20]
      · right; right
        simp only [h20, if_false]
        refine ⟨_, l.int.length - 19, rfl, ?_⟩
        -- the first 19 digits times 10^(n-19) bracket the value
        have hsplit : l.int = l.int.take 19 ++ l.int.drop 19 := (List.take_append_drop 19 _).symm
        have hdl : (l.int.drop 19).length = l.int.length - 19 := by simp
        have hval : digitsOf l.int 0 = digitsOf (l.int.take 19) 0 * 10 ^ (l.int.length - 19) + digitsOf (l.int.drop 19) 0 := by
          conv => lhs; rw [hsplit, digitsOf_append, digitsOf_acc, hdl]
        have hrest := digitsOf_lt (l.int.drop 19) (fun x hx => hw.2.1 x (List.mem_of_mem_drop hx))
        rw [hdl] at hrest
        unfold Brackets
        rw [hval, Nat.add_mul]
        constructor <;> omega

/-! ### literals with a fraction and/or an exponent: what the float back end is asked to round -/

/-- **the digit machine hands the float back end the literal's own value**: for every literal of the RFC
    shape with a fraction and/or an exponent (any digit counts, leading zeros after the point, any
    surrounding text; exponent digits below the accumulation bound, 10^8 in the code), the result is
    either a signed zero for a literal whose digits are all zero, or a request `sig · 10^e` with the
    literal's sign where `sig` is the literal's digit string with its last `k ≥ 0` digits cut off and
    `e` makes up for them (`Approx`): exact when the truncation flag is off, and bracketing the exact
    value `sig·10^e ≤ v < (sig+1)·10^e` when it is on — the whole literal consumed -/
theorem float_literal_contract (l : Lit) (hw : l.WF) (hfe : l.frac ≠ none ∨ l.exp ≠ none)
    (pre suf : List UInt8) (hs : isDelim suf.head?) (bound : Nat)
    (hb : ∀ e sg ds, l.exp = some (e, sg, ds) → digitsOf ds 0 < bound) :
    ∃ r, parseNumber (pre ++ l.render ++ suf).toArray bound (pre.length + l.signPart.length) l.neg =
        (r, pre.length + l.render.length) ∧
      ((r = .zero l.neg ∧ l.mant = 0) ∨
       ∃ sig e tr, r = .toFloat l.neg sig e tr ∧ Approx sig e tr l.mant l.exp10) := by
  obtain ⟨hne, hI, hzero, hfrac, hexp⟩ := id hw
  have hdf := delim_facts suf.head? hs
  have hR : EndsNum suf := ⟨hdf.1, hdf.2.2.1, hdf.2.2.2⟩
  have hr : pre ++ l.render ++ suf = (pre ++ l.signPart) ++ (l.int ++ (l.fracPart ++ (l.expPart ++ suf))) := by
    simp [Lit.render]
  have hl : pre.length + l.render.length =
      (pre ++ l.signPart).length + l.int.length + l.fracPart.length + l.expPart.length := by
    simp [Lit.render]; omega
  have hl0 : pre.length + l.signPart.length = (pre ++ l.signPart).length := by simp
  rw [hr, hl, hl0]
  cases hint : l.int with
  | nil => exact absurd hint hne
  | cons c I' =>
    by_cases h48 : c = 48
    · -- `0.…` / `0e…`
      have h1 : l.int.length = 1 := hzero (by simp [hint, h48])
      have hnil : I' = [] := by rw [hint] at h1; simpa using h1
      subst h48; subst hnil
      have hint0 : digitsOf l.int 0 = 0 := by rw [hint]; simp [digitsOf]
      cases hf : l.frac with
      | none =>
        cases he : l.exp with
        | none => rcases hfe with h | h <;> contradiction
        | some t =>
          obtain ⟨e, sg, ds⟩ := t
          have hF : l.fracPart = [] := by simp [Lit.fracPart, hf]
          have := float_zero_exp l hw e sg ds he (pre ++ l.signPart) suf hR bound (hb e sg ds he) l.neg
          refine ⟨.zero l.neg, ?_, Or.inl ⟨rfl, ?_⟩⟩
          · rw [hF]; simpa using this
          · simp only [Lit.mant, hf, Option.getD_none, hint0]; rfl
      | some f =>
        obtain ⟨zs, g, hfz, hzs, hg⟩ := zeros_split f
        subst hfz
        have := float_zero_frac l hw hint zs g hf hzs hg (pre ++ l.signPart) suf hR bound hb l.neg
        refine ⟨_, by simpa using this, ?_⟩
        have hfd := (hfrac _ hf).2
        cases g with
        | nil =>
          left
          refine ⟨rfl, ?_⟩
          simp only [Lit.mant, hf, Option.getD_some, List.append_nil, hint0]
          exact zeros_value zs hzs
        | cons d g' =>
          right
          obtain ⟨sig, e, tr, hres, happ⟩ := contract_z l.neg zs d g' l.expVal hzs (fun x hx => hfd x (by simp [hx]))
          refine ⟨sig, e, tr, hres, ?_⟩
          simpa [Lit.mant, Lit.exp10, hf, hint] using happ
    · have := float_nonzero l hw c I' hint h48 hfe (pre ++ l.signPart) suf hR bound hb l.neg
      refine ⟨_, by simpa [Nat.add_assoc] using this, Or.inr ?_⟩
      have hfd : allDigits (l.frac.getD []) := by
        cases hf : l.frac with
        | none => intro x hx; simp at hx
        | some f => exact (hfrac f hf).2
      obtain ⟨sig, e, tr, hres, happ⟩ := contract_nz l.neg (c :: I') (l.frac.getD []) l.expVal hfd (by rw [← hint]; exact hI)
      refine ⟨sig, e, tr, hres, ?_⟩
      simpa [Lit.mant, Lit.exp10, hint] using happ

/-- the bracket in the form the back end uses it -/
theorem approx_brackets (sig : Nat) (e : Int) (tr : Bool) (mant : Nat) (e10 : Int) (h : Approx sig e tr mant e10) :
    ∃ k : Nat, e = e10 + k ∧ Brackets sig k mant := by
  obtain ⟨k, he, h1, h2, _⟩ := h
  exact ⟨k, he, h1, h2⟩

/-! ### the specification the oracle uses reads the same value -/

/-- `Spec.decOf` (the exact reading that `Spec.classify` / `Spec.roundF64` and the correspondence oracle
    start from) of a literal standing in a text is the literal's own sign, digits and decimal exponent -/
theorem spec_reading_is_literal_value (l : Lit) (hw : l.WF) (pre suf : List UInt8) (hs : isDelim suf.head?) :
    decOf (pre ++ l.render ++ suf).toArray pre.length (pre.length + l.render.length) =
      { neg := l.neg, mant := l.mant, exp := l.exp10, isInt := l.isInt } :=
  decOf_lit l hw pre suf hs

/-- **the integer classification of the digit machine is the specification's**: whenever `Spec.classify`
    says `u64 v` / `i64 v` for an integer literal, the digit machine returns exactly `Unsigned v` /
    `Signed v`; whenever it says "a float", the digit machine never returns an integer -/
theorem integer_classification_matches_spec (l : Lit) (hw : l.WF) (hf : l.frac = none) (he : l.exp = none)
    (pre suf : List UInt8) (hs : isDelim suf.head?) (bound : Nat) :
    match classify (decOf (pre ++ l.render ++ suf).toArray pre.length (pre.length + l.render.length)) with
    | .u64 v => parseNumber (pre ++ l.render ++ suf).toArray bound (pre.length + l.signPart.length) l.neg =
        (.unsigned v, pre.length + l.render.length)
    | .i64 v => parseNumber (pre ++ l.render ++ suf).toArray bound (pre.length + l.signPart.length) l.neg =
        (.signed v, pre.length + l.render.length)
    | _ => ∀ v, (parseNumber (pre ++ l.render ++ suf).toArray bound (pre.length + l.signPart.length) l.neg).1 ≠ .unsigned v ∧
        (parseNumber (pre ++ l.render ++ suf).toArray bound (pre.length + l.signPart.length) l.neg).1 ≠ .signed v := by
  rw [decOf_lit l hw pre suf hs]
  have hint : l.isInt = true := by simp [Lit.isInt, hf, he]
  unfold classify
  simp only [hint, Bool.true_and]
  by_cases hu : l.neg = false ∧ l.mant < 2 ^ 64
  · have := integer_u64_exact l hw hf he hu.1 hu.2 pre suf hs bound
    have hc : (!l.neg && decide (l.mant < 2 ^ 64)) = true := by simp [hu.1, hu.2]
    simp only [hc, if_true]; exact this
  · by_cases hi : l.neg = true ∧ 0 < l.mant ∧ l.mant ≤ 2 ^ 63
    · have := integer_i64_exact l hw hf he hi.1 hi.2.1 hi.2.2 pre suf hs bound
      have hc1 : ¬ ((!l.neg && decide (l.mant < 2 ^ 64)) = true) := by simp [hi.1]
      have hc2 : (l.neg && decide (0 < l.mant) && decide (l.mant ≤ 2 ^ 63)) = true := by simp [hi.1, hi.2.1, hi.2.2]
      simp only [hc1, hc2, if_false, if_true]; exact this
    · obtain ⟨r, hr, hcase⟩ := integer_out_of_range_is_float l hw hf he ⟨hu, hi⟩ pre suf hs bound
      have h1 : ¬ ((!l.neg && decide (l.mant < 2 ^ 64)) = true) := by
        intro h; apply hu
        simp only [Bool.and_eq_true, Bool.not_eq_true', decide_eq_true_eq] at h; exact h
      have h2 : ¬ ((l.neg && decide (0 < l.mant) && decide (l.mant ≤ 2 ^ 63)) = true) := by
        intro h; apply hi
        simp only [Bool.and_eq_true, decide_eq_true_eq] at h; exact ⟨h.1.1, h.1.2, h.2⟩
      simp only [h1, h2, if_false]
      have hfin : ∀ v, r ≠ .unsigned v ∧ r ≠ .signed v := by
        intro v
        rcases hcase with ⟨h, _⟩ | ⟨h, _⟩ | ⟨sig, k, h, _⟩ <;> (subst h; constructor <;> intro hh <;> cases hh)
      cases hfb : f64Bits { neg := l.neg, mant := l.mant, exp := l.exp10, isInt := true } <;>
        (simp only; intro v; rw [hr]; exact hfin v)

/-! non-vacuity of the three statements: 2^64-1 (twenty digits), -2^63, 2^64 and -0 -/
def litOf (neg : Bool) (ds : List UInt8) : Lit := { neg := neg, int := ds, frac := none, exp := none }
theorem litOf_wf (neg : Bool) (ds : List UInt8) (h1 : ds ≠ []) (h2 : allDigits ds) (h3 : ds.head? = some 48 → ds.length = 1) :
    (litOf neg ds).WF :=
  ⟨h1, h2, h3, (by intro f hf; cases hf), (by intro e s d hh; cases hh)⟩
def u64max : Lit := litOf false [49,56,52,52,54,55,52,52,48,55,51,55,48,57,53,53,49,54,49,53]
def i64min : Lit := litOf true [57,50,50,51,51,55,50,48,51,54,56,53,52,55,55,53,56,48,56]
def u64over : Lit := litOf false [49,56,52,52,54,55,52,52,48,55,51,55,48,57,53,53,49,54,49,54]
example : parseNumber ([91] ++ u64max.render ++ [93]).toArray 1000 1 false = (.unsigned 18446744073709551615, 21) :=
  integer_u64_exact u64max (litOf_wf _ _ (by decide) (by decide) (by decide)) rfl rfl rfl (by decide) [91] [93] (by simp [isDelim]) 1000
example : parseNumber ([91] ++ i64min.render ++ [93]).toArray 1000 2 true = (.signed (-9223372036854775808), 21) :=
  integer_i64_exact i64min (litOf_wf _ _ (by decide) (by decide) (by decide)) rfl rfl rfl (by decide) (by decide) [91] [93] (by simp [isDelim]) 1000
example : ¬ (u64over.neg = false ∧ u64over.mant < 2 ^ 64) ∧ ¬ (u64over.neg = true ∧ 0 < u64over.mant ∧ u64over.mant ≤ 2 ^ 63) := by decide

/-- `-0.0012345678901234567890e+5`: two zeros skipped, 1 + 16 digits kept, 3 cut off (truncated) -/
def sampleFrac : List UInt8 := [48,48,49,50,51,52,53,54,55,56,57,48,49,50,51,52,53,54,55,56,57,48]
def sampleF : Lit := { neg := true, int := [48], frac := some sampleFrac, exp := some (101, some 43, [53]) }
theorem sampleF_wf : sampleF.WF := by
  refine ⟨by decide, by decide, by decide, ?_, ?_⟩
  · intro f hf; cases hf; exact ⟨by decide, by decide⟩
  · intro e s ds h; cases h; exact ⟨by decide, by decide, by decide, by decide⟩
example : ∃ r, parseNumber ([91] ++ sampleF.render ++ [93]).toArray 100000000 (1 + sampleF.signPart.length) sampleF.neg =
      (r, 1 + sampleF.render.length) ∧
    ((r = .zero sampleF.neg ∧ sampleF.mant = 0) ∨
     ∃ sig e tr, r = .toFloat sampleF.neg sig e tr ∧ Approx sig e tr sampleF.mant sampleF.exp10) :=
  float_literal_contract sampleF sampleF_wf (Or.inl (by simp [sampleF])) [91] [93] (by simp [isDelim]) 100000000
    (by intro e sg ds h; cases h; decide)
example : (parseNumber ([91] ++ sampleF.render ++ [93]).toArray 100000000 2 true).1 =
    .toFloat true 12345678901234567 (-19 + 5) true := by
  simp [parseNumber, parseNumber.skipZeros, parseFraction, parseExponent, takeDigits, expDigits, skipDigits, isDigitAt, isDigit,
    dig, sampleF, sampleFrac, Lit.render, Lit.signPart, Lit.fracPart, Lit.expPart]

/-! concrete instances of the remaining branches of the digit machine, evaluated in the kernel
    (these are tests of the model, labelled as such): `0`, `-0`, `-0.0`, 2^64-1, 2^64, -2^63,
    `18446744073709551615` (20 digits, the `exponent == 1` rescue) -/
example : parseNumber #[48] 1000 0 false = (.unsigned 0, 1) := by decide +kernel
example : parseNumber #[45, 48] 1000 1 true = (.zero true, 2) := by decide +kernel
example : parseNumber #[45, 48, 46, 48] 1000 1 true = (.zero true, 4) := by decide +kernel
example : parseNumber #[49,56,52,52,54,55,52,52,48,55,51,55,48,57,53,53,49,54,49,53] 1000 0 false =
    (.unsigned 18446744073709551615, 20) := by decide +kernel
example : (parseNumber #[49,56,52,52,54,55,52,52,48,55,51,55,48,57,53,53,49,54,49,54] 1000 0 false).1 =
    .toFloat false 1844674407370955161 1 true := by decide +kernel
example : parseNumber #[45,57,50,50,51,51,55,50,48,51,54,56,53,52,55,55,53,56,48,56] 1000 1 true =
    (.signed (-9223372036854775808), 20) := by decide +kernel
/-- `1.5e3` : sig 15, e10 2, not truncated -/
example : (parseNumber #[49, 46, 53, 101, 51] 1000 0 false).1 = .toFloat false 15 2 false := by decide +kernel
/-- the exact rounding specification on boundary literals -/
example : roundF64 17976931348623157 292 = some 0x7fefffffffffffff := by decide +kernel
example : roundF64 17976931348623159 292 = none := by decide +kernel
example : roundF64 5 (-324) = some 1 := by decide +kernel

end Sonic.Thm.C07
