/-
  C05 — serialization always emits well-formed JSON that denotes the serialized value.
-/
import SonicModel.Lemmas.EscapeProof
import SonicModel.Lemmas.SerProof
namespace Sonic.Thm.C05
open Sonic Gen Impl

/-- **the escaper is the specification** (Layer 2 == Layer 0): for every string, every length and
    every position of escapable bytes, the block algorithm of `format_string` (LANES-byte main
    loop with speculative stores, `escape_unchecked` over the regenerated `QUOTE_TAB` /
    `NEED_ESCAPED`, the `nb < LANES` tail) writes exactly: quote, backslash and C0 controls
    escaped, everything else verbatim; and reports the number of bytes written. -/
theorem escape_correct (s : List UInt8) (q : Bool) :
    (formatString 32 s q).1 = (if q then Spec.quoted s else Spec.escape s) ∧
    (formatString 32 s q).2.1 = (formatString 32 s q).1.length :=
  ⟨(formatString_spec 32 (by decide) s q).1, (formatString_spec 32 (by decide) s q).2.1⟩

/-- the same algorithm at the NEON width -/
theorem escape_correct_16 (s : List UInt8) (q : Bool) :
    (formatString 16 s q).1 = (if q then Spec.quoted s else Spec.escape s) :=
  (formatString_spec 16 (by decide) s q).1

/-- **the reserved window suffices**: every store of `format_string` (including the speculative
    32-byte stores and the 8-byte table copies) ends below `len*6 + 32 + 3`, the size
    `write_string_fast` reserves (constants regenerated from the source) -/
theorem escape_window (s : List UInt8) (q : Bool) :
    (formatString 32 s q).2.2 ≤ escReserveMul * s.length + escReserveAdd := by
  have := (formatString_spec 32 (by decide) s q).2.2
  have h1 : escReserveMul = 6 := by decide
  have h2 : escReserveAdd = 35 := by decide
  rw [h1, h2]
  omega

/-- the generated tables are exactly the specification's escape function (all 256 rows) -/
theorem quote_table (b : UInt8) :
    needEsc b = Spec.needsEscape b ∧
    (Spec.needsEscape b = true → quoteRow b = Spec.escByte b) ∧
    (Spec.needsEscape b = false → Spec.escByte b = [b]) :=
  ⟨(quoteTab_spec b).1, fun h => ((quoteTab_spec b).2.2.1 h).1, (quoteTab_spec b).2.2.2⟩

/-- **pretty = compact + indentation**: for every value, every indent unit and every depth, dropping
    the whitespace events of the pretty serializer gives the compact event stream -/
theorem pretty_is_compact_plus_ws (u : List UInt8) (v : SV) :
    (events (some u) 0 v).map strip = events none 0 v :=
  strip_events u 0 0 v

/-- writers: `Vec`/`BytesMut` append, `BufferedWriter` forwards in order -/
theorem writer_refines (evs : List WEvent) :
    runVec evs = flatten evs ∧ runBuffered evs = flatten evs :=
  ⟨rfl, runBuffered_eq evs⟩

/-- `io::BufWriter`: with the repaired `WriteExt` impl (own buffer flushed before the inner
    reserve is handed out) the bytes arrive in order, for every capacity … -/
theorem iobuf_refines (cap : Nat) (evs : List WEvent) : runIoBuf cap true evs = flatten evs :=
  runIoBuf_fixed cap evs

/-- … while the impl as originally coded scrambles them (witness `{"a":"b"}`) -/
theorem iobuf_as_coded_scrambles :
    runIoBuf 8192 false [.write [123], .reserveCommit [34, 97, 34], .write [58], .reserveCommit [34, 98, 34], .write [125]]
      ≠ flatten [.write [123], .reserveCommit [34, 97, 34], .write [58], .reserveCommit [34, 98, 34], .write [125]] := by
  decide

/-- a writer failing after `n` bytes: the error is returned exactly when the output does not fit,
    and what reached the sink is a prefix of the correct output -/
theorem failing_prefix (n : Nat) (evs : List WEvent) :
    (runFailAfter n evs).1 <+: flatten evs ∧ ((runFailAfter n evs).2 = true ↔ n < (flatten evs).length) :=
  failAfter_prefix n evs

/-! non-vacuity -/
example : (formatString 32 [97, 34, 98, 10, 0xC3, 0xA9, 1] true).1 =
    [34, 97, 92, 34, 98, 92, 110, 0xC3, 0xA9, 92, 117, 48, 48, 48, 49, 34] := by decide +kernel
example : (events (some [32, 32]) 0 (.seq [.num [49], .map [(.str [97], .null)]])).map flatten =
    some [91, 10, 32, 32, 49, 44, 10, 32, 32, 123, 10, 32, 32, 32, 32, 34, 97, 34, 58, 32, 110, 117, 108, 108, 10, 32, 32, 125, 10, 93] := by
  decide +kernel

end Sonic.Thm.C05
