/-
  C03 — a parsed document equals the reference data model of its text.
-/
import SonicModel.Lemmas.DomProof
import SonicModel.Lemmas.MetaPack
import SonicModel.Lemmas.NodeBound
import SonicModel.Lemmas.DomParseProof
import SonicModel.Lemmas.NumSound
import SonicModel.Lemmas.DomSound
import SonicModel.Lemmas.DomPad
import SonicModel.Lemmas.ChainDoc
namespace Sonic.Thm.C03
open Sonic Gen Impl Spec

/-- **node-stack discipline of `DocumentVisitor`**: for every tree and whatever the thread-local
    node buffer held before, visiting the tree's events (`visit_*_start`, scalars and keys,
    `visit_*_end(len)`) pushes exactly one node whose shape is the tree — children in source
    order, keys interleaved, duplicates kept, `len` = number of elements/members — and restores
    the `parent` offset (this is why the `len` argument of `visit_container_end` can be ignored
    when the children are copied, and what an off-by-one in `set_len(parent + 1)` would break) -/
theorem stack_discipline (j : Json) (v : Vis) :
    ∃ v', v.run (evOf j) = some v' ∧
      ∃ n, v'.nodes = v.nodes ++ [n] ∧ n.shape = shapeOf j ∧ v'.parent = v.parent := by
  obtain ⟨v', h, ns, hn, hs, hp⟩ := run_tree j v
  refine ⟨v', h, ?_⟩
  cases ns with
  | nil => simp [shapes] at hs
  | cons n rest =>
    cases rest with
    | nil => exact ⟨n, hn, by simpa [shapes] using hs, hp⟩
    | cons m r => simp [shapes] at hs

/-- `Meta::pack_dom_node` and its accessors are inverse for `kind < 8`, `idx < 2^29`,
    `len < 2^32` (64-bit words, regenerated constants; proved with `bv_decide`) -/
theorem meta_pack_unpack (k i l : BitVec 64) (hk : k < 8) (hi : i < 0x20000000) (hl : l < 0x100000000) :
    bvKind (bvPack k i l) = k ∧ bvIdx (bvPack k i l) = i ∧ bvLen (bvPack k i l) = l :=
  pack_unpack k i l hk hi hl

/-- … and the bound on `idx` is tight (the encoding has 29 bits for the header distance while a
    container of a < 4 GiB document can have up to ~2^31 node slots) -/
theorem meta_idx_bound_tight :
    bvIdx (bvPack 4 0x20000000 2) ≠ 0x20000000 ∧ bvLen (bvPack 4 0x20000000 2) ≠ 2 :=
  pack_idx_overflow

/-- **the decoding parser emits the tree the text denotes**: for every strictly well-formed document (RFC 8259, every string
    decodable, every number finite) the model of `parse_value` / `parse_array` / `parse_object` (numbers through the digit
    machine, strings through the decoder, containers by their loops; `Impl/DomParse.lean`) accepts and returns exactly the
    specification's tree: same nesting, array order, members in source order with duplicates preserved, strings decoded,
    numbers as their literals (whose classification and value are C07's) -/
theorem dom_parser_emits_the_specification_tree (buf : Buf) (s e : Nat) (h : Spec.document true buf = some (s, e)) :
    ∃ t, docTree false buf = some t ∧ DomP.document buf = some t :=
  DomP.document_of_strict buf s e h

/-- **… for every ACCEPTED text** (fourth session: the converse direction, `Lemmas/DomSound.lean`): whenever the model of the
    decoding parser returns a tree, the text is a strictly well-formed document and the tree is exactly the tree the
    specification reads from it — the property as stated, "for every accepted JSON text the DOM value has the same tree as
    the text denotes" -/
theorem accepted_text_has_the_specification_tree (buf : Buf) (t : Json) (h : DomP.document buf = some t) :
    ∃ s e, Spec.document true buf = some (s, e) ∧ docTree false buf = some t :=
  DomP.strict_of_document buf t h

/-- **… and for the whole-input path as the code composes it** (`Impl/DomPadded.lean`: the decoding parser on the padded copy
    `t ++ x"x ++ zeros`, `n > len` ⇒ error, only blanks up to the end of the text): the tree it returns is the tree the TEXT `t`
    denotes — the padding shows neither in what is accepted (`Thm/C02.whole_input_parse_on_the_padded_copy_accept_iff`) nor in
    the tree (`Lemmas/GrammarPad.lean`: `tree_prefix`, `tree_mono`).  Its verdict is compared with `from_slice::<Value>` on
    every case of the C02 stream (`m.domp`); the strings of the real parse are decoded in place in that buffer, which the
    in-place decoder theorems of C09 equate with the model's decoder -/
theorem whole_input_parse_returns_the_tree_of_the_text (t : Buf) (tr : Json) (h : DomP.fromSlicePadded t = some tr) :
    docTree false t = some tr :=
  DomP.fromSlicePadded_tree t tr h

/-- the two compositions agree outright: the whole-input path on the padded copy returns what the decoding parser returns on
    the bare text — same verdict (both accept exactly the strict grammar) and, when accepted, the same tree (both return the
    tree the text denotes) -/
theorem padding_does_not_change_the_tree (t : Buf) : DomP.fromSlicePadded t = DomP.document t := by
  have hacc : (DomP.fromSlicePadded t).isSome = true ↔ (DomP.document t).isSome = true :=
    (DomP.fromSlicePadded_accept_iff t).trans (DomP.document_accept_iff t).symm
  cases ha : DomP.fromSlicePadded t with
  | none =>
    cases hb : DomP.document t with
    | none => rfl
    | some tr' => rw [ha, hb] at hacc; simp at hacc
  | some tr =>
    cases hb : DomP.document t with
    | none => rw [ha, hb] at hacc; simp at hacc
    | some tr' =>
      have h1 := DomP.fromSlicePadded_tree t tr ha
      obtain ⟨_, _, _, h2⟩ := DomP.strict_of_document t tr' hb
      rw [h1] at h2
      exact h2

/-- **… and its strings are the ones in-place decoding leaves in the buffer**: for the tree `tr` that the whole-input path
    returns for a text `t`, the string literals of `t` in document order can be decoded in place one after the other in the
    padded buffer (`StrIn.runMany`: the unchecked block decoder of src/util/string.rs, every run on what the runs before left),
    none of the runs faults, and what stands at the literals' places in the final buffer are exactly the strings of `tr`
    (`ChainDoc.strsOf`: member names and string values in document order) — the `&str`s of the DOM's nodes -/
theorem whole_input_parse_strings_are_the_inplace_decodings (t : Buf) (tr : Json) (h : DomP.fromSlicePadded t = some tr) :
    ∃ (is : List Nat) (ds : List (List UInt8 × Nat)) (memF : Buf),
      StrIn.runMany false (StrIn.pad t) is = some (memF, ds.map (fun d => (d.1.length, d.2))) ∧
      ds.map (·.1) = ChainDoc.strsOf tr ∧ is.length = ds.length ∧
      ∀ n (hn : n < is.length) (hd : n < ds.length), StrBlock.bytes memF is[n] (is[n] + ds[n].1.length) = ds[n].1 := by
  have hdoc := DomP.fromSlicePadded_tree t tr h
  unfold docTree at hdoc
  cases ht : tree false (Spec.fuelFor t) t (skipWs t 0) with
  | none => rw [ht] at hdoc; cases hdoc
  | some p =>
    obtain ⟨j, e⟩ := p
    rw [ht] at hdoc
    simp only at hdoc
    split at hdoc
    · have hj : j = tr := Option.some.inj hdoc
      subst hj
      obtain ⟨is, ds, hc, hs, _⟩ := (ChainDoc.tree_chain false t (Spec.fuelFor t)).1 _ j e ht
      have hc0 := ChainDoc.chain_weaken false t _ 0 is ds hc (Nat.zero_le _)
      obtain ⟨memF, h1, _, _, h4⟩ := StrIn.runMany_spec false t is ds 0 (StrIn.pad t) hc0 rfl (fun _ _ => rfl)
      exact ⟨is, ds, memF, h1, hs, ChainDoc.chain_length false t is ds 0 hc0, h4⟩
    · cases hdoc

/-- … value by value (any fuel that suffices for the grammar suffices for the parser) -/
theorem dom_parser_on_wellformed_value (buf : Buf) (f w e : Nat) (h : Spec.value true f buf w = .ok e) :
    ∃ t, tree false f buf w = some (t, e) ∧ ∀ c, buf[w]? = some c → DomP.dispatch f buf (some (c, w + 1)) = .ok t e :=
  (DomP.parse_of_strict buf f).1 w e h

/-- the digit machine accepts every number token of the grammar and stops exactly where the token ends -/
theorem number_tokens_are_accepted (buf : Buf) (bound w e : Nat) (neg : Bool) (h : Spec.number buf w = some e) :
    (parseNumber buf bound (if buf[w]? = some 45 then w + 1 else w) neg).2 = e ∧
    (parseNumber buf bound (if buf[w]? = some 45 then w + 1 else w) neg).1 ≠ .invalid :=
  DomP.parseNumber_of_number buf bound w e neg h

/-- … and nothing else: whenever the digit machine does not answer `invalid` and does not stop in front of a digit (a value
    is never followed by a digit), what it consumed is exactly a number token of the grammar (leading zero, fraction with at
    least one digit, exponent with at least one digit; zero skipping, 17/19-digit cut-over and the 20-digit rescue included) -/
theorem number_tokens_only (buf : Buf) (bound w : Nat) (neg : Bool) (p : PNum) (k : Nat)
    (h : parseNumber buf bound (if buf[w]? = some 45 then w + 1 else w) neg = (p, k)) (hp : p ≠ .invalid)
    (hnd : isDigitAt buf k = false) : Spec.number buf w = some k :=
  DomP.number_of_parseNumber buf bound w neg p k h hp hnd

/-- non-vacuity: `{"a":[1,{}],"a":null}` as text -/
def exDoc : Buf := #[123, 34, 97, 34, 58, 91, 49, 44, 123, 125, 93, 44, 34, 97, 34, 58, 110, 117, 108, 108, 125]
example : Spec.document true exDoc = some (0, 21) := by decide +kernel

/-! non-vacuity: `{"a":[1,{}],"a":null}` -/
def exTree : Json := .obj [([97], .arr [.num 5 6, .obj []]), ([97], .null)]
example : (({ nodes := [.leaf .null], parent := 0 } : Vis).run (evOf exTree)).map (fun v => (v.nodes.length, v.parent)) =
    some (2, 0) := by decide

/-- **the thread-local node buffer is large enough for every document**: `DocumentVisitor::new`
    reserves `len / 2 + 2` nodes and `push_node` refuses to grow; a (compact) document of length
    `len` pushes at most that many nodes — one per value, one per object key, and the header -/
theorem node_buffer_suffices (t : Spec.RJ) (h : t.WF) : t.nodes + 1 ≤ t.render.length / 2 + 2 :=
  Spec.node_buffer_suffices t h

end Sonic.Thm.C03
