/-
  C16 — values sharing a parsed arena stay valid in any clone, move and drop order.

  `Rc.run init ops` is the state after any history of operations (parse, clone, drop, take, clone
  of a member, promotion to an owned container, push / insert / pop / remove, values of one
  deserializer) of the reference-counting model of `src/value/node.rs` (Impl/Rc.lean), with `Drop`
  executed one decrement at a time.
-/
import SonicModel.Lemmas.RcProof
namespace Sonic.Thm.C16
open Sonic Rc

/-- **the counting invariant holds after every history** -/
theorem invariant (ops : List Op) (s : St) (h : run init ops = some s) : Inv s :=
  inv_run ops init s inv_init h

/-- the strong count of an arena is exactly the number of its sharers: root values held by the
    program, root values whose drop is pending, root values stored in live owned containers, and
    the handles of parsers / deserializers -/
theorem count_is_sharers (ops : List Op) (s : St) (h : run init ops = some s) (a : Nat) :
    s.arena a = w (refsA a) s.live + w (refsA a) s.pending + contSum s (refsA a) + s.handles.count a :=
  (invariant ops s h).bal (.A a)

/-- likewise for the `Arc` of every owned array / object -/
theorem container_count_is_owners (ops : List Op) (s : St) (h : run init ops = some s) (c : Nat) :
    s.ccnt c = w (refsC c) s.live + w (refsC c) s.pending + contSum s (refsC c) := by
  have := (invariant ops s h).bal (.C c)
  simpa [count, tot, refs, hcount] using this

/-- nothing is released twice -/
theorem released_at_most_once (ops : List Op) (s : St) (h : run init ops = some s) (a : Nat) : s.afreed a ≤ 1 := by
  have i := invariant ops s h
  by_cases ha : a < s.nextA
  · rcases i.freedA a ha with ⟨h1, _⟩ | ⟨h1, _⟩ <;> omega
  · have := (i.freshA a (by omega)).2; omega

theorem container_freed_at_most_once (ops : List Op) (s : St) (h : run init ops = some s) (c : Nat) : s.cfreed c ≤ 1 := by
  have i := invariant ops s h
  by_cases hc : c < s.nextC
  · rcases i.freedC c hc with ⟨h1, _⟩ | ⟨h1, _⟩ <;> omega
  · have := (i.freshC c (by omega)).2.2; omega

/-- **every value the program holds is readable**: the arena of a root value has not been
    released, whatever was dropped before and in whatever order -/
theorem live_root_readable (ops : List Op) (s : St) (h : run init ops = some s) (a : Nat) (t : T)
    (hl : Item.root a t ∈ s.live) : s.afreed a = 0 ∧ 0 < s.arena a := by
  have i := invariant ops s h
  have hv : 0 < s.arena a := valid_of_live s i _ hl
  have hlt := root_lt s i a hv
  rcases i.freedA a hlt with h1 | ⟨_, h2⟩
  · exact h1
  · omega

/-- the same for the values stored inside an owned container the program holds: the container
    itself is alive, and so is the arena of every root value in it -/
theorem member_readable (ops : List Op) (s : St) (h : run init ops = some s) (c : Nat) (hl : Item.own c ∈ s.live) :
    s.cfreed c = 0 ∧ ∀ p ∈ s.citems c, ∀ a t, p.2 = Item.root a t → s.afreed a = 0 ∧ 0 < s.arena a := by
  have i := invariant ops s h
  have hv : 0 < s.ccnt c := valid_of_live s i _ hl
  have hlt := own_lt s i c hv
  refine ⟨?_, ?_⟩
  · rcases i.freedC c hlt with ⟨h1, _⟩ | ⟨_, h2, _⟩
    · exact h1
    · omega
  · intro p hp a t hpa
    have hv2 := valid_of_member s i c hlt p hp
    rw [hpa] at hv2
    have hv3 : 0 < s.arena a := hv2
    have hlt2 := root_lt s i a hv3
    rcases i.freedA a hlt2 with h1 | ⟨_, h2⟩
    · exact h1
    · omega

/-- **when the last sharer is gone the arena has been released** (exactly once): an arena that was
    created and that no value, pending drop, live container or handle refers to -/
theorem released_when_unshared (ops : List Op) (s : St) (h : run init ops = some s) (a : Nat) (ha : a < s.nextA)
    (hnone : w (refsA a) s.live + w (refsA a) s.pending + contSum s (refsA a) + s.handles.count a = 0) :
    s.arena a = 0 ∧ s.afreed a = 1 := by
  have i := invariant ops s h
  have hb := count_is_sharers ops s h a
  rcases i.freedA a ha with ⟨_, h2⟩ | ⟨h1, h2⟩
  · omega
  · exact ⟨h2, h1⟩

/-- and it is not released before: while anything shares it, it has not been released -/
theorem not_released_while_shared (ops : List Op) (s : St) (h : run init ops = some s) (a : Nat)
    (hsome : 0 < w (refsA a) s.live + w (refsA a) s.pending + contSum s (refsA a) + s.handles.count a) :
    s.afreed a = 0 := by
  have i := invariant ops s h
  have hb := count_is_sharers ops s h a
  have hlt := root_lt s i a (by omega)
  rcases i.freedA a hlt with ⟨h1, _⟩ | ⟨_, h2⟩
  · exact h1
  · omega

/-- a released container holds nothing any more (its members were handed to `Drop`) -/
theorem dead_container_empty (ops : List Op) (s : St) (h : run init ops = some s) (c : Nat) (hz : s.ccnt c = 0) :
    s.citems c = [] := by
  have i := invariant ops s h
  by_cases hc : c < s.nextC
  · rcases i.freedC c hc with ⟨_, h2⟩ | ⟨_, _, h3⟩
    · omega
    · exact h3
  · exact (i.freshC c (by omega)).2.1

/-! non-vacuity: `[1,"a",[2]]` parsed, cloned, a member cloned, the document dropped, the clone
    promoted (its members become sharers), everything dropped: the arena is released at the very
    end, once -/
def doc : T := .arr [.leaf, .str, .arr [.leaf]]

example : ((run init [.parse doc, .clone 0, .child 0 2 [], .drop 0, .toMut 0]).map fun s => (s.arena 0, s.afreed 0, s.live.length)) =
    some (3, 0, 2) := by decide
example : ((run init [.parse doc, .clone 0, .child 0 2 [], .drop 0, .toMut 0, .drop 0, .drop 0]).map fun s =>
    (s.arena 0, s.afreed 0, s.live.length, s.pending.length, s.cfreed 0)) = some (0, 1, 0, 0, 1) := by decide
/-- values of one deserializer share one arena and outlive it -/
example : ((run init [.dopen, .dval doc true, .dval doc false, .dval (.arr [.str]) false, .dclose, .drop 1]).map fun s =>
    (s.arena 0, s.arena 1, s.afreed 1, s.live.length)) = some (1, 1, 0, 2) := by decide

end Sonic.Thm.C16
