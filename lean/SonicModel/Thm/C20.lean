/-
  C20 — errors locate themselves inside the input and end streams cleanly.
-/
import SonicModel.Lemmas.Position
import SonicModel.Lemmas.Snippet
import SonicModel.Lemmas.ErrCodes
import SonicModel.Impl.Entry
namespace Sonic.Thm.C20
open Sonic Gen Impl

/-- `Position::from_index` is the line/column of the (clamped) offset: line = 1 + number of
    newlines before it, column = bytes since the last newline.  Every input, every offset. -/
theorem position_spec (data : Buf) (i : Nat) :
    positionFromIndex data i = Spec.position data (min i data.size) :=
  position_eq data i

/-- `Parser::error` always reports an offset inside the input (`≤ len`), whatever the reader
    index was when the error was raised (including indices inside or beyond the padding) -/
theorem offset_le_len (len : Nat) (inv : Option Nat) (code : Code) (idx : Nat)
    (hinv : ∀ p, inv = some p → p ≤ len) :
    (finalError len inv code idx).2 ≤ len := by
  unfold finalError
  cases inv with
  | some p => exact hinv p rfl
  | none =>
    simp only
    split
    · exact Nat.le_refl _
    · simp only; omega

/-- the position of the first invalid UTF-8 sequence recorded by `Read::new` lies in the input -/
theorem nextInvalid_lt (v : Bool) (buf : Buf) (p : Nat) (h : nextInvalid v buf = some p) :
    p < buf.size := by
  unfold nextInvalid at h
  split at h
  · simp only at h
    split at h
    · simp at h; omega
    · simp at h
  · simp at h

/-- every error of the `LazyValue`/`IgnoredAny` entry point carries an offset `≤ input length` -/
theorem lazy_offset_le (v : Bool) (buf : Buf) (c : Code) (off : Nat)
    (h : lazyFrom v buf = .reject c off) : off ≤ buf.size := by
  have hinv : ∀ p, nextInvalid v buf = some p → p ≤ buf.size :=
    fun p hp => Nat.le_of_lt (nextInvalid_lt v buf p hp)
  unfold lazyFrom at h
  simp only at h
  split at h
  · simp at h
  · rename_i c' idx _
    have := offset_le_len buf.size (nextInvalid v buf) c' idx hinv
    simp only [Verdict.reject.injEq] at h
    rw [← h.2]; exact this
  · split at h
    · simp at h
    · rename_i c' idx _
      have := offset_le_len buf.size (nextInvalid v buf) c' idx hinv
      simp only [Verdict.reject.injEq] at h
      rw [← h.2]; exact this
    · split at h
      · rename_i p hp
        simp only [Verdict.reject.injEq] at h
        rw [← h.2]; exact hinv p hp
      · simp at h

/-- building the error (snippet slicing in `Error::syntax`) cannot index out of range, so an
    error with an in-range offset can always be constructed and displayed -/
theorem display_total (json : Buf) (index : Nat) (h : index ≤ json.size) :
    (snippet json index).isSome = true :=
  snippet_total json index h

/-- not-found categories never arise from the validate-and-skip machinery: whatever `skip_one`
    reports is in another category (the path lookups raise the four `Get*` codes themselves) -/
theorem skip_never_notfound (len : Nat) (buf : Buf) (f i : Nat) (c : Code) (p : Nat)
    (h : skipOne len f buf i = .err c p) : c.category ≠ .NotFound :=
  (skip_nnf len buf f i).1 c p h

/-- the only codes in the not-found category are the four `Get*` codes (generated `classify`) -/
theorem notfound_codes : ∀ c : Code, c.category = .NotFound ↔
    (c = .GetInEmptyObject ∨ c = .GetUnknownKeyInObject ∨ c = .GetInEmptyArray ∨ c = .GetIndexOutOfArray) := by
  intro c; cases c <;> simp [Code.category]

/-- once the flag is set nothing more is yielded -/
theorem polls_ending (steps : List (Option Bool)) : polls true steps = steps.map (fun _ => none) := by
  induction steps with
  | nil => rfl
  | cons s rest ih => simp [polls, pollLatch, ih]

/-- **latch**: after a stream deserializer / lazy iterator has yielded an error or the end,
    every later poll yields nothing — for every sequence of underlying step results. -/
theorem latch (steps : List (Option Bool)) : ∀ (ending : Bool) (i j : Nat), i < j →
    (polls ending steps)[i]? ≠ some (some true) → (polls ending steps)[i]?.isSome →
    (polls ending steps)[j]? = some none ∨ (polls ending steps)[j]? = none := by
  induction steps with
  | nil => intro e i j _ _ h; simp [polls] at h
  | cons s rest ih =>
    intro e i j hij hne hsome
    cases j with
    | zero => omega
    | succ j =>
      cases i with
      | zero =>
        -- the first poll did not yield an item, so the flag is set afterwards
        have hflag : (pollLatch e s).1 = true := by
          simp only [polls, List.getElem?_cons_zero] at hne
          cases e <;> cases s with
          | none => simp [pollLatch]
          | some b => cases b <;> simp_all [pollLatch]
        simp only [polls, List.getElem?_cons_succ, hflag, polls_ending]
        by_cases hj : j < rest.length
        · left; simp [hj]
        · right; simp; omega
      | succ i =>
        simp only [polls, List.getElem?_cons_succ] at hne hsome ⊢
        exact ih _ i j (by omega) hne hsome

/-! non-vacuity -/
/-- `{\n\n  "a": 1e}` : error inside line 3 -/
def ex1 : Buf := #[123, 10, 10, 32, 32, 34, 97, 34, 58, 32, 49, 101, 125]
example : positionFromIndex ex1 12 = (3, 9) := by decide +kernel
example : Spec.position ex1 12 = (3, 9) := by decide +kernel
example : (snippet ex1 12).isSome = true := by decide +kernel
example : polls false [some true, some true, some false, some true, none] =
    [some true, some true, some false, none, none] := by decide

end Sonic.Thm.C20
