import SonicModel.Impl.Get
namespace Sonic.Thm.C12
end Sonic.Thm.C12
