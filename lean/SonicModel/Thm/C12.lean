/-
  C12 — lazy iterators yield exactly the members of the container, then stop.
-/
import SonicModel.Lemmas.IterRefine
import SonicModel.Impl.Err
import SonicModel.Lemmas.IterURefine
namespace Sonic.Thm.C12
open Sonic Gen Impl Spec

/-- **arrays**: for every input, draining the checked array iterator yields exactly one span per
    leading well-formed element of the first value (its exact source span, no whitespace), then a
    clean end iff the container is well-formed, otherwise one error at the first violation.
    Bytes after the container are never looked at. -/
theorem array_iter_eq_spec (buf : Buf) : drainArr buf 0 true = arrayItems buf (skipWs buf 0) :=
  drainArr_eq_spec buf

/-- **objects**: the same with decoded member names -/
theorem object_iter_eq_spec (buf : Buf) : drainObj buf 0 true = objectItems buf (skipWs buf 0) :=
  drainObj_eq_spec buf

/-- every span the specification lists is a well-formed value without surrounding whitespace -/
theorem array_items_wf (buf : Buf) (p e : Nat) (rest : List (Nat × Nat)) (ok : Bool)
    (h : arrayGo buf p = ((p, e) :: rest, ok)) : value false (Spec.fuelFor buf) buf p = .ok e := by
  rw [arrayGo_unfold] at h
  cases hv : value false (Spec.fuelFor buf) buf p with
  | ok e' => simp [hv] at h; rw [h.1.1]
  | err => simp [hv] at h
  | fuel => simp [hv] at h

/-- **`skip_one_unchecked` on a well-formed value in its usual context** (followed by whitespace and then the end of the
    input, `,`, `]` or `}`) ends exactly where the value ends: strings and containers by the block skippers, literals by
    comparison, a number by `skip_number_unsafe` — the search for the next `]` `}` `,` and the step back over whitespace -/
theorem unchecked_skip_of_wellformed_value (buf : Buf) (f i e : Nat) (hv : value false f buf (skipWs buf i) = .ok e)
    (hfo : GetU.FollowOK buf e) : GetU.skipOneU buf i = .ok e :=
  GetU.skipOneU_of_value buf f i e hv hfo

/-- **the unchecked array iterator agrees with the checked one on well-formed input**: whenever the first value of the
    input is a well-formed array, `to_array_iter_unchecked` yields exactly the same items — one per element, its exact
    source span — and then ends -/
theorem unchecked_array_iter_on_wellformed (buf : Buf) (items : List (Nat × Nat))
    (h : arrayItems buf (skipWs buf 0) = (items, true)) : GetU.drainArrU buf 0 true = (items, true) :=
  GetU.drainArrU_eq buf _ 0 true items rfl (by rw [drainArr_eq_spec]; exact h)

/-- **the unchecked object iterator agrees with the checked one on well-formed input** -/
theorem unchecked_object_iter_on_wellformed (buf : Buf) (items : List (List UInt8 × Nat × Nat))
    (h : objectItems buf (skipWs buf 0) = (items, true)) : GetU.drainObjU buf 0 true = (items, true) :=
  GetU.drainObjU_eq buf _ 0 true items rfl (by rw [drainObj_eq_spec]; exact h)

/-- latch (shared with C20): once the end or an error was yielded nothing more is -/
theorem latch (steps : List (Option Bool)) : polls true steps = steps.map (fun _ => none) := by
  induction steps with
  | nil => rfl
  | cons s rest ih => simp [polls, pollLatch, ih]

/-! non-vacuity -/
/-- `[1 , "a]" ,[2]] x` -/
def ex1 : Buf := #[91, 49, 32, 44, 32, 34, 97, 93, 34, 32, 44, 91, 50, 93, 93, 32, 120]
example : arrayItems ex1 0 = ([(1, 2), (5, 9), (11, 14)], true) := by decide +kernel
example : drainArr ex1 0 true = ([(1, 2), (5, 9), (11, 14)], true) := by decide +kernel
example : GetU.FollowOK ex1 2 := by unfold GetU.FollowOK; decide +kernel
/-- `{"a":1,"b":[]}` -/
def ex2 : Buf := #[123, 34, 97, 34, 58, 49, 44, 34, 92, 117, 48, 48, 54, 50, 34, 58, 91, 93, 125]
example : objectItems ex2 0 = ([([97], 5, 6), ([98], 16, 18)], true) := by decide +kernel
/-- `[1 2]` : one item then an error -/
def ex3 : Buf := #[91, 49, 32, 50, 93]
example : drainArr ex3 0 true = ([(1, 2)], false) := by decide +kernel

end Sonic.Thm.C12
