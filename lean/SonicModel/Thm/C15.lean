/-
  C15 — the mutable DOM matches a plain array / map model under every operation history.

  `DV` is the representation model of `Value` (Impl/Mut.lean): parsed containers are immutable
  arena nodes (objects may hold duplicated keys), every `&mut` access promotes the container it
  touches to an owned `Vec` / map, one level at a time.  `J` is the reference: plain vectors and
  string-keyed maps.  `abs : DV → J` is what a value denotes.
-/
import SonicModel.Lemmas.MutProof
namespace Sonic.Thm.C15
open Sonic Mut

/-- promotion (copy-on-write conversion of an arena node to an owned container) is invisible -/
theorem promotion_invisible (v : DV) : abs (promote v) = abs v := abs_promote v

/-- `get` / `pointer` read the reference model's answer, before and after any promotion -/
theorem get_matches (v : DV) (i : Idx) : (v.get i).map abs = (abs v).get i := get_refines v i
theorem pointer_matches (v : DV) (path : List Idx) : (v.pointer path).map abs = (abs v).pointer path :=
  pointer_refines path v
theorem get_after_promotion (v : DV) (i : Idx) : ((promote v).get i).map abs = (v.get i).map abs := by
  rw [get_refines, get_refines, abs_promote]

/-- **`pointer_mut(path)` followed by any of the modelled operations refines the same operation on
    plain vectors and maps**: same report (returned value / None / not found / rejected) and same
    contents afterwards; in particular a rejected operation (`panic`) leaves the contents unchanged
    exactly when the reference leaves them unchanged -/
theorem mutation_refines (op : MOp DV) (path : List Idx) (v : DV) :
    abs (DV.updPath (DV.apply op) path v).1 = (J.updPath (J.apply (op.map abs)) path (abs v)).1 ∧
      (DV.updPath (DV.apply op) path v).2.map abs = (J.updPath (J.apply (op.map abs)) path (abs v)).2 :=
  updPath_refines _ _ (apply_refines op) path v

/-- **every operation history** (values entering, clones, drops, reads, mutations through paths with
    arguments that are fresh values or clones of parts of live values) gives the same reports and
    leaves the same contents in every live value as the same history on plain vectors and maps -/
theorem history_refines (ops : List HOp) (slots : List DV) :
    (DV.hrun slots ops).map (fun r => (r.1.map abs, r.2.map (Out.map abs))) = J.hrun (slots.map abs) ops :=
  hrun_refines ops slots

/-- mutating one value changes no other live value -/
theorem mutation_is_local (slots : List DV) (i : Nat) (path : List Idx) (op : MOp Arg) (slots' : List DV) (o : Out DV)
    (h : DV.hstep slots (.mutate i path op) = some (slots', o)) (j : Nat) (hj : j ≠ i) : slots'[j]? = slots[j]? := by
  simp only [DV.hstep] at h
  split at h
  · simp only [Option.some.injEq, Prod.mk.injEq] at h
    rw [← h.1]
    exact List.getElem?_set_ne (Ne.symm hj)
  · simp at h

/-- an operation the reference rejects does not corrupt the value: whatever was promoted on the way,
    the contents are those of the reference, which are unchanged -/
theorem rejected_array_op_keeps_contents (xs : List DV) (n : Nat) (x : DV) (h : xs.length < n) :
    abs (DV.apply (.insertAt n x) (.arrNode xs)).1 = abs (.arrNode xs) ∧ (DV.apply (.insertAt n x) (.arrNode xs)).2 = .panic := by
  have : ¬ n ≤ xs.length := by omega
  simp [DV.apply, DV.applyC, promote, arrOp, this, abs]

/-- the behaviour before the repair (`From<&[Pair]>` kept the LAST member of a duplicated key):
    `get` changed its answer after a mere `&mut` access -/
theorem last_wins_promotion_is_visible :
    let v := DV.objNode [([97], .num 1), ([97], .num 2)]
    (v.get (.key [97])).map abs = some (.num 1) ∧
      ((DV.objMut [([97], .num 2)]).get (.key [97])).map abs = some (.num 2) := by
  exact ⟨rfl, rfl⟩

/-! non-vacuity: a history with a duplicated key, a clone, nested mutation through a path and a
    rejected operation -/
def h1 : List HOp := [
  .new (.objNode [([97], .arrNode [.num 1]), ([97], .num 2), ([98], .objNode [])]),
  .clone 0,
  .mutate 0 [.key [97]] (.push (.part 1 [.key [98]])),
  .mutate 1 [.key [97], .idx 0] .take,
  .mutate 0 [] (.insertAt 3 (.lit .null)),
  .read 0 [.key [97], .idx 1]]

example : ((DV.hrun [] h1).map fun r => (r.1.map abs, r.2.map (Out.map abs))) = J.hrun [] h1 := history_refines h1 []
example : (DV.hrun [] h1).isSome = true := by decide

end Sonic.Thm.C15
