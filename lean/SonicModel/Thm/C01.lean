/-
  C01 — safe entry points never panic, abort or touch invalid memory on any input.

  What a proof about a model can carry here is the LOGIC that bounds the stack of the serde entry
  points: the recursion budget (Impl/Depth.lean).  `guard_bounds_nesting`: with the guard held while
  a container is visited, a value is accepted iff it nests less deep than the budget, and the
  budget is restored afterwards, so the native recursion depth never exceeds the budget (255);
  `unguarded_accepts_everything`: as originally written the budget constrains nothing.
  Together with the bounds of the Layer-1 reader model (C02: every read of the modelled skipping
  functions is inside the buffer) this is all the model can say; everything else in this property
  — the unchecked pointer and SIMD code, the hand-written recursive descent of parse_value /
  skip_one, leaks — lives in the runtime and is decided by the check's process-level observations
  (guard pages on both sides of the input, child processes for deep nesting, allocation balance).
-/
import SonicModel.Impl.Borrow
import SonicModel.Impl.Depth
import SonicModel.Thm.C02
import SonicModel.Lemmas.SpecBound
import SonicModel.Lemmas.StrInplaceProof
namespace Sonic.Thm.C01
open Sonic Depth

/-- does nesting depth `d` fit the budget `b` -/
def fits (d b : Nat) : Bool := decide (d < b) || decide (d = 0)

theorem fits_iff (d b : Nat) : fits d b = true ↔ (d < b ∨ d = 0) := by simp [fits]

mutual
theorem visit_spec : ∀ (t : Nest) (b : Nat), visit b t = if fits t.depth b then some b else none
  | .leaf, b => by simp [visit, Nest.depth, fits]
  | .node kids, b => by
    have ih := visitL_spec kids
    have hd : (Nest.node kids).depth = 1 + Nest.depthL kids := by simp [Nest.depth]
    rw [hd]
    simp only [visit]
    by_cases hb : b ≤ 1
    · have : fits (1 + Nest.depthL kids) b = false := by
        cases h : fits (1 + Nest.depthL kids) b
        · rfl
        · have := (fits_iff _ _).mp h; omega
      rw [if_pos hb, this]; rfl
    · rw [if_neg hb, ih (b - 1)]
      cases hk : fits (Nest.depthL kids) (b - 1)
      · have : fits (1 + Nest.depthL kids) b = false := by
          cases h : fits (1 + Nest.depthL kids) b
          · rfl
          · have h1 := (fits_iff _ _).mp h
            have h2 : ¬ (Nest.depthL kids < b - 1 ∨ Nest.depthL kids = 0) := by
              intro hh; have := (fits_iff _ _).mpr hh; rw [hk] at this; simp at this
            omega
        rw [this]; rfl
      · have h1 := (fits_iff _ _).mp hk
        have : fits (1 + Nest.depthL kids) b = true := (fits_iff _ _).mpr (by omega)
        rw [this]
        simp only [if_true]
        congr 1; omega
theorem visitL_spec : ∀ (ts : List Nest) (b : Nat), visitL b ts = if fits (Nest.depthL ts) b then some b else none
  | [], b => by simp [visitL, Nest.depthL, fits]
  | k :: r, b => by
    have ih1 := visit_spec k b
    have ih2 := visitL_spec r b
    have hd : Nest.depthL (k :: r) = max k.depth (Nest.depthL r) := by simp [Nest.depthL]
    rw [hd]
    simp only [visitL]
    rw [ih1]
    cases hk : fits k.depth b
    · have : fits (max k.depth (Nest.depthL r)) b = false := by
        cases h : fits (max k.depth (Nest.depthL r)) b
        · rfl
        · have h1 := (fits_iff _ _).mp h
          have h2 : ¬ (k.depth < b ∨ k.depth = 0) := by
            intro hh; have := (fits_iff _ _).mpr hh; rw [hk] at this; simp at this
          omega
      rw [this]; rfl
    · simp only [if_true]
      rw [ih2]
      have h1 := (fits_iff _ _).mp hk
      cases hr : fits (Nest.depthL r) b
      · have : fits (max k.depth (Nest.depthL r)) b = false := by
          cases h : fits (max k.depth (Nest.depthL r)) b
          · rfl
          · have h3 := (fits_iff _ _).mp h
            have h2 : ¬ (Nest.depthL r < b ∨ Nest.depthL r = 0) := by
              intro hh; have := (fits_iff _ _).mpr hh; rw [hr] at this; simp at this
            omega
        rw [this]
      · have h2 := (fits_iff _ _).mp hr
        have : fits (max k.depth (Nest.depthL r)) b = true := (fits_iff _ _).mpr (by omega)
        rw [this]
end

/-- **the guard bounds the nesting**: with budget `b ≥ 1` a value is visited successfully iff it
    nests less deep than `b`, and the budget is then exactly what it was -/
theorem guard_bounds_nesting (t : Nest) (b : Nat) (hb : 1 ≤ b) :
    (visit b t = some b ↔ t.depth < b) ∧ (visit b t = none ↔ b ≤ t.depth) := by
  rw [visit_spec]
  cases h : fits t.depth b
  · have h2 : ¬ (t.depth < b ∨ t.depth = 0) := by
      intro hh; have := (fits_iff _ _).mpr hh; rw [h] at this; simp at this
    simp only [Bool.false_eq_true, if_false]
    exact ⟨⟨fun e => by simp at e, fun e => by omega⟩, ⟨fun _ => by omega, fun _ => trivial⟩⟩
  · have h2 := (fits_iff _ _).mp h
    simp only [if_true]
    exact ⟨⟨fun _ => by omega, fun _ => trivial⟩, ⟨fun e => by simp at e, fun e => by omega⟩⟩

mutual
theorem unguarded_spec : ∀ (t : Nest) (b : Nat), visitUnguarded b t = some b
  | .leaf, b => by simp [visitUnguarded]
  | .node kids, b => by simp [visitUnguarded, unguardedL_spec kids b]
theorem unguardedL_spec : ∀ (ts : List Nest) (b : Nat), visitUnguardedL b ts = some b
  | [], b => by simp [visitUnguardedL]
  | k :: r, b => by simp [visitUnguardedL, unguarded_spec k b, unguardedL_spec r b]
end

/-- as originally written the budget never refuses anything: the native recursion is as deep as the input -/
theorem unguarded_accepts_everything (t : Nest) (b : Nat) : visitUnguarded b t = some b := unguarded_spec t b

/-- the modelled validating skip (`skip_one`) never returns an offset beyond the buffer: whatever
    the input, an accepted value ends inside it -/
theorem skip_stays_in_buffer (buf : Buf) (f i e : Nat)
    (h : Impl.skipOne buf.size f buf i = .ok e) : e ≤ buf.size := by
  obtain ⟨g, hg⟩ := Sonic.Thm.C02.skipOne_sound buf f i e h
  exact (Sonic.Spec.bound false buf g (skipWs buf i) e).1 hg

/-! ### results never point into memory that dies with the reader -/

open Borrow in
/-- **no result outlives its bytes**: for every carrier and every length, a `&'de str` handed out by typed
    deserialization points into the caller's input, and a key handed out by an object iterator points into
    the caller's input or is owned by the key itself — never into the reader -/
theorem borrowed_results_outlive_the_reader (c : Borrow.Carrier) :
    ((∀ n, c ≠ .ownedLazy n) → Borrow.borrowedStrHome false c = .callerInput) ∧
    Borrow.keyHome false c ≠ .reader := by
  cases c <;> simp [Borrow.borrowedStrHome, Borrow.keyHome, Borrow.readerBuffer]

open Borrow in
/-- as first written, exactly the short `&Bytes` / `&FastStr` inputs and every owning iterator handed out
    references into the reader (the two `fix:` commits 6b1c9d6, 9760025) -/
theorem old_readers_dangle (c : Borrow.Carrier) :
    Borrow.keyHome true c = .reader ↔
      (∃ n, n ≤ 24 ∧ (c = .bytes n ∨ c = .faststr n)) ∨ (∃ n, c = .ownedLazy n) := by
  cases c <;> simp [Borrow.keyHome, Borrow.readerBufferOld, Borrow.handleShares, Borrow.inlineCap]
  all_goals (first | omega | (constructor <;> intro h <;> omega))

/-! ### the unchecked in-place string decoder stays inside its buffer -/

/-- **no load and no store outside the padded buffer** (fourth session): `parse_string_inplace` reads 32-byte blocks and
    `\u` escapes without any bounds check and writes into the buffer it reads; in the model every such access is checked and
    an access outside the buffer is the outcome `fault` (`Impl/StrInplace.lean`).  On the copy `t ++ x"x ++ 61 zero bytes`
    that `parse_with_padding` makes — as it is, or as earlier in-place decodings of literals in front of `i` have left it
    (`mem0`: same size, equal to the copy from `i` on) —, started anywhere in the text, strict or lossy, that outcome does not
    occur — and the function terminates.  (The statement about WHAT it computes is `Thm/C09.inplace_decoder_on_padded_text`; the tie to the
    real function is the hook `verif::parse_string_inplace`, compared on every C09 case.) -/
theorem inplace_decoder_stays_inside_its_buffer (lossy : Bool) (t mem0 : Buf) (i : Nat) (hi : i ≤ t.size)
    (h0 : mem0.size = (StrIn.pad t).size) (hag : ∀ k, i ≤ k → mem0[k]? = (StrIn.pad t)[k]?) :
    (match StrIn.run lossy mem0 i with
     | .fault => true
     | .fuel => true
     | _ => false) = false := by
  have h := StrIn.run_spec_mem lossy t mem0 i hi h0 hag
  generalize StrIn.run lossy mem0 i = r at h ⊢
  cases r with
  | ok mem cnt e => rfl
  | err c => rfl
  | fault => exact h.elim
  | fuel => exact h.elim

/-- … and without the padding it does not stay inside: the bare text `"abc` -/
theorem unpadded_inplace_decoder_leaves_its_buffer :
    (match StrIn.run false #[34, 97, 98, 99] 1 with | .fault => true | _ => false) = true := by decide +kernel

/-- **the escaper's tail load stays inside a mapped page**: `format_string` loads a whole 32-byte vector from the last, shorter
    piece of the source string whenever `check_cross_page(ptr, 32)` is false — up to 31 bytes behind the string.  With the page
    size and the vector width the translator reads from the source: if `(ptr & (page_size - 1)) + 32 > page_size` does not
    hold, the last byte loaded lies in the page of `ptr`, which holds a byte of the string and is therefore mapped (the byte
    BEHIND a string may be unmapped: seed C05f read exactly that one) -/
theorem escaper_tail_load_stays_in_the_page (ptr : Nat)
    (h : ¬ ((ptr &&& (Gen.pageSize - 1)) + Gen.stringBlockLanes > Gen.pageSize)) :
    (ptr + Gen.stringBlockLanes - 1) / Gen.pageSize = ptr / Gen.pageSize := by
  have hp : Gen.pageSize = 2 ^ 12 := by decide
  have hl : Gen.stringBlockLanes = 32 := by decide
  rw [hp, hl] at h ⊢
  rw [Nat.and_two_pow_sub_one_eq_mod] at h
  have h1 := Nat.div_add_mod ptr (2 ^ 12)
  have h2 : ptr % 2 ^ 12 < 2 ^ 12 := Nat.mod_lt _ (by decide)
  generalize ptr / 2 ^ 12 = q at h1 ⊢
  generalize ptr % 2 ^ 12 = r at h h1 h2
  have : ptr + 32 - 1 = 2 ^ 12 * q + (r + 31) := by omega
  rw [this, Nat.mul_add_div (by decide)]
  have : (r + 31) / 2 ^ 12 = 0 := Nat.div_eq_of_lt (by omega)
  omega

/-! non-vacuity -/
example : Borrow.keyHome true (.faststr 7) = .reader := by decide
example : Borrow.keyHome false (.faststr 7) = .callerInput := by decide
example : Borrow.keyHome false (.ownedLazy 100) = .result := by decide
example : visit 255 (.node [.node [.leaf], .leaf]) = some 255 := by decide
example : visit 2 (.node [.node [.leaf]]) = none := by decide

end Sonic.Thm.C01
