/-
  C04 — typed deserialization agrees with serde_json on result and on accept/reject.

  `Spec.decode` (Spec/Typed.lean) is the reference semantics of typed deserialization for the type
  family of the check: what a JSON tree denotes as a value of a Rust type, as serde_json and
  serde's derived impls read it.  The check compares BOTH libraries with it on every generated
  (type, text) pair: sonic-rs (oracle: a difference is a violation) and serde_json (adequacy: a
  difference means the reference is not serde_json's semantics and is reported as a broken tie).
  The theorems below are the laws of that reference the property names.
-/
import SonicModel.Spec.Typed
import SonicModel.Lemmas.DeMain
namespace Sonic.Thm.C04
open Sonic Spec

/-- integers up to 64 bits: accepted exactly when the literal is integer syntax, is not `-0`,
    fits u64 / i64, and lies in the range of the target width -/
theorem int_accept_iff (bits : Nat) (signed : Bool) (d : Dec) (n : Int) (hb : bits ≤ 64) :
    decodeInt bits signed d = some n ↔
      (d.isInt = true ∧ intInRange bits signed n = true ∧
        ((d.neg = true ∧ 0 < d.mant ∧ d.mant ≤ 2 ^ 63 ∧ n = -(d.mant : Int)) ∨
         (d.neg = false ∧ d.mant < 2 ^ 64 ∧ n = (d.mant : Int)))) := by
  unfold decodeInt
  cases hi : d.isInt <;> cases hn : d.neg <;> simp [hb]
  · constructor
    · rintro ⟨a, b, c⟩; subst c; exact ⟨b, a, rfl⟩
    · rintro ⟨a, b, c⟩; subst c; exact ⟨b, a, rfl⟩
  · constructor
    · rintro ⟨⟨a1, a2⟩, b, c⟩; subst c; exact ⟨b, a1, a2, rfl⟩
    · rintro ⟨a, b1, b2, c⟩; subst c; exact ⟨⟨b1, b2⟩, a, rfl⟩

/-- `Option<T>`: `null` is `None`, anything else is `Some` of what it denotes as a `T` -/
theorem option_null (buf : Buf) (f : Nat) (t : Ty) : decode buf (f+1) (.opt t) .null = some .none := by
  simp [decode]
theorem option_some (buf : Buf) (f : Nat) (t : Ty) (j : Json) (h : j ≠ .null) :
    decode buf (f+1) (.opt t) j = (decode buf f t j).map .some := by
  cases j <;> simp_all [decode]

/-- tuples and fixed-size arrays need exactly their length -/
theorem tuple_needs_its_length (buf : Buf) (f : Nat) (ts : List Ty) (xs : List Json) (h : xs.length ≠ ts.length) :
    decode buf (f+1) (.tuple ts) (.arr xs) = none := by
  simp [decode, h]

/-- maps: a repeated key keeps the last value -/
theorem map_last_wins (k : KeyVal) (v w : Val) (rest : List (KeyVal × Val)) :
    mapInsert k w ((k, v) :: rest) = (k, w) :: rest := by
  simp [mapInsert]

theorem lookupField_append_other (name u : List UInt8) (x : Json) (ms : List (List UInt8 × Json)) (h : u ≠ name) :
    lookupField name (ms ++ [(u, x)]) = lookupField name ms := by
  induction ms with
  | nil => simp [lookupField, h]
  | cons m r ih =>
    obtain ⟨k, v⟩ := m
    simp only [List.cons_append, lookupField]
    split <;> simp [ih]

/-- structs ignore a member that is not one of their fields -/
theorem unknown_field_ignored (buf : Buf) : ∀ (f : Nat) (fields : List Field) (ms : List (List UInt8 × Json)) (u : List UInt8) (x : Json),
    (∀ fl ∈ fields, (match fl with | .mk n _ _ => n) ≠ u) →
    decodeFields buf f fields (ms ++ [(u, x)]) = decodeFields buf f fields ms := by
  intro f
  induction f with
  | zero => intro fields ms u x _; simp [decodeFields]
  | succ f ih =>
    intro fields ms u x h
    cases fields with
    | nil => simp [decodeFields]
    | cons fl rest =>
      obtain ⟨name, ty, dflt⟩ := fl
      have hne : u ≠ name := fun e => (h (.mk name ty dflt) (by simp)) e.symm
      simp only [decodeFields]
      rw [lookupField_append_other name u x ms hne, ih rest ms u x (fun fl hfl => h fl (by simp [hfl]))]

/-! ### the typed deserializer of src/serde/de.rs (model: Impl/De.lean, compared with the implementation on every case of
    the check) against the reference semantics -/

/-- **on every strictly well-formed text, typed deserialization answers what the reference semantics says about the tree the
    text denotes** — accept / reject and the value — for every type of the proved family (`De.cov`: bool, integers up to 64
    bits, f64, char, String, unit, Option, newtype / tuple / unit structs, tuples and fixed-size arrays, `Vec`, maps with string
    keys, byte buffers, derived structs read by name (optional, defaulted, unknown and repeated fields, `deny_unknown_fields`) or
    by position, enums of all four variant shapes — nested in any way), whenever the model terminates at its canonical fuel
    (`FUEL` answers are reported by the check as a broken tie).  The reference's fuel only bounds its recursion: the statement
    holds at every sufficient fuel.  Partial: 128-bit integers (their scanner may stop inside a longer number token), `&str`
    (the reference does not look at escapes) and non-string map keys (read from the raw key text) are in the model and compared
    with the implementation, not in this proof; struct fields are assumed to have different names -/
theorem typed_deserializer_matches_reference_partial (buf : Buf) (ty : Ty) (hc : De.cov ty = true) (s e : Nat)
    (h : Spec.document true buf = some (s, e)) (hne : De.deDoc ty buf ≠ .fuel) :
    ∃ t, docTree false buf = some t ∧ ∃ g0, ∀ g, g0 ≤ g → (De.deDoc ty buf).toOpt = decode buf g ty t :=
  De.typed_document buf ty hc s e h hne

/-- … value by value, wherever the value stands in a text and whatever follows it: the model of `T::deserialize` started
    anywhere in the whitespace before the value returns the reference's verdict and stops exactly at the end of the value -/
theorem typed_value_matches_reference_partial (buf : Buf) (F w e : Nat) (h : Spec.value true F buf w = .ok e) :
    ∃ t, tree false F buf w = some (t, e) ∧
      ∀ f ty i, De.cov ty = true → skipWs buf i = w → De.de f ty buf i ≠ .fuel →
        ∃ g0, ∀ g, g0 ≤ g → De.ofOpt (decode buf g ty t) e = De.de f ty buf i := by
  obtain ⟨t, ht, hok⟩ := (De.typed_of_strict buf F).1 w e h
  exact ⟨t, ht, hok.facts⟩

/-- `parse_number` classifies a number token as `Unsigned` / `Signed` exactly when the specification's reading of the token
    is an integer literal within u64 / i64 (after anything that cannot continue a number: delimiter, whitespace, end of input) -/
theorem number_token_classification (buf : Buf) (s e : Nat) (c : UInt8) (hb : buf[s]? = some c) (h : Spec.number buf s = some e) :
    (De.numTok buf c (s + 1)).2.2 = e ∧ (De.numTok buf c (s + 1)).1 ≠ .invalid ∧
    (((decOf buf s e).isInt = true ∧ (decOf buf s e).neg = false ∧ (decOf buf s e).mant < 2 ^ 64 →
        (De.numTok buf c (s + 1)).1 = .unsigned (decOf buf s e).mant) ∧
     ((decOf buf s e).isInt = true ∧ (decOf buf s e).neg = true ∧ 0 < (decOf buf s e).mant ∧ (decOf buf s e).mant ≤ 2 ^ 63 →
        (De.numTok buf c (s + 1)).1 = .signed (-((decOf buf s e).mant : Int)))) := by
  obtain ⟨_, t2, t3, tcl⟩ := De.tok_class buf s e c hb h
  refine ⟨t2, t3, ?_, ?_⟩
  · intro hh
    rcases tcl with ⟨_, _, _, _, hp⟩ | ⟨_, hn, _, _, _, _⟩ | ⟨hA, _, _, _⟩
    · exact hp
    · rw [hh.2.1] at hn; cases hn
    · exact absurd hh hA
  · intro hh
    rcases tcl with ⟨_, hn, _, _, _⟩ | ⟨_, _, _, _, _, hp⟩ | ⟨_, hB, _, _⟩
    · rw [hh.2.1] at hn; cases hn
    · exact hp
    · exact absurd hh hB

/-! non-vacuity -/
/-- `[-5, "a\n", [true,null], {"k":[]}]` as `(i8, String, Vec<Option<bool>>, BTreeMap<String, Vec<u8>>)` -/
def exDoc : Buf := #[91, 45, 53, 44, 32, 34, 97, 92, 110, 34, 44, 32, 91, 116, 114, 117, 101, 44, 110, 117, 108, 108, 93, 44, 32, 123, 34, 107, 34, 58, 91, 93, 125, 93]
def exTy : Ty := .tuple [.int 8 true, .str, .seq (.opt .bool), .map .str (.seq (.int 8 false))]
example : De.cov exTy = true := by decide
example : Spec.document true exDoc = some (0, 34) := by decide +kernel
/-- both give the value whose serde_json text is `[-5,"a\\n",[true,null],{"k":[]}]` -/
example : (De.deDoc exTy exDoc).toOpt.map Val.render =
    some [91, 45, 53, 44, 34, 97, 92, 110, 34, 44, 91, 116, 114, 117, 101, 44, 110, 117, 108, 108, 93, 44, 123, 34, 107, 34, 58, 91, 93, 125, 93] := by
  decide +kernel
example : (decodeDoc exTy exDoc).map Val.render =
    some [91, 45, 53, 44, 34, 97, 92, 110, 34, 44, 91, 116, 114, 117, 101, 44, 110, 117, 108, 108, 93, 44, 123, 34, 107, 34, 58, 91, 93, 125, 93] := by
  decide +kernel
/-- the same text as `(u8, String, Vec<Option<bool>>, …)`: `-5` is not a u8 — rejected by model and reference alike -/
example : (De.deDoc (.tuple [.int 8 false, .str, .seq (.opt .bool), .map .str (.seq (.int 8 false))]) exDoc).toOpt.map Val.render = none := by decide +kernel

example : decodeInt 8 true ⟨true, 128, 0, true⟩ = some (-128) := by decide
example : decodeInt 8 true ⟨true, 0, 0, true⟩ = none := by decide
example : decodeInt 128 false ⟨false, 340282366920938463463374607431768211455, 0, true⟩ = some 340282366920938463463374607431768211455 := by decide

end Sonic.Thm.C04
