/-
  C04 — typed deserialization agrees with serde_json on result and on accept/reject.

  `Spec.decode` (Spec/Typed.lean) is the reference semantics of typed deserialization for the type
  family of the check: what a JSON tree denotes as a value of a Rust type, as serde_json and
  serde's derived impls read it.  The check compares BOTH libraries with it on every generated
  (type, text) pair: sonic-rs (oracle: a difference is a violation) and serde_json (adequacy: a
  difference means the reference is not serde_json's semantics and is reported as a broken tie).
  The theorems below are the laws of that reference the property names.
-/
import SonicModel.Spec.Typed
namespace Sonic.Thm.C04
open Sonic Spec

/-- integers up to 64 bits: accepted exactly when the literal is integer syntax, is not `-0`,
    fits u64 / i64, and lies in the range of the target width -/
theorem int_accept_iff (bits : Nat) (signed : Bool) (d : Dec) (n : Int) (hb : bits ≤ 64) :
    decodeInt bits signed d = some n ↔
      (d.isInt = true ∧ intInRange bits signed n = true ∧
        ((d.neg = true ∧ 0 < d.mant ∧ d.mant ≤ 2 ^ 63 ∧ n = -(d.mant : Int)) ∨
         (d.neg = false ∧ d.mant < 2 ^ 64 ∧ n = (d.mant : Int)))) := by
  unfold decodeInt
  cases hi : d.isInt <;> cases hn : d.neg <;> simp [hb]
  · constructor
    · rintro ⟨a, b, c⟩; subst c; exact ⟨b, a, rfl⟩
    · rintro ⟨a, b, c⟩; subst c; exact ⟨b, a, rfl⟩
  · constructor
    · rintro ⟨⟨a1, a2⟩, b, c⟩; subst c; exact ⟨b, a1, a2, rfl⟩
    · rintro ⟨a, b1, b2, c⟩; subst c; exact ⟨⟨b1, b2⟩, a, rfl⟩

/-- `Option<T>`: `null` is `None`, anything else is `Some` of what it denotes as a `T` -/
theorem option_null (buf : Buf) (f : Nat) (t : Ty) : decode buf (f+1) (.opt t) .null = some .none := by
  simp [decode]
theorem option_some (buf : Buf) (f : Nat) (t : Ty) (j : Json) (h : j ≠ .null) :
    decode buf (f+1) (.opt t) j = (decode buf f t j).map .some := by
  cases j <;> simp_all [decode]

/-- tuples and fixed-size arrays need exactly their length -/
theorem tuple_needs_its_length (buf : Buf) (f : Nat) (ts : List Ty) (xs : List Json) (h : xs.length ≠ ts.length) :
    decode buf (f+1) (.tuple ts) (.arr xs) = none := by
  simp [decode, h]

/-- maps: a repeated key keeps the last value -/
theorem map_last_wins (k : KeyVal) (v w : Val) (rest : List (KeyVal × Val)) :
    mapInsert k w ((k, v) :: rest) = (k, w) :: rest := by
  simp [mapInsert]

theorem lookupField_append_other (name u : List UInt8) (x : Json) (ms : List (List UInt8 × Json)) (h : u ≠ name) :
    lookupField name (ms ++ [(u, x)]) = lookupField name ms := by
  induction ms with
  | nil => simp [lookupField, h]
  | cons m r ih =>
    obtain ⟨k, v⟩ := m
    simp only [List.cons_append, lookupField]
    split <;> simp [ih]

/-- structs ignore a member that is not one of their fields -/
theorem unknown_field_ignored (buf : Buf) : ∀ (f : Nat) (fields : List Field) (ms : List (List UInt8 × Json)) (u : List UInt8) (x : Json),
    (∀ fl ∈ fields, (match fl with | .mk n _ _ => n) ≠ u) →
    decodeFields buf f fields (ms ++ [(u, x)]) = decodeFields buf f fields ms := by
  intro f
  induction f with
  | zero => intro fields ms u x _; simp [decodeFields]
  | succ f ih =>
    intro fields ms u x h
    cases fields with
    | nil => simp [decodeFields]
    | cons fl rest =>
      obtain ⟨name, ty, dflt⟩ := fl
      have hne : u ≠ name := fun e => (h (.mk name ty dflt) (by simp)) e.symm
      simp only [decodeFields]
      rw [lookupField_append_other name u x ms hne, ih rest ms u x (fun fl hfl => h fl (by simp [hfl]))]

/-! non-vacuity -/
example : decodeInt 8 true ⟨true, 128, 0, true⟩ = some (-128) := by decide
example : decodeInt 8 true ⟨true, 0, 0, true⟩ = none := by decide
example : decodeInt 128 false ⟨false, 340282366920938463463374607431768211455, 0, true⟩ = some 340282366920938463463374607431768211455 := by decide

end Sonic.Thm.C04
