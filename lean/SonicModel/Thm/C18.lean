/-
  C18 — lazily cached decodings are correct and leak-free under concurrent readers.
-/
import SonicModel.Lemmas.CacheProof
import SonicModel.Impl.Visibility
namespace Sonic.Thm.C18
open Sonic Cache

/-- **every reachable state of the repaired protocol satisfies the invariant** — any number of
    threads, any interleaving of their atomic actions, any mix of reads, clones of the shared
    value and drops of clones -/
theorem invariant (sched : List (Nat × Act)) : CInv (run true init sched) := inv_reachable sched

/-- all readers get the same decoding: whatever two threads finished with is the published object -/
theorem readers_agree (sched : List (Nat × Act)) (t t' r r' : Nat)
    (h : (run true init sched).pc t = .done r) (h' : (run true init sched).pc t' = .done r') : r = r' := by
  have i := inv_reachable sched
  have a := i.done_eq t r h
  have b := i.done_eq t' r' h'
  rw [a] at b; cases b; rfl

/-- no thread ever dereferences a null witness -/
theorem no_null_deref (sched : List (Nat × Act)) (t : Nat) : (run true init sched).pc t ≠ .crashed :=
  (inv_reachable sched).no_crash t

/-- nothing is freed twice, and an object is freed only when its count reached zero -/
theorem freed_at_most_once (sched : List (Nat × Act)) (o : Nat) : (run true init sched).frees o ≤ 1 := by
  have i := inv_reachable sched
  by_cases h : o < (run true init sched).next
  · rcases i.objs o h with ⟨_, _, hf⟩ | ⟨_, _, _, hf, _⟩ | ⟨_, _, _, hf, _⟩ <;> omega
  · have := (i.fresh o (by omega)).2.1; omega

/-- exactly one decoding survives: every allocated object is the published one, or still owned by
    the thread that is about to publish or discard it, or has been freed (count 0, freed once) -/
theorem one_survivor (sched : List (Nat × Act)) (o : Nat) (h : o < (run true init sched).next) :
    ObjSt (run true init sched) o := (inv_reachable sched).objs o h

/-- the published object's count is 1 (the shared value) plus the number of live clones -/
theorem count_is_handles (sched : List (Nat × Act)) (p : Nat) (h : (run true init sched).cell = some p) :
    (run true init sched).refs p = 1 + ((run true init sched).holders p).length ∧
      ((run true init sched).holders p).Nodup ∧
      ∀ t, t ∈ (run true init sched).holders p ↔ (run true init sched).clone t = some p := by
  have i := inv_reachable sched
  have hlt := i.cell_lt p h
  refine ⟨?_, i.nodup p, fun t => ⟨i.holders_ok t p, fun hc => (i.clone_ok t p hc).1⟩⟩
  rcases i.objs p hlt with ⟨_, hr, _⟩ | ⟨_, hne, _⟩ | ⟨hne, _⟩
  · exact hr
  · exact absurd h hne
  · exact absurd h hne

/-- the cached decoding is freed with the value: once every clone is dropped, dropping the shared
    value releases the published object exactly once -/
theorem freed_with_value (sched : List (Nat × Act)) (p : Nat) (h : (run true init sched).cell = some p)
    (hnone : (run true init sched).holders p = []) :
    (release (run true init sched) p).refs p = 0 ∧ (release (run true init sched) p).frees p = 1 := by
  have hc := count_is_handles sched p h
  have i := inv_reachable sched
  have hlt := i.cell_lt p h
  have hf : (run true init sched).frees p = 0 := by
    rcases i.objs p hlt with ⟨_, _, hf⟩ | ⟨_, hne, _⟩ | ⟨hne, _⟩
    · exact hf
    · exact absurd h hne
    · exact absurd h hne
  rw [hnone] at hc
  simp only [List.length_nil, Nat.add_zero] at hc
  refine ⟨by rw [release_refs]; simp [hc.1], by rw [release_frees]; simp [hc.1, hf]⟩

/-- **the protocol as originally written is unsafe with a single thread**: load (null), decode,
    weak compare-exchange fails spuriously, null witness dereferenced -/
theorem weakcas_null_deref :
    (run false init [(0, .read false), (0, .read false), (0, .read true)]).pc 0 = .crashed := by
  decide

/-! non-vacuity: two readers race, one clone is taken and dropped -/
example : (run true init [(0, .read false), (1, .read false), (0, .read false), (1, .read false),
    (1, .read false), (0, .read false), (2, .clone), (2, .dropClone)]).cell = some 1 := by decide
example : let s := run true init [(0, .read false), (1, .read false), (0, .read false), (1, .read false),
    (1, .read false), (0, .read false), (2, .clone)]
    s.pc 0 = .done 1 ∧ s.pc 1 = .done 1 ∧ s.refs 1 = 2 ∧ s.refs 0 = 0 ∧ s.frees 0 = 1 := by decide


/-! ### what the atomic operations are allowed to return: visibility of the published object -/

open Visibility Gen in
/-- a reader that loads the pointer with (at least) `Acquire` from a `Release`-or-stronger publication and
    finds it non-null can only read the initialised object -/
theorem acquire_reader_sees_initialised (loadOrd casOrd : MemOrd) (hl : isAcquire loadOrd = true)
    (hc : casOrd = .release ∨ casOrd = .acqRel ∨ casOrd = .seqCst) (tp td p d : Nat)
    (h : reader loadOrd casOrd tp td = some (p, d)) (hp : p = 1) : d = 1 := by
  rcases Nat.lt_or_ge tp 2 with h2 | h2
  · rcases Nat.lt_or_ge td 2 with h3 | h3
    · have htp : tp = 0 ∨ tp = 1 := by omega
      have htd : td = 0 ∨ td = 1 := by omega
      rcases htp with rfl | rfl <;> rcases htd with rfl | rfl <;> rcases hc with rfl | rfl | rfl <;>
        simp [reader, hl, publishedView, View.join] at h <;> omega
    · have : tp > 1 ∨ td > 1 := Or.inr (by omega)
      simp [reader, this] at h
  · have : tp > 1 ∨ td > 1 := Or.inl (by omega)
    simp [reader, this] at h

open Visibility Gen in
/-- with a `Relaxed` load the model allows the execution in which the pointer is seen and the object is not:
    the reader dereferences uninitialised memory -/
theorem relaxed_reader_may_see_uninitialised : reader .relaxed .acqRel 1 0 = some (1, 0) := by decide

open Gen in
/-- **every load of a cache pointer in the source synchronises with the publication** (the table is
    regenerated from `src/lazyvalue/{owned,value}.rs` on every run): each is `Acquire` or `SeqCst` -/
theorem all_cache_loads_synchronise :
    ∀ e ∈ cacheLoads, Visibility.isAcquire e.2.2 = true := by decide

open Gen in
/-- every publication is a `compare_exchange` that releases on success and acquires on failure (the loser
    dereferences the winner's object) -/
theorem all_cache_publications_release :
    ∀ e ∈ cacheCas, (e.2.2.1 = .release ∨ e.2.2.1 = .acqRel ∨ e.2.2.1 = .seqCst) ∧ Visibility.isAcquire e.2.2.2 = true := by
  decide

open Gen in
/-- there is no plain store to a cache pointer: publication happens only through the compare-exchange -/
theorem no_plain_store : cacheStores = [] := by decide

end Sonic.Thm.C18
