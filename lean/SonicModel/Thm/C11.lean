/-
  C11 — multi-path and schema extraction agree with single-path get.

  Proved here, about the mechanisms of `src/pointer/tree.rs` and `get_many_rec` (Impl/Many.lean):
    * the path trie registers slot `j` exactly at the end of the `j`-th added path, for every set of
      paths, repeated paths included (`one_slot_per_path`);
    * the walker's early-exit counter is the number of unfilled slots, a filled slot is never
      overwritten (`counter_is_unfilled_slots`, `first_value_wins`);
    * the specification of get_by_schema on trees (`fill`) keeps exactly the schema's keys, replaces
      a present key by the filled value and leaves an absent key at its default
      (`schema_keys_kept`, `schema_present_replaced`, `schema_absent_default`).
    * **the walker refines the single-path lookup** (`get_many_slots_are_single_lookups`): the walk of
      `get_many_rec` / `get_many_keys` / `get_many_index` over the document (early return when the
      counter is zero, children by key or by index, break when everything is found, the node's own
      slots last) — modelled on the tree the text denotes (`Many.walk`) — leaves in slot `j`, for every
      duplicate-free document and every set of paths, exactly what looking path `j` up alone finds
      (`Many.lookJ`: first member with an equal key, n-th element); `Lemmas/WalkProof.lean`.
    * **completeness** (`get_many_succeeds_when_every_path_resolves`): when every path resolves by itself
      the walker does not fail — the kind of the children agrees with the value, the `visited` count
      reaches the number of index children also when the walk stops early (`Lemmas/WalkComplete.lean`,
      trie shape `Lemmas/TrieWF.lean`) — and every slot is filled.
  Not proved: the scanning of the text itself (`skip_one`, `parse_str`: C02, C10) — the check compares
  the walker model with get_many and get_many_unchecked slot by slot, and `lookJ` on the tree with
  `Spec.lookup` on the text.
-/
import SonicModel.Lemmas.ManyProof
import SonicModel.Lemmas.WalkProof
import SonicModel.Lemmas.WalkComplete
namespace Sonic.Thm.C11
open Sonic Spec Many

theorem one_slot_per_path (paths : List (List Step)) (q : List Step) (j : Nat) :
    j ∈ orderAt (build paths) q ↔ paths[j]? = some q := build_slots paths q j

/-- repeated paths end at the same node, which holds both slots -/
theorem repeated_paths_share_a_node (paths : List (List Step)) (i j : Nat) (q : List Step)
    (hi : paths[i]? = some q) (hj : paths[j]? = some q) :
    i ∈ orderAt (build paths) q ∧ j ∈ orderAt (build paths) q :=
  ⟨(build_slots paths q i).mpr hi, (build_slots paths q j).mpr hj⟩

theorem counter_is_unfilled_slots {α} (v : α) (order : List Nat) (out : List (Option α)) (remain : Nat)
    (h : remain = unfilled out) :
    (fillSlots v order (out, remain)).2 = unfilled (fillSlots v order (out, remain)).1 :=
  fillSlots_remain v order out remain h

theorem first_value_wins {α} (v w : α) (order : List Nat) (out : List (Option α)) (remain q : Nat)
    (h : out[q]? = some (some w)) : (fillSlots v order (out, remain)).1[q]? = some (some w) :=
  fillSlots_keeps v w order out remain q h

theorem schema_keys_kept (sms dms : List (List UInt8 × Json)) :
    (fillM sms dms).map Prod.fst = sms.map Prod.fst := fillM_keys sms dms
theorem schema_present_replaced (sms dms : List (List UInt8 × Json)) (k : List UInt8) (sv dv : Json)
    (hs : lookupJ k sms = some sv) (hd : lookupJ k dms = some dv) :
    lookupJ k (fillM sms dms) = some (fill sv dv) := fillM_present sms dms k sv dv hs hd
theorem schema_absent_default (sms dms : List (List UInt8 × Json)) (k : List UInt8) (h : lookupJ k dms = none) :
    lookupJ k (fillM sms dms) = lookupJ k sms := fillM_absent sms dms k h

/-- **every slot of `get_many` is the single-path lookup** (duplicate-free document, any set of paths) -/
theorem get_many_slots_are_single_lookups (paths : List (List Step)) (doc : Json) (hdf : DupFree doc)
    (out : List (Option Json)) (h : getMany paths doc = some out) :
    out.length = paths.length ∧ ∀ j : Nat, j < paths.length → out[j]? = some (lookJ doc (paths[j]?.getD [])) :=
  getMany_refines_lookup paths doc hdf out h

/-- **`get_many` succeeds with all slots filled whenever every path resolves individually** -/
theorem get_many_succeeds_when_every_path_resolves (paths : List (List Step)) (doc : Json) (hdf : DupFree doc)
    (hres : ∀ j : Nat, j < paths.length → lookJ doc (paths[j]?.getD []) ≠ none) :
    ∃ out, getMany paths doc = some out ∧ out.length = paths.length ∧
      ∀ j : Nat, j < paths.length → ∃ v, out[j]? = some (some v) ∧ lookJ doc (paths[j]?.getD []) = some v :=
  getMany_complete paths doc hdf hres

/-- … so repeated paths receive identical results -/
theorem repeated_paths_get_identical_results (paths : List (List Step)) (doc : Json) (hdf : DupFree doc)
    (out : List (Option Json)) (h : getMany paths doc = some out) (i j : Nat) (hi : i < paths.length) (hj : j < paths.length)
    (heq : paths[i]? = paths[j]?) : out[i]? = out[j]? := by
  obtain ⟨_, hs⟩ := getMany_refines_lookup paths doc hdf out h
  rw [hs i hi, hs j hj, heq]

/-! non-vacuity -/
def sampleDoc : Json := .obj [([97], .arr [.num 0 1, .obj [([98], .null)]]), ([99], .bool true)]
theorem sampleDoc_dupfree : DupFree sampleDoc := by
  simp [sampleDoc, DupFree, DupFreeM, DupFreeL]
example : getMany [[.key [97], .idx 1, .key [98]], [.key [97]], [.key [120]], [.key [97], .idx 1, .key [98]], []] sampleDoc =
    some [some .null, some (.arr [.num 0 1, .obj [([98], .null)]]), none, some .null, some sampleDoc] := by
  simp [getMany, build, buildFrom, Trie.insert, Trie.empty, updKid, walk, walkKids, walkMembers, walkElems, findKid, kindOf,
    fillSlots, sampleDoc, Trie.kids, Trie.order]
example : orderAt (build [[.key [97], .idx 1], [.key [97]], [.key [97], .idx 1], []]) [.key [97], .idx 1] = [0, 2] := by decide
example : (fillSlots 7 [1, 1, 0] ([none, none, some 5], 2)) = ([some 7, some 7, some 5], 0) := by decide

end Sonic.Thm.C11
