/-
  C11 — multi-path and schema extraction agree with single-path get.

  Proved here, about the mechanisms of `src/pointer/tree.rs` and `get_many_rec` (Impl/Many.lean):
    * the path trie registers slot `j` exactly at the end of the `j`-th added path, for every set of
      paths, repeated paths included (`one_slot_per_path`);
    * the walker's early-exit counter is the number of unfilled slots, a filled slot is never
      overwritten (`counter_is_unfilled_slots`, `first_value_wins`);
    * the specification of get_by_schema on trees (`fill`) keeps exactly the schema's keys, replaces
      a present key by the filled value and leaves an absent key at its default
      (`schema_keys_kept`, `schema_present_replaced`, `schema_absent_default`).
  Not proved: that the value the walker puts into slot `j` is the span `Spec.lookup` finds for path
  `j` (the walker over the text is not modelled); that is the direct oracle of the check, slot by
  slot, for get_many and get_many_unchecked.
-/
import SonicModel.Lemmas.ManyProof
namespace Sonic.Thm.C11
open Sonic Spec Many

theorem one_slot_per_path (paths : List (List Step)) (q : List Step) (j : Nat) :
    j ∈ orderAt (build paths) q ↔ paths[j]? = some q := build_slots paths q j

/-- repeated paths end at the same node, which holds both slots -/
theorem repeated_paths_share_a_node (paths : List (List Step)) (i j : Nat) (q : List Step)
    (hi : paths[i]? = some q) (hj : paths[j]? = some q) :
    i ∈ orderAt (build paths) q ∧ j ∈ orderAt (build paths) q :=
  ⟨(build_slots paths q i).mpr hi, (build_slots paths q j).mpr hj⟩

theorem counter_is_unfilled_slots {α} (v : α) (order : List Nat) (out : List (Option α)) (remain : Nat)
    (h : remain = unfilled out) :
    (fillSlots v order (out, remain)).2 = unfilled (fillSlots v order (out, remain)).1 :=
  fillSlots_remain v order out remain h

theorem first_value_wins {α} (v w : α) (order : List Nat) (out : List (Option α)) (remain q : Nat)
    (h : out[q]? = some (some w)) : (fillSlots v order (out, remain)).1[q]? = some (some w) :=
  fillSlots_keeps v w order out remain q h

theorem schema_keys_kept (sms dms : List (List UInt8 × Json)) :
    (fillM sms dms).map Prod.fst = sms.map Prod.fst := fillM_keys sms dms
theorem schema_present_replaced (sms dms : List (List UInt8 × Json)) (k : List UInt8) (sv dv : Json)
    (hs : lookupJ k sms = some sv) (hd : lookupJ k dms = some dv) :
    lookupJ k (fillM sms dms) = some (fill sv dv) := fillM_present sms dms k sv dv hs hd
theorem schema_absent_default (sms dms : List (List UInt8 × Json)) (k : List UInt8) (h : lookupJ k dms = none) :
    lookupJ k (fillM sms dms) = lookupJ k sms := fillM_absent sms dms k h

/-! non-vacuity -/
example : orderAt (build [[.key [97], .idx 1], [.key [97]], [.key [97], .idx 1], []]) [.key [97], .idx 1] = [0, 2] := by decide
example : (fillSlots 7 [1, 1, 0] ([none, none, some 5], 2)) = ([some 7, some 7, some 5], 0) := by decide

end Sonic.Thm.C11
