/-
  C06 — parse then serialize is lossless and reaches a fixpoint.

  `RJ` is a tree to be written (numbers by their literal), `RJ.render` its compact text (what the
  serializer writes for a DOM: C05 proves the serializer emits it), `RJ.jsonAt t 0` the
  specification's tree with the same nesting, order, duplicates, strings and number spans.
    * `render_parses_back`: for EVERY well-formed tree the strict RFC specification reads the
      rendering back as exactly that tree (`docTree (render t) = t`): losslessness;
    * `second_pass_is_identical`: writing what was read back gives the same bytes: fixpoint;
    * `string_lossless` / `string_fixpoint`: the string part, wherever the literal stands;
    * `sorted_is_permutation / ascending / stable`: the sort_keys build.
  Well-formedness only asks every number literal to be one JSON number before a delimiter
  (`NumOK`); `wellformed_literal_is_a_number` shows that of EVERY literal of the RFC 8259 shape
  `-? (0 | [1-9][0-9]*) (\. [0-9]+)? ([eE] [+-]? [0-9]+)?` (that the implementation's number texts
  have this shape is C08's subject).
-/
import SonicModel.Lemmas.RoundTrip
import SonicModel.Lemmas.TreeRoundTrip
import SonicModel.Lemmas.SecondPass
import SonicModel.Lemmas.SortProof
import SonicModel.Lemmas.LitProof
import SonicModel.Thm.C05
namespace Sonic.Thm.C06
open Sonic Spec

/-- **strings are lossless**: for any bytes `s`, the strict specification reads `"escape s"` back as
    exactly `s`, ending just after the closing quote, whatever precedes and follows the literal -/
theorem string_lossless (s pre suf : List UInt8) :
    stringS false (pre ++ quoted s ++ suf).toArray (pre.length + 1) = some (s, pre.length + (quoted s).length) := by
  have h := string_roundtrip s (pre ++ [34]) suf
  have e : pre ++ quoted s ++ suf = pre ++ [34] ++ escape s ++ 34 :: suf := by simp [quoted, List.append_assoc]
  rw [e]
  simp only [List.length_append, List.length_cons, List.length_nil] at h
  rw [h]
  simp [quoted]; omega

/-- and the literal is grammatical at the weaker strength too (what the skipping entry points check) -/
theorem string_fixpoint (s : List UInt8) :
    (stringS false (quoted s).toArray 1).map (fun r => quoted r.1) = some (quoted s) := by
  have h := string_lossless s [] []
  simp only [List.nil_append, List.append_nil, List.length_nil, Nat.zero_add] at h
  rw [h]; rfl

/-- **parse ∘ print = id**: the strict specification reads the compact rendering of every well-formed
    tree back as exactly that tree (nesting, order, duplicated keys, strings, number literals) -/
theorem render_parses_back (t : RJ) (h : t.WF) : docTree false t.render.toArray = some (t.jsonAt 0) :=
  doc_roundtrip t h

/-- **fixpoint**: writing the tree the specification reads back from a rendering gives the same bytes -/
theorem second_pass_is_identical (t : RJ) (h : t.WF) :
    (docTree false t.render.toArray).map (fun j => (Json.toRJ t.render.toArray j).render) = some t.render :=
  second_pass t h

/-- … wherever the rendering stands inside a larger text (before a delimiter, with enough fuel) -/
theorem render_parses_back_in_context (t : RJ) (h : t.WF) (pre suf : List UInt8) (f : Nat)
    (hd : isDelim suf.head?) (hf : t.need ≤ f) :
    tree false f (pre ++ t.render ++ suf).toArray pre.length = some (t.jsonAt pre.length, pre.length + t.render.length) := by
  apply reads_back t h (pre ++ t.render ++ suf) pre.length f ⟨pre, suf, rfl, rfl⟩ _ hf
  have e : (pre ++ t.render ++ suf).toArray[pre.length + t.render.length]? = suf.head? := by
    simp only [List.getElem?_toArray]
    rw [List.getElem?_append_right (by simp), List.head?_eq_getElem?]
    simp
  rw [e]; exact hd

/-- **every number literal of the RFC shape is `NumOK`**: sign, integer digits without a leading zero,
    optional fraction, optional exponent with optional sign — read as one whole number wherever it
    stands before a delimiter or the end of the text -/
theorem wellformed_literal_is_a_number (l : Lit) (h : l.WF) : NumOK l.render := lit_numok l h

/-- hence a tree whose only number is any such literal round-trips (used for non-vacuity below;
    a tree with several numbers is `render_parses_back` with this fact at every number) -/
theorem number_roundtrip (l : Lit) (h : l.WF) :
    docTree false (RJ.num l.render).render.toArray = some ((RJ.num l.render).jsonAt 0) :=
  render_parses_back (.num l.render) (lit_numok l h)

/-- sort_keys: the members of an object are a permutation of the source members … -/
theorem sorted_is_permutation {α} (ms : List (List UInt8 × α)) : (sortStable ms).Perm ms := sortStable_perm ms
/-- … in ascending key order … -/
theorem sorted_is_ascending {α} (ms : List (List UInt8 × α)) : Ascending (sortStable ms) := sortStable_asc ms
/-- … and nothing else changes: members with equal keys keep their source order -/
theorem sorted_is_stable {α} (ms : List (List UInt8 × α)) (k : List UInt8) :
    (sortStable ms).filter (fun x => x.1 = k) = ms.filter (fun x => x.1 = k) := sortStable_filter ms k

/-! non-vacuity: a tree with a duplicated key, an escaped string, numbers and empty containers -/
def sample : RJ := .obj [([97], .arr [.num [55], .str [34, 10], .null]), ([97], .bool true), ([98], .obj []), ([], .arr [])]
theorem sample_wf : sample.WF := by
  refine ⟨⟨numok_digit 55 (by decide) (by decide), trivial, trivial, trivial⟩, trivial, trivial, trivial, trivial⟩
example : docTree false sample.render.toArray = some (sample.jsonAt 0) := render_parses_back sample sample_wf

example : stringS false ([91] ++ quoted [97, 34, 10, 1, 0xC3, 0xA9] ++ [93]).toArray 2 =
    some ([97, 34, 10, 1, 0xC3, 0xA9], 1 + (quoted [97, 34, 10, 1, 0xC3, 0xA9]).length) :=
  string_lossless _ [91] [93]
/-- `-12.50e+07` -/
def sampleLit : Lit := { neg := true, int := [49, 50], frac := some [53, 48], exp := some (101, some 43, [48, 55]) }
theorem sampleLit_wf : sampleLit.WF := by
  refine ⟨by decide, by decide, by decide, ?_, ?_⟩
  · intro f hf; cases hf; exact ⟨by decide, by decide⟩
  · intro e s ds h; cases h; exact ⟨by decide, by decide, by decide, by decide⟩
example : sampleLit.render = [45, 49, 50, 46, 53, 48, 101, 43, 48, 55] := by decide
example : NumOK sampleLit.render := wellformed_literal_is_a_number _ sampleLit_wf
example : sortStable [([98], 1), ([97], 2), ([98], 3), ([97], 4)] = [([97], 2), ([97], 4), ([98], 1), ([98], 3)] := by decide

end Sonic.Thm.C06
