/-
  C06 — parse then serialize is lossless and reaches a fixpoint.

  Full statement (kept visible): for every well-formed text `t` with tree `j = docTree t`, the text
  `render j` written by the serializer model (Impl/Ser.lean, C05) satisfies `docTree (render j) = j`
  (same nesting, order, duplicates, strings; numbers by literal), hence `render (docTree (render j)) =
  render j`; with sort_keys the members are the same multiset in ascending key order, equal keys
  in source order.

  Proved here: the string part of losslessness against the real strict specification
  (`string_roundtrip`: the quoted literal the serializer writes for ANY bytes decodes back to
  exactly those bytes, wherever it stands), and the sort_keys part (permutation, ascending,
  stable, recursively).  What is missing for the full statement is the container / number
  induction over `Spec.tree` (`render_parses_back`); that part is covered by the byte-exact
  comparison of the raw-number outputs with `render (docTree t)` on every case, by re-parsing and
  by the second pass of the implementation (see the check).
-/
import SonicModel.Lemmas.RoundTrip
import SonicModel.Lemmas.SortProof
import SonicModel.Thm.C05
namespace Sonic.Thm.C06
open Sonic Spec

/-- **strings are lossless**: for any bytes `s`, the strict specification reads `"escape s"` back as
    exactly `s`, ending just after the closing quote, whatever precedes and follows the literal -/
theorem string_lossless_partial (s pre suf : List UInt8) :
    stringS false (pre ++ quoted s ++ suf).toArray (pre.length + 1) = some (s, pre.length + (quoted s).length) := by
  have h := string_roundtrip s (pre ++ [34]) suf
  have e : pre ++ quoted s ++ suf = pre ++ [34] ++ escape s ++ 34 :: suf := by simp [quoted, List.append_assoc]
  rw [e]
  simp only [List.length_append, List.length_cons, List.length_nil] at h
  rw [h]
  simp [quoted]; omega

/-- and the literal is grammatical at the weaker strength too (what the skipping entry points check) -/
theorem string_fixpoint (s : List UInt8) :
    (stringS false (quoted s).toArray 1).map (fun r => quoted r.1) = some (quoted s) := by
  have h := string_lossless_partial s [] []
  simp only [List.nil_append, List.append_nil, List.length_nil, Nat.zero_add] at h
  rw [h]; rfl

/-- sort_keys: the members of an object are a permutation of the source members … -/
theorem sorted_is_permutation {α} (ms : List (List UInt8 × α)) : (sortStable ms).Perm ms := sortStable_perm ms
/-- … in ascending key order … -/
theorem sorted_is_ascending {α} (ms : List (List UInt8 × α)) : Ascending (sortStable ms) := sortStable_asc ms
/-- … and nothing else changes: members with equal keys keep their source order -/
theorem sorted_is_stable {α} (ms : List (List UInt8 × α)) (k : List UInt8) :
    (sortStable ms).filter (fun x => x.1 = k) = ms.filter (fun x => x.1 = k) := sortStable_filter ms k

/-! non-vacuity -/
example : stringS false ([91] ++ quoted [97, 34, 10, 1, 0xC3, 0xA9] ++ [93]).toArray 2 =
    some ([97, 34, 10, 1, 0xC3, 0xA9], 1 + (quoted [97, 34, 10, 1, 0xC3, 0xA9]).length) :=
  string_lossless_partial _ [91] [93]
example : sortStable [([98], 1), ([97], 2), ([98], 3), ([97], 4)] = [([97], 2), ([97], 4), ([98], 1), ([98], 3)] := by decide

end Sonic.Thm.C06
