import SonicModel.Gen.ErrorCodes
/-
  Basic vocabulary shared by the specification (Layer 0) and the implementation
  models (Layers 1 and 2).  No Mathlib; everything here is executable.
-/
namespace Sonic
open Gen

/-- An input text / a reader buffer. -/
abbrev Buf := Array UInt8

/-- Result of a recogniser: `ok e` = accepted, reader stands at `e` (exclusive end);
    `err` = rejected; `fuel` = ran out of fuel (never confused with a reject). -/
inductive Res where
  | ok (e : Nat)
  | err
  | fuel
  deriving DecidableEq, Repr, Inhabited

/-- Result of an implementation-model function: like `Res` but a reject carries the error
    code (numbering of `ErrorCode`, see `Gen/ErrorCodes.lean`) and the reader index at the
    moment `perr!` ran (so that `Parser::error` can be modelled on top). -/
inductive IRes where
  | ok (e : Nat)
  | err (code : Code) (idx : Nat)
  | fuel
  deriving DecidableEq, Repr, Inhabited

def IRes.erase : IRes → Res
  | .ok e => .ok e
  | .err _ _ => .err
  | .fuel => .fuel

@[simp] theorem IRes.erase_ok (e : Nat) : (IRes.ok e).erase = .ok e := rfl
@[simp] theorem IRes.erase_err (c : Code) (i : Nat) : (IRes.err c i).erase = .err := rfl
@[simp] theorem IRes.erase_fuel : IRes.fuel.erase = .fuel := rfl

def Res.ofOpt : Option Nat → Res
  | some e => .ok e
  | none => .err

@[simp] theorem Res.ofOpt_some (e : Nat) : Res.ofOpt (some e) = .ok e := rfl
@[simp] theorem Res.ofOpt_none : Res.ofOpt none = .err := rfl

/-- a statement about all bytes follows from its 256 instances (used with `decide +kernel`) -/
theorem UInt8.forall_of_fin (P : UInt8 → Prop) (h : ∀ n : Fin 256, P (UInt8.ofNat n.val)) :
    ∀ c, P c := by
  intro c
  have := h ⟨c.toNat, c.toNat_lt⟩
  simpa using this

/-! ### byte classes (RFC 8259) -/

@[inline] def isWs (b : UInt8) : Bool := b == 32 || b == 9 || b == 10 || b == 13
@[inline] def isDigit (b : UInt8) : Bool := 48 ≤ b && b ≤ 57
@[inline] def isHex (b : UInt8) : Bool :=
  (48 ≤ b && b ≤ 57) || (65 ≤ b && b ≤ 70) || (97 ≤ b && b ≤ 102)
/-- the eight single-character escapes `" \ / b f n r t` -/
@[inline] def isSimpleEsc (b : UInt8) : Bool :=
  b == 34 || b == 92 || b == 47 || b == 98 || b == 102 || b == 110 || b == 114 || b == 116

def hexVal (b : UInt8) : Nat :=
  if 48 ≤ b && b ≤ 57 then (b - 48).toNat
  else if 65 ≤ b && b ≤ 70 then (b - 55).toNat
  else if 97 ≤ b && b ≤ 102 then (b - 87).toNat
  else 0

/-- byte at `i`, or `none` past the end -/
@[inline] def at? (buf : Buf) (i : Nat) : Option UInt8 := buf[i]?

/-- is there an ASCII digit at `i`? -/
def isDigitAt (buf : Buf) (i : Nat) : Bool :=
  match buf[i]? with
  | some d => isDigit d
  | none => false

/-- do the bytes `bs` stand at `i`?  returns the index after them -/
def litAt (buf : Buf) (i : Nat) (bs : List UInt8) : Option Nat :=
  match bs with
  | [] => some i
  | b :: rest => if buf[i]? = some b then litAt buf (i+1) rest else none

/-- first index `≥ i` that is not whitespace (or `buf.size`) -/
def skipWs (buf : Buf) (i : Nat) : Nat :=
  if h : i < buf.size then (if isWs buf[i] then skipWs buf (i+1) else i) else i
termination_by buf.size - i

/-- first index `≥ i` that is not an ASCII digit (or `buf.size`) -/
def skipDigits (buf : Buf) (i : Nat) : Nat :=
  if h : i < buf.size then (if isDigit buf[i] then skipDigits buf (i+1) else i) else i
termination_by buf.size - i

theorem skipWs_ge (buf : Buf) (i : Nat) : i ≤ skipWs buf i := by
  fun_induction skipWs buf i <;> omega

theorem skipDigits_ge (buf : Buf) (i : Nat) : i ≤ skipDigits buf i := by
  fun_induction skipDigits buf i <;> omega

theorem skipWs_le (buf : Buf) (i : Nat) (h : i ≤ buf.size) : skipWs buf i ≤ buf.size := by
  fun_induction skipWs buf i <;> omega

theorem skipDigits_le (buf : Buf) (i : Nat) (h : i ≤ buf.size) : skipDigits buf i ≤ buf.size := by
  fun_induction skipDigits buf i <;> omega

theorem skipWs_idem (buf : Buf) (i : Nat) : skipWs buf (skipWs buf i) = skipWs buf i := by
  fun_induction skipWs buf i
  · assumption
  · rename_i h hw; rw [skipWs]; simp [h, hw]
  · rename_i h; rw [skipWs]; simp [h]

theorem skipWs_fix (buf : Buf) (i : Nat) (h : i < buf.size) (hw : isWs buf[i] = false) :
    skipWs buf i = i := by
  rw [skipWs]; simp [h, hw]

theorem skipWs_eof (buf : Buf) (i : Nat) (h : buf.size ≤ i) : skipWs buf i = i := by
  rw [skipWs]; simp [Nat.not_lt.mpr h]

theorem skipWs_nonws (buf : Buf) (i : Nat) (h : skipWs buf i < buf.size) :
    isWs buf[skipWs buf i] = false := by
  fun_induction skipWs buf i
  · rename_i h1 hw ih; exact ih h
  · rename_i h1 hw; simpa using hw
  · omega

end Sonic
