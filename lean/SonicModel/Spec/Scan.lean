/-
  Layer 0 — the scalar meaning of the unchecked container skipper: walk the bytes after the opening
  bracket; a backslash escapes the next byte; an unescaped quote toggles "inside a string"; outside
  strings count the opening and closing brackets of the given kind; stop just after the first closing
  bracket that has no partner.  (Defined for arbitrary bytes: the caller promises well-formed input,
  the function itself never looks at anything else.)
-/
import SonicModel.Basic
namespace Sonic
namespace Spec

structure ScanSt where
  inStr : Bool       -- the previous byte left us inside a string
  esc : Bool         -- the next byte is escaped
  l : Nat            -- opening brackets seen (outside strings)
  r : Nat            -- closing brackets seen (outside strings)
  deriving DecidableEq, Repr

/-- one byte; the flag says: the container closed at this byte -/
def scanStep (left right : UInt8) (s : ScanSt) (b : UInt8) : ScanSt × Bool :=
  let esc' := b == 92 && !s.esc
  let inStr' := xor s.inStr (b == 34 && !s.esc)
  if !inStr' && b == right then
    ({ inStr := inStr', esc := esc', l := s.l, r := s.r + 1 }, decide (s.l < s.r + 1))
  else
    ({ inStr := inStr', esc := esc', l := s.l + (if !inStr' && b == left then 1 else 0), r := s.r }, false)

/-- number of bytes consumed up to and including the closing bracket (`none`: not closed within these bytes),
    and the state after the bytes looked at -/
def scan (left right : UInt8) : List UInt8 → ScanSt → Option Nat × ScanSt
  | [], s => (none, s)
  | b :: rest, s =>
    let p := scanStep left right s b
    if p.2 then (some 1, p.1)
    else ((scan left right rest p.1).1.map (· + 1), (scan left right rest p.1).2)

def ScanSt.init : ScanSt := ⟨false, false, 0, 0⟩

/-- `skip_container` on the text after the opening bracket -/
def skipContainerScalar (left right : UInt8) (data : List UInt8) : Option Nat := (scan left right data ScanSt.init).1

/-! ### the unchecked string skipper -/

/-- walk the bytes after the opening quote: a backslash escapes the next byte, the first quote that is not
    escaped closes the string; result: bytes consumed up to and including that quote (`none`: not closed) -/
def strScan : List UInt8 → Bool → Option Nat
  | [], _ => none
  | b :: rest, esc =>
    if !esc && b == 34 then some 1
    else (strScan rest (b == 92 && !esc)).map (· + 1)

/-- `skip_string_unchecked` on the text after the opening quote: length consumed, and "the string contains a
    backslash" (the status that tells the caller whether the content has to be unescaped) -/
def skipStringScalar (data : List UInt8) : Option (Nat × Bool) :=
  (strScan data false).map fun n => (n, (data.take n).any (· == 92))

end Spec
end Sonic
