/-
  Layer 0 — a JSON number literal as a structure: sign, integer digits, optional fraction digits,
  optional exponent (marker, sign, digits).  `Lit.render` writes it; `Lit.WF` is the RFC 8259 shape;
  `Lit.mant` / `Lit.exp10` give its exact value `(-1)^neg * mant * 10^exp10`.
-/
import SonicModel.Spec.Grammar
namespace Sonic
namespace Spec

structure Lit where
  neg : Bool
  int : List UInt8
  frac : Option (List UInt8)
  exp : Option (UInt8 × Option UInt8 × List UInt8)
  deriving Repr, DecidableEq, Inhabited

def allDigits (ds : List UInt8) : Prop := ∀ d ∈ ds, isDigit d = true
instance (ds : List UInt8) : Decidable (allDigits ds) := by unfold allDigits; infer_instance

def Lit.signPart (l : Lit) : List UInt8 := if l.neg then [45] else []
def Lit.fracPart (l : Lit) : List UInt8 := match l.frac with | some f => 46 :: f | none => []
def Lit.expPart (l : Lit) : List UInt8 :=
  match l.exp with
  | some (e, some s, ds) => e :: s :: ds
  | some (e, none, ds) => e :: ds
  | none => []
def Lit.render (l : Lit) : List UInt8 := l.signPart ++ (l.int ++ (l.fracPart ++ l.expPart))

/-- `-? (0 | [1-9][0-9]*) (\. [0-9]+)? ([eE] [+-]? [0-9]+)?` -/
def Lit.WF (l : Lit) : Prop :=
  l.int ≠ [] ∧ allDigits l.int ∧ (l.int.head? = some 48 → l.int.length = 1) ∧
  (∀ f, l.frac = some f → f ≠ [] ∧ allDigits f) ∧
  (∀ e s ds, l.exp = some (e, s, ds) → (e = 101 ∨ e = 69) ∧ (s = none ∨ s = some 43 ∨ s = some 45) ∧ ds ≠ [] ∧ allDigits ds)

/-- the value of a digit string appended to `acc` -/
def digitsOf (ds : List UInt8) (acc : Nat) : Nat := ds.foldl (fun a d => a * 10 + (d.toNat - 48)) acc

/-- all significant digits as one integer, and the decimal exponent that goes with it -/
def Lit.mant (l : Lit) : Nat := digitsOf (l.frac.getD []) (digitsOf l.int 0)
def Lit.expVal (l : Lit) : Int :=
  match l.exp with
  | some (_, some 45, ds) => -(digitsOf ds 0 : Int)
  | some (_, _, ds) => (digitsOf ds 0 : Int)
  | none => 0
def Lit.exp10 (l : Lit) : Int := l.expVal - ((l.frac.getD []).length : Int)
def Lit.isInt (l : Lit) : Bool := l.frac.isNone && l.exp.isNone

end Spec
end Sonic
