/-
  Layer 0 — the DOM route of serde's data model: `to_value(x)` as a tree, how that tree is written,
  and the structural equality of DOM values (`src/value/partial_eq.rs`, `Object::eq`).
-/
import SonicModel.Spec.Typed
namespace Sonic
namespace Spec

/-- a DOM value (numbers by value, objects as member lists in some order) -/
inductive DJ where
  | null
  | bool (b : Bool)
  | int (n : Int)
  | f64 (bits : Nat)
  | str (s : List UInt8)
  | arr (xs : List DJ)
  | obj (ms : List (List UInt8 × DJ))
  deriving Repr, Inhabited

mutual
/-- `to_value(x)`: the in-memory serializer (`src/value/ser.rs`) -/
def Val.toJ : Val → DJ
  | .bool b => .bool b
  | .int n => .int n
  | .f64 bits => .f64 bits
  | .str s => .str s
  | .unit => .null
  | .none => .null
  | .some v => v.toJ
  | .seq vs => .arr (toJL vs)
  | .map kvs => .obj (toJKV kvs)
  | .struct fs => .obj (toJF fs)
  | .variant n none => .str n
  | .variant n (some v) => .obj [(n, v.toJ)]
  | .bytes bs => .arr (bs.map fun b => .int b.toNat)
def toJL : List Val → List DJ
  | [] => []
  | v :: r => v.toJ :: toJL r
def toJKV : List (KeyVal × Val) → List (List UInt8 × DJ)
  | [] => []
  | (k, v) :: r => (keyString k, v.toJ) :: toJKV r
def toJF : List (List UInt8 × Val) → List (List UInt8 × DJ)
  | [] => []
  | (k, v) :: r => (k, v.toJ) :: toJF r
end

mutual
/-- `to_string` of a DOM value (members in the order they are stored) -/
def DJ.render : DJ → List UInt8
  | .null => [110, 117, 108, 108]
  | .bool b => if b then [116, 114, 117, 101] else [102, 97, 108, 115, 101]
  | .int n => intText n
  | .f64 bits => 70 :: natDigits bits
  | .str s => quoted s
  | .arr xs => [91] ++ joinWith [44] (DJ.renderL xs) ++ [93]
  | .obj ms => [123] ++ joinWith [44] (DJ.renderM ms) ++ [125]
def DJ.renderL : List DJ → List (List UInt8)
  | [] => []
  | v :: r => v.render :: DJ.renderL r
def DJ.renderM : List (List UInt8 × DJ) → List (List UInt8)
  | [] => []
  | (k, v) :: r => (quoted k ++ [58] ++ v.render) :: DJ.renderM r
end

/-! ### structural equality of DOM values -/

def getFirst (k : List UInt8) : List (List UInt8 × DJ) → Option DJ
  | [] => none
  | (k', v) :: r => if k' = k then some v else getFirst k r

/-- every key of the first list occurs in the second (`other.iter().all(|(k, _)| self.get(&k).is_some())`) -/
def keysIn (ks ms : List (List UInt8 × DJ)) : Bool := ks.all fun p => (getFirst p.1 ms).isSome

/-- IEEE equality of finite doubles given by their bits: +0.0 and -0.0 are equal -/
def f64Eq (a b : Nat) : Bool := a == b || ((a == 0 || a == 2 ^ 63) && (b == 0 || b == 2 ^ 63))

mutual
/-- nesting depth (bounds the recursion of the comparison) -/
def DJ.depth : DJ → Nat
  | .arr xs => DJ.depthL xs + 1
  | .obj ms => DJ.depthM ms + 1
  | _ => 1
def DJ.depthL : List DJ → Nat
  | [] => 0
  | x :: r => max x.depth (DJ.depthL r)
def DJ.depthM : List (List UInt8 × DJ) → Nat
  | [] => 0
  | (_, x) :: r => max x.depth (DJ.depthM r)
end

mutual
/-- `impl PartialEq for Value` (objects: `Object::eq` as repaired: same length, the first member of
    every key of the left object equals the first one of that key in the right object, and every key
    of the right object occurs in the left one); the first argument bounds the nesting -/
def eqv : Nat → DJ → DJ → Bool
  | 0, _, _ => false
  | _+1, .null, .null => true
  | _+1, .bool a, .bool b => a == b
  | _+1, .int a, .int b => a == b
  | _+1, .f64 a, .f64 b => f64Eq a b
  | _+1, .str a, .str b => a == b
  | f+1, .arr xs, .arr ys => eqvL f xs ys
  | f+1, .obj ms, .obj ns => ms.length == ns.length && eqvKeys f ms ns ms && keysIn ns ms
  | _+1, _, _ => false
def eqvL : Nat → List DJ → List DJ → Bool
  | _, [], [] => true
  | f, x :: xs, y :: ys => eqv f x y && eqvL f xs ys
  | _, _, _ => false
/-- for every key of the first list: the first member of that key in `ms` equals the first one in `ns`
    (`self.iter().all(|(k, _)| other.get(&k) == self.get(&k))` with `ms = other`, `ns = self`) -/
def eqvKeys : Nat → List (List UInt8 × DJ) → List (List UInt8 × DJ) → List (List UInt8 × DJ) → Bool
  | _, [], _, _ => true
  | f, (k, _) :: rest, ms, ns =>
    (match getFirst k ms, getFirst k ns with
     | some a, some b => eqv f a b
     | none, none => true
     | _, _ => false) && eqvKeys f rest ms ns
end

/-- `a == b` for DOM values -/
def DJ.eq (a b : DJ) : Bool := eqv (max a.depth b.depth) a b

end Spec
end Sonic
