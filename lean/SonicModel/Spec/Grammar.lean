/-
  Layer 0 — what JSON *is* (RFC 8259), written the obvious way, one byte at a time.
  Two strengths:
    * grammar (`strict = false`): the RFC grammar only — what a validate-and-skip entry
      point must accept;
    * strict  (`strict = true`): additionally every `\u` escape must decode to a Unicode
      scalar (surrogates correctly paired) — what a fully decoding entry point must accept
      (number finiteness is a separate predicate, `Spec.Num`).
  Meant to be read in minutes.  Everything is executable (the driver uses it as oracle).
-/
import SonicModel.Basic
import SonicModel.Spec.Num
namespace Sonic
namespace Spec

/-! ### numbers:  `-? (0 | [1-9][0-9]*) (\. [0-9]+)? ([eE] [+-]? [0-9]+)?`  (maximal munch) -/

/-- fraction part starting at `i` (where a `.` may stand); end index or reject -/
def frac (buf : Buf) (i : Nat) : Option Nat :=
  if buf[i]? = some 46 then
    (if isDigitAt buf (i+1) then some (skipDigits buf (i+2)) else none)
  else some i

/-- exponent part starting at `i` (where `e`/`E` may stand) -/
def expo (buf : Buf) (i : Nat) : Option Nat :=
  if buf[i]? = some 101 || buf[i]? = some 69 then
    let j := if buf[i+1]? = some 45 || buf[i+1]? = some 43 then i+2 else i+1
    if isDigitAt buf j then some (skipDigits buf (j+1)) else none
  else some i

/-- The rest of a number token whose first digit `c` stands at `i-1`: more integer digits
    (unless the first is `0`), optional fraction, optional exponent.  `0` immediately followed
    by a digit is not a number token (a JSON value is never directly followed by a digit, so
    this loses nothing). -/
def afterFirst (buf : Buf) (c : UInt8) (i : Nat) : Option Nat :=
  let i2 := if c == 48 then i else skipDigits buf i
  if c == 48 && isDigitAt buf i2 then none
  else (frac buf i2).bind (expo buf)

/-- A number token starting at `i` (at the `-` or the first digit).  Returns the index just
    after the token (maximal munch). -/
def number (buf : Buf) (i : Nat) : Option Nat :=
  let i1 := if buf[i]? = some 45 then i+1 else i
  match buf[i1]? with
  | none => none
  | some c => if isDigit c then afterFirst buf c (i1+1) else none

/-- number token at the given strength: a fully decoding entry point additionally requires the
    value to be finite as f64 -/
def numberS (strict : Bool) (buf : Buf) (i : Nat) : Option Nat :=
  match number buf i with
  | some e => if strict && !finite buf i e then none else some e
  | none => none

@[simp] theorem numberS_false (buf : Buf) (i : Nat) : numberS false buf i = number buf i := by
  unfold numberS; cases number buf i <;> simp

/-! ### strings -/

def hex4ok (buf : Buf) (i : Nat) : Bool :=
  match buf[i]?, buf[i+1]?, buf[i+2]?, buf[i+3]? with
  | some a, some b, some c, some d => isHex a && isHex b && isHex c && isHex d
  | _, _, _, _ => false

def hex4val (buf : Buf) (i : Nat) : Nat :=
  match buf[i]?, buf[i+1]?, buf[i+2]?, buf[i+3]? with
  | some a, some b, some c, some d => hexVal a * 4096 + hexVal b * 256 + hexVal c * 16 + hexVal d
  | _, _, _, _ => 0

/-- Grammar-level string: `i` is the index just after the opening quote; result is the index
    just after the closing quote. -/
def stringG (buf : Buf) (i : Nat) : Option Nat :=
  if h : i < buf.size then
    let c := buf[i]
    if c == 34 then some (i+1)
    else if c == 92 then
      match buf[i+1]? with
      | none => none
      | some e =>
        if isSimpleEsc e then stringG buf (i+2)
        else if e == 117 then (if hex4ok buf (i+2) then stringG buf (i+6) else none)
        else none
    else if c < 32 then none
    else stringG buf (i+1)
  else none
termination_by buf.size - i

/-- UTF-8 encoding of a Unicode scalar value -/
def utf8 (cp : Nat) : List UInt8 :=
  if cp < 0x80 then [cp.toUInt8]
  else if cp < 0x800 then [(0xC0 + cp / 64).toUInt8, (0x80 + cp % 64).toUInt8]
  else if cp < 0x10000 then
    [(0xE0 + cp / 4096).toUInt8, (0x80 + cp / 64 % 64).toUInt8, (0x80 + cp % 64).toUInt8]
  else
    [(0xF0 + cp / 262144).toUInt8, (0x80 + cp / 4096 % 64).toUInt8,
     (0x80 + cp / 64 % 64).toUInt8, (0x80 + cp % 64).toUInt8]

def unescape (e : UInt8) : UInt8 :=
  if e == 98 then 8 else if e == 102 then 12 else if e == 110 then 10
  else if e == 114 then 13 else if e == 116 then 9 else e

/-- One `\uXXXX` escape (or a surrogate pair `\uD8xx\uDCxx`) whose first hex digit is at `i`.
    Returns the scalar value and the index after the escape, or `none` if it does not denote
    a Unicode scalar.  `lossy`: an unpaired surrogate denotes U+FFFD and consumes only the
    first escape. -/
def uEscape (lossy : Bool) (buf : Buf) (i : Nat) : Option (Nat × Nat) :=
  if !hex4ok buf i then none
  else
    let hi := hex4val buf i
    if 0xD800 ≤ hi && hi < 0xDC00 then
      if buf[i+4]? = some 92 && buf[i+5]? = some 117 && hex4ok buf (i+6)
         && 0xDC00 ≤ hex4val buf (i+6) && hex4val buf (i+6) < 0xE000 then
        some (0x10000 + (hi - 0xD800) * 1024 + (hex4val buf (i+6) - 0xDC00), i+10)
      else if lossy then some (0xFFFD, i+4) else none
    else if 0xDC00 ≤ hi && hi < 0xE000 then
      (if lossy then some (0xFFFD, i+4) else none)
    else some (hi, i+4)

/-- Strict string: decodes the literal whose opening quote is at `i-1`; returns the decoded
    bytes and the index after the closing quote. Raw bytes `≥ 0x20` are copied verbatim (their
    UTF-8 validity is a whole-input condition, `utf8Valid`). -/
def stringS (lossy : Bool) (buf : Buf) (i : Nat) : Option (List UInt8 × Nat) :=
  if h : i < buf.size then
    let c := buf[i]
    if c == 34 then some ([], i+1)
    else if c == 92 then
      match buf[i+1]? with
      | none => none
      | some e =>
        if isSimpleEsc e then
          (stringS lossy buf (i+2)).map fun (s, j) => (unescape e :: s, j)
        else if e == 117 then
          match uEscape lossy buf (i+2) with
          | none => none
          | some (cp, j) =>
            if h2 : i + 2 < j then
              (stringS lossy buf j).map fun (s, k) => (utf8 cp ++ s, k)
            else none
        else none
    else if c < 32 then none
    else (stringS lossy buf (i+1)).map fun (s, j) => (c :: s, j)
  else none
termination_by buf.size - i
decreasing_by all_goals omega

/-- end index of a string literal (after the opening quote) at the given strength -/
def string (strict : Bool) (buf : Buf) (i : Nat) : Option Nat :=
  if strict then (stringS false buf i).map (·.2) else stringG buf i

/-! ### literals -/

def lit (buf : Buf) (i : Nat) (bs : List UInt8) : Option Nat := litAt buf i bs

/-! ### values, arrays, objects.  `i` is always the index of the first byte of the item
    (leading whitespace already skipped); fuel bounds the nesting/length and running out of
    it is reported as `.fuel`, never as a reject. -/

mutual
def value (strict : Bool) : Nat → Buf → Nat → Res
  | 0, _, _ => .fuel
  | f+1, buf, i =>
    match buf[i]? with
    | none => .err
    | some c =>
      if c == 45 || isDigit c then .ofOpt (numberS strict buf i)
      else if c == 34 then .ofOpt (string strict buf (i+1))
      else if c == 123 then
        let j := skipWs buf (i+1)
        if buf[j]? = some 125 then .ok (j+1) else members strict f buf j
      else if c == 91 then
        let j := skipWs buf (i+1)
        if buf[j]? = some 93 then .ok (j+1) else elems strict f buf j
      else if c == 116 then .ofOpt (lit buf (i+1) [114, 117, 101])
      else if c == 102 then .ofOpt (lit buf (i+1) [97, 108, 115, 101])
      else if c == 110 then .ofOpt (lit buf (i+1) [117, 108, 108])
      else .err
/-- `i` at the first byte of an element; continues after `,` until `]` -/
def elems (strict : Bool) : Nat → Buf → Nat → Res
  | 0, _, _ => .fuel
  | f+1, buf, i =>
    match value strict f buf i with
    | .ok e =>
      let j := skipWs buf e
      if buf[j]? = some 93 then .ok (j+1)
      else if buf[j]? = some 44 then elems strict f buf (skipWs buf (j+1))
      else .err
    | r => r
/-- `i` at the opening quote of a member name; continues after `,` until `}` -/
def members (strict : Bool) : Nat → Buf → Nat → Res
  | 0, _, _ => .fuel
  | f+1, buf, i =>
    if buf[i]? = some 34 then
      match string strict buf (i+1) with
      | none => .err
      | some k =>
        let c := skipWs buf k
        if buf[c]? = some 58 then
          match value strict f buf (skipWs buf (c+1)) with
          | .ok e =>
            let j := skipWs buf e
            if buf[j]? = some 125 then .ok (j+1)
            else if buf[j]? = some 44 then members strict f buf (skipWs buf (j+1))
            else .err
          | r => r
        else .err
    else .err
end

/-- fuel that always suffices (see `Lemmas/Fuel.lean`) -/
def fuelFor (buf : Buf) : Nat := 2 * buf.size + 4

/-- A document: whitespace, one value, whitespace, end of input. Returns the span of the value. -/
def document (strict : Bool) (buf : Buf) : Option (Nat × Nat) :=
  let s := skipWs buf 0
  match value strict (fuelFor buf) buf s with
  | .ok e => if skipWs buf e = buf.size then some (s, e) else none
  | _ => none

/-! ### UTF-8 validity (RFC 3629 / Unicode Table 3-7) -/

def isCont (b : UInt8) : Bool := 0x80 ≤ b && b ≤ 0xBF

/-- length of the well-formed UTF-8 sequence starting at `i`, or `none` -/
def utf8Seq (buf : Buf) (i : Nat) : Option Nat :=
  match buf[i]? with
  | none => none
  | some b0 =>
    if b0 < 0x80 then some 1
    else if 0xC2 ≤ b0 && b0 ≤ 0xDF then
      match buf[i+1]? with
      | some b1 => if isCont b1 then some 2 else none
      | none => none
    else if 0xE0 ≤ b0 && b0 ≤ 0xEF then
      match buf[i+1]?, buf[i+2]? with
      | some b1, some b2 =>
        let lo : UInt8 := if b0 == 0xE0 then 0xA0 else 0x80
        let hi : UInt8 := if b0 == 0xED then 0x9F else 0xBF
        if lo ≤ b1 && b1 ≤ hi && isCont b2 then some 3 else none
      | _, _ => none
    else if 0xF0 ≤ b0 && b0 ≤ 0xF4 then
      match buf[i+1]?, buf[i+2]?, buf[i+3]? with
      | some b1, some b2, some b3 =>
        let lo : UInt8 := if b0 == 0xF0 then 0x90 else 0x80
        let hi : UInt8 := if b0 == 0xF4 then 0x8F else 0xBF
        if lo ≤ b1 && b1 ≤ hi && isCont b2 && isCont b3 then some 4 else none
      | _, _, _ => none
    else none

/-- index of the first byte that is not the start of a well-formed sequence, or `buf.size` -/
def utf8FirstInvalid (buf : Buf) (i : Nat) : Nat :=
  if h : i < buf.size then
    match utf8Seq buf i with
    | some n => if 0 < n then utf8FirstInvalid buf (i+n) else i
    | none => i
  else buf.size
termination_by buf.size - i

def utf8Valid (buf : Buf) : Bool := utf8FirstInvalid buf 0 == buf.size

/-- length of the *maximal subpart* of an ill-formed sequence at `i` (Unicode ch. 3, "U+FFFD
    substitution of maximal subparts"; what `String::from_utf8_lossy` replaces by one U+FFFD) -/
def badSubpart (buf : Buf) (i : Nat) : Nat :=
  match buf[i]? with
  | none => 1
  | some b0 =>
    let cont (j : Nat) : Bool := match buf[j]? with | some b => isCont b | none => false
    let inR (j : Nat) (lo hi : UInt8) : Bool := match buf[j]? with | some b => lo ≤ b && b ≤ hi | none => false
    if 0xE0 ≤ b0 && b0 ≤ 0xEF then
      let lo : UInt8 := if b0 == 0xE0 then 0xA0 else 0x80
      let hi : UInt8 := if b0 == 0xED then 0x9F else 0xBF
      if inR (i+1) lo hi then 2 else 1
    else if 0xF0 ≤ b0 && b0 ≤ 0xF4 then
      let lo : UInt8 := if b0 == 0xF0 then 0x90 else 0x80
      let hi : UInt8 := if b0 == 0xF4 then 0x8F else 0xBF
      if inR (i+1) lo hi then (if cont (i+2) then 3 else 2) else 1
    else 1

/-- `String::from_utf8_lossy`: well-formed sequences are kept, every maximal ill-formed subpart
    becomes U+FFFD (`EF BF BD`) -/
def utf8Lossy (buf : Buf) (i : Nat) : List UInt8 :=
  if h : i < buf.size then
    match utf8Seq buf i with
    | some n => if 0 < n then (buf.extract i (i+n)).toList ++ utf8Lossy buf (i+n) else []
    | none => [0xEF, 0xBF, 0xBD] ++ utf8Lossy buf (i + max 1 (badSubpart buf i))
  else []
termination_by buf.size - i
decreasing_by all_goals omega

end Spec
end Sonic
