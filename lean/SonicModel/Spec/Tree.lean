/-
  Layer 0 — the tree a JSON text denotes (RFC 8259 data model): nesting, array order, object
  members in source order with duplicates preserved, strings as decoded bytes, numbers as the
  source span of their literal (their value is `Spec.Num.decOf`/`classify` of that span).
-/
import SonicModel.Spec.Grammar
namespace Sonic
namespace Spec

inductive Json where
  | null
  | bool (b : Bool)
  | num (s e : Nat)                       -- literal is `buf[s..e)`
  | str (bytes : List UInt8)
  | arr (items : List Json)
  | obj (members : List (List UInt8 × Json))
  deriving Repr, Inhabited

mutual
/-- parse the value whose first byte is at `i` (strict strings; `lossy` as in `stringS`) -/
def tree (lossy : Bool) : Nat → Buf → Nat → Option (Json × Nat)
  | 0, _, _ => none
  | f+1, buf, i =>
    match buf[i]? with
    | none => none
    | some c =>
      if c == 45 || isDigit c then (number buf i).map fun e => (.num i e, e)
      else if c == 34 then (stringS lossy buf (i+1)).map fun (s, e) => (.str s, e)
      else if c == 123 then
        let j := skipWs buf (i+1)
        if buf[j]? = some 125 then some (.obj [], j+1)
        else (treeMembers lossy f buf j).map fun (ms, e) => (.obj ms, e)
      else if c == 91 then
        let j := skipWs buf (i+1)
        if buf[j]? = some 93 then some (.arr [], j+1)
        else (treeElems lossy f buf j).map fun (xs, e) => (.arr xs, e)
      else if c == 116 then (lit buf (i+1) [114, 117, 101]).map fun e => (.bool true, e)
      else if c == 102 then (lit buf (i+1) [97, 108, 115, 101]).map fun e => (.bool false, e)
      else if c == 110 then (lit buf (i+1) [117, 108, 108]).map fun e => (.null, e)
      else none
def treeElems (lossy : Bool) : Nat → Buf → Nat → Option (List Json × Nat)
  | 0, _, _ => none
  | f+1, buf, i =>
    match tree lossy f buf i with
    | none => none
    | some (x, e) =>
      let j := skipWs buf e
      if buf[j]? = some 93 then some ([x], j+1)
      else if buf[j]? = some 44 then
        (treeElems lossy f buf (skipWs buf (j+1))).map fun (xs, e2) => (x :: xs, e2)
      else none
def treeMembers (lossy : Bool) : Nat → Buf → Nat → Option (List (List UInt8 × Json) × Nat)
  | 0, _, _ => none
  | f+1, buf, i =>
    if buf[i]? = some 34 then
      match stringS lossy buf (i+1) with
      | none => none
      | some (k, e1) =>
        let c := skipWs buf e1
        if buf[c]? = some 58 then
          match tree lossy f buf (skipWs buf (c+1)) with
          | none => none
          | some (x, e) =>
            let j := skipWs buf e
            if buf[j]? = some 125 then some ([(k, x)], j+1)
            else if buf[j]? = some 44 then
              (treeMembers lossy f buf (skipWs buf (j+1))).map fun (ms, e2) => ((k, x) :: ms, e2)
            else none
        else none
    else none
end

/-- the tree of a whole document -/
def docTree (lossy : Bool) (buf : Buf) : Option Json :=
  match tree lossy (fuelFor buf) buf (skipWs buf 0) with
  | some (j, e) => if skipWs buf e = buf.size then some j else none
  | none => none

end Spec
end Sonic
