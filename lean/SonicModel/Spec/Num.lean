/-
  Layer 0 — the exact value of a JSON number literal and IEEE-754 binary64
  round-to-nearest-even of it, with unbounded integer arithmetic (no floats anywhere).
  This is the reference for C07/C08 and for "every number is finite as f64" in C02.
-/
import SonicModel.Basic
namespace Sonic
namespace Spec

/-- exact decimal: value = (-1)^neg * mant * 10^exp;  `isInt` = no fraction/exponent part -/
structure Dec where
  neg : Bool
  mant : Nat
  exp : Int
  isInt : Bool
  deriving Repr, DecidableEq, Inhabited

/-- value of the digit run `[i, j)` appended to `acc` -/
def digitsVal (buf : Buf) (i j : Nat) (acc : Nat) : Nat :=
  if h : i < j ∧ i < buf.size then
    digitsVal buf (i+1) j (acc * 10 + (buf[i].toNat - 48))
  else acc
termination_by j - i

/-- the fraction part where the integer digits end (`i2`): has-fraction, index after it, all
    significant digits so far as one integer, number of fraction digits -/
def fracOf (buf : Buf) (i2 e intv : Nat) : Bool × Nat × Nat × Nat :=
  let hasFrac := buf[i2]? = some 46 && i2 < e
  let i3 := if hasFrac then skipDigits buf (i2+1) else i2
  (hasFrac, i3, if hasFrac then digitsVal buf (i2+1) i3 intv else intv, if hasFrac then i3 - (i2+1) else 0)

/-- the exponent part where the fraction ends (`i3`): has-exponent, its signed value -/
def expOf (buf : Buf) (i3 e : Nat) : Bool × Int :=
  let hasExp := (buf[i3]? = some 101 || buf[i3]? = some 69) && i3 < e
  let eneg := hasExp && buf[i3+1]? = some 45
  let i4 := if hasExp then (if buf[i3+1]? = some 45 || buf[i3+1]? = some 43 then i3+2 else i3+1) else i3
  let ev := if hasExp then digitsVal buf i4 e 0 else 0
  (hasExp, if eneg then -(ev : Int) else (ev : Int))

/-- Exact reading of a literal that `Spec.number` accepted as `[i, e)`. -/
def decOf (buf : Buf) (i e : Nat) : Dec :=
  let neg := buf[i]? = some 45
  let i1 := if neg then i+1 else i
  let i2 := skipDigits buf i1                -- end of integer digits
  let intv := digitsVal buf i1 i2 0
  let fr := fracOf buf i2 e intv
  let ex := expOf buf fr.2.1 e
  { neg := neg, mant := fr.2.2.1, exp := ex.2 - (fr.2.2.2 : Int), isInt := !fr.1 && !ex.1 }

/-- round-half-even of `n / d` (`d > 0`) -/
def divRne (n d : Nat) : Nat :=
  let q := n / d
  let r := n % d
  if 2 * r > d || (2 * r == d && q % 2 == 1) then q + 1 else q

def decDigits (n : Nat) : Nat := (toString n).length

/-- `floor(log2(num/den))` for `num, den > 0`: the estimate from the two bit lengths, corrected by comparison -/
def e2Of (num den : Nat) : Int :=
  let l : Int := (Nat.log2 num : Int) - (Nat.log2 den : Int)
  let ge (k : Int) : Bool :=   -- num/den ≥ 2^k ?
    if k ≥ 0 then num ≥ den * 2 ^ k.toNat else num * 2 ^ (-k).toNat ≥ den
  if ge (l+1) then l+1 else if ge l then l else l-1

/-- round `num/den` (binary exponent `e2`) to 53 bits, nearest-even, and pack; `none` = overflows to infinity -/
def packF64 (num den : Nat) (e2 : Int) : Option Nat :=
  if e2 < -1022 then
    -- subnormal (or rounds up to the smallest normal): m = rne(x * 2^1074)
    some (divRne (num * 2 ^ 1074) den)
  else
    let shift : Int := e2 - 52
    let m := if shift ≥ 0 then divRne num (den * 2 ^ shift.toNat)
             else divRne (num * 2 ^ (-shift).toNat) den
    let (m, e2) := if m == 2 ^ 53 then (2 ^ 52, e2 + 1) else (m, e2)
    if e2 > 1023 then none
    else some ((e2 + 1023).toNat * 2 ^ 52 + (m - 2 ^ 52))

/-- IEEE binary64 bits of `|mant * 10^e10|` rounded to nearest-even; `none` = overflows to
    infinity. -/
def roundF64 (mant : Nat) (e10 : Int) : Option Nat :=
  if mant == 0 then some 0
  else
    let nd : Int := decDigits mant
    if e10 > 400 then none
    else if nd + e10 < -400 then some 0
    else
      let num := if e10 ≥ 0 then mant * 10 ^ e10.toNat else mant
      let den := if e10 ≥ 0 then 1 else 10 ^ (-e10).toNat
      packF64 num den (e2Of num den)

/-- bits including the sign -/
def f64Bits (d : Dec) : Option Nat :=
  (roundF64 d.mant d.exp).map fun b => if d.neg then b + 2 ^ 63 else b

/-- is the literal `[i,e)` finite as f64? -/
def finite (buf : Buf) (i e : Nat) : Bool :=
  let d := decOf buf i e
  (roundF64 d.mant d.exp).isSome

/-- classification of C07: plain integers within u64 / i64 are exact integers, everything
    else is the nearest f64 -/
inductive NumVal where
  | u64 (v : Nat)
  | i64 (v : Int)
  | f64 (bits : Nat)
  | infinite
  deriving Repr, DecidableEq, Inhabited

def classify (d : Dec) : NumVal :=
  if d.isInt && !d.neg && d.mant < 2 ^ 64 then .u64 d.mant
  else if d.isInt && d.neg && 0 < d.mant && d.mant ≤ 2 ^ 63 then .i64 (-(d.mant : Int))
  else match f64Bits d with
    | some b => .f64 b
    | none => .infinite

end Spec
end Sonic
