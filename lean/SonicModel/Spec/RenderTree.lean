/-
  Layer 0 — compact rendering of a JSON tree (what the serializer writes for a DOM: `[`, members
  separated by `,`, `]`; strings as `quoted`; numbers by their literal), and the tree the
  specification must read back from that text.
-/
import SonicModel.Spec.Tree
import SonicModel.Spec.Render
namespace Sonic
namespace Spec

/-- a tree to be written: numbers carry their literal -/
inductive RJ where
  | null
  | bool (b : Bool)
  | num (lit : List UInt8)
  | str (s : List UInt8)
  | arr (xs : List RJ)
  | obj (ms : List (List UInt8 × RJ))
  deriving Repr, Inhabited

mutual
def RJ.render : RJ → List UInt8
  | .null => [110, 117, 108, 108]
  | .bool true => [116, 114, 117, 101]
  | .bool false => [102, 97, 108, 115, 101]
  | .num lit => lit
  | .str s => quoted s
  | .arr [] => [91, 93]
  | .arr (x :: xs) => 91 :: (x.render ++ RJ.renderRest xs)
  | .obj [] => [123, 125]
  | .obj ((k, x) :: ms) => 123 :: (quoted k ++ 58 :: (x.render ++ RJ.renderRestM ms))
/-- the remaining elements, each preceded by `,`, then `]` -/
def RJ.renderRest : List RJ → List UInt8
  | [] => [93]
  | y :: r => 44 :: (y.render ++ RJ.renderRest r)
/-- the remaining members, each preceded by `,`, then `}` -/
def RJ.renderRestM : List (List UInt8 × RJ) → List UInt8
  | [] => [125]
  | (k, y) :: r => 44 :: (quoted k ++ 58 :: (y.render ++ RJ.renderRestM r))
end

mutual
/-- the specification's tree of the rendering of `t` standing at offset `p` -/
def RJ.jsonAt : RJ → Nat → Json
  | .null, _ => .null
  | .bool b, _ => .bool b
  | .num lit, p => .num p (p + lit.length)
  | .str s, _ => .str s
  | .arr [], _ => .arr []
  | .arr (x :: xs), p => .arr (x.jsonAt (p + 1) :: RJ.jsonRestAt xs (p + 1 + x.render.length))
  | .obj [], _ => .obj []
  | .obj ((k, x) :: ms), p =>
    .obj ((k, x.jsonAt (p + 1 + (quoted k).length + 1)) :: RJ.jsonRestMAt ms (p + 1 + (quoted k).length + 1 + x.render.length))
/-- `p` is the offset of the `,` (or of the closing bracket) -/
def RJ.jsonRestAt : List RJ → Nat → List Json
  | [], _ => []
  | y :: r, p => y.jsonAt (p + 1) :: RJ.jsonRestAt r (p + 1 + y.render.length)
def RJ.jsonRestMAt : List (List UInt8 × RJ) → Nat → List (List UInt8 × Json)
  | [], _ => []
  | (k, y) :: r, p =>
    (k, y.jsonAt (p + 1 + (quoted k).length + 1)) :: RJ.jsonRestMAt r (p + 1 + (quoted k).length + 1 + y.render.length)
end

mutual
/-- fuel that suffices to read the rendering back -/
def RJ.need : RJ → Nat
  | .arr (x :: xs) => 2 + max x.need (RJ.needRest xs)
  | .obj ((_, x) :: ms) => 2 + max x.need (RJ.needRestM ms)
  | _ => 1
def RJ.needRest : List RJ → Nat
  | [] => 0
  | y :: r => 1 + max y.need (RJ.needRest r)
def RJ.needRestM : List (List UInt8 × RJ) → Nat
  | [] => 0
  | (_, y) :: r => 1 + max y.need (RJ.needRestM r)
end

/-- a byte that ends a value in a compact text: nothing, `,`, `]` or `}` -/
def isDelim (o : Option UInt8) : Prop := o = none ∨ o = some 44 ∨ o = some 93 ∨ o = some 125

/-- the literal `lit` is read as one whole number wherever it stands before a delimiter -/
def NumOK (lit : List UInt8) : Prop :=
  lit ≠ [] ∧ (∀ c, lit.head? = some c → (c == 45 || isDigit c) = true) ∧
  ∀ (pre suf : List UInt8), isDelim suf.head? →
    number (pre ++ lit ++ suf).toArray pre.length = some (pre.length + lit.length)

mutual
/-- well-formed: every number literal is a JSON number -/
def RJ.WF : RJ → Prop
  | .num lit => NumOK lit
  | .arr xs => RJ.WFL xs
  | .obj ms => RJ.WFM ms
  | _ => True
def RJ.WFL : List RJ → Prop
  | [] => True
  | x :: r => x.WF ∧ RJ.WFL r
def RJ.WFM : List (List UInt8 × RJ) → Prop
  | [] => True
  | (_, x) :: r => x.WF ∧ RJ.WFM r
end

end Spec
end Sonic
