/-
  Layer 0 — what a JSON text denotes AS A VALUE OF A RUST TYPE (serde's data model as serde_json
  and serde's derived impls read it): the reference semantics of typed deserialization for a
  family of types.  `decode ty j` is the value of type `ty` denoted by the tree `j`, or `none`
  when the text is not a value of that type.
-/
import SonicModel.Spec.Tree
import SonicModel.Spec.Num
import SonicModel.Spec.Render
namespace Sonic
namespace Spec

inductive KeyTy where
  | str
  | int (bits : Nat) (signed : Bool)
  | bool
  | unitEnum (names : List (List UInt8))
  deriving Repr, Inhabited

mutual
inductive Ty where
  | bool
  | int (bits : Nat) (signed : Bool)
  | f64
  | char
  | str
  | strRef                                   -- `&str`: only a literal without escapes can be borrowed
  | unit                                     -- `()` and unit structs
  | opt (t : Ty)
  | seq (t : Ty)
  | tuple (ts : List Ty)                     -- tuples, tuple structs, fixed-size arrays
  | newtype (t : Ty)
  | map (k : KeyTy) (v : Ty)
  | struct (fields : List Field) (deny : Bool)
  | enum (variants : List Variant)
  | bytes                                    -- serde_bytes::ByteBuf
inductive Field where
  | mk (name : List UInt8) (ty : Ty) (dflt : Bool)      -- dflt: `#[serde(default)]`
inductive Variant where
  | unit (name : List UInt8)
  | newtype (name : List UInt8) (t : Ty)
  | tuple (name : List UInt8) (ts : List Ty)
  | struct (name : List UInt8) (fields : List Field)
end

def Variant.name : Variant → List UInt8
  | .unit n => n
  | .newtype n _ => n
  | .tuple n _ => n
  | .struct n _ => n

inductive KeyVal where
  | str (s : List UInt8)
  | int (n : Int)
  | bool (b : Bool)
  deriving Repr, Inhabited, DecidableEq

inductive Val where
  | bool (b : Bool)
  | int (n : Int)
  | f64 (bits : Nat)
  | str (s : List UInt8)
  | unit
  | none
  | some (v : Val)
  | seq (vs : List Val)
  | map (kvs : List (KeyVal × Val))                     -- in key order, one entry per key
  | struct (fields : List (List UInt8 × Val))
  | variant (name : List UInt8) (payload : Option Val)
  | bytes (bs : List UInt8)
  deriving Repr, Inhabited

def intInRange (bits : Nat) (signed : Bool) (n : Int) : Bool :=
  if signed then decide (-(2 : Int) ^ (bits - 1) ≤ n) && decide (n < (2 : Int) ^ (bits - 1))
  else decide (0 ≤ n) && decide (n < (2 : Int) ^ bits)

/-- an integer of the given width from a number literal, as serde_json reads it: the literal must
    be integer syntax; up to 64 bits it must first fit u64 / i64 (otherwise it is a float, and `-0`
    is the float -0.0), 128-bit targets take any integer literal in range -/
def decodeInt (bits : Nat) (signed : Bool) (d : Dec) : Option Int :=
  if !d.isInt then none
  else
    let n : Int := if d.neg then -(d.mant : Int) else (d.mant : Int)
    if bits ≤ 64 then
      (if d.neg then (if 0 < d.mant && d.mant ≤ 2 ^ 63 then (if intInRange bits signed n then some n else none) else none)
       else (if d.mant < 2 ^ 64 then (if intInRange bits signed n then some n else none) else none))
    else (if !signed && d.neg then none          -- a sign is never read for an unsigned 128-bit target (also `-0`)
          else if intInRange bits signed n then some n else none)

/-- number of Unicode scalars of valid UTF-8 bytes -/
def charCount (s : List UInt8) : Nat := (s.filter fun b => !(decide (128 ≤ b.toNat) && decide (b.toNat < 192))).length

/-- the whole byte string as a JSON number literal (map keys of integer type) -/
def keyDec (s : List UInt8) : Option Dec :=
  let buf := s.toArray
  match number buf 0 with
  | some e => if e = buf.size then some (decOf buf 0 e) else none
  | none => none

def decodeKey (k : KeyTy) (s : List UInt8) : Option KeyVal :=
  match k with
  | .str => some (.str s)
  | .int bits signed => (keyDec s).bind fun d => (decodeInt bits signed d).map .int
  | .bool => if s = [116, 114, 117, 101] then some (.bool true) else if s = [102, 97, 108, 115, 101] then some (.bool false) else none
  | .unitEnum names => if names.contains s then some (.str s) else none

def keyLe : KeyVal → KeyVal → Bool
  | .str a, .str b => decide (a ≤ b)
  | .int a, .int b => decide (a ≤ b)
  | .bool a, .bool b => !a || b
  | _, _ => true

/-- `BTreeMap::insert`: one entry per key (the last wins), in key order -/
def mapInsert (k : KeyVal) (v : Val) : List (KeyVal × Val) → List (KeyVal × Val)
  | [] => [(k, v)]
  | (k', v') :: rest =>
    if k' = k then (k, v) :: rest
    else if keyLe k k' then (k, v) :: (k', v') :: rest
    else (k', v') :: mapInsert k v rest

def lookupField (name : List UInt8) : List (List UInt8 × Json) → List Json
  | [] => []
  | (k, v) :: r => if k = name then v :: lookupField name r else lookupField name r

/-- `Default::default()` of the field types used with `#[serde(default)]` -/
def defaultVal : Ty → Val
  | .bool => .bool false
  | .int _ _ => .int 0
  | .f64 => .f64 0
  | .str => .str []
  | .opt _ => .none
  | .seq _ => .seq []
  | .map _ _ => .map []
  | .unit => .unit
  | _ => .unit

def sequenceOpt {α} : List (Option α) → Option (List α)
  | [] => some []
  | none :: _ => none
  | some x :: r => (sequenceOpt r).map (x :: ·)

mutual
/-- the value of type `ty` the tree denotes; `raw` tells whether a string literal had escapes
    (only needed for `&str`): supplied per string by `escaped` over the source buffer -/
def decode (buf : Buf) : Nat → Ty → Json → Option Val
  | 0, _, _ => none
  | f+1, ty, j =>
    match ty, j with
    | .bool, .bool b => some (.bool b)
    | .int bits signed, .num s e => (decodeInt bits signed (decOf buf s e)).map .int
    | .f64, .num s e => (f64Bits (decOf buf s e)).map .f64
    | .char, .str s => if charCount s = 1 then some (.str s) else none
    | .str, .str s => some (.str s)
    | .strRef, .str s => some (.str s)          -- (the escape condition is checked by `decodeDoc`)
    | .unit, .null => some .unit
    | .opt _, .null => some .none
    | .opt t, j => (decode buf f t j).map .some
    | .seq t, .arr xs => (sequenceOpt (decodeList buf f t xs)).map .seq
    | .tuple ts, .arr xs => if xs.length = ts.length then (sequenceOpt (decodeZip buf f ts xs)).map .seq else none
    | .newtype t, j => decode buf f t j
    | .map k v, .obj ms => decodeMap buf f k v ms []
    | .struct fields deny, .obj ms =>
      if deny && ms.any (fun m => !(fields.any fun fl => match fl with | .mk n _ _ => n == m.1)) then none
      else (sequenceOpt (decodeFields buf f fields ms)).map .struct
    | .struct fields _, .arr xs => (sequenceOpt (decodeFieldsSeq buf f fields xs)).bind fun vs =>
        if xs.length ≤ fields.length then some (.struct vs) else none
    | .enum vs, .str s =>
      (match vs.find? (fun v => v.name == s) with
       | some (.unit n) => some (.variant n none)
       | _ => none)
    | .enum vs, .obj [(k, payload)] =>
      (match vs.find? (fun v => v.name == k) with
       | some (.unit n) => (match payload with | .null => some (.variant n none) | _ => none)
       | some (.newtype n t) => (decode buf f t payload).map fun v => .variant n (some v)
       | some (.tuple n ts) => (decode buf f (.tuple ts) payload).map fun v => .variant n (some v)
       | some (.struct n fields) => (decode buf f (.struct fields false) payload).map fun v => .variant n (some v)
       | none => none)
    | .bytes, .str s => some (.bytes s)
    | .bytes, .arr xs => (sequenceOpt (decodeList buf f (.int 8 false) xs)).map fun vs =>
        .bytes (vs.map fun v => match v with | .int n => UInt8.ofNat n.toNat | _ => 0)
    | _, _ => none
def decodeList (buf : Buf) : Nat → Ty → List Json → List (Option Val)
  | 0, _, _ => [none]
  | _, _, [] => []
  | f+1, t, x :: r => decode buf f t x :: decodeList buf f t r
def decodeZip (buf : Buf) : Nat → List Ty → List Json → List (Option Val)
  | 0, _, _ => [none]
  | f+1, t :: ts, x :: xs => decode buf f t x :: decodeZip buf f ts xs
  | _, _, _ => []
def decodeMap (buf : Buf) : Nat → KeyTy → Ty → List (List UInt8 × Json) → List (KeyVal × Val) → Option Val
  | 0, _, _, _, _ => none
  | _, _, _, [], acc => some (.map acc)
  | f+1, k, v, (ks, x) :: r, acc =>
    match decodeKey k ks, decode buf f v x with
    | some kv, some xv => decodeMap buf f k v r (mapInsert kv xv acc)
    | _, _ => none
/-- fields of a struct read from an object: every field once (a repeated known field is an
    error), a missing field is `None` for an `Option`, the default with `#[serde(default)]` -/
def decodeFields (buf : Buf) : Nat → List Field → List (List UInt8 × Json) → List (Option (List UInt8 × Val))
  | 0, _, _ => [none]
  | _, [], _ => []
  | f+1, .mk name ty dflt :: rest, ms =>
    (match lookupField name ms with
     | [x] => (decode buf f ty x).map fun v => (name, v)
     | [] => (if dflt then some (name, defaultVal ty) else match ty with | .opt _ => some (name, .none) | _ => none)
     | _ => none) :: decodeFields buf f rest ms
/-- fields of a struct read from an array (serde's `visit_seq`): in declaration order; a missing
    trailing field is an error unless it has `#[serde(default)]` -/
def decodeFieldsSeq (buf : Buf) : Nat → List Field → List Json → List (Option (List UInt8 × Val))
  | 0, _, _ => [none]
  | _, [], _ => []
  | f+1, .mk name ty dflt :: rest, xs =>
    (match xs with
     | x :: _ => (decode buf f ty x).map fun v => (name, v)
     | [] => if dflt then some (name, defaultVal ty) else none) :: decodeFieldsSeq buf f rest xs.tail
end

/-! ### how serde_json writes such a value (`serde_json::to_string` of the Rust value) -/

def natDigits (n : Nat) : List UInt8 := (Nat.toDigits 10 n).map fun c => UInt8.ofNat c.toNat

def intText (n : Int) : List UInt8 :=
  if n < 0 then 45 :: natDigits n.natAbs else natDigits n.toNat

def joinWith (sep : List UInt8) : List (List UInt8) → List UInt8
  | [] => []
  | [x] => x
  | x :: rest => x ++ sep ++ joinWith sep rest

/-- a map key as the string it becomes -/
def keyString : KeyVal → List UInt8
  | .str s => s
  | .int n => intText n
  | .bool b => if b then [116, 114, 117, 101] else [102, 97, 108, 115, 101]

/-- how a map key is written (digits and the literals need no escaping) -/
def keyText (k : KeyVal) : List UInt8 := quoted (keyString k)

mutual
def Val.render : Val → List UInt8
  | .bool b => if b then [116, 114, 117, 101] else [102, 97, 108, 115, 101]
  | .int n => intText n
  | .f64 bits => 70 :: natDigits bits                -- floats are compared by their bits
  | .str s => quoted s
  | .unit => [110, 117, 108, 108]
  | .none => [110, 117, 108, 108]
  | .some v => v.render
  | .seq vs => [91] ++ joinWith [44] (renderL vs) ++ [93]
  | .map kvs => [123] ++ joinWith [44] (renderKV kvs) ++ [125]
  | .struct fs => [123] ++ joinWith [44] (renderF fs) ++ [125]
  | .variant n none => quoted n
  | .variant n (some v) => [123] ++ quoted n ++ [58] ++ v.render ++ [125]
  | .bytes bs => [91] ++ joinWith [44] (bs.map fun b => natDigits b.toNat) ++ [93]
def renderL : List Val → List (List UInt8)
  | [] => []
  | v :: r => v.render :: renderL r
def renderKV : List (KeyVal × Val) → List (List UInt8)
  | [] => []
  | (k, v) :: r => (keyText k ++ [58] ++ v.render) :: renderKV r
def renderF : List (List UInt8 × Val) → List (List UInt8)
  | [] => []
  | (k, v) :: r => (quoted k ++ [58] ++ v.render) :: renderF r
end

/-- the value of type `ty` a whole text denotes (strict well-formedness, valid UTF-8) -/
def decodeDoc (ty : Ty) (buf : Buf) : Option Val :=
  if !(utf8Valid buf) then none
  else match docTree false buf with
    | some j => decode buf (2 * buf.size + 8) ty j
    | none => none

end Spec
end Sonic
