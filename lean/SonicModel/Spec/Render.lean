/-
  Layer 0 — how a string is written (RFC 8259 §7 as sonic-rs / serde_json write it): quote,
  backslash and the C0 controls are escaped (short form for \b \t \n \f \r, `\u00XX` with
  lower-case hex otherwise), every other byte verbatim.
-/
import SonicModel.Basic
namespace Sonic
namespace Spec

def hexLower (n : Nat) : UInt8 := if n < 10 then (48 + n).toUInt8 else (87 + n).toUInt8

/-- escape of one byte -/
def escByte (b : UInt8) : List UInt8 :=
  if b == 34 then [92, 34]
  else if b == 92 then [92, 92]
  else if b == 8 then [92, 98]
  else if b == 9 then [92, 116]
  else if b == 10 then [92, 110]
  else if b == 12 then [92, 102]
  else if b == 13 then [92, 114]
  else if b < 32 then [92, 117, 48, 48, hexLower (b.toNat / 16), hexLower (b.toNat % 16)]
  else [b]

def needsEscape (b : UInt8) : Bool := b < 32 || b == 34 || b == 92

/-- the escaped body of a string (no quotes) -/
def escape (s : List UInt8) : List UInt8 := s.flatMap escByte

/-- the quoted literal -/
def quoted (s : List UInt8) : List UInt8 := [34] ++ escape s ++ [34]

end Spec
end Sonic
