/-
  Layer 0 — the key order of the `sort_keys` build: members of an object in ascending key order
  (bytes of the UTF-8 key, which is `str::cmp`), members with equal keys in source order.
-/
import SonicModel.Spec.Tree
namespace Sonic
namespace Spec

def insertStable {α} (p : List UInt8 × α) : List (List UInt8 × α) → List (List UInt8 × α)
  | [] => [p]
  | q :: rest => if p.1 ≤ q.1 then p :: q :: rest else q :: insertStable p rest

/-- stable sort by key: members are inserted from the right, each before the first member whose key
    is not smaller -/
def sortStable {α} (l : List (List UInt8 × α)) : List (List UInt8 × α) := l.foldr insertStable []

mutual
def sortKeys : Json → Json
  | .arr xs => .arr (sortKeysL xs)
  | .obj ms => .obj (sortStable (sortKeysM ms))
  | j => j
def sortKeysL : List Json → List Json
  | [] => []
  | x :: r => sortKeys x :: sortKeysL r
def sortKeysM : List (List UInt8 × Json) → List (List UInt8 × Json)
  | [] => []
  | (k, x) :: r => (k, sortKeys x) :: sortKeysM r
end

end Spec
end Sonic
