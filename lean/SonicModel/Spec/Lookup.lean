/-
  Layer 0 — path lookup in a JSON text and the member sequence of a container, defined
  directly on the text with the grammar recogniser of `Spec/Grammar.lean`:
  "parse, then look the path up; the first member with an equal (decoded) name wins".
  Defined for arbitrary bytes: everything that has to be traversed (names, separators, the
  members before the hit) must be well-formed, the value found must be well-formed, bytes after
  it are not looked at.  (This is what C10, C12 and C14 quantify over.)
-/
import SonicModel.Spec.Grammar
namespace Sonic
namespace Spec

inductive Step where
  | key (k : List UInt8)
  | idx (n : Nat)
  deriving Repr, DecidableEq, Inhabited

/-- outcome of a lookup -/
inductive Look where
  | found (s e : Nat)      -- span of the value, no surrounding whitespace
  | missing                -- well-formed so far, but the key / index does not exist
  | wrongKind              -- a key was asked of a non-object / an index of a non-array (itself well-formed)
  | malformed              -- the traversed text is not well-formed JSON
  deriving Repr, DecidableEq, Inhabited

/-- span of the value starting at its first byte `i` -/
def valueSpan (buf : Buf) (i : Nat) : Look :=
  match value false (fuelFor buf) buf i with
  | .ok e => .found i e
  | _ => .malformed

/-- where the searched member / element is -/
inductive Find where
  | at (v : Nat)     -- first byte of the value
  | missing
  | malformed
  deriving Repr, DecidableEq, Inhabited

/-- `i` at the opening quote of a member name: position of the value of the first member named
    `k` (everything before it must be well-formed) -/
def findMember (buf : Buf) (k : List UInt8) (i : Nat) : Find :=
  if hq : buf[i]? = some 34 then
    match stringS false buf (i+1) with
    | none => .malformed
    | some (name, e1) =>
      let c := skipWs buf e1
      if buf[c]? = some 58 then
        let v := skipWs buf (c+1)
        if name = k then .at v
        else match value false (fuelFor buf) buf v with
          | .ok e =>
            let j := skipWs buf e
            if buf[j]? = some 125 then .missing
            else if buf[j]? = some 44 then
              (if _hlt : i < skipWs buf (j+1) then findMember buf k (skipWs buf (j+1)) else .malformed)
            else .malformed
          | _ => .malformed
      else .malformed
  else .malformed
termination_by buf.size - i
decreasing_by
  have := (Array.getElem?_eq_some_iff.mp hq).1
  have h2 : i < skipWs buf (skipWs buf e + 1) := _hlt
  omega

/-- `i` at the first byte of an element: position of the element `n` places further -/
def findElem (buf : Buf) : Nat → Nat → Find
  | 0, i => .at i
  | n+1, i =>
    match value false (fuelFor buf) buf i with
    | .ok e =>
      let j := skipWs buf e
      if buf[j]? = some 93 then .missing
      else if buf[j]? = some 44 then
        -- a comma must be followed by an element
        (if skipWs buf (j+1) < buf.size then findElem buf n (skipWs buf (j+1)) else .malformed)
      else .malformed
    | _ => .malformed

/-- look `path` up in the value whose first byte is at `i` -/
def look (buf : Buf) : Nat → List Step → Look
  | i, [] => valueSpan buf i
  | i, .key k :: rest =>
    if buf[i]? = some 123 then
      let j := skipWs buf (i+1)
      if buf[j]? = some 125 then .missing
      else match findMember buf k j with
        | .at v => look buf v rest
        | .missing => .missing
        | .malformed => .malformed
    else match value false (fuelFor buf) buf i with   -- not an object: wrong kind
      | .ok _ => .wrongKind
      | _ => .malformed
  | i, .idx n :: rest =>
    if buf[i]? = some 91 then
      let j := skipWs buf (i+1)
      if buf[j]? = some 93 then .missing
      else match findElem buf n j with
        | .at v => look buf v rest
        | .missing => .missing
        | .malformed => .malformed
    else match value false (fuelFor buf) buf i with
      | .ok _ => .wrongKind
      | _ => .malformed

/-- lookup in a whole text -/
def lookup (buf : Buf) (path : List Step) : Look :=
  look buf (skipWs buf 0) path

/-! ### member sequences (C12) -/

/-- items of an array from the first byte `p` of an element on: spans of the leading well-formed
    elements, and how the sequence ends: `true` = clean `]`, `false` = a violation after the
    listed items -/
def arrayGo (buf : Buf) (p : Nat) : List (Nat × Nat) × Bool :=
  match value false (fuelFor buf) buf p with
  | .ok e =>
    if buf[skipWs buf e]? = some 93 then ([(p, e)], true)
    else if buf[skipWs buf e]? = some 44 then
      -- (the guard always holds: a value is non-empty; it only makes termination evident)
      if _h : p < skipWs buf (skipWs buf e + 1) ∧ p < buf.size then
        ((p, e) :: (arrayGo buf (skipWs buf (skipWs buf e + 1))).1, (arrayGo buf (skipWs buf (skipWs buf e + 1))).2)
      else ([(p, e)], false)
    else ([(p, e)], false)
  | _ => ([], false)
termination_by buf.size - p
decreasing_by all_goals omega

/-- items of the array whose `[` is at `i` -/
def arrayItems (buf : Buf) (i : Nat) : List (Nat × Nat) × Bool :=
  if buf[i]? = some 91 then
    let j := skipWs buf (i+1)
    if buf[j]? = some 93 then ([], true) else arrayGo buf j
  else ([], false)

/-- entries of an object from the opening quote `p` of a member name on:
    (decoded name, span of the value) -/
def objectGo (buf : Buf) (p : Nat) : List (List UInt8 × Nat × Nat) × Bool :=
  if buf[p]? = some 34 then
    match stringS false buf (p+1) with
    | none => ([], false)
    | some (name, e1) =>
      let c := skipWs buf e1
      if buf[c]? = some 58 then
        let v := skipWs buf (c+1)
        match value false (fuelFor buf) buf v with
        | .ok e =>
          if buf[skipWs buf e]? = some 125 then ([(name, v, e)], true)
          else if buf[skipWs buf e]? = some 44 then
            if _h : p < skipWs buf (skipWs buf e + 1) ∧ p < buf.size then
              ((name, v, e) :: (objectGo buf (skipWs buf (skipWs buf e + 1))).1, (objectGo buf (skipWs buf (skipWs buf e + 1))).2)
            else ([(name, v, e)], false)
          else ([(name, v, e)], false)
        | _ => ([], false)
      else ([], false)
  else ([], false)
termination_by buf.size - p
decreasing_by all_goals omega

/-- entries of the object whose `{` is at `i` -/
def objectItems (buf : Buf) (i : Nat) : List (List UInt8 × Nat × Nat) × Bool :=
  if buf[i]? = some 123 then
    let j := skipWs buf (i+1)
    if buf[j]? = some 125 then ([], true) else objectGo buf j
  else ([], false)

end Spec
end Sonic
