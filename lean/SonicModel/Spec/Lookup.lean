/-
  Layer 0 — path lookup in a JSON text and the member sequence of a container, defined
  directly on the text with the grammar recogniser of `Spec/Grammar.lean`:
  "parse, then look the path up; the first member with an equal (decoded) name wins".
  Defined for arbitrary bytes: everything that has to be traversed (names, separators, the
  members before the hit) must be well-formed, the value found must be well-formed, bytes after
  it are not looked at.  (This is what C10, C12 and C14 quantify over.)
-/
import SonicModel.Spec.Grammar
namespace Sonic
namespace Spec

inductive Step where
  | key (k : List UInt8)
  | idx (n : Nat)
  deriving Repr, DecidableEq, Inhabited

/-- outcome of a lookup -/
inductive Look where
  | found (s e : Nat)      -- span of the value, no surrounding whitespace
  | missing                -- well-formed so far, but the key / index does not exist
  | wrongKind              -- a key was asked of a non-object / an index of a non-array (itself well-formed)
  | malformed              -- the traversed text is not well-formed JSON
  | fuel
  deriving Repr, DecidableEq, Inhabited

/-- span of the value starting at its first byte `i` -/
def valueSpan (buf : Buf) (i : Nat) : Look :=
  match value false (fuelFor buf) buf i with
  | .ok e => .found i e
  | .err => .malformed
  | .fuel => .fuel

mutual
/-- look `path` up in the value whose first byte is at `i` -/
def look : Nat → Buf → Nat → List Step → Look
  | 0, _, _, _ => .fuel
  | _+1, buf, i, [] => valueSpan buf i
  | f+1, buf, i, .key k :: rest =>
    if buf[i]? = some 123 then
      let j := skipWs buf (i+1)
      if buf[j]? = some 125 then .missing else lookMember f buf j k rest
    else match value false (fuelFor buf) buf i with   -- not an object: wrong kind
      | .ok _ => .wrongKind
      | .err => .malformed
      | .fuel => .fuel
  | f+1, buf, i, .idx n :: rest =>
    if buf[i]? = some 91 then
      let j := skipWs buf (i+1)
      if buf[j]? = some 93 then .missing else lookElem f buf j n rest
    else match value false (fuelFor buf) buf i with
      | .ok _ => .wrongKind
      | .err => .malformed
      | .fuel => .fuel
/-- `i` at the opening quote of a member name -/
def lookMember : Nat → Buf → Nat → List UInt8 → List Step → Look
  | 0, _, _, _, _ => .fuel
  | f+1, buf, i, k, rest =>
    if buf[i]? = some 34 then
      match stringS false buf (i+1) with
      | none => .malformed
      | some (name, e1) =>
        let c := skipWs buf e1
        if buf[c]? = some 58 then
          let v := skipWs buf (c+1)
          if name = k then look f buf v rest
          else match value false (fuelFor buf) buf v with
            | .ok e =>
              let j := skipWs buf e
              if buf[j]? = some 125 then .missing
              else if buf[j]? = some 44 then lookMember f buf (skipWs buf (j+1)) k rest
              else .malformed
            | .err => .malformed
            | .fuel => .fuel
        else .malformed
    else .malformed
/-- `i` at the first byte of element number `n` counted from here -/
def lookElem : Nat → Buf → Nat → Nat → List Step → Look
  | 0, _, _, _, _ => .fuel
  | f+1, buf, i, 0, rest => look f buf i rest
  | f+1, buf, i, n+1, rest =>
    match value false (fuelFor buf) buf i with
    | .ok e =>
      let j := skipWs buf e
      if buf[j]? = some 93 then .missing
      else if buf[j]? = some 44 then lookElem f buf (skipWs buf (j+1)) n rest
      else .malformed
    | .err => .malformed
    | .fuel => .fuel
end

def lookFuel (buf : Buf) (path : List Step) : Nat := 2 * buf.size + 2 * path.length + 4

/-- lookup in a whole text -/
def lookup (buf : Buf) (path : List Step) : Look :=
  look (lookFuel buf path) buf (skipWs buf 0) path

/-! ### member sequences (C12) -/

/-- items of the array whose `[` is at `i`: spans of the leading well-formed elements, and how the
    sequence ends: `true` = clean `]`, `false` = a violation after the listed items -/
def arrayItems (fuel : Nat) (buf : Buf) (i : Nat) : List (Nat × Nat) × Bool :=
  if buf[i]? = some 91 then
    let j := skipWs buf (i+1)
    if buf[j]? = some 93 then ([], true) else go fuel j
  else ([], false)
where
  go : Nat → Nat → List (Nat × Nat) × Bool
  | 0, _ => ([], false)
  | f+1, p =>
    match value false (fuelFor buf) buf p with
    | .ok e =>
      let j := skipWs buf e
      if buf[j]? = some 93 then ([(p, e)], true)
      else if buf[j]? = some 44 then
        let (l, ok) := go f (skipWs buf (j+1))
        ((p, e) :: l, ok)
      else ([(p, e)], false)
    | _ => ([], false)

/-- entries of the object whose `{` is at `i`: (decoded name, span of the value) -/
def objectItems (fuel : Nat) (buf : Buf) (i : Nat) : List (List UInt8 × Nat × Nat) × Bool :=
  if buf[i]? = some 123 then
    let j := skipWs buf (i+1)
    if buf[j]? = some 125 then ([], true) else go fuel j
  else ([], false)
where
  go : Nat → Nat → List (List UInt8 × Nat × Nat) × Bool
  | 0, _ => ([], false)
  | f+1, p =>
    if buf[p]? = some 34 then
      match stringS false buf (p+1) with
      | none => ([], false)
      | some (name, e1) =>
        let c := skipWs buf e1
        if buf[c]? = some 58 then
          let v := skipWs buf (c+1)
          match value false (fuelFor buf) buf v with
          | .ok e =>
            let j := skipWs buf e
            if buf[j]? = some 125 then ([(name, v, e)], true)
            else if buf[j]? = some 44 then
              let (l, ok) := go f (skipWs buf (j+1))
              ((name, v, e) :: l, ok)
            else ([(name, v, e)], false)
          | _ => ([], false)
        else ([], false)
    else ([], false)

end Spec
end Sonic
