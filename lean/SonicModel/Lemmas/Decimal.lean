import SonicModel.Lemmas.NumProof
namespace Sonic
open Impl Spec

def digitChar (d : Nat) : UInt8 :=
  match d with
  | 0 => 48 | 1 => 49 | 2 => 50 | 3 => 51 | 4 => 52 | 5 => 53 | 6 => 54 | 7 => 55 | 8 => 56 | _ => 57

/-- canonical decimal rendering (what itoa is assumed to print for a non-negative integer) -/
def decimal (n : Nat) : List UInt8 :=
  if n < 10 then [digitChar n] else decimal (n / 10) ++ [digitChar (n % 10)]
decreasing_by omega

/-- value of a digit list -/
def listVal (l : List UInt8) (acc : Nat) : Nat := l.foldl (fun a b => a * 10 + (b.toNat - 48)) acc

theorem digitChar_spec (d : Nat) (h : d < 10) :
    (digitChar d).toNat - 48 = d ∧ isDigit (digitChar d) = true ∧ (0 < d → digitChar d ≠ 48) := by
  have : d = 0 ∨ d = 1 ∨ d = 2 ∨ d = 3 ∨ d = 4 ∨ d = 5 ∨ d = 6 ∨ d = 7 ∨ d = 8 ∨ d = 9 := by omega
  rcases this with h|h|h|h|h|h|h|h|h|h <;> subst h <;> decide

theorem listVal_append (a b : List UInt8) (acc : Nat) : listVal (a ++ b) acc = listVal b (listVal a acc) := by
  simp [listVal]

theorem decimal_val (n : Nat) : listVal (decimal n) 0 = n := by
  fun_induction decimal n
  · rename_i n h
    simp [listVal, (digitChar_spec n h).1]
  · rename_i n h ih
    rw [listVal_append, ih]
    simp only [listVal, List.foldl_cons, List.foldl_nil]
    rw [(digitChar_spec (n % 10) (by omega)).1]
    omega

theorem decimal_digits (n : Nat) : ∀ b ∈ decimal n, isDigit b = true := by
  fun_induction decimal n
  · rename_i n h
    intro b hb; simp at hb; subst hb; exact (digitChar_spec n h).2.1
  · rename_i n h ih
    intro b hb
    simp at hb
    rcases hb with hb | hb
    · exact ih b hb
    · subst hb; exact (digitChar_spec (n % 10) (by omega)).2.1

theorem decimal_head (n : Nat) (hn : 0 < n) : ∃ b, (decimal n).head? = some b ∧ b ≠ 48 := by
  fun_induction decimal n
  · rename_i n h
    exact ⟨digitChar n, by simp, (digitChar_spec n h).2.2 hn⟩
  · rename_i n h ih
    obtain ⟨b, hb, hne⟩ := ih (by omega)
    refine ⟨b, ?_, hne⟩
    cases hd : decimal (n / 10) with
    | nil => simp [hd] at hb
    | cons x xs => simp [hd] at hb ⊢; exact hb

theorem decimal_length (n : Nat) : ∀ k, 1 ≤ k → n < 10 ^ k → 1 ≤ (decimal n).length ∧ (decimal n).length ≤ k := by
  fun_induction decimal n
  · intro k hk _; simp; omega
  · rename_i n h ih
    intro k hk hlt
    cases k with
    | zero => omega
    | succ k =>
      have hk1 : 1 ≤ k := by
        cases k with
        | zero => simp at hlt; omega
        | succ k => omega
      have : n / 10 < 10 ^ k := by
        rw [Nat.pow_succ] at hlt
        omega
      have := ih k hk1 this
      simp; omega

/-- the index-based digit reader agrees with the list fold -/
theorem digitsVal_list (l : List UInt8) : ∀ (m i acc : Nat), l.length - i = m → i ≤ l.length →
    digitsVal l.toArray i l.length acc = listVal (l.drop i) acc := by
  intro m
  induction m with
  | zero =>
    intro i acc hm hi
    have : i = l.length := by omega
    subst this
    rw [digitsVal]; simp [listVal]
  | succ m ih =>
    intro i acc hm hi
    have hlt : i < l.length := by omega
    rw [digitsVal]
    have hc : i < l.length ∧ i < l.toArray.size := by simp [hlt]
    simp only [hc, and_self, dite_true]
    rw [ih (i+1) _ (by omega) (by omega)]
    have hd : l.drop i = l[i] :: l.drop (i+1) := List.drop_eq_getElem_cons hlt
    rw [hd]
    simp only [listVal, List.foldl_cons, List.getElem_toArray]

end Sonic
