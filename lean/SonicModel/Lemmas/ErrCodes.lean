import SonicModel.Impl.Skip
import SonicModel.Lemmas.ImplFuel
namespace Sonic
open Gen Impl

/-- a result whose error (if any) is not in the not-found category -/
def NotNF (r : IRes) : Prop := ∀ c p, r = .err c p → c.category ≠ .NotFound

theorem skipSingleDigit_nnf (buf : Buf) (i : Nat) : NotNF (skipSingleDigit buf i) := by
  intro c p h; unfold skipSingleDigit at h
  grind [Code.category]

theorem skipExponent_nnf (buf : Buf) (i : Nat) : NotNF (skipExponent buf i) := by
  intro c p h; unfold skipExponent at h
  have := skipSingleDigit_nnf buf
  grind [NotNF]

theorem numTail_nnf (buf : Buf) (i : Nat) (b : Bool) : NotNF (numTail buf i b) := by
  intro c p h; unfold numTail at h
  have := skipSingleDigit_nnf buf
  have := skipExponent_nnf buf
  grind [NotNF]

theorem numAfterFirst_nnf (buf : Buf) (f : UInt8) (i : Nat) : NotNF (numAfterFirst buf f i) := by
  intro c p h; unfold numAfterFirst at h
  have := skipSingleDigit_nnf buf
  have := skipExponent_nnf buf
  have := numTail_nnf buf
  grind [NotNF, Code.category]

theorem doSkipNumber_nnf (buf : Buf) (f : UInt8) (i : Nat) : NotNF (doSkipNumber buf f i) := by
  intro c p h; unfold doSkipNumber at h
  have := skipSingleDigit_nnf buf
  have := numAfterFirst_nnf buf
  grind [NotNF]

theorem skipEscapedChars_nnf (buf : Buf) (len i : Nat) : NotNF (skipEscapedChars buf len i) := by
  intro c p h; unfold skipEscapedChars at h
  grind [Code.category]

theorem skipString_nnf (buf : Buf) (len i : Nat) : NotNF (skipString buf len i) := by
  have := skipEscapedChars_nnf buf len
  fun_induction skipString buf len i <;> grind [NotNF, Code.category]

theorem parseLiteral_nnf (buf : Buf) (i : Nat) (l : List UInt8) : NotNF (parseLiteral buf i l) := by
  intro c p h; unfold parseLiteral at h
  grind [Code.category]

theorem parseObjectClo_nnf (buf : Buf) (i : Nat) : NotNF (parseObjectClo buf i) := by
  intro c p h; unfold parseObjectClo at h
  grind [Code.category]

/-- no function of the validate-and-skip path can raise a not-found error -/
theorem skip_nnf (len : Nat) (buf : Buf) : ∀ f i,
    NotNF (skipOne len f buf i) ∧ NotNF (skipArray len f buf i) ∧ NotNF (skipArrayLoop len f buf i) ∧
    NotNF (skipObject len f buf i) ∧ NotNF (skipObjectLoop len f buf i) := by
  intro f
  induction f with
  | zero => intro i; simp [NotNF, skipOne, skipArray, skipArrayLoop, skipObject, skipObjectLoop]
  | succ f ih =>
    intro i
    have ih1 := fun j => (ih j).1
    have ih2 := fun j => (ih j).2.1
    have ih3 := fun j => (ih j).2.2.1
    have ih4 := fun j => (ih j).2.2.2.1
    have ih5 := fun j => (ih j).2.2.2.2
    clear ih
    have h1 := doSkipNumber_nnf buf
    have h2 := skipString_nnf buf len
    have h3 := parseLiteral_nnf buf
    have h4 := parseObjectClo_nnf buf
    refine ⟨?_, ?_, ?_, ?_, ?_⟩
    · intro c p h; unfold skipOne at h; grind [NotNF, Code.category]
    · intro c p h; unfold skipArray at h; grind [NotNF, Code.category]
    · intro c p h; unfold skipArrayLoop at h; grind [NotNF, Code.category]
    · intro c p h; unfold skipObject at h; grind [NotNF, Code.category]
    · intro c p h; unfold skipObjectLoop at h
      cases hs : skipString buf len i with
      | fuel => simp [hs] at h
      | err c' p' => simp only [hs] at h; exact h2 i c p (by rw [hs, h])
      | ok k =>
        simp only [hs] at h
        cases hc : parseObjectClo buf k with
        | fuel => simp [hc] at h
        | err c' p' => simp only [hc] at h; exact h4 k c p (by rw [hc, h])
        | ok v =>
          simp only [hc] at h
          cases ho : skipOne len f buf v with
          | fuel => simp [ho] at h
          | err c' p' => simp only [ho] at h; exact ih1 v c p (by rw [ho, h])
          | ok e =>
            simp only [ho] at h
            grind [NotNF, Code.category]

end Sonic
