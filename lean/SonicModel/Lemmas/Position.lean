import SonicModel.Impl.Err
namespace Sonic

def posStep (p : Nat × Nat) (ch : UInt8) : Nat × Nat :=
  if ch == 10 then (p.1 + 1, 0) else (p.1, p.2 + 1)

theorem takeWhile_append_of_mem {α} (p : α → Bool) (l1 l2 : List α) (h : ∃ x ∈ l1, p x = false) :
    (l1 ++ l2).takeWhile p = l1.takeWhile p := by
  induction l1 with
  | nil => simp at h
  | cons a l ih =>
    simp only [List.cons_append, List.takeWhile_cons]
    by_cases ha : p a = true
    · simp only [ha, ite_true]
      congr 1
      apply ih
      obtain ⟨x, hx, hp⟩ := h
      cases hx with
      | head => simp [ha] at hp
      | tail _ hm => exact ⟨x, hm, hp⟩
    · simp [ha]

theorem takeWhile_append_of_all {α} (p : α → Bool) (l1 l2 : List α) (h : ∀ x ∈ l1, p x = true) :
    (l1 ++ l2).takeWhile p = l1 ++ l2.takeWhile p := by
  induction l1 with
  | nil => simp
  | cons a l ih =>
    simp only [List.cons_append, List.takeWhile_cons]
    have ha : p a = true := h a (by simp)
    simp only [ha, ite_true]
    congr 1
    exact ih (fun x hx => h x (by simp [hx]))

theorem foldl_pos (l : List UInt8) : ∀ p : Nat × Nat,
    l.foldl posStep p =
      (p.1 + l.count 10,
       if 10 ∈ l then (l.reverse.takeWhile (· != 10)).length else p.2 + l.length) := by
  induction l with
  | nil => intro p; simp
  | cons c l ih =>
    intro p
    simp only [List.foldl_cons]
    rw [ih]
    by_cases hc : c = 10
    · subst hc
      simp only [posStep, beq_self_eq_true, ite_true, List.count_cons_self, List.mem_cons, true_or,
        List.reverse_cons]
      refine Prod.ext (by simp; omega) ?_
      simp only
      by_cases hm : (10 : UInt8) ∈ l
      · simp only [hm, ite_true]
        rw [takeWhile_append_of_mem]
        exact ⟨10, by simpa using hm, by simp⟩
      · simp only [hm, ite_false]
        rw [takeWhile_append_of_all]
        · simp
        · intro x hx
          have : x ≠ 10 := by
            intro h; subst h; exact hm (by simpa using hx)
          simpa using this
    · have hc' : (c == 10) = false := by simpa using hc
      simp only [posStep, hc', Bool.false_eq_true, ite_false, List.reverse_cons]
      have hcnt : (c :: l).count 10 = l.count 10 := by
        simp [hc]
      refine Prod.ext (by simp [hcnt]) ?_
      simp only [List.mem_cons]
      have hne : ¬ ((10 : UInt8) = c) := fun h => hc h.symm
      by_cases hm : (10 : UInt8) ∈ l
      · simp only [hm, ite_true, or_true]
        rw [takeWhile_append_of_mem]
        exact ⟨10, by simpa using hm, by simp⟩
      · simp only [hm, hne, or_self, ite_false, List.length_cons]
        omega

theorem position_eq (data : Buf) (i : Nat) :
    Impl.positionFromIndex data i = Spec.position data (min i data.size) := by
  unfold Impl.positionFromIndex Spec.position
  have : (fun (p : Nat × Nat) (ch : UInt8) => if ch == 10 then (p.1 + 1, 0) else (p.1, p.2 + 1)) = posStep := rfl
  simp only [this]
  rw [foldl_pos]
  simp only
  refine Prod.ext rfl ?_
  simp only
  by_cases hm : (10 : UInt8) ∈ List.take (min i data.size) data.toList
  · simp [hm]
  · simp only [hm, ite_false]
    have hall : ∀ x ∈ (List.take (min i data.size) data.toList).reverse, (x != 10) = true := by
      intro x hx
      have : x ≠ 10 := by
        intro h; subst h; exact hm (by simpa using hx)
      simpa using this
    have := takeWhile_append_of_all (· != 10) (List.take (min i data.size) data.toList).reverse [] hall
    simp only [List.append_nil, List.takeWhile_nil] at this
    rw [this]
    simp

end Sonic
