import SonicModel.Spec.DomVal
namespace Sonic
namespace Spec

theorem intText_ofNat (n : Nat) : intText (n : Int) = natDigits n := by
  simp [intText]

theorem renderL_bytes (bs : List UInt8) :
    DJ.renderL (bs.map fun b => DJ.int b.toNat) = bs.map fun b => natDigits b.toNat := by
  induction bs with
  | nil => rfl
  | cons b r ih => simp [DJ.renderL, DJ.render, intText_ofNat, ih]

mutual
/-- **writing a value as text equals converting it to a DOM value and writing that**:
    `to_string(x) = to_string(to_value(x))` on the data model -/
theorem render_toJ : ∀ v : Val, v.render = v.toJ.render
  | .bool b => by simp [Val.render, Val.toJ, DJ.render]
  | .int n => by simp [Val.render, Val.toJ, DJ.render]
  | .f64 b => by simp [Val.render, Val.toJ, DJ.render]
  | .str s => by simp [Val.render, Val.toJ, DJ.render]
  | .unit => by simp [Val.render, Val.toJ, DJ.render]
  | .none => by simp [Val.render, Val.toJ, DJ.render]
  | .some v => by simp [Val.render, Val.toJ, render_toJ v]
  | .seq vs => by simp [Val.render, Val.toJ, DJ.render, renderL_toJ vs]
  | .map kvs => by simp [Val.render, Val.toJ, DJ.render, renderKV_toJ kvs]
  | .struct fs => by simp [Val.render, Val.toJ, DJ.render, renderF_toJ fs]
  | .variant n none => by simp [Val.render, Val.toJ, DJ.render]
  | .variant n (some v) => by simp [Val.render, Val.toJ, DJ.render, DJ.renderM, joinWith, render_toJ v]
  | .bytes bs => by simp [Val.render, Val.toJ, DJ.render, renderL_bytes]
theorem renderL_toJ : ∀ vs : List Val, renderL vs = DJ.renderL (toJL vs)
  | [] => by simp [renderL, toJL, DJ.renderL]
  | v :: r => by simp [renderL, toJL, DJ.renderL, render_toJ v, renderL_toJ r]
theorem renderKV_toJ : ∀ kvs : List (KeyVal × Val), renderKV kvs = DJ.renderM (toJKV kvs)
  | [] => by simp [renderKV, toJKV, DJ.renderM]
  | (k, v) :: r => by simp [renderKV, toJKV, DJ.renderM, keyText, render_toJ v, renderKV_toJ r]
theorem renderF_toJ : ∀ fs : List (List UInt8 × Val), renderF fs = DJ.renderM (toJF fs)
  | [] => by simp [renderF, toJF, DJ.renderM]
  | (k, v) :: r => by simp [renderF, toJF, DJ.renderM, render_toJ v, renderF_toJ r]
end

/-! ### equality -/

theorem getFirst_depth (k : List UInt8) (ms : List (List UInt8 × DJ)) (a : DJ) (h : getFirst k ms = some a) :
    a.depth ≤ DJ.depthM ms := by
  induction ms with
  | nil => simp [getFirst] at h
  | cons m r ih =>
    obtain ⟨k', v⟩ := m
    simp only [getFirst] at h
    split at h
    · simp at h; subst h; simp [DJ.depthM]; omega
    · have := ih h; simp [DJ.depthM]; omega

theorem eqvKeys_refl (f : Nat) (ms : List (List UInt8 × DJ)) (hr : ∀ a, a.depth ≤ DJ.depthM ms → eqv f a a = true) :
    ∀ ks : List (List UInt8 × DJ), (∀ p ∈ ks, (getFirst p.1 ms).isSome) → eqvKeys f ks ms ms = true := by
  intro ks
  induction ks with
  | nil => intro _; simp [eqvKeys]
  | cons p rest ih =>
    intro h
    obtain ⟨k, v⟩ := p
    have hk := h (k, v) (by simp)
    simp only [eqvKeys]
    cases hg : getFirst k ms with
    | none => rw [hg] at hk; simp at hk
    | some a =>
      simp only [Bool.and_eq_true]
      exact ⟨hr a (getFirst_depth k ms a hg), ih (fun p hp => h p (by simp [hp]))⟩

theorem getFirst_self (ms : List (List UInt8 × DJ)) : ∀ p ∈ ms, (getFirst p.1 ms).isSome := by
  intro p hp
  induction ms with
  | nil => simp at hp
  | cons m r ih =>
    obtain ⟨k', v⟩ := m
    simp only [getFirst]
    split
    · simp
    · rename_i hne
      rcases List.mem_cons.mp hp with rfl | h
      · simp at hne
      · exact ih h

/-- **DOM equality is reflexive** (also for objects with duplicated keys) -/
theorem eqv_refl : ∀ (f : Nat) (a : DJ), a.depth ≤ f → eqv f a a = true := by
  intro f
  induction f with
  | zero => intro a h; cases a <;> simp [DJ.depth] at h
  | succ f ih =>
    intro a h
    cases a with
    | arr xs =>
      simp only [eqv]
      simp only [DJ.depth] at h
      have : ∀ l : List DJ, DJ.depthL l ≤ f → eqvL f l l = true := by
        intro l
        induction l with
        | nil => intro _; simp [eqvL]
        | cons x r ihl =>
          intro hl
          simp only [DJ.depthL] at hl
          simp only [eqvL, Bool.and_eq_true]
          exact ⟨ih x (by omega), ihl (by omega)⟩
      exact this xs (by omega)
    | obj ms =>
      simp only [eqv, Bool.and_eq_true, beq_self_eq_true, true_and]
      simp only [DJ.depth] at h
      have := eqvKeys_refl f ms (fun a ha => ih a (by omega)) ms (getFirst_self ms)
      refine ⟨this, ?_⟩
      simp only [keysIn, List.all_eq_true]
      exact getFirst_self ms
    | _ => simp [eqv, f64Eq]

theorem getFirst_mem (k : List UInt8) (ms : List (List UInt8 × DJ)) (a : DJ) (h : getFirst k ms = some a) : (k, a) ∈ ms := by
  induction ms with
  | nil => simp [getFirst] at h
  | cons m r ih =>
    obtain ⟨k', v⟩ := m
    simp only [getFirst] at h
    split at h
    · rename_i e; simp at h; subst h; subst e; simp
    · simp [ih h]

/-- the comparison of one key -/
def cmpKey (f : Nat) (x y : Option DJ) : Bool :=
  match x, y with
  | some a, some b => eqv f a b
  | none, none => true
  | _, _ => false

theorem eqvKeys_iff (f : Nat) (ms ns : List (List UInt8 × DJ)) : ∀ ks : List (List UInt8 × DJ),
    eqvKeys f ks ms ns = true ↔ ∀ p ∈ ks, cmpKey f (getFirst p.1 ms) (getFirst p.1 ns) = true := by
  intro ks
  induction ks with
  | nil => simp [eqvKeys]
  | cons p rest ih =>
    obtain ⟨k, v⟩ := p
    simp only [eqvKeys, Bool.and_eq_true, ih, List.mem_cons, forall_eq_or_imp]
    constructor
    · rintro ⟨h1, h2⟩
      refine ⟨?_, h2⟩
      unfold cmpKey
      cases hm : getFirst k ms <;> cases hn : getFirst k ns <;> simp_all
    · rintro ⟨h1, h2⟩
      refine ⟨?_, h2⟩
      unfold cmpKey at h1
      cases hm : getFirst k ms <;> cases hn : getFirst k ns <;> simp_all

/-- one direction of the symmetry of the object comparison -/
theorem objEq_swap (f : Nat) (ih : ∀ a b : DJ, eqv f a b = eqv f b a) (ms ns : List (List UInt8 × DJ))
    (hK : eqvKeys f ms ns ms = true) (hX : keysIn ns ms = true) :
    eqvKeys f ns ms ns = true ∧ keysIn ms ns = true := by
  rw [eqvKeys_iff] at hK
  simp only [keysIn, List.all_eq_true] at hX
  constructor
  · rw [eqvKeys_iff]
    intro p hp
    -- the key of `p` occurs in `ms`, so the forward comparison covers it
    have hsome := hX p hp
    cases hm : getFirst p.1 ms with
    | none => rw [hm] at hsome; simp at hsome
    | some a =>
      have hmem := getFirst_mem p.1 ms a hm
      have hk := hK (p.1, a) hmem
      have hk' : cmpKey f (getFirst p.1 ns) (some a) = true := by
        have e : getFirst (p.1, a).1 ms = some a := hm
        rw [e] at hk; exact hk
      cases hn : getFirst p.1 ns with
      | none => rw [hn] at hk'; simp [cmpKey] at hk'
      | some b =>
        rw [hn] at hk'
        simp only [cmpKey] at hk' ⊢
        rw [ih a b]; exact hk'
  · simp only [keysIn, List.all_eq_true]
    intro p hp
    have hk := hK p hp
    have hs := getFirst_self ms p hp
    cases hm : getFirst p.1 ms with
    | none => rw [hm] at hs; simp at hs
    | some a =>
      rw [hm] at hk
      cases hn : getFirst p.1 ns with
      | none => rw [hn] at hk; simp [cmpKey] at hk
      | some b => simp

/-- **DOM equality is symmetric** (the repaired `Object::eq` also requires every key of the right
    object to occur in the left one) -/
theorem eqv_symm : ∀ (f : Nat) (a b : DJ), eqv f a b = eqv f b a := by
  intro f
  induction f with
  | zero => intro a b; simp [eqv]
  | succ f ih =>
    intro a b
    cases a <;> cases b <;> simp only [eqv] <;> try (simp only [Bool.beq_comm])
    · rename_i x y; simp only [f64Eq]; rw [Bool.beq_comm (a := x) (b := y), Bool.and_comm]
    · -- arrays
      rename_i xs ys
      have : ∀ (l m : List DJ), eqvL f l m = eqvL f m l := by
        intro l
        induction l with
        | nil => intro m; cases m <;> simp [eqvL]
        | cons x r ihl =>
          intro m
          cases m with
          | nil => simp [eqvL]
          | cons y s => simp only [eqvL]; rw [ih x y, ihl s]
      exact this xs ys
    · -- objects
      rename_i ms ns
      have hlen : (ms.length == ns.length) = (ns.length == ms.length) := by
        rw [Bool.beq_comm]
      rw [hlen]
      cases hl : (ns.length == ms.length)
      · simp
      · simp only [Bool.true_and]
        cases h1 : (eqvKeys f ms ns ms && keysIn ns ms) <;> cases h2 : (eqvKeys f ns ms ns && keysIn ms ns) <;> try rfl
        · -- right true, left false: impossible
          simp only [Bool.and_eq_true] at h2
          have := objEq_swap f (fun a b => ih a b) ns ms h2.1 h2.2
          simp [this.1, this.2] at h1
        · simp only [Bool.and_eq_true] at h1
          have := objEq_swap f (fun a b => ih a b) ms ns h1.1 h1.2
          simp [this.1, this.2] at h2

theorem DJ.eq_symm (a b : DJ) : a.eq b = b.eq a := by
  unfold DJ.eq
  rw [Nat.max_comm, eqv_symm]

theorem DJ.eq_refl (a : DJ) : a.eq a = true := eqv_refl _ a (by simp)

end Spec
end Sonic
