import SonicModel.Lemmas.NumFloatLit
namespace Sonic
open Impl Spec

/-! ### the contract between the digit machine and the float back end -/

/-- the request `sig · 10^e` (flag `trunc`) against the exact value `mant · 10^e10`: the significand is the
    value with its last `k` digits cut off, `e` makes up for them, and without the flag nothing was cut -/
def Approx (sig : Nat) (e : Int) (trunc : Bool) (mant : Nat) (e10 : Int) : Prop :=
  ∃ k : Nat, e = e10 + (k : Int) ∧ sig * 10 ^ k ≤ mant ∧ mant < (sig + 1) * 10 ^ k ∧
    (trunc = false → k = 0 ∧ mant = sig)

theorem split_value (a b : List UInt8) (acc : Nat) (hb : allDigits b) :
    digitsOf a acc * 10 ^ b.length ≤ digitsOf (a ++ b) acc ∧
    digitsOf (a ++ b) acc < (digitsOf a acc + 1) * 10 ^ b.length := by
  rw [digitsOf_append, digitsOf_acc b]
  have := digitsOf_lt b hb
  rw [Nat.add_mul]
  constructor <;> omega

theorem zeros_value : ∀ (zs : List UInt8), (∀ z ∈ zs, z = 48) → digitsOf zs 0 = 0 := by
  intro zs
  induction zs with
  | nil => intro _; rfl
  | cons z zs ih =>
    intro h
    have hz : z = 48 := h z (by simp)
    have := ih (fun x hx => h x (by simp [hx]))
    subst hz
    simpa [digitsOf] using this

theorem zeros_split : ∀ (f : List UInt8), ∃ zs g, f = zs ++ g ∧ (∀ z ∈ zs, z = 48) ∧ g.head? ≠ some 48 := by
  intro f
  induction f with
  | nil => exact ⟨[], [], rfl, by simp, by simp⟩
  | cons x f ih =>
    by_cases hx : x = 48
    · obtain ⟨zs, g, hf, hz, hg⟩ := ih
      refine ⟨x :: zs, g, by simp [hf], ?_, hg⟩
      intro z hzm
      simp only [List.mem_cons] at hzm
      rcases hzm with rfl | h
      · exact hx
      · exact hz z h
    · exact ⟨[], x :: f, rfl, by simp, by simpa using hx⟩

/-- integer part without a leading zero -/
theorem contract_nz (neg : Bool) (I f : List UInt8) (ev : Int) (hf : allDigits f) (hI : allDigits I) :
    ∃ sig e tr, floatResultNZ neg I f ev = .toFloat neg sig e tr ∧
      Approx sig e tr (digitsOf f (digitsOf I 0)) (ev - (f.length : Int)) := by
  unfold floatResultNZ
  by_cases h19 : I.length > 19
  · simp only [h19, if_true, decide_true, Bool.or_true]
    have ht : min (17 - ((19 : Nat) : Int)).toNat f.length = 0 := by
      have : (17 - ((19 : Nat) : Int)).toNat = 0 := by decide
      rw [this]; simp
    rw [ht]
    refine ⟨_, _, _, rfl, I.length - 19 + f.length, ?_, ?_, ?_, ?_⟩
    · omega
    · have hsplit : I = I.take 19 ++ I.drop 19 := (List.take_append_drop 19 _).symm
      have hall : allDigits (I.drop 19 ++ f) := by
        intro x hx
        simp only [List.mem_append] at hx
        rcases hx with h | h
        · exact hI x (List.mem_of_mem_drop h)
        · exact hf x h
      have := split_value (I.take 19) (I.drop 19 ++ f) 0 hall
      have hl : (I.drop 19 ++ f).length = I.length - 19 + f.length := by simp
      rw [hl, ← List.append_assoc, ← hsplit, digitsOf_append] at this
      simpa [digitsOf] using this.1
    · have hsplit : I = I.take 19 ++ I.drop 19 := (List.take_append_drop 19 _).symm
      have hall : allDigits (I.drop 19 ++ f) := by
        intro x hx
        simp only [List.mem_append] at hx
        rcases hx with h | h
        · exact hI x (List.mem_of_mem_drop h)
        · exact hf x h
      have := split_value (I.take 19) (I.drop 19 ++ f) 0 hall
      have hl : (I.drop 19 ++ f).length = I.length - 19 + f.length := by simp
      rw [hl, ← List.append_assoc, ← hsplit, digitsOf_append] at this
      simpa [digitsOf] using this.2
    · intro h; cases h
  · simp only [h19, if_false, decide_false, Bool.or_false]
    generalize ht : min (17 - (I.length : Int)).toNat f.length = t
    have htl : t ≤ f.length := by rw [← ht]; exact Nat.min_le_right _ _
    have hsplit : f = f.take t ++ f.drop t := (List.take_append_drop t _).symm
    have hdl : (f.drop t).length = f.length - t := by simp
    have hv := split_value (f.take t) (f.drop t) (digitsOf I 0) (fun x hx => hf x (List.mem_of_mem_drop hx))
    rw [← hsplit, hdl] at hv
    refine ⟨_, _, _, rfl, f.length - t, ?_, hv.1, hv.2, ?_⟩
    · omega
    · intro htr
      have : ¬ (t < f.length) := by simpa using htr
      have hte : t = f.length := by omega
      refine ⟨by omega, ?_⟩
      rw [hte, List.take_length]

/-- `0.` + zeros + a non-zero digit + further digits -/
theorem contract_z (neg : Bool) (zs : List UInt8) (d : UInt8) (g' : List UInt8) (ev : Int)
    (hzs : ∀ z ∈ zs, z = 48) (hg : allDigits g') :
    ∃ sig e tr, floatResultZ neg zs.length d g' ev = .toFloat neg sig e tr ∧
      Approx sig e tr (digitsOf (zs ++ d :: g') (digitsOf [48] 0)) (ev - ((zs ++ d :: g').length : Int)) := by
  unfold floatResultZ
  generalize ht : min 16 g'.length = t
  have htl : t ≤ g'.length := by rw [← ht]; exact Nat.min_le_right _ _
  have hval : digitsOf (zs ++ d :: g') (digitsOf [48] 0) = digitsOf g' (d.toNat - 48) := by
    have h48 : digitsOf [48] 0 = 0 := by simp [digitsOf]
    rw [h48, digitsOf_append, zeros_value zs hzs]
    simp [digitsOf]
  have hsplit : g' = g'.take t ++ g'.drop t := (List.take_append_drop t _).symm
  have hdl : (g'.drop t).length = g'.length - t := by simp
  have hv := split_value (g'.take t) (g'.drop t) (d.toNat - 48) (fun x hx => hg x (List.mem_of_mem_drop hx))
  rw [← hsplit, hdl] at hv
  rw [hval]
  refine ⟨_, _, _, rfl, g'.length - t, ?_, hv.1, hv.2, ?_⟩
  · simp only [List.length_append, List.length_cons]; omega
  · intro htr
    have : ¬ (t < g'.length) := by simpa using htr
    have hte : t = g'.length := by omega
    refine ⟨by omega, ?_⟩
    rw [hte, List.take_length]

end Sonic
