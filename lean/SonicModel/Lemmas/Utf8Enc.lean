import SonicModel.Impl.Str
import SonicModel.Spec.Grammar
namespace Sonic
open Impl

theorem and63 (x : Nat) : x &&& 63 = x % 64 := Nat.and_two_pow_sub_one_eq_mod x 6
theorem and255 (x : Nat) : x &&& 0xFF = x % 256 := Nat.and_two_pow_sub_one_eq_mod x 8
theorem shr6 (x : Nat) : x >>> 6 = x / 64 := by rw [Nat.shiftRight_eq_div_pow]
theorem shr12 (x : Nat) : x >>> 12 = x / 4096 := by rw [Nat.shiftRight_eq_div_pow]
theorem shr18 (x : Nat) : x >>> 18 = x / 262144 := by rw [Nat.shiftRight_eq_div_pow]

/-- `codepoint_to_utf8` is the UTF-8 encoder on `[0, 0x10FFFF]` and refuses everything above -/
theorem codepointToUtf8_spec (cp : Nat) :
    codepointToUtf8 cp = if cp ≤ 0x10FFFF then Spec.utf8 cp else [] := by
  unfold codepointToUtf8 Spec.utf8
  simp only [and63, and255, shr6, shr12, shr18]
  by_cases h1 : cp ≤ 0x7F
  · have : cp < 0x80 := by omega
    have : cp ≤ 0x10FFFF := by omega
    simp [*]
  · by_cases h2 : cp ≤ 0x7FF
    · have a1 : ¬ cp < 0x80 := by omega
      have a2 : cp < 0x800 := by omega
      have a3 : cp ≤ 0x10FFFF := by omega
      have e1 : (cp / 64 + 192) % 256 = 0xC0 + cp / 64 := by omega
      have e2 : cp % 64 + 128 = 0x80 + cp % 64 := by omega
      simp [h1, h2, a1, a2, a3, e1, e2]
    · by_cases h3 : cp ≤ 0xFFFF
      · have a1 : ¬ cp < 0x80 := by omega
        have a2 : ¬ cp < 0x800 := by omega
        have a3 : cp < 0x10000 := by omega
        have a4 : cp ≤ 0x10FFFF := by omega
        have e1 : (cp / 4096 + 224) % 256 = 0xE0 + cp / 4096 := by omega
        have e2 : cp / 64 % 64 + 128 = 0x80 + cp / 64 % 64 := by omega
        have e3 : cp % 64 + 128 = 0x80 + cp % 64 := by omega
        simp [h1, h2, h3, a1, a2, a3, a4, e1, e2, e3]
      · by_cases h4 : cp ≤ 0x10FFFF
        · have a1 : ¬ cp < 0x80 := by omega
          have a2 : ¬ cp < 0x800 := by omega
          have a3 : ¬ cp < 0x10000 := by omega
          have e1 : cp / 262144 + 240 = 0xF0 + cp / 262144 := by omega
          have e2 : cp / 4096 % 64 + 128 = 0x80 + cp / 4096 % 64 := by omega
          have e3 : cp / 64 % 64 + 128 = 0x80 + cp / 64 % 64 := by omega
          have e4 : cp % 64 + 128 = 0x80 + cp % 64 := by omega
          simp [h1, h2, h3, h4, a1, a2, a3, e1, e2, e3, e4]
        · simp [h1, h2, h3, h4]

end Sonic
