import SonicModel.Lemmas.EntryIff
import SonicModel.Lemmas.StrDecodeMain
import SonicModel.Lemmas.ErrCodes
import SonicModel.Impl.Get
namespace Sonic
open Gen Impl Spec

/-- coarse outcome of a lookup: found where / not found / any other failure -/
inductive Coarse where
  | found (s e : Nat)
  | missing
  | other
  deriving DecidableEq, Repr

def Spec.Look.coarse : Look → Coarse
  | .found s e => .found s e
  | .missing => .missing
  | _ => .other

def Impl.GRes.coarse : GRes → Coarse
  | .found s e => .found s e
  | .err c _ => if c.category = .NotFound then .missing else .other
  | .fuel => .other

theorem parseEscapedUtf8_cat (lossy : Bool) (buf : Buf) (i : Nat) (c : Code) (p : Nat)
    (h : parseEscapedUtf8 lossy buf i = .error (c, p)) : c.category ≠ .NotFound := by
  unfold parseEscapedUtf8 at h
  grind [Code.category]

theorem decodeFrom_cat (lossy : Bool) (buf : Buf) (i : Nat) : ∀ c p,
    decodeFrom lossy buf i = .err c p → c.category ≠ .NotFound := by
  have hu := parseEscapedUtf8_cat lossy buf
  fun_induction decodeFrom lossy buf i <;> grind [Code.category]

end Sonic

namespace Sonic
open Gen Impl Spec

theorem decodeFrom_of_stringS_none (buf : Buf) (i : Nat) (h : stringS false buf i = none) :
    ∃ c p, decodeFrom false buf i = .err c p ∧ c.category ≠ .NotFound := by
  have := decode_correct false buf i
  rw [h] at this
  cases hd : decodeFrom false buf i with
  | ok bs e esc => simp [hd, DecRes.view] at this
  | err c p => exact ⟨c, p, rfl, decodeFrom_cat false buf i c p hd⟩

theorem decodeFrom_of_stringS_some (buf : Buf) (i : Nat) (name : List UInt8) (e : Nat)
    (h : stringS false buf i = some (name, e)) : ∃ esc, decodeFrom false buf i = .ok name e esc := by
  have := decode_correct false buf i
  rw [h] at this
  cases hd : decodeFrom false buf i with
  | ok bs e' esc => simp [hd, DecRes.view] at this; exact ⟨esc, by rw [this.1, this.2]⟩
  | err c p => simp [hd, DecRes.view] at this

theorem parseObjectClo_ok_of_colon (buf : Buf) (k : Nat) (h : buf[skipWs buf k]? = some 58) :
    parseObjectClo buf k = .ok (skipWs buf k + 1) := by
  have := parseObjectClo_spec buf k
  simp only [h, ite_true] at this
  cases hc : parseObjectClo buf k with
  | ok v => simp [hc] at this; rw [this]
  | err c p => simp [hc] at this
  | fuel => simp [hc] at this

theorem parseObjectClo_err_of_nocolon (buf : Buf) (k : Nat) (h : ¬ buf[skipWs buf k]? = some 58) :
    ∃ c p, parseObjectClo buf k = .err c p ∧ c.category ≠ .NotFound := by
  have := parseObjectClo_spec buf k
  simp only [h, ite_false] at this
  cases hc : parseObjectClo buf k with
  | ok v => simp [hc] at this
  | err c p => exact ⟨c, p, rfl, parseObjectClo_nnf buf k c p hc⟩
  | fuel => simp [hc] at this

theorem skipOne_of_value_ok (buf : Buf) (v e : Nat)
    (h : value false (Spec.fuelFor buf) buf (skipWs buf v) = .ok e) :
    skipOne buf.size (Impl.fuelFor buf) buf v = .ok e := by
  have := skipOne_eq_value buf v
  rw [h] at this
  cases hs : skipOne buf.size (Impl.fuelFor buf) buf v with
  | ok e' => simp [hs] at this; rw [this]
  | err c p => simp [hs] at this
  | fuel => simp [hs] at this

theorem skipOne_of_value_notok (buf : Buf) (v : Nat)
    (h : ∀ e, value false (Spec.fuelFor buf) buf (skipWs buf v) ≠ .ok e) :
    ∃ c p, skipOne buf.size (Impl.fuelFor buf) buf v = .err c p ∧ c.category ≠ .NotFound := by
  have := skipOne_eq_value buf v
  cases hs : skipOne buf.size (Impl.fuelFor buf) buf v with
  | ok e' => simp [hs] at this; exact absurd this.symm (h e')
  | err c p => exact ⟨c, p, rfl, (skip_nnf buf.size buf _ v).1 c p hs⟩
  | fuel => exact absurd hs (skipOne_fuelFor_ne_fuel buf v)

end Sonic

namespace Sonic
open Gen Impl Spec

theorem u8_beq_false {a b : UInt8} (h : ¬ a = b) : (a == b) = false := by simpa using h

/-- **the member loop of the checked object walker finds what the specification finds** -/
theorem getObjLoop_spec (buf : Buf) (k : List UInt8) (q : Nat) : buf[q]? = some 34 →
    match findMember buf k q with
    | .at w => ∃ v, getObjLoop buf.size buf k (q+1) = .ok v ∧ skipWs buf v = w
    | .missing => ∃ c p, getObjLoop buf.size buf k (q+1) = .err c p ∧ c.category = .NotFound
    | .malformed => ∃ c p, getObjLoop buf.size buf k (q+1) = .err c p ∧ c.category ≠ .NotFound := by
  fun_induction findMember buf k q
  case case1 i hq hs =>
    intro _
    obtain ⟨c, p, hd, hc⟩ := decodeFrom_of_stringS_none buf (i+1) hs
    rw [getObjLoop]; simp only [hd]; exact ⟨c, p, rfl, hc⟩
  case case2 i hq e1 c hcol v hs =>
    intro _
    obtain ⟨esc, hd⟩ := decodeFrom_of_stringS_some buf (i+1) k e1 hs
    have hclo := parseObjectClo_ok_of_colon buf e1 hcol
    rw [getObjLoop]; simp only [hd, hclo, ite_true]
    exact ⟨_, rfl, rfl⟩
  case case3 i hq name e1 hs c hcol v hname e hv j hclose =>
    intro _
    obtain ⟨esc, hd⟩ := decodeFrom_of_stringS_some buf (i+1) name e1 hs
    have hclo := parseObjectClo_ok_of_colon buf e1 hcol
    have hso := skipOne_of_value_ok buf (skipWs buf e1 + 1) e hv
    rw [getObjLoop]; simp only [hd, hclo, hname, ite_false, hso]
    rw [skipSpace_spec]; simp only [show buf[skipWs buf e]? = some 125 from hclose, Option.map_some, beq_self_eq_true, ite_true]
    exact ⟨_, _, rfl, by decide⟩
  case case4 i hq name e1 hs c hcol v hname e hv j hnclose hcomma hlt ih =>
    intro _
    obtain ⟨esc, hd⟩ := decodeFrom_of_stringS_some buf (i+1) name e1 hs
    have hclo := parseObjectClo_ok_of_colon buf e1 hcol
    have hso := skipOne_of_value_ok buf (skipWs buf e1 + 1) e hv
    have pstr := stringS_progress false buf (i+1) (name, e1) hs
    rw [getObjLoop]; simp only [hd, hclo, hname, ite_false, hso]
    rw [skipSpace_spec]
    simp only [show buf[skipWs buf e]? = some 44 from hcomma, Option.map_some]
    have h1 : ((44 : UInt8) == 125) = false := by decide
    simp only [h1, Bool.false_eq_true, ite_false, beq_self_eq_true, ite_true]
    rw [skipSpace_spec]
    cases hb : buf[skipWs buf (skipWs buf e + 1)]? with
    | none =>
      have : findMember buf k (skipWs buf (skipWs buf e + 1)) = .malformed := by
        rw [findMember]; simp [hb]
      simp only [Option.map_none]
      rw [show findMember buf k (skipWs buf (j + 1)) = .malformed from this]
      exact ⟨_, _, rfl, by decide⟩
    | some c2 =>
      simp only [Option.map_some]
      by_cases hq2 : c2 = 34
      · subst hq2
        simp only [beq_self_eq_true, ite_true]
        have hg : i + 1 < skipWs buf (skipWs buf e + 1) + 1 ∧ i + 1 < buf.size := by
          have : i < skipWs buf (skipWs buf e + 1) := hlt
          omega
        simp only [hg, and_self, dite_true]
        exact ih hb
      · have : findMember buf k (skipWs buf (skipWs buf e + 1)) = .malformed := by
          rw [findMember]
          have : ¬ (some c2 = some (34 : UInt8)) := by simpa using hq2
          simp [hb, this]
        rw [show findMember buf k (skipWs buf (j + 1)) = .malformed from this]
        simp only [u8_beq_false hq2, Bool.false_eq_true, ite_false]
        exact ⟨_, _, rfl, by decide⟩
  case case5 i hq name e1 hs c hcol v hname e hv j hnclose hcomma hlt =>
    intro _
    exfalso
    have pstr := stringS_progress false buf (i+1) (name, e1) hs
    have pv : skipWs buf (skipWs buf e1 + 1) < e := ((Spec.progress false buf _ _ e).1 hv).1
    have h1 := skipWs_ge buf e1
    have h2 := skipWs_ge buf (skipWs buf e1 + 1)
    have h3 := skipWs_ge buf e
    have h4 := skipWs_ge buf (skipWs buf e + 1)
    have hlt' : ¬ i < skipWs buf (skipWs buf e + 1) := hlt
    simp only at pstr
    omega
  case case6 i hq name e1 hs c hcol v hname e hv j hnclose hncomma =>
    intro _
    obtain ⟨esc, hd⟩ := decodeFrom_of_stringS_some buf (i+1) name e1 hs
    have hclo := parseObjectClo_ok_of_colon buf e1 hcol
    have hso := skipOne_of_value_ok buf (skipWs buf e1 + 1) e hv
    rw [getObjLoop]; simp only [hd, hclo, hname, ite_false, hso]
    rw [skipSpace_spec]
    cases hb : buf[skipWs buf e]? with
    | none => simp only [Option.map_none]; exact ⟨_, _, rfl, by decide⟩
    | some c1 =>
      have n1 : ¬ c1 = 125 := by intro h; subst h; exact hnclose hb
      have n2 : ¬ c1 = 44 := by intro h; subst h; exact hncomma hb
      simp only [Option.map_some, u8_beq_false n1, u8_beq_false n2, Bool.false_eq_true, ite_false]
      exact ⟨_, _, rfl, by decide⟩
  case case7 i hq name e1 hs c hcol v hname hv =>
    intro _
    obtain ⟨esc, hd⟩ := decodeFrom_of_stringS_some buf (i+1) name e1 hs
    have hclo := parseObjectClo_ok_of_colon buf e1 hcol
    obtain ⟨c', p', hso, hcat⟩ := skipOne_of_value_notok buf (skipWs buf e1 + 1) (by
      intro e he; exact hv e he)
    rw [getObjLoop]; simp only [hd, hclo, hname, ite_false, hso]
    exact ⟨_, _, rfl, hcat⟩
  case case8 i hq name e1 hs c hncol =>
    intro _
    obtain ⟨esc, hd⟩ := decodeFrom_of_stringS_some buf (i+1) name e1 hs
    obtain ⟨c', p', hclo, hcat⟩ := parseObjectClo_err_of_nocolon buf e1 hncol
    rw [getObjLoop]; simp only [hd, hclo]
    exact ⟨_, _, rfl, hcat⟩
  case case9 i hq =>
    intro h; exact absurd h hq

end Sonic

namespace Sonic
open Gen Impl Spec

/-- **the element loop of the checked array walker finds what the specification finds** -/
theorem getArrLoop_spec (buf : Buf) : ∀ n i,
    match findElem buf n (skipWs buf i) with
    | .at w => ∃ v, getArrLoop buf.size n buf i = .ok v ∧ skipWs buf v = w
    | .missing => ∃ c p, getArrLoop buf.size n buf i = .err c p ∧ c.category = .NotFound
    | .malformed => ∃ c p, getArrLoop buf.size n buf i = .err c p ∧ c.category ≠ .NotFound := by
  intro n
  induction n with
  | zero => intro i; simp [findElem, getArrLoop]
  | succ n ih =>
    intro i
    unfold findElem getArrLoop
    cases hv : value false (Spec.fuelFor buf) buf (skipWs buf i) with
    | ok e =>
      have hso := skipOne_of_value_ok buf i e hv
      simp only [hso]
      rw [skipSpace_spec]
      cases hb : buf[skipWs buf e]? with
      | none =>
        have n1 : ¬ (none : Option UInt8) = some 93 := by simp
        have n2 : ¬ (none : Option UInt8) = some 44 := by simp
        simp only [n1, n2, ite_false, Option.map_none]
        exact ⟨_, _, rfl, by decide⟩
      | some c1 =>
        simp only [Option.map_some]
        by_cases h93 : c1 = 93
        · subst h93
          simp only [beq_self_eq_true, ite_true]
          exact ⟨_, _, rfl, by decide⟩
        · have h93' : ¬ (some c1 = some (93 : UInt8)) := by simpa using h93
          simp only [h93', ite_false, u8_beq_false h93, Bool.false_eq_true]
          by_cases h44 : c1 = 44
          · subst h44
            simp only [beq_self_eq_true, ite_true]
            rw [skipSpace_spec]
            by_cases hlt : skipWs buf (skipWs buf e + 1) < buf.size
            · simp only [hlt, ite_true]
              have : buf[skipWs buf (skipWs buf e + 1)]? = some buf[skipWs buf (skipWs buf e + 1)] := by
                simp [hlt]
              simp only [this, Option.map_some, Nat.add_sub_cancel]
              have := ih (skipWs buf (skipWs buf e + 1))
              rw [skipWs_idem] at this
              exact this
            · simp only [hlt, ite_false]
              have : buf[skipWs buf (skipWs buf e + 1)]? = none := by simp; omega
              simp only [this, Option.map_none]
              exact ⟨_, _, rfl, by decide⟩
          · have h44' : ¬ (some c1 = some (44 : UInt8)) := by simpa using h44
            simp only [h44', ite_false, u8_beq_false h44, Bool.false_eq_true]
            exact ⟨_, _, rfl, by decide⟩
    | err =>
      obtain ⟨c', p', hso, hcat⟩ := skipOne_of_value_notok buf i (by intro e he; rw [hv] at he; simp at he)
      simp only [hso]; exact ⟨_, _, rfl, hcat⟩
    | fuel =>
      obtain ⟨c', p', hso, hcat⟩ := skipOne_of_value_notok buf i (by intro e he; rw [hv] at he; simp at he)
      simp only [hso]; exact ⟨_, _, rfl, hcat⟩

end Sonic

namespace Sonic
open Gen Impl Spec

theorem value_none (buf : Buf) (g w : Nat) (h : buf[w]? = none) : ∀ e, value false g buf w ≠ .ok e := by
  intro e he
  cases g with
  | zero => simp [value] at he
  | succ g => simp [value, h] at he

theorem look_eof (buf : Buf) (w : Nat) (h : buf[w]? = none) (rest : List Step) :
    (look buf w rest).coarse = .other := by
  have hv := value_none buf (Spec.fuelFor buf) w h
  cases rest with
  | nil =>
    unfold look valueSpan
    cases hx : value false (Spec.fuelFor buf) buf w with
    | ok e => exact absurd hx (hv e)
    | err => simp [Look.coarse]
    | fuel => simp [Look.coarse]
  | cons s rest =>
    cases s with
    | key k =>
      unfold look
      have : ¬ (buf[w]? = some 123) := by simp [h]
      simp only [this, ite_false]
      cases hx : value false (Spec.fuelFor buf) buf w with
      | ok e => exact absurd hx (hv e)
      | err => simp [Look.coarse]
      | fuel => simp [Look.coarse]
    | idx n =>
      unfold look
      have : ¬ (buf[w]? = some 91) := by simp [h]
      simp only [this, ite_false]
      cases hx : value false (Spec.fuelFor buf) buf w with
      | ok e => exact absurd hx (hv e)
      | err => simp [Look.coarse]
      | fuel => simp [Look.coarse]

theorem wrongKind_other (buf : Buf) (w : Nat) :
    (match value false (Spec.fuelFor buf) buf w with
      | .ok _ => Look.wrongKind
      | _ => Look.malformed).coarse = .other := by
  cases value false (Spec.fuelFor buf) buf w <;> simp [Look.coarse]

/-- **checked `get` == specification lookup**, for arbitrary bytes, every start index and every
    path (coarse outcome: the span found / not found / any other failure) -/
theorem getChecked_coarse (buf : Buf) : ∀ path i,
    (getChecked buf.size buf i path).coarse = (look buf (skipWs buf i) path).coarse := by
  intro path
  induction path with
  | nil =>
    intro i
    unfold getChecked look valueSpan
    have heq := skipOne_eq_value buf i
    cases hs : skipOne buf.size (Impl.fuelFor buf) buf i with
    | ok e => rw [hs] at heq; simp at heq; rw [← heq]; simp [GRes.coarse, Look.coarse]
    | err c p =>
      rw [hs] at heq; simp at heq; rw [← heq]
      have := (skip_nnf buf.size buf _ i).1 c p hs
      simp [GRes.coarse, Look.coarse, this]
    | fuel => exact absurd hs (skipOne_fuelFor_ne_fuel buf i)
  | cons s rest ih =>
    intro i
    cases s with
    | key k =>
      unfold getChecked look getFromObjectChecked
      rw [skipSpace_spec]
      cases hb : buf[skipWs buf i]? with
      | none =>
        have : ¬ ((none : Option UInt8) = some 123) := by simp
        simp only [Option.map_none, this, ite_false]
        cases value false (Spec.fuelFor buf) buf (skipWs buf i) <;> simp [GRes.coarse, Look.coarse, Code.category]
      | some c =>
        simp only [Option.map_some]
        by_cases hc : c = 123
        · subst hc
          simp only [beq_self_eq_true, ite_true]
          rw [skipSpace_spec]
          cases hb2 : buf[skipWs buf (skipWs buf i + 1)]? with
          | none =>
            have n1 : ¬ ((none : Option UInt8) = some 125) := by simp
            have hfm : findMember buf k (skipWs buf (skipWs buf i + 1)) = .malformed := by
              rw [findMember]; simp [hb2]
            simp only [Option.map_none, n1, ite_false, hfm]
            simp [GRes.coarse, Look.coarse, Code.category]
          | some c2 =>
            simp only [Option.map_some]
            by_cases hq : c2 = 34
            · subst hq
              have n1 : ¬ (some (34 : UInt8) = some 125) := by decide
              simp only [beq_self_eq_true, ite_true, n1, ite_false]
              have hA := getObjLoop_spec buf k (skipWs buf (skipWs buf i + 1)) hb2
              cases hf : findMember buf k (skipWs buf (skipWs buf i + 1)) with
              | «at» w =>
                rw [hf] at hA
                obtain ⟨v, hv, hw⟩ := hA
                simp only [hv]
                rw [ih v, hw]
              | missing =>
                rw [hf] at hA
                obtain ⟨c', p', hv, hcat⟩ := hA
                simp only [hv]
                simp [GRes.coarse, Look.coarse, hcat]
              | malformed =>
                rw [hf] at hA
                obtain ⟨c', p', hv, hcat⟩ := hA
                simp only [hv]
                simp [GRes.coarse, Look.coarse, hcat]
            · simp only [u8_beq_false hq, Bool.false_eq_true, ite_false]
              by_cases h125 : c2 = 125
              · subst h125
                simp only [beq_self_eq_true, ite_true]
                simp [GRes.coarse, Look.coarse, Code.category]
              · have n1 : ¬ (some c2 = some (125 : UInt8)) := by simpa using h125
                have hfm : findMember buf k (skipWs buf (skipWs buf i + 1)) = .malformed := by
                  rw [findMember]
                  have : ¬ (some c2 = some (34 : UInt8)) := by simpa using hq
                  simp [hb2, this]
                simp only [u8_beq_false h125, Bool.false_eq_true, ite_false, n1, hfm]
                simp [GRes.coarse, Look.coarse, Code.category]
        · have n1 : ¬ (some c = some (123 : UInt8)) := by simpa using hc
          simp only [u8_beq_false hc, Bool.false_eq_true, ite_false, n1]
          cases value false (Spec.fuelFor buf) buf (skipWs buf i) <;> simp [GRes.coarse, Look.coarse, Code.category]
    | idx n =>
      unfold getChecked look getFromArrayChecked
      rw [skipSpace_spec]
      cases hb : buf[skipWs buf i]? with
      | none =>
        have : ¬ ((none : Option UInt8) = some 91) := by simp
        simp only [Option.map_none, this, ite_false]
        cases value false (Spec.fuelFor buf) buf (skipWs buf i) <;> simp [GRes.coarse, Look.coarse, Code.category]
      | some c =>
        simp only [Option.map_some]
        by_cases hc : c = 91
        · subst hc
          simp only [beq_self_eq_true, ite_true]
          rw [skipSpace_spec]
          cases hb2 : buf[skipWs buf (skipWs buf i + 1)]? with
          | none =>
            have n1 : ¬ ((none : Option UInt8) = some 93) := by simp
            simp only [Option.map_none, n1, ite_false]
            -- the specification walks to the end of input and fails there
            cases n with
            | zero =>
              simp only [findElem]
              rw [look_eof buf _ hb2 rest]
              simp [GRes.coarse, Code.category]
            | succ n =>
              unfold findElem
              cases hx : value false (Spec.fuelFor buf) buf (skipWs buf (skipWs buf i + 1)) with
              | ok e => exact absurd hx (value_none buf _ _ hb2 e)
              | err => simp [GRes.coarse, Look.coarse, Code.category]
              | fuel => simp [GRes.coarse, Look.coarse, Code.category]
          | some c2 =>
            simp only [Option.map_some]
            by_cases h93 : c2 = 93
            · subst h93
              simp only [beq_self_eq_true, ite_true]
              simp [GRes.coarse, Look.coarse, Code.category]
            · have n1 : ¬ (some c2 = some (93 : UInt8)) := by simpa using h93
              simp only [u8_beq_false h93, Bool.false_eq_true, ite_false, n1, Nat.add_sub_cancel]
              have hB := getArrLoop_spec buf n (skipWs buf (skipWs buf i + 1))
              rw [skipWs_idem] at hB
              cases hf : findElem buf n (skipWs buf (skipWs buf i + 1)) with
              | «at» w =>
                rw [hf] at hB
                obtain ⟨v, hv, hw⟩ := hB
                simp only [hv]
                rw [ih v, hw]
              | missing =>
                rw [hf] at hB
                obtain ⟨c', p', hv, hcat⟩ := hB
                simp only [hv]
                simp [GRes.coarse, Look.coarse, hcat]
              | malformed =>
                rw [hf] at hB
                obtain ⟨c', p', hv, hcat⟩ := hB
                simp only [hv]
                simp [GRes.coarse, Look.coarse, hcat]
        · have n1 : ¬ (some c = some (91 : UInt8)) := by simpa using hc
          simp only [u8_beq_false hc, Bool.false_eq_true, ite_false, n1]
          cases value false (Spec.fuelFor buf) buf (skipWs buf i) <;> simp [GRes.coarse, Look.coarse, Code.category]

end Sonic
