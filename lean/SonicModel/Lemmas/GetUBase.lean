import SonicModel.Lemmas.NextTok
import SonicModel.Lemmas.TokFree
import SonicModel.Lemmas.StrSkipGrammar
import SonicModel.Lemmas.GetRefine
import SonicModel.Lemmas.BlockProof
namespace Sonic
namespace GetU
open Gen Spec Impl

/-! ### what the unchecked walkers rely on: the skippers on well-formed values, and token-free ranges -/

theorem nextTok_eq (buf : Buf) (toks : List UInt8) (adv i : Nat) :
    nextTok buf toks adv i = tailTok toks adv (buf.toList.drop i) i :=
  nextTokenBlk_eq_tail toks adv _ _ i (by omega)

theorem tailTok_find (buf : Buf) (toks : List UInt8) (adv : Nat) : ∀ (n i j : Nat), j - i = n → i ≤ j → (hj : j < buf.size) →
    (∀ k (hk : k < buf.size), i ≤ k → k < j → toks.contains buf[k] = false) → toks.contains buf[j] = true →
    tailTok toks adv (buf.toList.drop i) i = some (buf[j], j + adv) := by
  intro n
  induction n with
  | zero =>
    intro i j hn hij hj _ hc
    have : i = j := by omega
    subst this
    rw [StrSkip.drop_step buf i hj]
    simp only [tailTok, hc, if_true]
  | succ n ih =>
    intro i j hn hij hj hfree hc
    have hi : i < buf.size := by omega
    rw [StrSkip.drop_step buf i hi]
    simp only [tailTok, hfree i hi (Nat.le_refl _) (by omega), Bool.false_eq_true, if_false]
    exact ih (i + 1) j (by omega) (by omega) hj (fun k hk a b => hfree k hk (by omega) b) hc

/-- the next token: everything before position `j` is token-free, `buf[j]` is a token -/
theorem nextTok_find (buf : Buf) (toks : List UInt8) (adv i j : Nat) (hij : i ≤ j) (hj : j < buf.size)
    (hfree : ∀ k (hk : k < buf.size), i ≤ k → k < j → toks.contains buf[k] = false) (hc : toks.contains buf[j] = true) :
    nextTok buf toks adv i = some (buf[j], j + adv) := by
  rw [nextTok_eq]; exact tailTok_find buf toks adv (j - i) i j rfl hij hj hfree hc

/-- bytes that are none of `"`, `}`, `]`, `,` -/
def noTok (b : UInt8) : Bool := b != 34 && b != 125 && b != 93 && b != 44

theorem noTok_obj : ∀ b : UInt8, noTok b = true → [(34 : UInt8), 125].contains b = false := by
  apply Sonic.UInt8.forall_of_fin; decide +kernel
theorem noTok_arr : ∀ b : UInt8, noTok b = true → [(93 : UInt8), 44].contains b = false := by
  apply Sonic.UInt8.forall_of_fin; decide +kernel
theorem ws_noTok : ∀ b : UInt8, isWs b = true → noTok b = true := by
  apply Sonic.UInt8.forall_of_fin; decide +kernel
theorem digit_noTok : ∀ b : UInt8, isDigit b = true → noTok b = true := by
  apply Sonic.UInt8.forall_of_fin; decide +kernel

theorem skipWs_noTok (buf : Buf) (i : Nat) : AllR noTok buf i (skipWs buf i) :=
  skipWs_allR noTok ws_noTok buf i

theorem number_noTok (buf : Buf) (i e : Nat) (h : number buf i = some e) : AllR noTok buf i e :=
  number_allR noTok digit_noTok (by decide) (by decide) (by decide) (by decide) (by decide) buf i e h

/-- `skip_container` on a well-formed container ends just after its closing bracket -/
theorem container_skip (left right : UInt8) (hk : Kind left right) (buf : Buf) (f v e : Nat)
    (hopen : buf[v]? = some left) (h : value false f buf v = .ok e) :
    skipContainerAt buf left right (v + 1) = some e := by
  have hne : left ≠ right := by rcases hk with ⟨rfl, rfl⟩ | ⟨rfl, rfl⟩ <;> decide
  have hr : right ≠ 0 := by rcases hk with ⟨_, rfl⟩ | ⟨_, rfl⟩ <;> decide
  unfold skipContainerAt
  rw [Block.skipContainer_eq_scalar left right hne hr]
  unfold Spec.skipContainerScalar
  rw [← Spec.scanB_list left right buf (buf.size - (v + 1)) (v + 1) Spec.ScanSt.init rfl]
  have hbe := ((Spec.bound false buf f v e).1) h
  rw [Spec.container_scan left right hk buf f v e hopen h buf.size hbe]
  have hp := ((Spec.progress false buf f v e).1 h).1
  simp only [Option.map_some, Option.some.injEq]; omega

/-- the string of a well-formed string value -/
theorem value_string (buf : Buf) (f v e : Nat) (hopen : buf[v]? = some 34) (h : value false f buf v = .ok e) :
    stringG buf (v + 1) = some e := by
  cases f with
  | zero => simp [Spec.value] at h
  | succ f =>
    simp only [Spec.value, hopen] at h
    have h1 : ((34 : UInt8) == 45 || isDigit 34) = false := by decide
    simp only [h1, Bool.false_eq_true, if_false, beq_self_eq_true, if_true, Spec.string] at h
    cases hg : Spec.stringG buf (v + 1) with
    | none => rw [hg] at h; simp [Res.ofOpt] at h
    | some e' => rw [hg] at h; simp [Res.ofOpt] at h; rw [h]

/-- `skip_string_unchecked` on a well-formed string ends just after its closing quote -/
theorem string_skip (buf : Buf) (v e : Nat) (hs : stringG buf (v + 1) = some e) :
    skipStringAt buf (v + 1) = some e := by
  unfold skipStringAt
  rw [StrSkip.skipString_eq_scalar]
  unfold Spec.skipStringScalar
  rw [StrSkip.stringG_strScan buf _ (v + 1) e rfl hs]
  have := Spec.stringG_ge buf (v + 1) e hs
  simp only [Option.map_some, Option.some.injEq]; omega

end GetU
end Sonic
