import SonicModel.Lemmas.WalkProof
import SonicModel.Lemmas.TrieWF
namespace Sonic
namespace Many
open Spec

/-! ### completeness: the walker does not fail when every path resolves -/

/-- number of element positions `i .. i+n-1` for which the node has a child -/
def cntS (S : List Step) : Nat → Nat → Nat
  | _, 0 => 0
  | i, n+1 => (if Step.idx i ∈ S then 1 else 0) + cntS S (i+1) n

theorem findKid_isSome (s : Step) : ∀ kids : List (Step × Trie), (findKid s kids).isSome = true ↔ s ∈ kids.map Prod.fst := by
  intro kids
  induction kids with
  | nil => simp [findKid]
  | cons a r ih =>
    obtain ⟨s', c⟩ := a
    by_cases h : s' = s
    · simp [findKid, h]
    · have : ¬ (s = s') := fun e => h e.symm
      simp [findKid, h, this, ih]

theorem findKid_none_iff (s : Step) (kids : List (Step × Trie)) : findKid s kids = none ↔ s ∉ kids.map Prod.fst := by
  rw [← findKid_isSome]
  cases findKid s kids <;> simp

theorem length_filter_ne (a : Step) : ∀ S : List Step, S.Nodup →
    S.length = (S.filter (fun x => decide (x ≠ a))).length + (if a ∈ S then 1 else 0) := by
  intro S
  induction S with
  | nil => intro _; simp
  | cons x r ih =>
    intro h
    rw [List.nodup_cons] at h
    have := ih h.2
    by_cases hx : x = a
    · subst hx
      have hn : x ∉ r := h.1
      simp only [hn, if_false, Nat.add_zero] at this
      simp [List.filter_cons, this]
    · have hne : ¬ (a = x) := fun e => hx e.symm
      simp only [ne_eq] at this ⊢
      simp only [List.filter_cons, hx, not_false_eq_true, decide_true, if_true, List.length_cons,
        List.mem_cons, hne, false_or]
      omega

theorem cntS_congr (S S' : List Step) : ∀ (n i : Nat), (∀ m, i ≤ m → (Step.idx m ∈ S ↔ Step.idx m ∈ S')) →
    cntS S i n = cntS S' i n := by
  intro n
  induction n with
  | zero => intro i _; rfl
  | succ n ih =>
    intro i h
    simp only [cntS]
    rw [ih (i+1) (fun m hm => h m (by omega))]
    have := h i (Nat.le_refl _)
    by_cases hm : Step.idx i ∈ S
    · simp [hm, this.mp hm]
    · have : Step.idx i ∉ S' := fun e => hm (this.mpr e)
      simp [hm, this]

/-- distinct index children that all lie in the range are all counted -/
theorem count_all : ∀ (n i : Nat) (S : List Step), S.Nodup → (∀ s ∈ S, ∃ m, s = Step.idx m ∧ i ≤ m ∧ m < i + n) →
    S.length ≤ cntS S i n := by
  intro n
  induction n with
  | zero =>
    intro i S _ h
    cases S with
    | nil => simp
    | cons s r => obtain ⟨m, _, h1, h2⟩ := h s (by simp); omega
  | succ n ih =>
    intro i S hnd h
    have hlen := length_filter_ne (Step.idx i) S hnd
    have hnd' : (S.filter (fun x => decide (x ≠ Step.idx i))).Nodup := hnd.filter _
    have hrange : ∀ s ∈ S.filter (fun x => decide (x ≠ Step.idx i)), ∃ m, s = Step.idx m ∧ i + 1 ≤ m ∧ m < i + 1 + n := by
      intro s hs
      simp only [List.mem_filter, ne_eq, decide_eq_true_eq] at hs
      obtain ⟨m, hm, h1, h2⟩ := h s hs.1
      refine ⟨m, hm, ?_, by omega⟩
      by_cases e : m = i
      · subst e; exact absurd hm hs.2
      · omega
    have := ih (i+1) _ hnd' hrange
    have hc : cntS (S.filter (fun x => decide (x ≠ Step.idx i))) (i+1) n = cntS S (i+1) n := by
      apply cntS_congr
      intro m hm
      simp only [List.mem_filter, ne_eq, decide_eq_true_eq]
      constructor
      · exact fun h => h.1
      · intro h; refine ⟨h, ?_⟩; intro e; injection e with e; omega
    simp only [cntS]
    omega


theorem wfk_find (s : Step) (c : Trie) : ∀ kids : List (Step × Trie), WFK kids → findKid s kids = some c → c.WF ∧ hasSlot c := by
  intro kids
  induction kids with
  | nil => intro _ h; simp [findKid] at h
  | cons a r ih =>
    obtain ⟨s', c'⟩ := a
    intro hw hf
    simp only [WFK] at hw
    by_cases hs : s' = s
    · simp only [findKid, hs, if_true, Option.some.injEq] at hf
      subst hf; exact ⟨hw.2.1, hw.1⟩
    · simp only [findKid, hs, if_false] at hf
      exact ih hw.2.2 hf

/-- every path through the node resolves in `v` -/
def Resolves (paths : List (List Step)) (q : List Step) (v : Json) : Prop :=
  ∀ (j : Nat) r, paths[j]? = some (q ++ r) → lookJ v r ≠ none

def WalkDone (paths : List (List Step)) (v : Json) : Prop :=
  ∀ (t : Trie) (q : List Step) (st : WSt), Holds paths t q → t.WF → Inv st →
    (∀ j : Nat, InSub paths q j → st.1[j]? = some none) → Resolves paths q v → ∃ st', walk t v st = some st'

def MembersDone (paths : List (List Step)) (ms : List (List UInt8 × Json)) : Prop :=
  ∀ (kids : List (Step × Trie)) (o : List Nat) (q : List Step) (st : WSt),
    Holds paths (.node o kids) q → WFK kids → Inv st → (ms.map Prod.fst).Nodup →
    (∀ (j : Nat) k r, k ∈ ms.map Prod.fst → paths[j]? = some (q ++ .key k :: r) → st.1[j]? = some none) →
    (∀ (j : Nat) k r, k ∈ ms.map Prod.fst → paths[j]? = some (q ++ .key k :: r) →
      ((lookupJ k ms).bind fun x => lookJ x r) ≠ none) →
    ∃ st', walkMembers kids ms st = some st'

def ElemsDone (paths : List (List Step)) (xs : List Json) : Prop :=
  ∀ (kids : List (Step × Trie)) (o : List Nat) (q : List Step) (i vis : Nat) (st : WSt),
    Holds paths (.node o kids) q → WFK kids → Inv st →
    (∀ (j m : Nat) r, i ≤ m → m < i + xs.length → paths[j]? = some (q ++ .idx m :: r) → st.1[j]? = some none) →
    (∀ (j m : Nat) r, i ≤ m → m < i + xs.length → paths[j]? = some (q ++ .idx m :: r) →
      ((xs[m - i]?).bind fun x => lookJ x r) ≠ none) →
    ∃ st' vis', walkElems kids xs i vis st = some (st', vis') ∧ vis' = vis + cntS (kids.map Prod.fst) i xs.length

theorem elemsDone_nil (paths : List (List Step)) : ElemsDone paths [] := by
  intro kids o q i vis st _ _ _ _ _
  exact ⟨st, vis, by simp [walkElems], by simp [cntS]⟩

theorem elemsDone_cons (paths : List (List Step)) (x : Json) (rest : List Json)
    (hxd : WalkDone paths x) (hxo : WalkOk paths x) (hrest : ElemsDone paths rest) : ElemsDone paths (x :: rest) := by
  intro kids o q i vis st hH hW hInv hPre hRes
  have hlen : (x :: rest).length = rest.length + 1 := rfl
  rw [walkElems]
  have hResRest : ∀ (j m : Nat) r, i + 1 ≤ m → m < i + 1 + rest.length → paths[j]? = some (q ++ .idx m :: r) →
      ((rest[m - (i + 1)]?).bind fun y => lookJ y r) ≠ none := by
    intro j m r h1 h2 hp
    have := hRes j m r (by omega) (by rw [hlen]; omega) hp
    have e : m - i = (m - (i + 1)) + 1 := by omega
    rw [e, List.getElem?_cons_succ] at this
    exact this
  cases hk : findKid (.idx i) kids with
  | none =>
    simp only
    have hnot : Step.idx i ∉ kids.map Prod.fst := (findKid_none_iff _ _).mp hk
    have hPre' : ∀ (j m : Nat) r, i + 1 ≤ m → m < i + 1 + rest.length → paths[j]? = some (q ++ .idx m :: r) → st.1[j]? = some none :=
      fun j m r h1 h2 hp => hPre j m r (by omega) (by rw [hlen]; omega) hp
    obtain ⟨st', vis', hw, hv⟩ := hrest kids o q (i + 1) vis st hH hW hInv hPre' hResRest
    refine ⟨st', vis', hw, ?_⟩
    rw [hv, hlen]; simp [cntS, hnot]
  | some c =>
    simp only
    have hin : Step.idx i ∈ kids.map Prod.fst := (findKid_isSome _ _).mp (by rw [hk]; rfl)
    obtain ⟨hcw, _⟩ := wfk_find (.idx i) c kids hW hk
    have hHc := holds_child paths o kids q hH (.idx i) c hk
    have hPrec : ∀ j : Nat, InSub paths (q ++ [.idx i]) j → st.1[j]? = some none := by
      rintro j ⟨r, hp⟩
      exact hPre j i r (Nat.le_refl _) (by rw [hlen]; omega) (by simpa [List.append_assoc] using hp)
    have hResc : Resolves paths (q ++ [.idx i]) x := by
      intro j r hp
      have := hRes j i r (Nat.le_refl _) (by rw [hlen]; omega) (by simpa [List.append_assoc] using hp)
      simpa using this
    obtain ⟨st1, hw1⟩ := hxd c (q ++ [.idx i]) st hHc hcw hInv hPrec hResc
    obtain ⟨hI1, _, _, hOut1⟩ := hxo c (q ++ [.idx i]) st st1 hHc hInv hPrec hw1
    have hother : ∀ (j m : Nat) r, m ≠ i → paths[j]? = some (q ++ .idx m :: r) → st1.1[j]? = st.1[j]? := by
      intro j m r hne hp
      apply hOut1
      exact not_insub_of_ne paths q (.idx i) (.idx m) r j hp (by intro e; injection e with e; exact hne e)
    rw [hw1]
    simp only
    by_cases h0 : st1.2 = 0
    · rw [if_pos h0]
      refine ⟨st1, vis + 1, rfl, ?_⟩
      -- everything is found: no child is left for a later element
      have hzero : cntS (kids.map Prod.fst) (i + 1) rest.length = 0 := by
        have hnone : ∀ m, i + 1 ≤ m → m < i + 1 + rest.length → Step.idx m ∉ kids.map Prod.fst := by
          intro m h1 h2 hm
          have hsome := (findKid_isSome (.idx m) kids).mpr hm
          cases hf : findKid (.idx m) kids with
          | none => rw [hf] at hsome; cases hsome
          | some c' =>
            obtain ⟨_, r, j, hj⟩ := wfk_find (.idx m) c' kids hW hf
            have hp : paths[j]? = some (q ++ .idx m :: r) := by
              have := (holds_child paths o kids q hH (.idx m) c' hf r j).mp hj
              simpa [List.append_assoc] using this
            have h1' : st1.1[j]? = some none := by
              rw [hother j m r (by omega) hp]
              exact hPre j m r (by omega) (by rw [hlen]; omega) hp
            have hz : unfilled st1.1 = 0 := by rw [← hI1]; exact h0
            exact unfilled_zero st1.1 hz j h1'
        clear hResRest hRes hPre hrest hlen
        generalize rest.length = n at hnone
        generalize i + 1 = i' at hnone
        induction n generalizing i' with
        | zero => rfl
        | succ n ih =>
          simp only [cntS]
          have h1 := hnone i' (Nat.le_refl _) (by omega)
          rw [ih (i' + 1) (fun m a b => hnone m (by omega) (by omega))]
          simp [h1]
      rw [hlen]; simp [cntS, hin, hzero]
    · rw [if_neg h0]
      have hPre' : ∀ (j m : Nat) r, i + 1 ≤ m → m < i + 1 + rest.length → paths[j]? = some (q ++ .idx m :: r) → st1.1[j]? = some none := by
        intro j m r h1 h2 hp
        rw [hother j m r (by omega) hp]
        exact hPre j m r (by omega) (by rw [hlen]; omega) hp
      obtain ⟨st', vis', hw, hv⟩ := hrest kids o q (i + 1) (vis + 1) st1 hH hW hI1 hPre' hResRest
      refine ⟨st', vis', hw, ?_⟩
      rw [hv, hlen]; simp [cntS, hin]; omega


theorem membersDone_nil (paths : List (List Step)) : MembersDone paths [] := by
  intro kids o q st _ _ _ _ _ _
  exact ⟨st, by simp [walkMembers]⟩

theorem membersDone_cons (paths : List (List Step)) (k : List UInt8) (x : Json) (rest : List (List UInt8 × Json))
    (hxd : WalkDone paths x) (hxo : WalkOk paths x) (hrest : MembersDone paths rest) :
    MembersDone paths ((k, x) :: rest) := by
  intro kids o q st hH hW hInv hnd hPre hRes
  rw [walkMembers]
  simp only [List.map_cons, List.nodup_cons] at hnd
  obtain ⟨hknot, hndr⟩ := hnd
  have hResRest : ∀ (j : Nat) k' r, k' ∈ rest.map Prod.fst → paths[j]? = some (q ++ .key k' :: r) →
      ((lookupJ k' rest).bind fun y => lookJ y r) ≠ none := by
    intro j k' r hm hp
    have hne : k' ≠ k := fun e => hknot (e ▸ hm)
    have := hRes j k' r (by simp [hm]) hp
    have hk2 : ¬ (k = k') := fun e => hne e.symm
    simpa [lookupJ, hk2] using this
  cases hk : findKid (.key k) kids with
  | none =>
    simp only
    exact hrest kids o q st hH hW hInv hndr (fun j k' r hm hp => hPre j k' r (by simp [hm]) hp) hResRest
  | some c =>
    simp only
    obtain ⟨hcw, _⟩ := wfk_find (.key k) c kids hW hk
    have hHc := holds_child paths o kids q hH (.key k) c hk
    have hPrec : ∀ j : Nat, InSub paths (q ++ [.key k]) j → st.1[j]? = some none := by
      rintro j ⟨r, hp⟩
      exact hPre j k r (by simp) (by simpa [List.append_assoc] using hp)
    have hResc : Resolves paths (q ++ [.key k]) x := by
      intro j r hp
      have := hRes j k r (by simp) (by simpa [List.append_assoc] using hp)
      simpa [lookupJ] using this
    obtain ⟨st1, hw1⟩ := hxd c (q ++ [.key k]) st hHc hcw hInv hPrec hResc
    obtain ⟨hI1, _, _, hOut1⟩ := hxo c (q ++ [.key k]) st st1 hHc hInv hPrec hw1
    rw [hw1]
    simp only
    by_cases h0 : st1.2 = 0
    · rw [if_pos h0]; exact ⟨st1, rfl⟩
    · rw [if_neg h0]
      have hPre' : ∀ (j : Nat) k' r, k' ∈ rest.map Prod.fst → paths[j]? = some (q ++ .key k' :: r) → st1.1[j]? = some none := by
        intro j k' r hm hp
        have hne : k' ≠ k := fun e => hknot (e ▸ hm)
        have : st1.1[j]? = st.1[j]? := by
          apply hOut1
          exact not_insub_of_ne paths q (.key k) (.key k') r j hp (by intro e; injection e with e; exact hne e)
        rw [this]
        exact hPre j k' r (by simp [hm]) hp
      exact hrest kids o q st1 hH hW hI1 hndr hPre' hResRest

/-- a child of the node lies on a path (its subtree holds a slot) -/
theorem kid_on_path (paths : List (List Step)) (o : List Nat) (kids : List (Step × Trie)) (q : List Step)
    (hH : Holds paths (.node o kids) q) (hW : WFK kids) (s : Step) (hs : s ∈ kids.map Prod.fst) :
    ∃ (j : Nat) (r : List Step), paths[j]? = some (q ++ s :: r) := by
  have hsome := (findKid_isSome s kids).mpr hs
  cases hf : findKid s kids with
  | none => rw [hf] at hsome; cases hsome
  | some c =>
    obtain ⟨_, r, j, hj⟩ := wfk_find s c kids hW hf
    refine ⟨j, r, ?_⟩
    have := (holds_child paths o kids q hH s c hf r j).mp hj
    simpa [List.append_assoc] using this


theorem walkKids_nil (v : Json) (st : WSt) : walkKids [] v st = some st := by
  cases v with
  | arr xs => cases xs <;> simp [walkKids, kindOf]
  | obj ms => cases ms <;> simp [walkKids, kindOf]
  | _ => simp [walkKids, kindOf]

/-- `walk` succeeds as soon as its `match &node.children` part does -/
theorem walkDone_of_kids (paths : List (List Step)) (v : Json)
    (h : ∀ (kids : List (Step × Trie)) (o : List Nat) (q : List Step) (st : WSt),
      Holds paths (.node o kids) q → (Trie.node o kids).WF → Inv st →
      (∀ j : Nat, InSub paths q j → st.1[j]? = some none) → Resolves paths q v → kids ≠ [] →
      ∃ st1, walkKids kids v st = some st1) : WalkDone paths v := by
  intro t q st hH hW hInv hPre hRes
  obtain ⟨o, kids⟩ := t
  rw [walk]
  by_cases h0 : st.2 = 0
  · rw [if_pos h0]; exact ⟨st, rfl⟩
  · rw [if_neg h0]
    simp only [Trie.kids, Trie.order]
    by_cases hk : kids = []
    · subst hk; rw [walkKids_nil]; exact ⟨_, rfl⟩
    · obtain ⟨st1, h1⟩ := h kids o q st hH hW hInv hPre hRes hk
      rw [h1]; exact ⟨_, rfl⟩

theorem walkDone_scalar (paths : List (List Step)) (v : Json)
    (hv : ∀ (s : Step) (r : List Step), lookJ v (s :: r) = none) : WalkDone paths v := by
  apply walkDone_of_kids
  intro kids o q st hH hW _ _ hRes hk
  exfalso
  cases kids with
  | nil => exact hk rfl
  | cons a rest =>
    obtain ⟨s, c⟩ := a
    simp only [Trie.WF] at hW
    obtain ⟨j, r, hp⟩ := kid_on_path paths o _ q hH hW.1 s (by simp)
    exact hRes j (s :: r) hp (hv s r)

theorem walkDone_arr (paths : List (List Step)) (x : Json) (xs : List Json) (hE : ElemsDone paths (x :: xs)) :
    WalkDone paths (.arr (x :: xs)) := by
  apply walkDone_of_kids
  intro kids o q st hH hW hInv hPre hRes hk
  simp only [Trie.WF] at hW
  obtain ⟨hWK, hnd⟩ := hW
  -- every child is an index inside the array
  have hall : ∀ s ∈ kids.map Prod.fst, ∃ m, s = Step.idx m ∧ 0 ≤ m ∧ m < 0 + (x :: xs).length := by
    intro s hs
    obtain ⟨j, r, hp⟩ := kid_on_path paths o kids q hH hWK s hs
    have hr := hRes j (s :: r) hp
    cases s with
    | key k => simp [lookJ] at hr
    | idx m =>
      refine ⟨m, rfl, Nat.zero_le _, ?_⟩
      by_cases hm : m < (x :: xs).length
      · omega
      · have : (x :: xs)[m]? = none := List.getElem?_eq_none (by omega)
        simp [lookJ, this] at hr
  have hkind : kindOf kids = .index := by
    cases kids with
    | nil => exact absurd rfl hk
    | cons a rest =>
      obtain ⟨s, c⟩ := a
      obtain ⟨m, hm, _⟩ := hall s (by simp)
      subst hm; rfl
  rw [walkKids, hkind]
  simp only
  have hPre' : ∀ (j m : Nat) r, 0 ≤ m → m < 0 + (x :: xs).length → paths[j]? = some (q ++ .idx m :: r) → st.1[j]? = some none :=
    fun j m r _ _ hp => hPre j ⟨.idx m :: r, hp⟩
  have hRes' : ∀ (j m : Nat) r, 0 ≤ m → m < 0 + (x :: xs).length → paths[j]? = some (q ++ .idx m :: r) →
      (((x :: xs)[m - 0]?).bind fun y => lookJ y r) ≠ none := by
    intro j m r _ _ hp
    have := hRes j (.idx m :: r) hp
    simpa [lookJ] using this
  obtain ⟨st', vis', hw, hv⟩ := hE kids o q 0 0 st hH hWK hInv hPre' hRes'
  rw [hw]
  simp only [Option.bind_some]
  have hcount := count_all (x :: xs).length 0 (kids.map Prod.fst) hnd hall
  have hlen : (kids.map Prod.fst).length = kids.length := by simp
  have : ¬ (vis' < kids.length) := by rw [hv]; omega
  rw [if_neg this]
  exact ⟨_, rfl⟩

theorem walkDone_obj (paths : List (List Step)) (m : List UInt8 × Json) (ms : List (List UInt8 × Json))
    (hndk : ((m :: ms).map Prod.fst).Nodup) (hM : MembersDone paths (m :: ms)) : WalkDone paths (.obj (m :: ms)) := by
  apply walkDone_of_kids
  intro kids o q st hH hW hInv hPre hRes hk
  simp only [Trie.WF] at hW
  obtain ⟨hWK, _⟩ := hW
  have hall : ∀ s ∈ kids.map Prod.fst, ∃ k, s = Step.key k := by
    intro s hs
    obtain ⟨j, r, hp⟩ := kid_on_path paths o kids q hH hWK s hs
    have hr := hRes j (s :: r) hp
    cases s with
    | key k => exact ⟨k, rfl⟩
    | idx n => simp [lookJ] at hr
  have hkind : kindOf kids = .key := by
    cases kids with
    | nil => exact absurd rfl hk
    | cons a rest =>
      obtain ⟨s, c⟩ := a
      obtain ⟨k, hk'⟩ := hall s (by simp)
      subst hk'; rfl
  rw [walkKids, hkind]
  simp only
  have hPre' : ∀ (j : Nat) k r, k ∈ (m :: ms).map Prod.fst → paths[j]? = some (q ++ .key k :: r) → st.1[j]? = some none :=
    fun j k r _ hp => hPre j ⟨.key k :: r, hp⟩
  have hRes' : ∀ (j : Nat) k r, k ∈ (m :: ms).map Prod.fst → paths[j]? = some (q ++ .key k :: r) →
      ((lookupJ k (m :: ms)).bind fun y => lookJ y r) ≠ none := by
    intro j k r _ hp
    have := hRes j (.key k :: r) hp
    simpa [lookJ] using this
  exact hM kids o q st hH hWK hInv hndk hPre' hRes'

mutual
theorem walk_done (paths : List (List Step)) : ∀ v : Json, DupFree v → WalkDone paths v
  | .null, _ => walkDone_scalar paths _ (by intro s r; simp [lookJ])
  | .bool _, _ => walkDone_scalar paths _ (by intro s r; simp [lookJ])
  | .num _ _, _ => walkDone_scalar paths _ (by intro s r; simp [lookJ])
  | .str _, _ => walkDone_scalar paths _ (by intro s r; simp [lookJ])
  | .arr [], _ => walkDone_scalar paths _ (by intro s r; cases s <;> simp [lookJ])
  | .obj [], _ => walkDone_scalar paths _ (by intro s r; cases s <;> simp [lookJ, lookupJ])
  | .arr (x :: xs), h => walkDone_arr paths x xs (elems_done paths (x :: xs) h)
  | .obj (m :: ms), h => walkDone_obj paths m ms h.1 (members_done paths (m :: ms) h.2)
theorem elems_done (paths : List (List Step)) : ∀ xs : List Json, DupFreeL xs → ElemsDone paths xs
  | [], _ => elemsDone_nil paths
  | x :: r, h => elemsDone_cons paths x r (walk_done paths x h.1) (walk_ok paths x h.1) (elems_done paths r h.2)
theorem members_done (paths : List (List Step)) : ∀ ms : List (List UInt8 × Json), DupFreeM ms → MembersDone paths ms
  | [], _ => membersDone_nil paths
  | (k, x) :: r, h => membersDone_cons paths k x r (walk_done paths x h.1) (walk_ok paths x h.1) (members_done paths r h.2)
end

/-- **`get_many` succeeds with every slot filled whenever every path resolves by itself**
    (duplicate-free document, any set of paths) -/
theorem getMany_complete (paths : List (List Step)) (doc : Json) (hdf : DupFree doc)
    (hres : ∀ j : Nat, j < paths.length → lookJ doc (paths[j]?.getD []) ≠ none) :
    ∃ out, getMany paths doc = some out ∧ out.length = paths.length ∧
      ∀ j : Nat, j < paths.length → ∃ v, out[j]? = some (some v) ∧ lookJ doc (paths[j]?.getD []) = some v := by
  have hH : Holds paths (build paths) [] := by
    intro r j; simpa using build_slots paths r j
  have hInv : Inv (List.replicate paths.length (none : Option Json), paths.length) := by
    unfold Inv unfilled; simp
  have hPre : ∀ j : Nat, InSub paths [] j → (List.replicate paths.length (none : Option Json), paths.length).1[j]? = some none := by
    rintro j ⟨r, hp⟩
    have hlt : j < paths.length := by
      cases hh : paths[j]? with
      | none => rw [hh] at hp; cases hp
      | some _ => exact (List.getElem?_eq_some_iff.mp hh).1
    simp [hlt]
  have hRes : Resolves paths [] doc := by
    intro j r hp
    have hlt : j < paths.length := by
      cases hh : paths[j]? with
      | none => rw [hh] at hp; cases hp
      | some _ => exact (List.getElem?_eq_some_iff.mp hh).1
    have := hres j hlt
    rw [hp] at this
    simpa using this
  obtain ⟨st', hw⟩ := walk_done paths doc hdf (build paths) [] _ hH (build_wf paths) hInv hPre hRes
  have hgm : getMany paths doc = some st'.1 := by unfold getMany; rw [hw]; rfl
  obtain ⟨hlen, hslots⟩ := getMany_refines_lookup paths doc hdf st'.1 hgm
  refine ⟨st'.1, hgm, hlen, ?_⟩
  intro j hj
  have h1 := hslots j hj
  cases hl : lookJ doc (paths[j]?.getD []) with
  | none => exact absurd hl (hres j hj)
  | some v => exact ⟨v, by rw [h1, hl], rfl⟩

end Many
end Sonic
