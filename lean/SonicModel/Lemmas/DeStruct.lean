import SonicModel.Lemmas.DeMap
import SonicModel.Lemmas.ImplFuel
/-! the typed deserializer on derived structs: read by position from an array, by name from an object -/
namespace Sonic
namespace De
open Gen Spec Impl DomP


/-- the defaults a derived `visit_seq` fills in when the elements have run out -/
def tailDefaults : List Field → Option (List (List UInt8 × Val))
  | [] => some []
  | .mk name ty dflt :: rest => if dflt then (tailDefaults rest).map ((name, defaultVal ty) :: ·) else none

theorem decodeFieldsSeq_nil (buf : Buf) : ∀ (fields : List Field) (g : Nat), fields.length < g →
    sequenceOpt (decodeFieldsSeq buf g fields []) = tailDefaults fields := by
  intro fields
  induction fields with
  | nil => intro g hg; cases g with
    | zero => omega
    | succ g => simp [decodeFieldsSeq, sequenceOpt, tailDefaults]
  | cons fl rest ih =>
    intro g hg
    obtain ⟨name, ty, dflt⟩ := fl
    cases g with
    | zero => omega
    | succ g =>
      have := ih g (by simp at hg; omega)
      simp only [decodeFieldsSeq, List.tail_nil, tailDefaults]
      cases dflt with
      | false => simp [sequenceOpt]
      | true => simp [sequenceOpt, this]

/-- the derived `visit_seq` once the closing bracket has been reached: defaults or an error -/
theorem structSeq_tail (buf : Buf) : ∀ (fields : List Field) (f i : Nat) (first : Bool) (acc : List (List UInt8 × Val)),
    buf[skipWs buf i]? = some 93 → structSeq f fields buf i first acc ≠ .fuel →
    structSeq f fields buf i first acc =
      (match tailDefaults fields with | some ds => .ok (acc ++ ds) (if fields = [] then i else skipWs buf i) | none => .err) := by
  intro fields
  induction fields with
  | nil =>
    intro f i first acc hcl hne
    cases f with
    | zero => exact absurd (by rw [structSeq]) hne
    | succ f => rw [structSeq]; simp [tailDefaults]
  | cons fl rest ih =>
    intro f i first acc hcl hne
    obtain ⟨name, ty, dflt⟩ := fl
    cases f with
    | zero => exact absurd (by rw [structSeq]) hne
    | succ f =>
      cases f with
      | zero => exact absurd (by rw [structSeq, nextElem]) hne
      | succ f =>
        rw [structSeq, nextElem_end buf f ty i first hcl] at hne ⊢
        cases dflt with
        | false => simp [tailDefaults]
        | true =>
          simp only [if_true] at hne ⊢
          have hcl2 : buf[skipWs buf (skipWs buf i)]? = some 93 := by rw [skipWs_idem]; exact hcl
          rw [ih (f + 1) (skipWs buf i) first _ hcl2 hne]
          simp only [tailDefaults, if_true, skipWs_idem]
          cases tailDefaults rest with
          | none => rfl
          | some ds =>
            simp only [Option.map_some, List.append_assoc, List.singleton_append]
            by_cases hr : rest = []
            · simp [hr]
            · simp [hr]

/-- the derived `visit_seq` followed by `end_seq`, as one result -/
def structEnd (buf : Buf) (r : R (List (List UInt8 × Val))) : R Val :=
  match r with
  | .ok vs e => endSeq buf e (.struct vs)
  | .err => .err
  | .fuel => .fuel

def ofFields (len_ok : Bool) (o : Option (List (List UInt8 × Val))) (acc : List (List UInt8 × Val)) (e : Nat) : R Val :=
  match o with
  | some vs => if len_ok then .ok (.struct (acc ++ vs)) e else .err
  | none => .err

/-- **a derived struct read from the elements of an array** -/
theorem structSeq_elems (buf : Buf) (p : Nat) (xs : List Json) (e : Nat) (hel : Elems buf p xs e) :
    ∀ fields, covF fields = true → ∀ f i first acc, Entry buf i first p → structSeq f fields buf i first acc ≠ .fuel →
      ∃ g0, ∀ g, g0 ≤ g → structEnd buf (structSeq f fields buf i first acc) =
        ofFields (decide (xs.length ≤ fields.length)) (sequenceOpt (decodeFieldsSeq buf g fields xs)) acc e := by
  induction hel with
  | last p x e1 hv hcl =>
    intro fields hcov f i first acc hE hne
    cases f with
    | zero => exact absurd (by rw [structSeq]) hne
    | succ f =>
      cases fields with
      | nil =>
        refine ⟨1, ?_⟩
        intro g hg
        obtain ⟨g', rfl⟩ : ∃ g', g = g' + 1 := ⟨g - 1, by omega⟩
        rw [structSeq]
        simp only [structEnd, endSeq_not buf i _ (entry_not_close buf i first p x e1 hE hv)]
        simp [ofFields, decodeFieldsSeq, sequenceOpt]
      | cons fl rest =>
        obtain ⟨name, t, dflt⟩ := fl
        have hct : cov t = true := by simp [covF] at hcov; exact hcov.1
        cases f with
        | zero => exact absurd (by rw [structSeq, nextElem]) hne
        | succ f =>
          obtain ⟨i', hi', hnx⟩ := nextElem_at buf f t i first p x e1 hE hv
          rw [structSeq, hnx] at hne ⊢
          have hde : de f t buf i' ≠ .fuel := by
            intro h; rw [h] at hne; exact hne rfl
          obtain ⟨g1, hg1⟩ := hv.facts f t i' hct hi' hde
          cases hr : de f t buf i' with
          | fuel => exact absurd hr hde
          | err =>
            refine ⟨g1 + 1, ?_⟩
            intro g hg
            obtain ⟨g', rfl⟩ : ∃ g', g = g' + 1 := ⟨g - 1, by omega⟩
            have := hg1 g' (by omega)
            rw [hr] at this
            cases hd : decode buf g' t x with
            | none => simp [decodeFieldsSeq, hd, sequenceOpt, ofFields, R.map, structEnd]
            | some v => rw [hd] at this; simp [ofOpt] at this
          | ok v e' =>
            have he' : e' = e1 := by
              have := hg1 g1 (Nat.le_refl _)
              rw [hr] at this
              cases hd : decode buf g1 t x with
              | none => rw [hd] at this; simp [ofOpt] at this
              | some w => rw [hd] at this; simp [ofOpt] at this; exact this.2.symm
            subst he'
            rw [hr] at hne
            simp only [R.map] at hne ⊢
            rw [structSeq_tail buf rest (f + 1) e' false _ hcl hne]
            refine ⟨g1 + rest.length + 2, ?_⟩
            intro g hg
            obtain ⟨g', rfl⟩ : ∃ g', g = g' + 1 := ⟨g - 1, by omega⟩
            have h1 := hg1 g' (by omega)
            rw [hr] at h1
            cases hd : decode buf g' t x with
            | none => rw [hd] at h1; simp [ofOpt] at h1
            | some w =>
              rw [hd] at h1; simp only [ofOpt, R.ok.injEq] at h1
              simp only [decodeFieldsSeq, hd, List.tail_cons, Option.map_some, sequenceOpt]
              rw [decodeFieldsSeq_nil buf rest g' (by omega)]
              cases htd : tailDefaults rest with
              | none => simp [structEnd, ofFields]
              | some ds =>
                simp only [structEnd, Option.map_some, ofFields, List.length_cons, List.length_nil]
                have hpos : endSeq buf (if rest = [] then e' else skipWs buf e') (.struct ((acc ++ [(name, v)]) ++ ds)) =
                    .ok (.struct ((acc ++ [(name, v)]) ++ ds)) (skipWs buf e' + 1) := by
                  by_cases hr2 : rest = []
                  · simp only [hr2, if_true]; exact endSeq_at buf e' _ hcl
                  · simp only [hr2, if_false]
                    have := endSeq_at buf (skipWs buf e') (.struct ((acc ++ [(name, v)]) ++ ds)) (by rw [skipWs_idem]; exact hcl)
                    rw [skipWs_idem] at this; exact this
                rw [hpos]
                simp [h1.1]
  | cons p x e1 xs e hv hco hel ih =>
    intro fields hcov f i first acc hE hne
    cases f with
    | zero => exact absurd (by rw [structSeq]) hne
    | succ f =>
      cases fields with
      | nil =>
        refine ⟨1, ?_⟩
        intro g hg
        obtain ⟨g', rfl⟩ : ∃ g', g = g' + 1 := ⟨g - 1, by omega⟩
        rw [structSeq]
        simp only [structEnd, endSeq_not buf i _ (entry_not_close buf i first p x e1 hE hv)]
        simp [ofFields, decodeFieldsSeq, sequenceOpt]
      | cons fl rest =>
        obtain ⟨name, t, dflt⟩ := fl
        have hct : cov t = true := by simp [covF] at hcov; exact hcov.1
        have hcr : covF rest = true := by simp [covF] at hcov; exact hcov.2
        cases f with
        | zero => exact absurd (by rw [structSeq, nextElem]) hne
        | succ f =>
          obtain ⟨i', hi', hnx⟩ := nextElem_at buf f t i first p x e1 hE hv
          rw [structSeq, hnx] at hne ⊢
          have hde : de f t buf i' ≠ .fuel := by
            intro h; rw [h] at hne; exact hne rfl
          obtain ⟨g1, hg1⟩ := hv.facts f t i' hct hi' hde
          cases hr : de f t buf i' with
          | fuel => exact absurd hr hde
          | err =>
            refine ⟨g1 + 1, ?_⟩
            intro g hg
            obtain ⟨g', rfl⟩ : ∃ g', g = g' + 1 := ⟨g - 1, by omega⟩
            have := hg1 g' (by omega)
            rw [hr] at this
            cases hd : decode buf g' t x with
            | none => simp [decodeFieldsSeq, hd, sequenceOpt, ofFields, R.map, structEnd]
            | some v => rw [hd] at this; simp [ofOpt] at this
          | ok v e' =>
            have he' : e' = e1 := by
              have := hg1 g1 (Nat.le_refl _)
              rw [hr] at this
              cases hd : decode buf g1 t x with
              | none => rw [hd] at this; simp [ofOpt] at this
              | some w => rw [hd] at this; simp [ofOpt] at this; exact this.2.symm
            subst he'
            rw [hr] at hne
            simp only [R.map] at hne ⊢
            have hE2 : Entry buf e' false (skipWs buf (skipWs buf e' + 1)) := Or.inr ⟨rfl, hco, rfl⟩
            obtain ⟨g2, hg2⟩ := ih rest hcr (f + 1) e' false (acc ++ [(name, v)]) hE2 hne
            refine ⟨max g1 g2 + 1, ?_⟩
            intro g hg
            obtain ⟨g', rfl⟩ : ∃ g', g = g' + 1 := ⟨g - 1, by omega⟩
            have h1 := hg1 g' (by omega)
            have h2 := hg2 g' (by omega)
            rw [hr] at h1
            cases hd : decode buf g' t x with
            | none => rw [hd] at h1; simp [ofOpt] at h1
            | some w =>
              rw [hd] at h1; simp only [ofOpt, R.ok.injEq] at h1
              rw [h2]
              simp only [decodeFieldsSeq, hd, List.tail_cons, Option.map_some, sequenceOpt, List.length_cons]
              have hlen : decide (xs.length + 1 ≤ rest.length + 1) = decide (xs.length ≤ rest.length) := by simp
              rw [hlen]
              cases sequenceOpt (decodeFieldsSeq buf g' rest xs) with
              | none => rfl
              | some vs => simp [ofFields, h1.1]



/-- what the derived `visit_map` does with the members of an object, as a relation: the slots before, the members, and the
    slots afterwards (`none` = an error); `G` = a fuel of the reference from which the verdicts on the members it looked at
    no longer change -/
inductive Run (buf : Buf) (fields : List Field) (deny : Bool) (G : Nat) :
    List (List UInt8 × Json) → List (Option Val) → Option (List (Option Val)) → Prop where
  | nil (s) : Run buf fields deny G [] s (some s)
  | knownOk (k x r s o idx v) : fieldIndex k fields 0 = some idx → (s.getD idx none).isSome = false →
      (∀ g, G ≤ g → decode buf g (fieldTy fields idx) x = some v) → Run buf fields deny G r (s.set idx (some v)) o →
      Run buf fields deny G ((k, x) :: r) s o
  | knownErr (k x r s idx) : fieldIndex k fields 0 = some idx → (s.getD idx none).isSome = false →
      (∀ g, G ≤ g → decode buf g (fieldTy fields idx) x = none) → Run buf fields deny G ((k, x) :: r) s none
  | dup (k x r s idx) : fieldIndex k fields 0 = some idx → (s.getD idx none).isSome = true →
      Run buf fields deny G ((k, x) :: r) s none
  | unknownSkip (k x r s o) : fieldIndex k fields 0 = none → deny = false → Run buf fields deny G r s o →
      Run buf fields deny G ((k, x) :: r) s o
  | unknownDeny (k x r s) : fieldIndex k fields 0 = none → deny = true → Run buf fields deny G ((k, x) :: r) s none

theorem Run.mono (buf : Buf) (fields : List Field) (deny : Bool) (G G' : Nat) (hle : G ≤ G') (ms s o)
    (h : Run buf fields deny G ms s o) : Run buf fields deny G' ms s o := by
  induction h with
  | nil s => exact .nil s
  | knownOk k x r s o idx v h1 h2 h3 _ ih => exact .knownOk k x r s o idx v h1 h2 (fun g hg => h3 g (by omega)) ih
  | knownErr k x r s idx h1 h2 h3 => exact .knownErr k x r s idx h1 h2 (fun g hg => h3 g (by omega))
  | dup k x r s idx h1 h2 => exact .dup k x r s idx h1 h2
  | unknownSkip k x r s o h1 h2 _ ih => exact .unknownSkip k x r s o h1 h2 ih
  | unknownDeny k x r s h1 h2 => exact .unknownDeny k x r s h1 h2

def ofSlots (o : Option (List (Option Val))) (e : Nat) : R (List (Option Val)) :=
  match o with
  | some s => .ok s e
  | none => .err

theorem fieldIndex_lt (name : List UInt8) : ∀ (fields : List Field) (k0 idx : Nat), fieldIndex name fields k0 = some idx →
    k0 ≤ idx ∧ idx - k0 < fields.length := by
  intro fields
  induction fields with
  | nil => intro k0 idx h; simp [fieldIndex] at h
  | cons fl rest ih =>
    intro k0 idx h
    obtain ⟨n, t, d⟩ := fl
    simp only [fieldIndex] at h
    split at h
    · simp only [Option.some.injEq] at h; subst h; simp
    · have := ih (k0 + 1) idx h
      simp; omega

theorem cov_fieldTy (fields : List Field) (hc : covF fields = true) : ∀ k, cov (fieldTy fields k) = true := by
  induction fields with
  | nil => intro k; simp [fieldTy, cov]
  | cons fl rest ih =>
    intro k
    obtain ⟨n, t, d⟩ := fl
    simp [covF] at hc
    cases k with
    | zero => simp [fieldTy, hc.1]
    | succ k =>
      have := ih hc.2 k
      simpa [fieldTy] using this

theorem skipOne_of_lazy (buf : Buf) (c s e1 : Nat) (hs : skipWs buf c = s) (hl : ∃ F, Spec.value false F buf s = .ok e1) :
    skipOne buf.size (Impl.fuelFor buf) buf c = .ok e1 := by
  obtain ⟨F, hF⟩ := hl
  have h1 := Spec.value_canonical false buf F s (.ok e1) hF (by simp)
  have h2 := skipOne_eq_value buf c
  rw [hs, h1] at h2
  exact GetU.erase_ok _ _ h2

/-- **the derived `visit_map` over the members of an object** -/
theorem structLoop_members (buf : Buf) (fields : List Field) (deny : Bool) (hc : covF fields = true) (q : Nat)
    (ms : List (List UInt8 × Json)) (e : Nat) (hm : Members buf q ms e) :
    ∀ f i first slots, EntryK buf i first q → structLoop f fields deny buf i first slots ≠ .fuel →
      ∃ G o, Run buf fields deny G ms slots o ∧ structLoop f fields deny buf i first slots = ofSlots o (e - 1) := by
  induction hm with
  | last q k k1 x e1 hq hk hcol hv hcl =>
    intro f i first slots hE hne
    cases f with
    | zero => exact absurd (by rw [structLoop]) hne
    | succ f =>
      obtain ⟨esc, hd⟩ := decodeFrom_of_stringS_some buf (q + 1) k k1 hk
      have hclo := parseObjectClo_ok_of_colon buf k1 hcol
      rw [structLoop, nextKey_at buf i first q hE hq] at hne ⊢
      simp only [hd] at hne ⊢
      have hend : ∀ s', structLoop f fields deny buf e1 false s' ≠ .fuel →
          structLoop f fields deny buf e1 false s' = .ok s' (skipWs buf e1) := by
        intro s' hh
        cases f with
        | zero => exact absurd (by rw [structLoop]) hh
        | succ f => rw [structLoop, nextKey_end buf e1 false hcl]
      cases hfi : fieldIndex k fields 0 with
      | some idx =>
        simp only [hfi] at hne ⊢
        by_cases hs : (slots.getD idx none).isSome = true
        · simp only [hs, if_true]
          exact ⟨0, none, .dup k x [] slots idx hfi hs, rfl⟩
        · have hs' : (slots.getD idx none).isSome = false := by simpa using hs
          simp only [hs', Bool.false_eq_true, if_false, hclo] at hne ⊢
          have hde : de f (fieldTy fields idx) buf (skipWs buf k1 + 1) ≠ .fuel := by
            intro h; rw [h] at hne; exact hne rfl
          obtain ⟨g1, hg1⟩ := hv.facts f _ _ (cov_fieldTy fields hc idx) rfl hde
          cases hr : de f (fieldTy fields idx) buf (skipWs buf k1 + 1) with
          | fuel => exact absurd hr hde
          | err =>
            refine ⟨g1, none, .knownErr k x [] slots idx hfi hs' ?_, rfl⟩
            intro g hg
            have := hg1 g hg
            rw [hr] at this
            cases hdd : decode buf g (fieldTy fields idx) x with
            | none => rfl
            | some w => rw [hdd] at this; simp [ofOpt] at this
          | ok w e' =>
            have hall : ∀ g, g1 ≤ g → decode buf g (fieldTy fields idx) x = some w ∧ e' = e1 := by
              intro g hg
              have := hg1 g hg
              rw [hr] at this
              cases hdd : decode buf g (fieldTy fields idx) x with
              | none => rw [hdd] at this; simp [ofOpt] at this
              | some w' => rw [hdd] at this; simp [ofOpt] at this; exact ⟨by rw [this.1], this.2.symm⟩
            have he' := (hall g1 (Nat.le_refl _)).2
            subst he'
            rw [hr] at hne
            simp only at hne ⊢
            rw [hend _ hne]
            refine ⟨g1, some (slots.set idx (some w)), .knownOk k x [] slots _ idx w hfi hs' (fun g hg => (hall g hg).1) (.nil _), ?_⟩
            simp [ofSlots]
      | none =>
        simp only [hfi] at hne ⊢
        cases deny with
        | true => exact ⟨0, none, .unknownDeny k x [] slots hfi rfl, rfl⟩
        | false =>
          simp only [Bool.false_eq_true, if_false, hclo, skipOne_of_lazy buf _ _ e1 rfl hv.lazy] at hne ⊢
          rw [hend _ hne]
          exact ⟨0, some slots, .unknownSkip k x [] slots _ hfi rfl (.nil _), by simp [ofSlots]⟩
  | cons q k k1 x e1 ms e hq hk hcol hv hco hm ih =>
    intro f i first slots hE hne
    cases f with
    | zero => exact absurd (by rw [structLoop]) hne
    | succ f =>
      obtain ⟨esc, hd⟩ := decodeFrom_of_stringS_some buf (q + 1) k k1 hk
      have hclo := parseObjectClo_ok_of_colon buf k1 hcol
      rw [structLoop, nextKey_at buf i first q hE hq] at hne ⊢
      simp only [hd] at hne ⊢
      have hE2 : EntryK buf e1 false (skipWs buf (skipWs buf e1 + 1)) := Or.inr ⟨rfl, hco, rfl⟩
      cases hfi : fieldIndex k fields 0 with
      | some idx =>
        simp only [hfi] at hne ⊢
        by_cases hs : (slots.getD idx none).isSome = true
        · simp only [hs, if_true]
          exact ⟨0, none, .dup k x ms slots idx hfi hs, rfl⟩
        · have hs' : (slots.getD idx none).isSome = false := by simpa using hs
          simp only [hs', Bool.false_eq_true, if_false, hclo] at hne ⊢
          have hde : de f (fieldTy fields idx) buf (skipWs buf k1 + 1) ≠ .fuel := by
            intro h; rw [h] at hne; exact hne rfl
          obtain ⟨g1, hg1⟩ := hv.facts f _ _ (cov_fieldTy fields hc idx) rfl hde
          cases hr : de f (fieldTy fields idx) buf (skipWs buf k1 + 1) with
          | fuel => exact absurd hr hde
          | err =>
            refine ⟨g1, none, .knownErr k x ms slots idx hfi hs' ?_, rfl⟩
            intro g hg
            have := hg1 g hg
            rw [hr] at this
            cases hdd : decode buf g (fieldTy fields idx) x with
            | none => rfl
            | some w => rw [hdd] at this; simp [ofOpt] at this
          | ok w e' =>
            have hall : ∀ g, g1 ≤ g → decode buf g (fieldTy fields idx) x = some w ∧ e' = e1 := by
              intro g hg
              have := hg1 g hg
              rw [hr] at this
              cases hdd : decode buf g (fieldTy fields idx) x with
              | none => rw [hdd] at this; simp [ofOpt] at this
              | some w' => rw [hdd] at this; simp [ofOpt] at this; exact ⟨by rw [this.1], this.2.symm⟩
            have he' := (hall g1 (Nat.le_refl _)).2
            subst he'
            rw [hr] at hne
            simp only at hne ⊢
            obtain ⟨G2, o, hrun, hres⟩ := ih f e' false (slots.set idx (some w)) hE2 hne
            refine ⟨max g1 G2, o, .knownOk k x ms slots o idx w hfi hs' (fun g hg => (hall g (by omega)).1)
              (Run.mono buf fields deny G2 _ (Nat.le_max_right _ _) _ _ _ hrun), hres⟩
      | none =>
        simp only [hfi] at hne ⊢
        cases deny with
        | true => exact ⟨0, none, .unknownDeny k x ms slots hfi rfl, rfl⟩
        | false =>
          simp only [Bool.false_eq_true, if_false, hclo, skipOne_of_lazy buf _ _ e1 rfl hv.lazy] at hne ⊢
          obtain ⟨G2, o, hrun, hres⟩ := ih f e1 false slots hE2 hne
          exact ⟨G2, o, .unknownSkip k x ms slots o hfi rfl hrun, hres⟩



/-- is `k` the name of a field (as the reference tests it for `deny_unknown_fields`) -/
def known (fields : List Field) (k : List UInt8) : Bool :=
  fields.any fun fl => match fl with | .mk n _ _ => n == k

theorem lookupField_append (n : List UInt8) (a b : List (List UInt8 × Json)) :
    lookupField n (a ++ b) = lookupField n a ++ lookupField n b := by
  induction a with
  | nil => rfl
  | cons m r ih =>
    obtain ⟨k, v⟩ := m
    simp only [List.cons_append, lookupField]
    split <;> simp [ih]

theorem fieldIndex_spec (k : List UInt8) : ∀ (fields : List Field) (k0 idx : Nat), fieldIndex k fields k0 = some idx →
    k0 ≤ idx ∧ ∃ ty d, fields[idx - k0]? = some (.mk k ty d) := by
  intro fields
  induction fields with
  | nil => intro k0 idx h; simp [fieldIndex] at h
  | cons fl rest ih =>
    intro k0 idx h
    obtain ⟨n, t, d⟩ := fl
    simp only [fieldIndex] at h
    split at h
    · rename_i hn
      simp only [Option.some.injEq] at h; subst h; subst hn
      exact ⟨Nat.le_refl _, t, d, by simp⟩
    · obtain ⟨h1, ty, d', h2⟩ := ih (k0 + 1) idx h
      refine ⟨by omega, ty, d', ?_⟩
      have : idx - k0 = (idx - (k0 + 1)) + 1 := by omega
      rw [this]; simpa using h2

theorem fieldIndex_none (k : List UInt8) : ∀ (fields : List Field) (k0 : Nat), fieldIndex k fields k0 = none →
    known fields k = false := by
  intro fields
  induction fields with
  | nil => intro k0 _; rfl
  | cons fl rest ih =>
    intro k0 h
    obtain ⟨n, t, d⟩ := fl
    simp only [fieldIndex] at h
    split at h
    · simp at h
    · rename_i hn
      have := ih (k0 + 1) h
      simp only [known, List.any_cons] at this ⊢
      have hnk : (n == k) = false := by simpa using hn
      simp [hnk, this]

theorem known_of_mem (fields : List Field) (j : Nat) (k : List UInt8) (ty : Ty) (d : Bool) (h : fields[j]? = some (.mk k ty d)) :
    known fields k = true := by
  unfold known
  rw [List.any_eq_true]
  exact ⟨.mk k ty d, List.mem_of_getElem? h, by simp⟩

/-- a slot of the derived visitor against the members seen so far -/
def SlotOK (buf : Buf) (G : Nat) (pre : List (List UInt8 × Json)) (fl : Field) (o : Option Val) : Prop :=
  match fl, o with
  | .mk name _ _, none => lookupField name pre = []
  | .mk name ty _, some v => ∃ x, lookupField name pre = [x] ∧ ∀ g, G ≤ g → decode buf g ty x = some v

def Inv (buf : Buf) (G : Nat) (fields : List Field) (s : List (Option Val)) (pre : List (List UInt8 × Json)) : Prop :=
  s.length = fields.length ∧ ∀ j fl, fields[j]? = some fl → SlotOK buf G pre fl (s.getD j none)

/-- the entry of the reference for one field -/
def entryOf (buf : Buf) (g : Nat) (fl : Field) (ms : List (List UInt8 × Json)) : Option (List UInt8 × Val) :=
  match fl with
  | .mk name ty dflt =>
    match lookupField name ms with
    | [x] => (decode buf g ty x).map fun v => (name, v)
    | [] => (if dflt then some (name, defaultVal ty) else match ty with | .opt _ => some (name, .none) | _ => none)
    | _ => none

theorem decodeFields_cons (buf : Buf) (g : Nat) (fl : Field) (rest : List Field) (ms : List (List UInt8 × Json)) :
    decodeFields buf (g + 1) (fl :: rest) ms = entryOf buf g fl ms :: decodeFields buf g rest ms := by
  obtain ⟨name, ty, dflt⟩ := fl
  simp only [decodeFields, entryOf]
  congr 1

theorem decodeFields_get (buf : Buf) (ms : List (List UInt8 × Json)) : ∀ (fields : List Field) (g j : Nat) (fl : Field),
    fields[j]? = some fl → j < g → (decodeFields buf g fields ms)[j]? = some (entryOf buf (g - j - 1) fl ms) := by
  intro fields
  induction fields with
  | nil => intro g j fl h; simp at h
  | cons f0 rest ih =>
    intro g j fl h hj
    cases g with
    | zero => omega
    | succ g =>
      rw [decodeFields_cons]
      cases j with
      | zero => simp at h; subst h; simp
      | succ j =>
        simp at h
        have := ih g j fl h (by omega)
        simp only [List.getElem?_cons_succ, this]
        congr 2; omega

theorem sequenceOpt_none_of_get {α} : ∀ (l : List (Option α)) (j : Nat), l[j]? = some none → sequenceOpt l = none := by
  intro l
  induction l with
  | nil => intro j h; simp at h
  | cons a r ih =>
    intro j h
    cases j with
    | zero => simp at h; subst h; rfl
    | succ j =>
      simp at h
      cases a with
      | none => rfl
      | some x => simp [sequenceOpt, ih j h]

theorem names_inj (fields : List Field) (hnd : (fields.map fname).Nodup) (i j : Nat) (n : List UInt8) (t1 t2 : Ty) (d1 d2 : Bool)
    (hi : fields[i]? = some (.mk n t1 d1)) (hj : fields[j]? = some (.mk n t2 d2)) : i = j := by
  have h1 : (fields.map fname)[i]? = some n := by simp [List.getElem?_map, hi, fname]
  have h2 : (fields.map fname)[j]? = some n := by simp [List.getElem?_map, hj, fname]
  have hi' : i < (fields.map fname).length := (List.getElem?_eq_some_iff.mp h1).1
  have hj' : j < (fields.map fname).length := (List.getElem?_eq_some_iff.mp h2).1
  have e1 := (List.getElem?_eq_some_iff.mp h1).2
  have e2 := (List.getElem?_eq_some_iff.mp h2).2
  exact (List.getElem_inj (h₀ := hi') (h₁ := hj') hnd).mp (by rw [e1, e2])


theorem getD_set_eq (s : List (Option Val)) (idx : Nat) (v : Option Val) (h : idx < s.length) : (s.set idx v).getD idx none = v := by
  simp [List.getD_eq_getElem?_getD, List.getElem?_set, h]

theorem getD_set_ne (s : List (Option Val)) (idx j : Nat) (v : Option Val) (h : j ≠ idx) : (s.set idx v).getD j none = s.getD j none := by
  simp [List.getD_eq_getElem?_getD, List.getElem?_set, Ne.symm h]

theorem lookupField_snoc_other (n k : List UInt8) (x : Json) (pre : List (List UInt8 × Json)) (h : k ≠ n) :
    lookupField n (pre ++ [(k, x)]) = lookupField n pre := by
  rw [lookupField_append]; simp [lookupField, h]

theorem lookupField_snoc_same (k : List UInt8) (x : Json) (pre : List (List UInt8 × Json)) :
    lookupField k (pre ++ [(k, x)]) = lookupField k pre ++ [x] := by
  rw [lookupField_append]; simp [lookupField]

theorem struct_none_of_entry (buf : Buf) (fields : List Field) (deny : Bool) (total : List (List UInt8 × Json)) (G idx : Nat) (fl : Field)
    (hfl : fields[idx]? = some fl) (hent : ∀ g, G ≤ g → entryOf buf g fl total = none) :
    ∀ g, G + fields.length < g → decode buf g (.struct fields deny) (.obj total) = none := by
  intro g hg
  obtain ⟨g', rfl⟩ : ∃ g', g = g' + 1 := ⟨g - 1, by omega⟩
  have hidx : idx < fields.length := (List.getElem?_eq_some_iff.mp hfl).1
  have h1 := decodeFields_get buf total fields g' idx fl hfl (by omega)
  rw [hent _ (by omega)] at h1
  have h2 := sequenceOpt_none_of_get _ idx h1
  simp only [decode, h2]
  split <;> rfl

theorem struct_none_of_unknown (buf : Buf) (fields : List Field) (total : List (List UInt8 × Json)) (k : List UInt8) (x : Json)
    (hmem : (k, x) ∈ total) (hkn : known fields k = false) : ∀ g, decode buf (g + 1) (.struct fields true) (.obj total) = none := by
  intro g
  simp only [decode]
  rw [if_pos]
  simp only [Bool.true_and, List.any_eq_true]
  refine ⟨(k, x), hmem, ?_⟩
  simp only [Bool.not_eq_true', List.any_eq_false]
  intro fl hfl
  unfold known at hkn
  rw [List.any_eq_false] at hkn
  have := hkn fl hfl
  obtain ⟨n, t, d⟩ := fl
  simpa using this

/-- what `Run` establishes -/
def RunPost (buf : Buf) (fields : List Field) (deny : Bool) (G : Nat) (total : List (List UInt8 × Json)) :
    Option (List (Option Val)) → Prop
  | some s' => Inv buf G fields s' total ∧ (deny = true → ∀ m ∈ total, known fields m.1 = true)
  | none => ∀ g, G + fields.length < g → decode buf g (.struct fields deny) (.obj total) = none

/-- **what the slots of the derived visitor say about the members, against the reference** -/
theorem run_spec (buf : Buf) (fields : List Field) (deny : Bool) (G : Nat) (hnd : (fields.map fname).Nodup)
    (ms : List (List UInt8 × Json)) (s : List (Option Val)) (o : Option (List (Option Val))) (hr : Run buf fields deny G ms s o) :
    ∀ pre, Inv buf G fields s pre → (deny = true → ∀ m ∈ pre, known fields m.1 = true) →
      RunPost buf fields deny G (pre ++ ms) o := by
  induction hr with
  | nil s =>
    intro pre hinv hk
    simp only [List.append_nil]
    exact ⟨hinv, hk⟩
  | knownOk k x r s o idx v h1 h2 h3 hrun ih =>
    intro pre hinv hk
    obtain ⟨_, ty, d, hfl⟩ := fieldIndex_spec k fields 0 idx h1
    simp only [Nat.sub_zero] at hfl
    have hidx : idx < fields.length := (List.getElem?_eq_some_iff.mp hfl).1
    have hty : fieldTy fields idx = ty := by simp [fieldTy, hfl]
    have hslot := hinv.2 idx _ hfl
    have hnone : s.getD idx none = none := by
      cases hh : s.getD idx none with
      | none => rfl
      | some w => rw [hh] at h2; simp at h2
    rw [hnone] at hslot
    simp only [SlotOK] at hslot
    have hinv' : Inv buf G fields (s.set idx (some v)) (pre ++ [(k, x)]) := by
      refine ⟨by rw [List.length_set]; exact hinv.1, ?_⟩
      intro j fl hj
      by_cases hji : j = idx
      · subst hji
        rw [hfl] at hj; simp only [Option.some.injEq] at hj; subst hj
        rw [getD_set_eq s j _ (by rw [hinv.1]; exact hidx)]
        simp only [SlotOK]
        exact ⟨x, by rw [lookupField_snoc_same, hslot]; rfl, by rw [← hty]; exact h3⟩
      · rw [getD_set_ne s idx j _ hji]
        have := hinv.2 j fl hj
        obtain ⟨n, t', d'⟩ := fl
        have hnk : k ≠ n := by
          intro hh; subst hh
          exact hji (names_inj fields hnd j idx k t' ty d' d hj hfl)
        cases hh : s.getD j none with
        | none => rw [hh] at this; simp only [SlotOK] at this ⊢; rw [lookupField_snoc_other n k x pre hnk]; exact this
        | some w => rw [hh] at this; simp only [SlotOK] at this ⊢; rw [lookupField_snoc_other n k x pre hnk]; exact this
    have hk' : deny = true → ∀ m ∈ pre ++ [(k, x)], known fields m.1 = true := by
      intro hd m hm
      simp only [List.mem_append, List.mem_singleton] at hm
      rcases hm with hm | hm
      · exact hk hd m hm
      · subst hm; exact known_of_mem fields idx k ty d hfl
    have := ih (pre ++ [(k, x)]) hinv' hk'
    rw [List.append_assoc] at this
    exact this
  | knownErr k x r s idx h1 h2 h3 =>
    intro pre hinv hk
    obtain ⟨_, ty, d, hfl⟩ := fieldIndex_spec k fields 0 idx h1
    simp only [Nat.sub_zero] at hfl
    have hty : fieldTy fields idx = ty := by simp [fieldTy, hfl]
    have hslot := hinv.2 idx _ hfl
    have hnone : s.getD idx none = none := by
      cases hh : s.getD idx none with
      | none => rfl
      | some w => rw [hh] at h2; simp at h2
    rw [hnone] at hslot
    simp only [SlotOK] at hslot
    show ∀ g, G + fields.length < g → decode buf g (.struct fields deny) (.obj (pre ++ (k, x) :: r)) = none
    refine struct_none_of_entry buf fields deny _ G idx _ hfl ?_
    intro g hg
    simp only [entryOf]
    have hl : lookupField k (pre ++ (k, x) :: r) = x :: lookupField k r := by
      rw [lookupField_append, hslot]; simp [lookupField]
    rw [hl]
    cases lookupField k r with
    | nil => simp only; rw [← hty, h3 g hg]; rfl
    | cons y ys => rfl
  | dup k x r s idx h1 h2 =>
    intro pre hinv hk
    obtain ⟨_, ty, d, hfl⟩ := fieldIndex_spec k fields 0 idx h1
    simp only [Nat.sub_zero] at hfl
    have hslot := hinv.2 idx _ hfl
    cases hh : s.getD idx none with
    | none => rw [hh] at h2; simp at h2
    | some w =>
      rw [hh] at hslot
      simp only [SlotOK] at hslot
      obtain ⟨x0, hx0, _⟩ := hslot
      show ∀ g, G + fields.length < g → decode buf g (.struct fields deny) (.obj (pre ++ (k, x) :: r)) = none
      refine struct_none_of_entry buf fields deny _ G idx _ hfl ?_
      intro g hg
      simp only [entryOf]
      have hl : lookupField k (pre ++ (k, x) :: r) = x0 :: x :: lookupField k r := by
        rw [lookupField_append, hx0]; simp [lookupField]
      rw [hl]
  | unknownSkip k x r s o h1 h2 hrun ih =>
    intro pre hinv hk
    have hkn := fieldIndex_none k fields 0 h1
    have hinv' : Inv buf G fields s (pre ++ [(k, x)]) := by
      refine ⟨hinv.1, ?_⟩
      intro j fl hj
      have := hinv.2 j fl hj
      obtain ⟨n, t', d'⟩ := fl
      have hnk : k ≠ n := by
        intro hh; subst hh
        have := known_of_mem fields j k t' d' hj
        rw [hkn] at this; cases this
      cases hh : s.getD j none with
      | none => rw [hh] at this; simp only [SlotOK] at this ⊢; rw [lookupField_snoc_other n k x pre hnk]; exact this
      | some w => rw [hh] at this; simp only [SlotOK] at this ⊢; rw [lookupField_snoc_other n k x pre hnk]; exact this
    have hk' : deny = true → ∀ m ∈ pre ++ [(k, x)], known fields m.1 = true := by
      intro hd; rw [h2] at hd; cases hd
    have := ih (pre ++ [(k, x)]) hinv' hk'
    rw [List.append_assoc] at this
    exact this
  | unknownDeny k x r s h1 h2 =>
    intro pre hinv hk
    show ∀ g, G + fields.length < g → decode buf g (.struct fields deny) (.obj (pre ++ (k, x) :: r)) = none
    intro g hg
    have hkn := fieldIndex_none k fields 0 h1
    obtain ⟨g', rfl⟩ : ∃ g', g = g' + 1 := ⟨g - 1, by omega⟩
    subst h2
    exact struct_none_of_unknown buf fields _ k x (by simp) hkn g'

/-- the end of the derived visitor against the reference's list of entries -/
theorem finish_eq (buf : Buf) (G : Nat) (total : List (List UInt8 × Json)) : ∀ (rest : List Field) (srest : List (Option Val)),
    srest.length = rest.length → (∀ j fl, rest[j]? = some fl → SlotOK buf G total fl (srest.getD j none)) →
    ∀ g, G + rest.length < g → finish rest srest = sequenceOpt (decodeFields buf g rest total) := by
  intro rest
  induction rest with
  | nil =>
    intro srest _ _ g hg
    obtain ⟨g', rfl⟩ : ∃ g', g = g' + 1 := ⟨g - 1, by omega⟩
    simp [finish, decodeFields, sequenceOpt]
  | cons fl rest ih =>
    intro srest hlen h g hg
    obtain ⟨g', rfl⟩ : ∃ g', g = g' + 1 := ⟨g - 1, by omega⟩
    cases srest with
    | nil => simp at hlen
    | cons o os =>
      have ih' := ih os (by simpa using hlen) (by
        intro j fl' hj
        have := h (j + 1) fl' (by simpa using hj)
        simpa using this) g' (by simp at hg; omega)
      have h0 := h 0 fl rfl
      simp only [List.getD_cons_zero] at h0
      rw [decodeFields_cons]
      obtain ⟨name, ty, dflt⟩ := fl
      simp only [finish, List.head?_cons, List.tail_cons, ih', sequenceOpt]
      cases o with
      | none =>
        simp only [SlotOK] at h0
        simp only [entryOf, h0, missing]
        cases dflt with
        | true =>
          simp only [if_true, sequenceOpt]
          cases sequenceOpt (decodeFields buf g' rest total) <;> rfl
        | false =>
          simp only [Bool.false_eq_true, if_false]
          cases ty <;> simp only [sequenceOpt] <;> cases sequenceOpt (decodeFields buf g' rest total) <;> rfl
      | some v =>
        simp only [SlotOK] at h0
        obtain ⟨x, hx, hdec⟩ := h0
        simp only [entryOf, hx, hdec g' (by simp at hg; omega), Option.map_some, sequenceOpt]
        cases sequenceOpt (decodeFields buf g' rest total) <;> rfl


end De
end Sonic
