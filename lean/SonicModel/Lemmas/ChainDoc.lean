import SonicModel.Lemmas.StrInplaceProof
import SonicModel.Lemmas.GrammarPad
/-
  The string literals of a document, in document order, form a `StrIn.Chain` whose decodings are the strings of the tree the
  text denotes: so `runMany_spec` applies to every well-formed document — decoding all its strings and member names in place,
  one after the other in the padded buffer, yields exactly the strings of the specification's tree.
-/
namespace Sonic
namespace ChainDoc
open Spec StrIn

mutual
/-- the strings of a tree in document order: member names and string values -/
def strsOf : Json → List (List UInt8)
  | .str s => [s]
  | .arr xs => strsOfL xs
  | .obj ms => strsOfM ms
  | _ => []
def strsOfL : List Json → List (List UInt8)
  | [] => []
  | x :: xs => strsOf x ++ strsOfL xs
def strsOfM : List (List UInt8 × Json) → List (List UInt8)
  | [] => []
  | (k, x) :: ms => k :: (strsOf x ++ strsOfM ms)
end

/-- where a chain ends: the end of its last literal, or its lower bound -/
def endOf (lb : Nat) : List (List UInt8 × Nat) → Nat
  | [] => lb
  | d :: ds => endOf d.2 ds

theorem endOf_cons (lb : Nat) (d : List UInt8 × Nat) (ds : List (List UInt8 × Nat)) : endOf lb (d :: ds) = endOf d.2 ds := rfl

theorem chain_weaken (l : Bool) (t : Buf) (lb lb' : Nat) (is : List Nat) (ds : List (List UInt8 × Nat)) (h : Chain l t lb is ds)
    (hle : lb' ≤ lb) : Chain l t lb' is ds := by
  cases h with
  | nil => exact Chain.nil lb'
  | cons _ i bs e rest ds' h1 h2 h3 h4 => exact Chain.cons lb' i bs e rest ds' (by omega) h2 h3 h4

theorem chain_end_ge (l : Bool) (t : Buf) : ∀ (is : List Nat) (ds : List (List UInt8 × Nat)) (lb : Nat), Chain l t lb is ds → lb ≤ endOf lb ds := by
  intro is
  induction is with
  | nil => intro ds lb h; cases h; exact Nat.le_refl _
  | cons i rest ih =>
    intro ds lb h
    cases h with
    | cons _ _ bs e _ ds' h1 h2 h3 h4 =>
      rw [endOf_cons]
      have h5 : e ≤ endOf e ds' := ih ds' e h4
      have hp : i < e := (stringS_progress l (pad t) i (bs, e) h3).1
      show lb ≤ endOf e ds'
      omega

theorem chain_append (l : Bool) (t : Buf) : ∀ (is : List Nat) (ds : List (List UInt8 × Nat)) (lb : Nat) (js : List Nat)
    (es : List (List UInt8 × Nat)), Chain l t lb is ds → Chain l t (endOf lb ds) js es →
    Chain l t lb (is ++ js) (ds ++ es) ∧ endOf lb (ds ++ es) = endOf (endOf lb ds) es := by
  intro is
  induction is with
  | nil =>
    intro ds lb js es h1 h2
    cases h1
    exact ⟨h2, rfl⟩
  | cons i rest ih =>
    intro ds lb js es h1 h2
    cases h1 with
    | cons _ _ bs e _ ds' g1 g2 g3 g4 =>
      rw [endOf_cons] at h2
      obtain ⟨c, he⟩ := ih ds' e js es g4 h2
      refine ⟨Chain.cons lb i bs e (rest ++ js) (ds' ++ es) g1 g2 g3 c, ?_⟩
      show endOf lb ((bs, e) :: (ds' ++ es)) = endOf (endOf lb ((bs, e) :: ds')) es
      rw [endOf_cons, endOf_cons, he]

theorem chain_length (l : Bool) (t : Buf) : ∀ (is : List Nat) (ds : List (List UInt8 × Nat)) (lb : Nat), Chain l t lb is ds →
    is.length = ds.length := by
  intro is
  induction is with
  | nil => intro ds lb h; cases h; rfl
  | cons i rest ih =>
    intro ds lb h
    cases h with
    | cons _ _ bs e _ ds' h1 h2 h3 h4 => simp [ih ds' e h4]

theorem endOf_mono (lb lb' : Nat) (ds : List (List UInt8 × Nat)) (h : lb' ≤ lb) : endOf lb' ds ≤ endOf lb ds := by
  cases ds with
  | nil => exact h
  | cons d ds => exact Nat.le_refl _

/-- one literal as a chain -/
theorem chain_one (l : Bool) (t : Buf) (lb i : Nat) (s : List UInt8) (e : Nat) (hlb : lb ≤ i) (h : stringS l t i = some (s, e)) :
    Chain l t lb [i] [(s, e)] := by
  have hpad : pad t = t ++ padTail := rfl
  have hi := (stringS_progress l t i (s, e) h).2
  refine Chain.cons lb i s e [] [] hlb (by omega) ?_ (Chain.nil e)
  rw [hpad]
  exact StrPad.stringS_extend l t padTail _ i (s, e) rfl h

/-- **the string literals of a value, in document order, form a chain whose decodings are the strings of its tree** -/
theorem tree_chain (l : Bool) (t : Buf) : ∀ f,
    (∀ w j e, tree l f t w = some (j, e) →
      ∃ is ds, Chain l t w is ds ∧ ds.map (·.1) = strsOf j ∧ endOf w ds ≤ e) ∧
    (∀ w xs e, treeElems l f t w = some (xs, e) →
      ∃ is ds, Chain l t w is ds ∧ ds.map (·.1) = strsOfL xs ∧ endOf w ds ≤ e) ∧
    (∀ w ms e, treeMembers l f t w = some (ms, e) →
      ∃ is ds, Chain l t w is ds ∧ ds.map (·.1) = strsOfM ms ∧ endOf w ds ≤ e) := by
  intro f
  induction f with
  | zero => refine ⟨?_, ?_, ?_⟩ <;> (intro w j e h; simp [tree, treeElems, treeMembers] at h)
  | succ f ih =>
    obtain ⟨ih1, ih2, ih3⟩ := ih
    obtain ⟨tp1, tp2, tp3⟩ := GrammarPad.tree_progress l t f
    refine ⟨?_, ?_, ?_⟩
    · intro w j e h
      have hw := (GrammarPad.tree_progress l t (f + 1)).1 w j e h
      have none_case : ∀ j', strsOf j' = [] → ∃ is ds, Chain l t w is ds ∧ ds.map (·.1) = strsOf j' ∧ endOf w ds ≤ e :=
        fun j' hj => ⟨[], [], Chain.nil w, by rw [hj]; rfl, by show w ≤ e; omega⟩
      unfold tree at h
      cases hb : t[w]? with
      | none => rw [hb] at h; simp at h
      | some c =>
        rw [hb] at h
        simp only at h
        by_cases h1 : (c == 45 || isDigit c) = true
        · simp only [h1, if_true] at h
          obtain ⟨e', _, hr⟩ := Option.map_eq_some_iff.mp h
          simp only [Prod.mk.injEq] at hr
          rw [← hr.1]; exact none_case _ rfl
        · simp only [h1, Bool.false_eq_true, if_false] at h
          by_cases h2 : (c == 34) = true
          · simp only [h2, if_true] at h
            obtain ⟨p, hp, hr⟩ := Option.map_eq_some_iff.mp h
            obtain ⟨s, e1⟩ := p
            simp only [Prod.mk.injEq] at hr
            obtain ⟨hr1, hr2⟩ := hr
            subst hr1; subst hr2
            exact ⟨[w + 1], [(s, e1)], chain_one l t w (w + 1) s e1 (by omega) hp, rfl, Nat.le_refl _⟩
          · simp only [h2, Bool.false_eq_true, if_false] at h
            by_cases h3 : (c == 123) = true
            · simp only [h3, if_true] at h
              have g := skipWs_ge t (w + 1)
              by_cases hcl : t[skipWs t (w + 1)]? = some 125
              · simp only [hcl, if_true, Option.some.injEq, Prod.mk.injEq] at h
                rw [← h.1]; exact none_case _ rfl
              · simp only [hcl, if_false] at h
                obtain ⟨p, hp, hr⟩ := Option.map_eq_some_iff.mp h
                obtain ⟨ms, e1⟩ := p
                simp only [Prod.mk.injEq] at hr
                obtain ⟨hr1, hr2⟩ := hr
                subst hr1; subst hr2
                obtain ⟨is, ds, hc, hs, he⟩ := ih3 _ ms e1 hp
                refine ⟨is, ds, chain_weaken l t _ w is ds hc (by omega), hs, ?_⟩
                exact Nat.le_trans (endOf_mono _ w ds (by omega)) he
            · simp only [h3, Bool.false_eq_true, if_false] at h
              by_cases h4 : (c == 91) = true
              · simp only [h4, if_true] at h
                have g := skipWs_ge t (w + 1)
                by_cases hcl : t[skipWs t (w + 1)]? = some 93
                · simp only [hcl, if_true, Option.some.injEq, Prod.mk.injEq] at h
                  rw [← h.1]; exact none_case _ rfl
                · simp only [hcl, if_false] at h
                  obtain ⟨p, hp, hr⟩ := Option.map_eq_some_iff.mp h
                  obtain ⟨xs, e1⟩ := p
                  simp only [Prod.mk.injEq] at hr
                  obtain ⟨hr1, hr2⟩ := hr
                  subst hr1; subst hr2
                  obtain ⟨is, ds, hc, hs, he⟩ := ih2 _ xs e1 hp
                  refine ⟨is, ds, chain_weaken l t _ w is ds hc (by omega), hs, ?_⟩
                  exact Nat.le_trans (endOf_mono _ w ds (by omega)) he
              · simp only [h4, Bool.false_eq_true, if_false] at h
                have lp : ∀ bs (v : Json), strsOf v = [] → (lit t (w + 1) bs).map (fun e => (v, e)) = some (j, e) →
                    ∃ is ds, Chain l t w is ds ∧ ds.map (·.1) = strsOf j ∧ endOf w ds ≤ e := by
                  intro bs v hv hm
                  obtain ⟨e', _, hr⟩ := Option.map_eq_some_iff.mp hm
                  simp only [Prod.mk.injEq] at hr
                  rw [← hr.1]; exact none_case _ hv
                by_cases h5 : (c == 116) = true
                · simp only [h5, if_true] at h; exact lp _ _ rfl h
                · simp only [h5, Bool.false_eq_true, if_false] at h
                  by_cases h6 : (c == 102) = true
                  · simp only [h6, if_true] at h; exact lp _ _ rfl h
                  · simp only [h6, Bool.false_eq_true, if_false] at h
                    by_cases h7 : (c == 110) = true
                    · simp only [h7, if_true] at h; exact lp _ _ rfl h
                    · simp [h7] at h
    · intro w xs e h
      unfold treeElems at h
      cases ht : tree l f t w with
      | none => rw [ht] at h; simp at h
      | some p =>
        obtain ⟨x, e1⟩ := p
        rw [ht] at h
        simp only at h
        obtain ⟨is1, ds1, hc1, hs1, he1⟩ := ih1 w x e1 ht
        have g2 := skipWs_ge t e1
        by_cases hcl : t[skipWs t e1]? = some 93
        · simp only [hcl, if_true, Option.some.injEq, Prod.mk.injEq] at h
          obtain ⟨hx, hee⟩ := h
          subst hx
          exact ⟨is1, ds1, hc1, by rw [hs1]; simp [strsOfL], by omega⟩
        · simp only [hcl, if_false] at h
          by_cases hco : t[skipWs t e1]? = some 44
          · simp only [hco, if_true] at h
            obtain ⟨q, hq, hr⟩ := Option.map_eq_some_iff.mp h
            obtain ⟨xs', e2⟩ := q
            simp only [Prod.mk.injEq] at hr
            obtain ⟨hr1, hr2⟩ := hr
            subst hr1; subst hr2
            obtain ⟨is2, ds2, hc2, hs2, he2⟩ := ih2 _ xs' e2 hq
            have g3 := skipWs_ge t (skipWs t e1 + 1)
            have hlb : endOf w ds1 ≤ skipWs t (skipWs t e1 + 1) := by omega
            obtain ⟨hc, hend⟩ := chain_append l t is1 ds1 w is2 ds2 hc1 (chain_weaken l t _ _ is2 ds2 hc2 hlb)
            refine ⟨is1 ++ is2, ds1 ++ ds2, hc, by rw [List.map_append, hs1, hs2]; rfl, ?_⟩
            rw [hend]
            exact Nat.le_trans (endOf_mono _ _ ds2 hlb) he2
          · simp [hco] at h
    · intro w ms e h
      unfold treeMembers at h
      by_cases hq : t[w]? = some 34
      · simp only [hq, if_true] at h
        cases hs : stringS l t (w + 1) with
        | none => rw [hs] at h; simp at h
        | some p =>
          obtain ⟨k, e1⟩ := p
          rw [hs] at h
          simp only at h
          by_cases hcol : t[skipWs t e1]? = some 58
          · simp only [hcol, if_true] at h
            cases ht : tree l f t (skipWs t (skipWs t e1 + 1)) with
            | none => rw [ht] at h; simp at h
            | some q =>
              obtain ⟨x, e2⟩ := q
              rw [ht] at h
              simp only at h
              have hk := chain_one l t w (w + 1) k e1 (by omega) hs
              obtain ⟨is1, ds1, hc1, hs1, he1⟩ := ih1 _ x e2 ht
              have g1 := skipWs_ge t e1
              have g2 := skipWs_ge t (skipWs t e1 + 1)
              have g3 := skipWs_ge t e2
              have hlb1 : endOf w [(k, e1)] ≤ skipWs t (skipWs t e1 + 1) := by show e1 ≤ _; omega
              obtain ⟨hcA, hendA⟩ := chain_append l t [w + 1] [(k, e1)] w is1 ds1 hk (chain_weaken l t _ _ is1 ds1 hc1 hlb1)
              have hendA' : endOf w ([(k, e1)] ++ ds1) ≤ e2 := by
                rw [hendA]; exact Nat.le_trans (endOf_mono _ _ ds1 hlb1) he1
              by_cases hcl : t[skipWs t e2]? = some 125
              · simp only [hcl, if_true, Option.some.injEq, Prod.mk.injEq] at h
                obtain ⟨hx, hee⟩ := h
                subst hx
                exact ⟨[w + 1] ++ is1, [(k, e1)] ++ ds1, hcA, by simp [strsOfM, hs1], by omega⟩
              · simp only [hcl, if_false] at h
                by_cases hco : t[skipWs t e2]? = some 44
                · simp only [hco, if_true] at h
                  obtain ⟨r, hr0, hr⟩ := Option.map_eq_some_iff.mp h
                  obtain ⟨ms', e3⟩ := r
                  simp only [Prod.mk.injEq] at hr
                  obtain ⟨hr1, hr2⟩ := hr
                  subst hr1; subst hr2
                  obtain ⟨is2, ds2, hc2, hs2, he2⟩ := ih3 _ ms' e3 hr0
                  have g4 := skipWs_ge t (skipWs t e2 + 1)
                  have hlb2 : endOf w ([(k, e1)] ++ ds1) ≤ skipWs t (skipWs t e2 + 1) := by omega
                  obtain ⟨hcB, hendB⟩ := chain_append l t ([w + 1] ++ is1) ([(k, e1)] ++ ds1) w is2 ds2 hcA
                    (chain_weaken l t _ _ is2 ds2 hc2 hlb2)
                  refine ⟨[w + 1] ++ is1 ++ is2, [(k, e1)] ++ ds1 ++ ds2, hcB, ?_, ?_⟩
                  · simp [strsOfM, hs1, hs2]
                  · rw [hendB]; exact Nat.le_trans (endOf_mono _ _ ds2 hlb2) he2
                · simp [hco] at h
          · simp [hcol] at h
      · simp [hq] at h

end ChainDoc
end Sonic
